"""C18 -- IR program build is idempotent and safe under parallel building.

Spec: specs/IRBuild.tla (builders, memo tables, task graph, sync.Once layer), closed with a
program by specs/MCIRBuild.tla (which enumerates reference relations in the initial state).

  1. TLC, exhaustive: all interleavings of 2 package builders + 1 on-demand (MethodValue)
     builder over all programs of the configured family over 2 (thorough: also 3) shared
     functions, incl. "building f references g", self- and mutual reference (cyclic waits):
     CreatedOnce, BuiltAtReturn, NoEdgeAfterDone, Idempotent (sync.Once layer, Build again /
     concurrently), deadlock-freedom, termination under weak fairness.
  2. T (trace validation): go/ir built with -tags verif logs every critical section of the
     hand-off; real parallel builds of generated multi-package programs (same generic
     instance from several packages, promoted-method wrappers of embedded interfaces and
     structs, method values / method expressions, on-demand methods of indirect dependencies)
     and of a std subset, under seeded yields and with concurrent Program.MethodValue
     callers, are validated record by record against IRBuild's actions by specs/IRBuildTrace.tla;
     the property invariants are evaluated on the state the log drives the spec into.
  3. R (forced schedules): complete behaviours that TLC emits for 2 builders x 1-2 shared
     functions are forced onto the real builder through the blocking gate of the hooks, one
     builder running at a time; the real events must be the predicted ones and the outside
     observation (function built when its waiter returns) must hold after every step.
  4. Property-level oracle, taken from outside the hooked code: normalised WriteFunction
     dumps of every function equal across {BuildSerially, parallel, per-package goroutines,
     repeated Build, Build from 4 goroutines} x seeds; every shared function reachable from a
     package is built when Package.Build / Program.Build / MethodValue returns; every function
     with syntax has Blocks; a -race build of the harness reports no race.
"""
import json
import os
import re
import shutil

import vlib
from vlib import Inconclusive

MODPATH = "ex.test/m"

# ---------------------------------------------------------------------------------------------
# program generator
# ---------------------------------------------------------------------------------------------

DEEP = """package deep

// deep is only imported by mid: for the users it is an indirect dependency, so with
// -create direct its methods are created on demand (Program.objectMethods).

type Thing struct{ N int }

func (t Thing) Value() int { return t.N }
func (t *Thing) Inc()      { t.N++ }
func (t Thing) Twice() int { return t.Value() + t.Value() }

type Gen[T any] struct{ V T }

func (g Gen[T]) Get() T   { return g.V }
func (g *Gen[T]) Set(v T) { g.V = v }
func (g Gen[T]) Pair() (T, T) {
	return g.Get(), g.Get()
}

type Namer interface{ Name() string }

type Cat struct{}

func (Cat) Name() string { return "cat" }
"""

LIB = """package lib

type Number interface {
	~int | ~int64 | ~float64
}

func Id[T any](x T) T { return x }

func Map[T any](xs []T, f func(T) T) []T {
	out := make([]T, 0, len(xs))
	for _, x := range xs {
		out = append(out, f(x))
	}
	return out
}

// building Twice[T] looks up Id[T]
func Twice[T any](x T) (T, T) { return Id(x), Id[T](x) }

// building Wrap3[T] looks up Twice[[]T] and Id[[]T]
func Wrap3[T any](x T) [][]T {
	a, b := Twice([]T{x})
	return [][]T{a, b, Id(a)}
}

// mutual reference: Even[T] <-> Odd[T]
func Even[T Number](n T) bool {
	if n == 0 {
		return true
	}
	return Odd(n - 1)
}

func Odd[T Number](n T) bool {
	if n == 0 {
		return false
	}
	return Even(n - 1)
}

// self reference
func Fact[T Number](n T) T {
	if n <= 1 {
		return 1
	}
	return n * Fact(n-1)
}

func Sum[T Number](xs ...T) T {
	var s T
	for _, x := range xs {
		s += x
	}
	return s
}

type Box[T any] struct{ V T }

func (b Box[T]) Get() T   { return Id(b.V) }
func (b *Box[T]) Set(v T) { b.V = v }
func (b Box[T]) Apply(f func(T) T) Box[T] {
	return Box[T]{f(b.Get())}
}
func (b Box[T]) Both() (T, T) { return Twice(b.V) }

type Shape interface {
	Area() int
	Name() string
}

type Base struct{ ID int }

func (b Base) Hello() int { return b.ID }
func (b *Base) Bump()     { b.ID++ }

type Sq struct{ S int }

func (s Sq) Area() int    { return s.S * s.S }
func (s Sq) Name() string { return "sq" }

type Rect struct{ W, H int }

func (r *Rect) Area() int    { return r.W * r.H }
func (r *Rect) Name() string { return "rect" }
"""

MID = """package mid

import (
	"ex.test/m/deep"
	"ex.test/m/lib"
)

// promoted methods: from an embedded interface, an embedded struct, an embedded pointer
type Wrap struct {
	lib.Shape
	lib.Base
}

type PWrap struct {
	*lib.Base
	deep.Thing
}

type GWrap struct {
	lib.Box[int]
	deep.Namer
}

type Deep2 struct{ Wrap }

func NewThing(n int) deep.Thing      { return deep.Thing{N: n} }
func NewThingP(n int) *deep.Thing    { return &deep.Thing{N: n} }
func NewGen(n int) deep.Gen[int]     { return deep.Gen[int]{V: n} }
func NewGenS(s string) deep.Gen[string] { return deep.Gen[string]{V: s} }
func NewCat() deep.Cat               { return deep.Cat{} }
func NewWrap(s lib.Shape) Wrap       { return Wrap{Shape: s, Base: lib.Base{ID: 1}} }
func NewPWrap() PWrap                { return PWrap{Base: &lib.Base{ID: 2}} }
func NewGWrap() GWrap                { return GWrap{Namer: deep.Cat{}} }

func UseBox() int {
	b := lib.Box[int]{V: 3}
	return b.Get() + lib.Id(4)
}
"""

ANY_T = ["int", "string", "float64", "[]int", "lib.Base", "*lib.Sq", "map[string]int", "lib.Box[int]"]
NUM_T = ["int", "int64", "float64"]

# statement blocks of a user package; {T} any type, {N} numeric type, {i} unique suffix
BLOCKS_ANY = [
    "\tvar z{i} {T}\n\tsink(lib.Id(z{i}))\n",
    "\tvar z{i} {T}\n\tsink(lib.Map([]{T}{{z{i}}}, lib.Id[{T}]))\n",
    "\tvar z{i} {T}\n\ta{i}, b{i} := lib.Twice(z{i})\n\tsink(a{i}, b{i})\n",
    "\tvar z{i} {T}\n\tsink(lib.Wrap3(z{i}))\n",
    "\tvar z{i} {T}\n\tbx{i} := lib.Box[{T}]{{V: z{i}}}\n\tbx{i}.Set(z{i})\n\tsink(bx{i}.Get())\n",
    "\tvar z{i} {T}\n\tbx{i} := lib.Box[{T}]{{V: z{i}}}\n\tg{i} := bx{i}.Get\n\tsink(g{i}())\n",
    "\tvar z{i} {T}\n\tbx{i} := &lib.Box[{T}]{{V: z{i}}}\n\ts{i} := bx{i}.Set\n\ts{i}(z{i})\n\tsink(bx{i}.Both())\n",
    "\tsink(lib.Box[{T}].Get, (*lib.Box[{T}]).Set)\n",
    "\tvar z{i} {T}\n\tsink(lib.Box[{T}]{{V: z{i}}}.Apply(lib.Id[{T}]))\n",
    "\tvar z{i} {T}\n\tf{i} := func(x {T}) {T} {{ return lib.Id(x) }}\n\tsink(f{i}(z{i}))\n",
]
BLOCKS_NUM = [
    "\tsink(lib.Even({N}(4)), lib.Odd({N}(3)))\n",
    "\tsink(lib.Odd({N}(5)))\n",
    "\tsink(lib.Fact({N}(5)))\n",
    "\tsink(lib.Sum[{N}](1, 2, 3))\n",
]
BLOCKS_FIXED = [
    # method values (bound closures), through an embedded interface and an embedded struct
    "\tw{i} := mid.NewWrap(lib.Sq{{S: 2}})\n\tar{i} := w{i}.Area\n\thl{i} := w{i}.Hello\n\tsink(ar{i}(), hl{i}())\n",
    "\tw{i} := mid.NewWrap(&lib.Rect{{W: 1, H: 2}})\n\tvar s{i} lib.Shape = w{i}\n\tsink(s{i}.Area(), s{i}.Name())\n",
    # method expressions (thunks) on promoted methods
    "\tsink(mid.Wrap.Area, mid.Wrap.Hello, (*mid.Wrap).Bump, mid.Deep2.Name)\n",
    "\tpw{i} := mid.NewPWrap()\n\tbm{i} := pw{i}.Bump\n\tbm{i}()\n\tsink(pw{i}.Hello(), pw{i}.Value(), pw{i}.Twice())\n",
    "\tpw{i} := mid.NewPWrap()\n\tvar a{i} any = pw{i}\n\tvar b{i} any = &pw{i}\n\tsink(a{i}, b{i})\n",
    "\tgw{i} := mid.NewGWrap()\n\tsink(gw{i}.Get(), gw{i}.Name(), gw{i}.Both)\n",
    "\td{i} := mid.Deep2{{Wrap: mid.NewWrap(lib.Sq{{S: 1}})}}\n\tvar s{i} lib.Shape = d{i}\n\tsink(s{i}, d{i}.Hello, d{i}.Area())\n",
    # methods of an indirect dependency (on-demand objectMethods with -create direct)
    "\tt{i} := mid.NewThing(1)\n\tsink(t{i}.Value(), t{i}.Twice())\n",
    "\tt{i} := mid.NewThingP(1)\n\tt{i}.Inc()\n\tv{i} := t{i}.Value\n\tsink(v{i}())\n",
    "\tg{i} := mid.NewGen(1)\n\tg{i}.Set(2)\n\tsink(g{i}.Get())\n",
    "\tg{i} := mid.NewGen(1)\n\tp{i} := g{i}.Pair\n\tsink(p{i}())\n",
    "\tg{i} := mid.NewGenS(\"x\")\n\tsink(g{i}.Get(), g{i}.Pair)\n",
    "\tc{i} := mid.NewCat()\n\tsink(c{i}.Name(), c{i}.Name)\n",
    "\tsink(mid.UseBox())\n",
]


def gen_program(rng, nusers=None):
    """A module ex.test/m: deep <- mid -> lib, users u1..uk importing lib and mid.  Every user
    package draws blocks from the same pools, so the same instances / wrappers / on-demand
    methods are needed by several packages (and by lib / mid themselves)."""
    files = {"go.mod": "module %s\n\ngo 1.22\n" % MODPATH, "deep/deep.go": DEEP, "lib/lib.go": LIB, "mid/mid.go": MID}
    k = nusers or rng.randint(3, 5)
    # a small set of type arguments shared by all users, so that instances collide
    anyT = rng.sample(ANY_T, 3)
    numT = rng.sample(NUM_T, 2)
    for u in range(1, k + 1):
        nfun = rng.randint(1, 3)
        body = []
        i = 0
        for fno in range(nfun):
            stm = []
            for _ in range(rng.randint(3, 7)):
                i += 1
                r = rng.random()
                if r < 0.45:
                    b = rng.choice(BLOCKS_ANY).format(T=rng.choice(anyT), i=i)
                elif r < 0.6:
                    b = rng.choice(BLOCKS_NUM).format(N=rng.choice(numT), i=i)
                else:
                    b = rng.choice(BLOCKS_FIXED).format(i=i)
                stm.append(b)
            body.append("func F%d() {\n%s}\n" % (fno, "".join(stm)))
        src = ("package u%d\n\nimport (\n\t\"%s/lib\"\n\t\"%s/mid\"\n)\n\nvar _ = mid.UseBox\nvar _ = lib.Id[int]\n\n"
               "func sink(...any) {}\n\n%s") % (u, MODPATH, MODPATH, "\n".join(body))
        files["u%d/u.go" % u] = src
    return files


def write_module(d, files):
    for name, text in files.items():
        p = os.path.join(d, name)
        os.makedirs(os.path.dirname(p), exist_ok=True)
        with open(p, "w") as f:
            f.write(text)


# ---------------------------------------------------------------------------------------------
# log normalisation (raw hook records -> records of IRBuildTrace)
# ---------------------------------------------------------------------------------------------

KEEP = {"pkgbuild_begin": "start", "mv_begin": "start", "create": "create", "hit": "hit", "buildfn": "begin",
        "fndone": "finish", "markdone": "markdone", "waitskip": "waitskip", "waitvisit": "waitvisit",
        "waitreturn": "waitreturn", "pkgbuild_end": "end", "mv_end": "end"}


def normalise_log(lines, skip_prefix="collect"):
    """Returns (records, index) where records are the uniform records for TLC (without the meta
    record) and index[i] = (segment name, raw record) for records[i]."""
    out, index = [], []
    seg = {"name": "", "skip": False}
    bmap, fmap, pend = {}, {}, {}
    maxb = maxf = 1

    rawkey = {}

    def bid(raw):
        if raw == 0:
            return 0
        key = rawkey.get(raw, "raw:%d" % raw)
        if key not in bmap:
            bmap[key] = len(bmap) + 1
        return bmap[key]

    for line in lines:
        line = line.strip()
        if not line:
            continue
        r = json.loads(line)
        ev = r["ev"]
        if ev == "reset":
            name = r.get("name", "")
            if name.startswith(skip_prefix):
                # the harness enumerates all functions (MethodValue calls): not part of the scenario
                seg = {"name": name, "skip": True}
            elif name.startswith("again "):
                # second Build of the same program: continues the state of the program's segment
                # (the tracer's raw numbering restarts; package builders are keyed by label)
                seg = {"name": name, "skip": False}
                rawkey.clear()
                pend.clear()
            else:
                seg = {"name": name, "skip": False}
                bmap, fmap, pend = {}, {}, {}
                rawkey.clear()
                out.append({"ev": "reset", "b": 0, "f": 0, "e": 0, "y": 0, "p": 0, "nb": 0, "body": 0, "edges": []})
                index.append((seg["name"], r))
            continue
        if seg["skip"]:
            continue
        if r.get("b"):
            rawkey.setdefault(r["b"], r["bl"] if r.get("bl", "").startswith("pkg:") else "raw:%d" % r["b"])
        if ev == "addedge":
            pend[r["b"]] = r["y"]
            continue
        if ev not in KEEP:
            continue
        if ev in ("hit", "buildfn", "fndone") and r["sh"] != 1:
            if ev == "hit":
                pend.pop(r["b"], None)
            continue
        n = {"ev": KEEP[ev], "b": bid(r["b"]), "f": 0, "e": 0, "y": 0, "p": r.get("p", 0), "nb": r.get("nb", 0),
             "body": r.get("body", 0), "edges": []}
        if ev in ("create", "hit", "buildfn", "fndone"):
            k = r["fn"]
            if k not in fmap:
                fmap[k] = len(fmap) + 1
            n["f"] = fmap[k]
        if ev == "hit":
            y = pend.pop(r["b"], 0)
            n["e"] = bid(y)
        if ev in ("waitskip", "waitvisit"):
            n["y"] = bid(r["y"])
        if ev in ("markdone", "waitvisit"):
            n["edges"] = sorted(bid(y) for y in r["edges"])
        maxb = max(maxb, len(bmap))
        maxf = max(maxf, len(fmap))
        out.append(n)
        index.append((seg["name"], r))
    return out, index, maxb, maxf


def chunk_segments(records, index, max_events):
    """Split at reset records into chunks of at most ~max_events records."""
    chunks, cur, curidx = [], [], []
    start = 0
    bounds = [i for i, r in enumerate(records) if r["ev"] == "reset"] + [len(records)]
    for a, b in zip(bounds, bounds[1:]):
        if cur and len(cur) + (b - a) > max_events:
            chunks.append((cur, curidx))
            cur, curidx = [], []
        cur += records[a:b]
        curidx += index[a:b]
    if cur:
        chunks.append((cur, curidx))
    return chunks


RESULT_RE = re.compile(r'<<"TRACE-RESULT", (\d+), (\d+), "([^"]*)", (\d+), (\d+)>>')


def validate_chunk(ctx, recs, idx, tag):
    """Run IRBuildTrace on one chunk.  Returns dict(status=accepted|violation|stuck, ...)."""
    nb = max([1] + [max([r["b"], r["e"], r["y"]] + r["edges"]) for r in recs])
    nf = max([1] + [r["f"] for r in recs])
    meta = {"ev": "meta", "b": nb, "f": nf, "e": 0, "y": 0, "p": 0, "nb": 0, "body": 0, "edges": []}
    text = "\n".join(json.dumps(r) for r in [meta] + recs) + "\n"
    r = vlib.run_tlc(ctx, "IRBuildTrace", "IRBuildTrace.cfg", workers=1, timeout=3000,
                     extra_files={"irbuild_trace.ndjson": text}, keep_cases=False)
    m = RESULT_RE.search(r.out)
    if not m:
        raise Inconclusive("IRBuildTrace produced no result line (%s):\n%s" % (tag, r.out[-3000:]))
    hw, n, viol, vl, drift = int(m.group(1)), int(m.group(2)), m.group(3), int(m.group(4)), int(m.group(5))
    drifts = re.findall(r'<<"DRIFT", (\d+), "([^"]*)">>', r.out)
    res = {"states": r.distinct, "generated": r.generated, "events": len(recs), "drift": drift, "wall": r.wall,
           "drifts": [(int(a), b) for a, b in drifts][:20], "nb": nb, "nf": nf}
    if viol:
        # record number vl (1-based in the file, the meta record is 1) -> recs[vl - 2]
        res.update(status="violation", viol=viol, at=vl - 2)
    elif hw == n + 1:
        res.update(status="accepted")
    else:
        res.update(status="stuck", at=hw - 2)
    return res


# ---------------------------------------------------------------------------------------------
# harness runs
# ---------------------------------------------------------------------------------------------

IDENT_RE = re.compile(r"[A-Za-z_][A-Za-z_0-9]*|[^A-Za-z_]+")


def only_param_names_differ(m):
    """True iff the two dumps of a generic instance differ only in the names of its parameters
    (position by position).  That is the documented order-dependence of go/ir's type
    canonicaliser (util.go: "the canonical instance is order-dependent"): the Signature of an
    instance is canonicalised, so it carries the parameter names of whichever identical
    signature was canonicalised first."""
    if not m.get("instance") or len(m["pa"]) != len(m["pb"]) or not m["a"] or not m["b"]:
        return False
    if m.get("count") != 1001:
        return False
    ta, tb = IDENT_RE.findall(m["a"]), IDENT_RE.findall(m["b"])
    if len(ta) != len(tb):
        return False
    pairs = set(zip(m["pa"], m["pb"]))
    for x, y in zip(ta, tb):
        if x != y and (x, y) not in pairs:
            return False
    return True


def run_harness(ctx, binary, moddir, outdir, tag, seed, create, modes, scenarios, runs, initial, ondemand, mvmax,
                trace=True, yields="150,200,2000", patterns="./...", timeout=7200):
    out = os.path.join(outdir, "res-%s.json" % tag)
    tr = os.path.join(outdir, "trace-%s.ndjson" % tag)
    cmd = [binary, "-dir", moddir, "-patterns", patterns, "-create", create, "-modes", modes, "-scenarios", scenarios,
           "-runs", str(runs), "-seed", str(seed), "-ondemand", str(ondemand), "-mvmax", str(mvmax), "-out", out,
           "-yield", yields, "-watchdog", "900"]
    if initial:
        cmd += ["-initial", initial]
    if trace:
        cmd += ["-trace", tr]
    env = vlib.go_env({"GORACE": "halt_on_error=0 exitcode=66"})
    try:
        rc, so, se = vlib.sh(cmd, cwd=moddir, env=env, timeout=timeout)
    except Exception as e:  # subprocess.TimeoutExpired
        raise Inconclusive("h-irbuild did not finish (%s): %s" % (tag, e))
    return {"rc": rc, "stderr": se, "out": out, "trace": tr if trace else None, "cmd": cmd[1:], "tag": tag}


def judge_harness(ctx, hr, prog, what):
    """Turn the outside observations of one harness process into verdicts.  Returns the parsed
    result document or None."""
    se = hr["stderr"]
    base_case = {"kind": "harness", "program": prog, "args": hr["cmd"], "what": what}
    if "WARNING: DATA RACE" in se:
        i = se.index("WARNING: DATA RACE")
        frames = re.findall(r"^  ([\w./()*\[\]]+)\(\)$", se[i:i + 6000], re.M)[:6]
        ctx.violation(vlib.canon_key({"race": frames[:3]}), "data race during build (%s): %s" % (what, " <- ".join(frames[:4])),
                      dict(base_case, kind="race", report=se[i:i + 5000]))
    if hr["rc"] == 3:
        raise Inconclusive("h-irbuild could not load the program (%s): %s" % (hr["tag"], se[-2000:]))
    if hr["rc"] == 4 or "all goroutines are asleep" in se:
        stuck_in_wait = "(*task).wait" in se or "sync.(*Once)" in se
        if stuck_in_wait:
            ctx.violation(vlib.canon_key({"deadlock": "task.wait"}), "build does not return (%s): builders blocked in task.wait" % what,
                          dict(base_case, kind="deadlock", report=se[-6000:]))
            return None
        raise Inconclusive("h-irbuild hung outside the builder (%s): %s" % (hr["tag"], se[-3000:]))
    if hr["rc"] not in (0, 66) or not os.path.exists(hr["out"]):
        if "panic:" in se or "fatal error:" in se:
            i = se.index("panic:") if "panic:" in se else se.index("fatal error:")
            first = se[i:].splitlines()[0][:200]
            ctx.violation(vlib.canon_key({"panic": re.sub(r"0x[0-9a-f]+", "", first)}), "build crashed (%s): %s" % (what, first),
                          dict(base_case, kind="panic", report=se[i:i + 6000]))
            return None
        raise Inconclusive("h-irbuild failed rc=%s (%s): %s" % (hr["rc"], hr["tag"], se[-3000:]))
    doc = json.load(open(hr["out"]))
    for r in doc["runs"]:
        for v in r["violations"]:
            ctx.violation(vlib.canon_key({"oracle": v["kind"], "scenario": r["scenario"], "fnkind": re.sub(r"\[.*", "", v["fn"])}),
                          "%s in %s: %s" % (v["kind"], r["label"], v["what"]),
                          dict(base_case, kind="oracle", oracle=v["kind"], run=r["label"], seed=r["seed"], detail=v))
    for m in doc.get("mismatches") or []:
        if only_param_names_differ(m):
            ctx.violation(vlib.canon_key({"irdiff": "instance-signature-param-names"}),
                          "IR of generic instance %s differs between builds in its parameter names (%s vs %s): %s vs %s"
                          % (m["fn"], m["base"], m["other"], m["pa"], m["pb"]),
                          dict(base_case, kind="irdiff", cls="instance-signature-param-names", fn=m["fn"],
                               builds=[m["base"], m["other"]], a=m["a"], b=m["b"]))
        else:
            ctx.violation(vlib.canon_key({"irdiff": "other", "fn": m["fn"]}),
                          "IR of %s differs between %s and %s" % (m["fn"], m["base"], m["other"]),
                          dict(base_case, kind="irdiff", cls="other", fn=m["fn"], builds=[m["base"], m["other"]], a=m["a"], b=m["b"]))
    return doc


def validate_traces(ctx, trace_files, prog_of, max_events, with_negative=False):
    """Normalise + validate.  Returns stats."""
    jobs = []
    for tf in trace_files:
        with open(tf) as f:
            recs, idx, nb, nf = normalise_log(f)
        for recs_c, idx_c in chunk_segments(recs, idx, max_events):
            jobs.append((tf, recs_c, idx_c))
    neg, neg_error = [], None
    if with_negative:
        try:
            neg = negative_tests(ctx, jobs)
        except Inconclusive as e:   # reported at the end, after the verdicts on the real traces
            neg_error = str(e)
    allres = vlib.pmap(lambda j: validate_chunk(ctx, j[1], j[2], j[0]),
                       [(os.path.basename(j[0]), j[1], j[2]) for j in jobs] +
                       [("neg:" + t[0], t[1], [("neg", {})] * len(t[1])) for t in neg], workers=6)
    results = allres[:len(jobs)]
    negres = None
    if with_negative and neg_error is None:
        try:
            negres = judge_negative(neg, allres[len(jobs):])
        except Inconclusive as e:
            neg_error = str(e)
    st = {"files": len(trace_files), "chunks": len(jobs), "events": 0, "states": 0, "generated": 0, "segments": 0,
          "accepted_chunks": 0, "drift_steps": 0, "stuck": [], "violations": 0, "tlc_wall": 0.0, "samples": []}
    for (tf, recs_c, idx_c), res in zip(jobs, results):
        st["events"] += res["events"]
        st["states"] += res["states"]
        st["generated"] += res["generated"]
        st["tlc_wall"] += res["wall"]
        st["drift_steps"] += res["drift"]
        st["segments"] += sum(1 for r in recs_c if r["ev"] == "reset")
        if not st["samples"]:
            st["samples"] = [idx_c[i][1] for i in range(0, min(len(idx_c), 400), 97)][:4]
        if res["status"] == "accepted":
            st["accepted_chunks"] += 1
            for at, what in res["drifts"]:
                j = at - 2
                ctx.note("drift (%s) in %s at record %d: %s" % (what, idx_c[j][0], j, json.dumps(idx_c[j][1])[:300]))
            continue
        at = res["at"]
        ctxt = [{"segment": idx_c[j][0], "norm": recs_c[j], "raw": idx_c[j][1]} for j in range(max(0, at - 8), min(len(recs_c), at + 2))]
        seg = idx_c[at][0] if 0 <= at < len(idx_c) else ""
        if res["status"] == "violation":
            st["violations"] += 1
            raw = idx_c[at][1]
            ctx.violation(vlib.canon_key({"trace": res["viol"], "fnkind": raw.get("k", ""), "ev": raw.get("ev", "")}),
                          "trace of a real build violates %s at %s (%s %s, builder %s)" % (res["viol"], seg, raw.get("ev"), raw.get("fn"), raw.get("bl")),
                          {"kind": "trace", "invariant": res["viol"], "segment": seg, "context": ctxt, "program": prog_of.get(tf),
                           "trace_file": os.path.basename(tf)})
        else:
            st["stuck"].append({"segment": seg, "record": at, "event": ctxt[-2:] if ctxt else []})
            ctx.note("drift: trace %s is not a behaviour of IRBuild at record %d (%s); no property-level predicate failed"
                     % (seg, at, json.dumps(idx_c[at][1])[:300] if 0 <= at < len(idx_c) else "?"))
    st["negative_selftest"] = negres
    st["negative_error"] = neg_error
    return st, jobs, results


def negative_tests(ctx, jobs):
    """Corrupted logs must not be accepted.  Returns [(name, records, predicate)]."""
    seg = None
    for (tf, recs_c, idx_c) in jobs:
        bounds = [i for i, r in enumerate(recs_c) if r["ev"] == "reset"] + [len(recs_c)]
        for a, b in zip(bounds, bounds[1:]):
            if any(r["ev"] == "hit" and r["e"] for r in recs_c[a:b]) and b - a < 3000:
                seg = recs_c[a:b]
                break
        if seg:
            break
    if seg is None:
        raise Inconclusive("negative self-test: no recorded program with an edge-adding hit available")
    base = json.loads(json.dumps(seg))
    tests = []
    # (a) one field: the edge of a hit is dropped -> drift "edge" (the spec demands the edge)
    t = json.loads(json.dumps(base))
    h = next(r for r in t if r["ev"] == "hit" and r["e"])
    h["e"] = 0
    tests.append(("hit.e := 0", t, lambda res: res["drift"] > 0 or res["status"] != "accepted"))
    # (b) a create record is duplicated -> CreatedOnce
    t = json.loads(json.dumps(base))
    i = next(i for i, r in enumerate(t) if r["ev"] == "create")
    t.insert(i + 1, dict(t[i]))
    tests.append(("duplicate create", t, lambda res: res["status"] == "violation" and res["viol"] == "CreatedOnce"))
    # (c) the function pointer of a hit differs from the created one -> CreatedOnce
    t = json.loads(json.dumps(base))
    h = next(r for r in t if r["ev"] == "hit")
    h["p"] += 1000
    tests.append(("hit.p corrupted", t, lambda res: res["status"] == "violation" and res["viol"] == "CreatedOnce"))
    # (d) the finish record of a function that somebody else waits for is moved to the end -> BuiltAtReturn or stuck
    t = json.loads(json.dumps(base))
    h = next(r for r in t if r["ev"] == "hit" and r["e"])
    fi = next((i for i, r in enumerate(t) if r["ev"] == "finish" and r["f"] == h["f"]), None)
    if fi is not None:
        t.append(t.pop(fi))
        tests.append(("finish moved after the waiters' return", t, lambda res: res["status"] != "accepted"))
    # (e) a builder label changes in a markdone record -> stuck
    t = json.loads(json.dumps(base))
    m = next(r for r in t if r["ev"] == "markdone")
    m["b"] = m["b"] % max(2, max(r["b"] for r in t)) + 1
    tests.append(("markdone.b corrupted", t, lambda res: res["status"] != "accepted"))
    tests.insert(0, ("uncorrupted", base, lambda res: res["status"] == "accepted" and res["drift"] == 0))
    if ctx.quick:
        tests = tests[:3]
    return tests


def judge_negative(tests, outcomes):
    got = []
    for (name, _, ok), res in zip(tests, outcomes):
        got.append({"corruption": name, "status": res["status"], "viol": res.get("viol", ""), "drift": res["drift"]})
        if not ok(res):
            raise Inconclusive("negative self-test: trace (%s) was not judged as expected: %s" % (name, got[-1]))
    return got


STD_QUICK = "container/list,container/ring,sort"
STD_THOROUGH = "container/list,container/ring,container/heap,sort,slices,maps,strings,bytes,sync,errors,unicode/utf8,strconv,math/rand/v2"


# ---------------------------------------------------------------------------------------------
# R: TLC behaviours forced onto the real builder
# ---------------------------------------------------------------------------------------------

RMOD = "ex.test/r"

# C18_CAP=<n>: cap the thorough tier (n forced cases per family, 2 programs, the two large exhaustive
# configs and the coverage run skipped) -- used to exercise the thorough path on an overloaded machine.
CAP = int(os.environ.get("C18_CAP", "0") or 0)


def gate_program_files(k, rootrefs, fnrefs):
    """Realise an abstract program of MCIRBuild: shared function i = lib.G<i>[int]."""
    ns = len(fnrefs)
    lib = ["package lib\n\nvar stop bool\n"]
    for f in range(1, ns + 1):
        calls = "".join("\t_ = G%d[T](x)\n" % g for g in fnrefs[f - 1])
        lib.append("func G%d[T any](x T) T {\n\tif stop {\n\t\treturn x\n\t}\n%s\treturn x\n}\n" % (f, calls))
    files = {"r%d/lib/lib.go" % k: "\n".join(lib)}
    for b in (1, 2):
        calls = "".join("\t_ = lib.G%d[int](%d)\n" % (g, g) for g in rootrefs[b - 1])
        files["r%d/u%d/u.go" % (k, b)] = "package u%d\n\nimport \"%s/r%d/lib\"\n\nfunc F() {\n%s}\n" % (b, RMOD, k, calls)
    return files


def forced_schedules(ctx, helper):
    quick = ctx.quick
    r1 = vlib.run_tlc(ctx, "MCIRBuild", "MCIRBuild_gen1.cfg", workers=4, timeout=3000)
    vlib.tlc_require_ok(r1, "generation config gen1")
    r2 = vlib.run_tlc(ctx, "MCIRBuild", "MCIRBuild_gen2.cfg", workers=1, timeout=3000, simulate="num=%d" % (400 if quick else 2000),
                      depth=80, seed=ctx.seed)
    vlib.tlc_require_ok(r2, "generation config gen2")
    if not r1.cases or not r2.cases:
        raise Inconclusive("TLC emitted no behaviour for the forced-schedule replay")
    seen, cases1, cases2 = set(), [], []
    for src, dst in ((r1.cases, cases1), (r2.cases, cases2)):
        for c in src:
            key = json.dumps([c["rootrefs"], c["fnrefs"], [s["b"] for s in c["steps"]]])
            if key not in seen:
                seen.add(key)
                dst.append(c)
    chosen = (vlib.sample(ctx, cases1, 60) + vlib.sample(ctx, cases2, 60)) if quick else (cases1 + vlib.sample(ctx, cases2, 800))
    if CAP and not quick:
        chosen = vlib.sample(ctx, cases1, CAP) + vlib.sample(ctx, cases2, CAP)
    # Besides the literal interleaving of every behaviour, its "hitter-rush" variant: after the first
    # memo hit on a function created by the other builder, the hitting builder gets priority for all
    # its remaining steps.  In the spec (and in a correct builder) it then blocks in task.wait until
    # the creator is done, and the controller falls back to the creator; a builder that does not wait
    # returns early and the outside observation at its return sees the unbuilt function.  Any priority
    # list is a legitimate schedule: the controller only ever releases a builder whose next step is enabled.
    variants = []
    for c in chosen:
        creator, cut = {}, None
        for i, st in enumerate(c["steps"]):
            if st["a"] == "create":
                creator[st["f"]] = st["b"]
            elif st["a"] == "hit" and creator.get(st["f"]) not in (None, st["b"]):
                cut = i
                break
        if cut is not None:
            h = c["steps"][cut]["b"]
            v = dict(c)
            v["variant"] = "hitter-rush"
            v["schedule"] = [s["b"] for s in c["steps"][:cut + 1]] + [h] * len(c["steps"]) + [s["b"] for s in c["steps"][cut + 1:]]
            variants.append(v)
    variants = vlib.sample(ctx, variants, 60 if quick else (CAP or 800))
    chosen = chosen + variants
    progs, files, gcases = {}, {"go.mod": "module %s\n\ngo 1.22\n" % RMOD}, []
    for i, c in enumerate(chosen):
        pk = json.dumps([c["rootrefs"], c["fnrefs"]])
        if pk not in progs:
            progs[pk] = len(progs)
            files.update(gate_program_files(progs[pk], c["rootrefs"], c["fnrefs"]))
        gcases.append({"id": i, "prog": "%s/r%d" % (RMOD, progs[pk]), "schedule": c.get("schedule") or [s["b"] for s in c["steps"]]})
    d = ctx.tmp("gate")
    write_module(d, files)
    rc, so, se = vlib.sh(["go", "vet", "./..."], cwd=d, env=vlib.go_env(), timeout=1200)
    if rc != 0:
        raise Inconclusive("forced-schedule programs do not compile (generator bug): %s" % se[-3000:])
    cpath, out, tr = os.path.join(d, "cases.json"), os.path.join(d, "gate-res.json"), os.path.join(d, "gate-trace.ndjson")
    with open(cpath, "w") as f:
        json.dump(gcases, f)
    rc, so, se = vlib.sh([helper, "-dir", d, "-patterns", "./...", "-gate", cpath, "-out", out, "-trace", tr], cwd=d, env=vlib.go_env(), timeout=7200)
    if rc != 0 or not os.path.exists(out):
        if "panic:" in se:
            i = se.index("panic:")
            ctx.violation(vlib.canon_key({"forced": "panic", "msg": re.sub(r"0x[0-9a-f]+", "", se[i:].splitlines()[0][:200])}),
                          "build crashed under a forced schedule: %s" % se[i:].splitlines()[0][:200],
                          {"kind": "forced", "oracle": "panic", "report": se[i:i + 6000]})
            return {"cases": len(gcases), "crashed": True}, None
        raise Inconclusive("h-irbuild -gate failed rc=%s: %s" % (rc, se[-3000:]))
    doc = json.load(open(out))
    steps = followed = deferred = 0
    for g, c in zip(doc["gate"], chosen):
        steps += g["steps"]
        followed += g["followed"]
        deferred += g["deferred"]
        for v in g["violations"]:
            abstract = {"rootrefs": c["rootrefs"], "fnrefs": c["fnrefs"], "schedule": c.get("schedule") or [s["b"] for s in c["steps"]],
                        "variant": c.get("variant", "literal")}
            ctx.violation(vlib.canon_key({"forced": v["kind"], "rootrefs": c["rootrefs"], "fnrefs": c["fnrefs"]}),
                          "forced schedule: %s: %s" % (v["kind"], v["what"]),
                          {"kind": "forced", "oracle": v["kind"], "abstract": abstract, "tlc_steps": c["steps"], "executed_order": g["order"],
                           "files": {k: v2 for k, v2 in files.items() if k == "go.mod" or k.startswith(g["prog"].split("/")[-1] + "/")}, "detail": v})
    stats = {"tlc_gen1": {"states": r1.distinct, "behaviours": len(cases1)}, "tlc_gen2_simulated_behaviours": len(cases2),
             "programs": len(progs), "cases_forced": len(gcases), "hitter_rush_variants": len(variants), "gate_steps": steps, "schedule_entries_followed": followed,
             "schedule_entries_deferred": deferred, "exhaustive_1fn": not quick and not CAP,
             "sample": {"program": json.loads(next(iter(progs))), "schedule": gcases[0]["schedule"], "executed": doc["gate"][0]["order"]}}
    return stats, tr


def tlc_exhaustive(ctx):
    """Exhaustive TLC on MCIRBuild.  Model-level violations are never verdicts (Inconclusive)."""
    cfgs = [("MCIRBuild_q.cfg", 4, 3000), ("MCIRBuild_again.cfg", 4, 3000)]
    if not ctx.quick and not CAP:
        cfgs += [("MCIRBuild_s2.cfg", 8, 10800), ("MCIRBuild_s3.cfg", 8, 10800)]
    res = vlib.pmap(lambda c: vlib.run_tlc(ctx, "MCIRBuild", c[0], workers=c[1], timeout=c[2], keep_cases=False), cfgs, workers=2)
    out = {}
    for (cfg, _, _), r in zip(cfgs, res):
        vlib.tlc_require_ok(r, cfg)
        if r.distinct == 0:
            raise Inconclusive("TLC explored no state for %s:\n%s" % (cfg, r.out[-2000:]))
        out[cfg] = {"states": r.distinct, "transitions": r.generated, "wall_s": round(r.wall, 1)}
    if not ctx.quick and not CAP:
        # vacuity: every action of the model is taken in the quick config
        r = vlib.run_tlc(ctx, "MCIRBuild", "MCIRBuild_q.cfg", workers=4, timeout=3000, coverage=True, keep_cases=False)
        vlib.tlc_require_ok(r, "coverage run")
        zero = [a for a in r.coverage_zero if a in ("Start", "Create", "HitCore", "Hit", "BeginFn", "FinishFn", "MarkDone", "ReturnNoTask",
                                                     "WaitSkip", "WaitVisit", "WaitReturn", "MCRef", "MCBegin", "MCFinish", "MCMark", "MCWait")]
        if zero:
            raise Inconclusive("vacuity: actions never taken in MCIRBuild_q: %s" % zero)
        out["coverage_zero"] = r.coverage_zero
    return out


def model_sensitivity(ctx):
    """The invariants are not vacuous: the same model with the edge of a memo hit dropped must
    violate BuiltAtReturn, with markDone omitted must deadlock (thorough tier)."""
    base = open(os.path.join(vlib.SPECS, "IRBuild.tla")).read()
    muts = {
        "noedge": (base.replace("  ELSE e = c\n", "  ELSE e = 0\n"), "BuiltAtReturn"),
        "nomarkdone": (base.replace("  /\\ done' = [done EXCEPT ![b] = TRUE]\n  /\\ pc' = [pc EXCEPT ![b] = \"wait\"]",
                                    "  /\\ done' = done\n  /\\ pc' = [pc EXCEPT ![b] = \"wait\"]"), "NoDeadlock"),
    }
    got = {}
    for name, (text, want) in muts.items():
        if text == base:
            raise Inconclusive("model sensitivity: mutation %s does not apply to IRBuild.tla" % name)
        r = vlib.run_tlc(ctx, "MCIRBuild", "MCIRBuild_q.cfg", workers=4, timeout=1500, keep_cases=False, extra_files={"IRBuild.tla": text})
        got[name] = r.violated
        if r.violated != want:
            raise Inconclusive("model sensitivity: mutated model %s yields %s, expected %s" % (name, r.violated, want))
    return got


def run(ctx):
    ctx.level = "model_checking"
    quick = ctx.quick
    if ctx.replay:
        return replay(ctx)

    helper = vlib.go_build_harness(ctx, "cmd/h-irbuild")
    helper_race = vlib.go_build_harness(ctx, "cmd/h-irbuild", name="h-irbuild-race", race=True)

    # 1. exhaustive TLC (runs while the programs are being built)
    from concurrent.futures import ThreadPoolExecutor
    ex = ThreadPoolExecutor(max_workers=2)
    if os.environ.get("C18_DEV_SKIP_TLC"):   # development aid for mutation trials only; evidence says so
        tlc_future = ex.submit(lambda: {"SKIPPED.cfg": {"states": 0, "transitions": 0, "wall_s": 0}, "MCIRBuild_q.cfg": {"states": 0, "transitions": 0, "wall_s": 0}})
        ctx.note("C18_DEV_SKIP_TLC set: exhaustive TLC skipped (development run, not a valid evidence run)")
    else:
        tlc_future = ex.submit(tlc_exhaustive, ctx)
    sens_future = ex.submit(model_sensitivity, ctx) if not quick else None

    # 2. programs
    nprog = 2 if (quick or CAP) else 6
    runs = 1 if quick else (2 if CAP else 3)
    ondemand, mvmax = (2, 12) if quick else (3, 40)
    work = ctx.tmp("irbuild")
    progs = []
    for i in range(nprog):
        files = gen_program(ctx.rng)
        d = os.path.join(work, "p%d" % i)
        os.makedirs(d)
        write_module(d, files)
        progs.append({"dir": d, "files": files, "name": "gen%d" % i,
                      "initial": ",".join("%s/u%d" % (MODPATH, u) for u in range(1, 1 + sum(1 for f in files if f.startswith("u"))))})
    stdmod = os.path.join(work, "stdmod")
    os.makedirs(stdmod)
    write_module(stdmod, {"go.mod": "module ex.test/stdmod\n\ngo 1.22\n", "x.go": "package stdmod\n"})

    def vet(p):
        rc, so, se = vlib.sh(["go", "vet", "./..."], cwd=p["dir"], env=vlib.go_env(), timeout=1200)
        return rc, se
    for p, (rc, se) in zip(progs, vlib.pmap(vet, progs, workers=3)):
        if rc != 0:
            raise Inconclusive("generated program %s does not compile (generator bug): %s" % (p["name"], se[-3000:]))

    # 3. real builds
    jobs = []
    for i, p in enumerate(progs):
        seed = ctx.seed * 1000 + i
        jobs.append(("trace", p, dict(binary=helper, moddir=p["dir"], outdir=work, tag=p["name"], seed=seed, create="all,direct",
                                      modes="0,I", scenarios="serial,parallel,perpkg,again,conc4", runs=runs, initial=p["initial"],
                                      ondemand=ondemand, mvmax=mvmax)))
        if i == 0 or not quick:
            jobs.append(("race", p, dict(binary=helper_race, moddir=p["dir"], outdir=work, tag=p["name"] + "-race", seed=seed + 500,
                                         create="all,direct", modes="0,I" if not quick else "I",
                                         scenarios="parallel,perpkg,again,conc4" if not quick else "parallel,perpkg,conc4",
                                         runs=1, initial=p["initial"], ondemand=ondemand, mvmax=mvmax, trace=False)))
    stdp = {"dir": stdmod, "files": {}, "name": "std", "initial": ""}
    jobs.append(("trace", stdp, dict(binary=helper, moddir=stdmod, outdir=work, tag="std", seed=ctx.seed * 1000 + 99, create="all",
                                     modes="0" if quick else "0,I", scenarios="serial,parallel,perpkg" if quick else "serial,parallel,perpkg,again,conc4",
                                     runs=1 if quick else 2, initial="", ondemand=ondemand, mvmax=mvmax,
                                     patterns=STD_QUICK if quick else STD_THOROUGH)))
    if not quick:
        jobs.append(("race", stdp, dict(binary=helper_race, moddir=stdmod, outdir=work, tag="std-race", seed=ctx.seed * 1000 + 98, create="all",
                                        modes="I", scenarios="parallel,perpkg,conc4", runs=1, initial="", ondemand=ondemand, mvmax=mvmax,
                                        patterns=STD_THOROUGH, trace=False)))
    import time as _t
    t_h = _t.time()
    hres = vlib.pmap(lambda j: run_harness(ctx, **j[2]), jobs, workers=3)
    t_h = _t.time() - t_h
    trace_files, prog_of = [], {}
    nruns = nfuncs = nshared = mv = nrace_runs = 0
    sample_runs = []
    for (kind, p, args), hr in zip(jobs, hres):
        progdesc = {"name": p["name"], "files": p["files"], "patterns": args.get("patterns", "./..."), "initial": p["initial"]}
        doc = judge_harness(ctx, hr, progdesc, "%s build of %s" % (kind, p["name"]))
        if doc is None:
            continue
        for r in doc["runs"]:
            nruns += 1
            nfuncs += r["funcs"]
            nshared += r["shared"]
            mv += r["mv_calls"]
            if kind == "race":
                nrace_runs += 1
        if len(sample_runs) < 3:
            sample_runs.append({k: doc["runs"][-1][k] for k in ("label", "funcs", "shared", "with_syntax", "mv_calls", "dump_hash", "seed")})
        if kind == "trace":
            trace_files.append(hr["trace"])
            prog_of[hr["trace"]] = progdesc

    # 3b. forced schedules (R)
    t_g = _t.time()
    gstats, gtrace = forced_schedules(ctx, helper)
    t_g = _t.time() - t_g
    if gtrace:
        trace_files.append(gtrace)
        prog_of[gtrace] = {"name": "forced schedules", "files": {}, "patterns": "./...", "initial": ""}

    # 4. trace validation
    t_v = _t.time()
    tstats, tjobs, tresults = validate_traces(ctx, trace_files, prog_of, max_events=8000 if quick else 20000, with_negative=True)
    t_v = _t.time() - t_v
    neg = tstats.pop("negative_selftest")
    neg_error = tstats.pop("negative_error")

    tlc = tlc_future.result()
    sens = sens_future.result() if sens_future else None
    if neg_error and not ctx.violations:
        raise Inconclusive(neg_error)

    main_cfg = tlc["MCIRBuild_q.cfg"]
    ctx.coverage = {
        "states": sum(v["states"] for k, v in tlc.items() if k.endswith(".cfg")),
        "transitions": sum(v["transitions"] for k, v in tlc.items() if k.endswith(".cfg")),
        "traces_validated_against_impl": tstats["segments"],   # programs built for real (incl. forced schedules) whose log was validated
        "exhaustive": True,
        "tlc": tlc,
        "tlc_invariants": ["TypeOK", "CreatedOnce", "CreatedOnceStep", "BuiltAtReturn", "CallerSeesBuilt", "NoEdgeAfterDone", "Idempotent",
                           "NoDeadlock", "Termination (WF)"],
        "model_sensitivity": sens,
        "trace_validation": {k: v for k, v in tstats.items() if k != "samples"},
        "negative_selftest": neg,
        "phase_wall_s": {"real_builds": round(t_h, 1), "forced_schedules": round(t_g, 1), "trace_validation_and_negative_selftest": round(t_v, 1)},
        "forced_schedules": gstats,
        "real_builds": nruns,
        "real_builds_under_race_detector": nrace_runs,
        "functions_dumped_and_compared": nfuncs,
        "shared_functions_seen": nshared,
        "on_demand_methodvalue_calls": mv,
        "programs": len(progs) + 1 + gstats.get("programs", 0),
        "program_names": [p["name"] for p in progs] + ["std:" + (STD_QUICK if quick else STD_THOROUGH), "forced-schedule programs r0.."],
        "samples": sample_runs + tstats["samples"][:3],
        "trusted_base": ["TLC 1.8.0", "go toolchain and race detector", "golang.org/x/tools/go/packages (loading)",
                         "go/ir verif hooks as event source (verdict-relevant observations are taken through the public API)"],
    }
    if CAP:
        ctx.coverage["capped"] = "C18_CAP=%d: large exhaustive configs (s2, s3), coverage run and most forced cases skipped" % CAP
    ctx.assumptions = [
        "exhaustive TLC bounds: 2 package builders + 1 on-demand builder, <= 2 shared functions (thorough: all reference relations; 3 shared functions with single lookups per builder); 2 Build callers x 1 package for the sync.Once layer",
        "the three memo tables (instances, objectMethods, methodSets) are modelled as one table; private functions (package members, thunks, bounds) are not tracked individually",
        "real schedules are sampled (seeded yields, creator delays, concurrent MethodValue callers), not enumerated; every recorded schedule is validated against the spec",
        "IR equality is textual equality of WriteFunction dumps after renumbering of value names and whitespace normalisation",
    ]


def replay_forced(ctx, doc):
    case = doc["case"]
    helper = vlib.go_build_harness(ctx, "cmd/h-irbuild")
    d = ctx.tmp("replay-gate")
    files = case.get("files") or {}
    if not files:
        raise Inconclusive("replay file has no program")
    write_module(d, files)
    progdir = sorted(k.split("/")[0] for k in files if "/" in k)[0]
    cpath, out, tr = os.path.join(d, "cases.json"), os.path.join(d, "gate-res.json"), os.path.join(d, "gate-trace.ndjson")
    with open(cpath, "w") as f:
        json.dump([{"id": 0, "prog": "%s/%s" % (RMOD, progdir), "schedule": case["abstract"]["schedule"]}], f)
    rc, so, se = vlib.sh([helper, "-dir", d, "-patterns", "./...", "-gate", cpath, "-out", out, "-trace", tr], cwd=d, env=vlib.go_env(), timeout=3000)
    if rc != 0 or not os.path.exists(out):
        if "panic:" in se:
            ctx.violation(doc["key"], doc["what"], case)
            return
        raise Inconclusive("h-irbuild -gate failed rc=%s: %s" % (rc, se[-3000:]))
    for g in json.load(open(out))["gate"]:
        for v in g["violations"]:
            ctx.violation(doc["key"], "forced schedule: %s: %s" % (v["kind"], v["what"]), dict(case, detail=v, executed_order=g["order"]))
    validate_traces(ctx, [tr], {tr: {}}, 20000)


def replay(ctx):
    doc = json.load(open(ctx.replay))
    case = doc["case"]
    if case.get("kind") == "forced":
        return replay_forced(ctx, doc)
    prog = case.get("program") or {}
    helper = vlib.go_build_harness(ctx, "cmd/h-irbuild", race=case.get("kind") == "race")
    work = ctx.tmp("replay")
    d = os.path.join(work, "m")
    os.makedirs(d)
    if prog.get("files"):
        write_module(d, prog["files"])
    else:
        write_module(d, {"go.mod": "module ex.test/stdmod\n\ngo 1.22\n", "x.go": "package stdmod\n"})
    args = case.get("args")
    if not args:
        args = ["-dir", d, "-patterns", prog.get("patterns", "./..."), "-create", "all,direct" if prog.get("files") else "all", "-modes", "0,I",
                "-runs", "3", "-seed", str(doc.get("seed", 1))]
        if prog.get("initial"):
            args += ["-initial", prog["initial"]]
    # re-point paths of the recorded command line at the fresh scratch copy
    args = list(args)
    for i, a in enumerate(args):
        if a == "-dir":
            args[i + 1] = d
        if a in ("-out", "-trace"):
            args[i + 1] = os.path.join(work, os.path.basename(args[i + 1]))
    tr = args[args.index("-trace") + 1] if "-trace" in args else None
    out = args[args.index("-out") + 1] if "-out" in args else os.path.join(work, "res.json")
    if "-out" not in args:
        args += ["-out", out]
    # schedules are not reproducible bit by bit: repeat with consecutive seeds
    for attempt in range(8):
        a2 = list(args)
        si = a2.index("-seed") + 1
        a2[si] = str(int(a2[si]) + attempt)
        rc, so, se = vlib.sh([helper] + a2, cwd=d, env=vlib.go_env({"GORACE": "halt_on_error=0 exitcode=66"}), timeout=3000)
        hr = {"rc": rc, "stderr": se, "out": out, "trace": tr, "cmd": a2, "tag": "replay"}
        judge_harness(ctx, hr, prog, "replay")
        if tr and os.path.exists(tr):
            validate_traces(ctx, [tr], {tr: prog}, 20000)
        if ctx.violations:
            return
