"""C19 — structlayout matches the compiler; optimize never grows a struct.

Spec: specs/Layout.tla (+ MCLayout.tla, LayoutObs.tla).  gc's size/alignment/offset rules, the
flattened report structlayout prints (fields + explicit padding), structlayout-optimize's order.
TLC enumerates every struct with <= k fields over a universe of field types (scalars, strings,
pointers, slices, interfaces, arrays incl. zero length and of padded structs, nested / empty /
zero-size structs, trailing zero-size fields, complex numbers, named / aliased types), checks the
laws on the oracle (the report tiles [0, size) without gap or overlap, fields are aligned, the
optimized order is a permutation, sorted, never larger, ...) and emits every struct with its
expected sizes, offsets, report and optimized size.

Binding:
  (a) oracle validation: the emitted structs are rendered into a Go program that prints
      unsafe.Sizeof / Alignof / Offsetof -- compiled with the real compiler; on all structs the
      spec is also compared with go/types' gc sizes.  spec != compiler  =>  the SPEC is wrong =>
      INCONCLUSIVE.
  (b) the real go/gcsizes API on every emitted struct (harness/cmd/h-layout), the real
      `structlayout -json` binary on a sample (must equal the spec's report; the attribution of a
      struct's tail byte to its trailing zero-size field is the one tolerated difference), and
      the real `structlayout-optimize -json` (with and without -r) on structlayout's output: the
      printed layouts are loaded into TLC (LayoutObs.tla) which judges permutation / valid
      layout / never larger with Layout.tla's definitions.
"""
import json
import os
import re

import vlib
from vlib import Inconclusive

LETTERS = ["f", "g", "h", "j"]
# development aid (mutation trials on a loaded machine): same code path, smallest configuration and
# samples; never used by the registered tiers and recorded in the evidence when set
SMOKE = os.environ.get("VERIF_SMOKE") == "1"
# VERIF_CAP=N: run the thorough path (compile everything in chunks, large CLI sample) on a seeded
# sample of N structs taken from the quick configurations -- a way to exercise the thorough code
# path on an overloaded machine; recorded in the evidence when set
CAP = int(os.environ.get("VERIF_CAP", "0") or 0)
TLC_WORKERS = int(os.environ.get("VERIF_TLC_WORKERS", "8") or 8)


# ---------------------------------------------------------------------------------------------
# rendering type terms as Go
# ---------------------------------------------------------------------------------------------

def render(t, depth, decls):
    """depth = nesting depth of the fields of a struct literal rendered here (top-level fields: 1)."""
    k = t["k"]
    if k == "array":
        return "[%d]%s" % (t["n"], render(t["elems"][0], depth, decls))
    if k == "struct":
        if not t["elems"]:
            return "struct{}"
        return "struct{ " + "; ".join("%s%d %s" % (LETTERS[depth], i + 1, render(e, depth + 1, decls))
                                       for i, e in enumerate(t["elems"])) + " }"
    if k in ("named", "alias"):
        # declared types are only used as top-level field types: their fields sit at depth 2
        d = "type %s %s%s" % (t["name"], "= " if k == "alias" else "", render(t["elems"][0], 1, decls))
        if decls.setdefault(t["name"], d) != d:
            raise Inconclusive("conflicting declarations for %s" % t["name"])
        return t["name"]
    return t["name"]


def go_struct(c, decls):
    if not c["fields"]:
        return "struct{}"
    return "struct {\n" + "".join("\tf%d %s\n" % (i + 1, render(f, 1, decls)) for i, f in enumerate(c["fields"])) + "}"


def types_source(cases, pkg, imports=""):
    decls = {}
    body = []
    for c in cases:
        body.append("type T%d %s\n" % (c["idx"], go_struct(c, decls)))
    return "package %s\n\n" % pkg + imports + "".join(d + "\n" for d in sorted(decls.values())) + "\n" + "\n".join(body)


def compact(c):
    """Keep the (large) expected reports as JSON text; parse on demand."""
    c["tail"] = c["report"] != c["alt"]
    c["report_s"] = json.dumps(c.pop("report"))
    c["alt_s"] = json.dumps(c.pop("alt")) if c["tail"] else None
    if not c["tail"]:
        c.pop("alt", None)
    return c


def rep(c):
    return json.loads(c["report_s"])


def alt(c):
    return json.loads(c["alt_s"]) if c["alt_s"] else rep(c)


def describe(c):
    decls = {}
    s = go_struct(c, decls).replace("\n\t", " ").replace("\n", " ").replace("\t", "")
    s = re.sub(r"\s+", " ", s)
    if decls:
        s += "  (" + "; ".join(sorted(decls.values())) + ")"
    return s


def case_key(c):
    return vlib.canon_key({"fields": c["fields"]})


def complexity(c):
    return (len(c["fields"]), len(json.dumps(c["fields"])))


# ---------------------------------------------------------------------------------------------
# (a) the compiler validates the oracle
# ---------------------------------------------------------------------------------------------

def compile_and_measure(ctx, cases, tag):
    d = ctx.tmp("cc-" + tag)
    with open(os.path.join(d, "go.mod"), "w") as f:
        f.write("module ex.test/cc\n\ngo 1.22\n")
    src = [types_source(cases, "main", "import (\n\t\"bufio\"\n\t\"fmt\"\n\t\"os\"\n\t\"unsafe\"\n)\n\n"), "\n"]
    rows = []
    for c in cases:
        i = c["idx"]
        src.append("var v%d T%d\n" % (i, i))
        items = ["%d" % i, "unsafe.Sizeof(v%d)" % i, "unsafe.Alignof(v%d)" % i]
        for j in range(len(c["fields"])):
            items += ["unsafe.Offsetof(v%d.f%d)" % (i, j + 1), "unsafe.Sizeof(v%d.f%d)" % (i, j + 1), "unsafe.Alignof(v%d.f%d)" % (i, j + 1)]
        rows.append("\t{" + ", ".join(items) + "},\n")
    src.append("\nvar rows = [][]uintptr{\n" + "".join(rows) + "}\n")
    src.append("\nfunc main() {\n\tw := bufio.NewWriter(os.Stdout)\n\tdefer w.Flush()\n\tfor _, r := range rows {\n\t\tfmt.Fprintln(w, r)\n\t}\n}\n")
    with open(os.path.join(d, "main.go"), "w") as f:
        f.write("".join(src))
    exe = os.path.join(d, "cc")
    rc, so, se = vlib.sh(["go", "build", "-o", exe, "."], cwd=d, env=vlib.go_env(), timeout=3000)
    if rc != 0:
        raise Inconclusive("the generated program does not compile (generator bug): %s" % se[-3000:])
    rc, so, se = vlib.sh([exe], timeout=600)
    if rc != 0:
        raise Inconclusive("the generated program failed: %s" % se[-1000:])
    out = {}
    for line in so.splitlines():
        v = [int(x) for x in line.strip("[]").split()]
        out[v[0]] = {"size": v[1], "align": v[2], "offs": v[3::3], "fsz": v[4::3], "fal": v[5::3]}
    if len(out) != len(cases):
        raise Inconclusive("the generated program printed %d rows for %d structs" % (len(out), len(cases)))
    return out


QUANT = ["size", "align", "offs", "fsz", "fal"]


def spec_nums(c):
    return {q: c[q] for q in QUANT}


def validate_spec(cases, measured, who):
    for c in cases:
        m = measured.get(c["idx"])
        if m is None:
            continue
        if spec_nums(c) != {q: m[q] for q in QUANT}:
            raise Inconclusive("the SPEC disagrees with %s on %s: Layout.tla %s, %s %s" %
                               (who, describe(c), spec_nums(c), who, {q: m[q] for q in QUANT}))


# ---------------------------------------------------------------------------------------------
# (b) real gcsizes API, real binaries
# ---------------------------------------------------------------------------------------------

def run_gcsizes(ctx, helper, cases, tag):
    d = ctx.tmp("api-" + tag)
    p = os.path.join(d, "types.go")
    with open(p, "w") as f:
        f.write(types_source(cases, "l"))
    rc, so, se = vlib.sh([helper, "-src", p], timeout=3000)
    if rc != 0:
        raise Inconclusive("h-layout failed rc=%d: %s" % (rc, se[-2000:]))
    real, std = {}, {}
    for line in so.splitlines():
        o = json.loads(line)
        real[o["idx"]] = {q: o[q] for q in QUANT}
        std[o["idx"]] = {q: o["std"][q] for q in QUANT}
    if len(real) != len(cases):
        raise Inconclusive("h-layout measured %d of %d structs" % (len(real), len(cases)))
    return real, std


def culprit(c, real):
    """Name what the real API gets wrong first: a field's own size/alignment, else offsets, else the struct."""
    for j, f in enumerate(c["fields"]):
        if real["fal"][j] != c["fal"][j]:
            return "Alignof", j
        if real["fsz"][j] != c["fsz"][j]:
            return "Sizeof", j
    if real["offs"] != c["offs"]:
        return "Offsetsof", None
    if real["align"] != c["align"]:
        return "Alignof(struct)", None
    return "Sizeof(struct)", None


def norm_entries(es):
    # the tools prefix field names with the type's name (T<idx>); the specification calls it T
    return [{"name": "" if e["is_padding"] else re.sub(r"^T\d+", "T", e["name"]), "start": e["start"], "end": e["end"], "size": e["size"],
             "align": 0 if e["is_padding"] else e["align"], "pad": bool(e["is_padding"])} for e in es]


def cli_features(c):
    """Abstract shape of a case, used to group CLI mismatches (and as the known-finding key)."""
    def has_nested(t, depth=0):
        u = t
        while u["k"] in ("named", "alias"):
            u = u["elems"][0]
        return u["k"] == "struct" and len(u["elems"]) > 0
    return {
        "zero_size_struct": c["size"] == 0 and len(c["fields"]) > 0,
        "tail_byte": c["tail"],
        "nested": any(has_nested(f) for f in c["fields"]),
        "nested_not_first": any(has_nested(f) for f in c["fields"][1:]),
        # the trailing field is a non-empty nested struct of size 0 and alignment > 1 that carries
        # the outer struct's tail byte (see the known finding in the notes)
        "trailing_zero_nested_aligned": bool(c["fields"]) and has_nested(c["fields"][-1]) and c["fsz"][-1] == 0
                                        and c["fal"][-1] > 1 and c["altfsz"][-1] == 1,
    }


def run_cli(ctx, bins, cases, tag):
    d = ctx.tmp("cli-" + tag)
    with open(os.path.join(d, "go.mod"), "w") as f:
        f.write("module ex.test/l\n\ngo 1.22\n")
    with open(os.path.join(d, "types.go"), "w") as f:
        f.write(types_source(cases, "l"))
    env = vlib.go_env()
    # warm the build cache once (structlayout's go/packages load asks for export data)
    rc, so, se = vlib.sh(["go", "build", "./..."], cwd=d, env=env, timeout=1800)
    if rc != 0:
        raise Inconclusive("CLI fixture package does not compile (generator bug): %s" % se[-2000:])

    def one(c):
        name = "T%d" % c["idx"]
        rc, so, se = vlib.sh([bins["structlayout"], "-json", "ex.test/l", name], cwd=d, env=env, timeout=900)
        res = {"idx": c["idx"], "sl_rc": rc, "sl_err": se[-400:], "sl": None, "opt": None, "optr": None}
        if rc != 0:
            return res
        try:
            res["sl"] = norm_entries(json.loads(so))
        except Exception as e:
            res["sl_err"] = "unparsable output: %r (%s)" % (so[:200], e)
            return res
        for key, extra in (("opt", []), ("optr", ["-r"])):
            rc2, so2, se2 = vlib.sh([bins["structlayout-optimize"], "-json"] + extra, input=so, timeout=300)
            if rc2 != 0:
                res[key] = {"error": "rc=%d %s" % (rc2, se2[-300:])}
                continue
            try:
                res[key] = {"entries": norm_entries(json.loads(so2)) if so2.strip() else []}
            except Exception as e:
                res[key] = {"error": "unparsable output: %r (%s)" % (so2[:200], e)}
        return res
    return vlib.pmap(one, cases, workers=min(vlib.NCPU, 12))


def judge_optimize(ctx, cases_by_idx, cli_results):
    """(O) hand the printed optimize layouts to TLC; Layout.tla's definitions decide."""
    arts = []
    for r in cli_results:
        c = cases_by_idx[r["idx"]]
        if r["sl"] is None:
            continue
        for mode in ("opt", "optr"):
            o = r[mode]
            if o is None or "error" in o:
                continue
            # The fields are judged with the sizes structlayout hands to optimize: the compiler's,
            # except that a struct's tail byte is attributed to its trailing zero-size field
            # (the tolerated attribution `alt`), which then travels with that field.
            if mode == "opt":
                innames = ["T.f%d" % (j + 1) for j in range(len(c["fields"]))]
                inshapes = [{"sz": c["altfsz"][j], "al": c["fal"][j]} for j in range(len(c["fields"]))]
            else:
                leaves = [e for e in alt(c) if not e["pad"]]
                innames = [e["name"] for e in leaves]
                inshapes = [{"sz": e["size"], "al": e["align"]} for e in leaves]
            arts.append({"idx": c["idx"], "mode": mode, "entries": o["entries"], "innames": innames,
                         "inshapes": inshapes, "origsize": c["size"]})
    if not arts:
        return {}, None
    r = vlib.run_tlc(ctx, "LayoutObs", "LayoutObs.cfg", workers=1, timeout=1800,
                     extra_files={"layout_obs.json": json.dumps(arts)})
    vlib.tlc_require_ok(r, "LayoutObs")
    if len(r.cases) != len(arts):
        raise Inconclusive("LayoutObs judged %d of %d artefacts" % (len(r.cases), len(arts)))
    return {(v["idx"], v["mode"]): v for v in r.cases}, r


# ---------------------------------------------------------------------------------------------

def tlc_cases(ctx, cfg, offset, timeout):
    r = vlib.run_tlc(ctx, "MCLayout", cfg, workers=min(vlib.NCPU, TLC_WORKERS), timeout=timeout, coverage=False)
    vlib.tlc_require_ok(r, "Layout laws (%s)" % cfg)
    if len(r.cases) != r.distinct or not r.cases:
        raise Inconclusive("TLC emitted %d cases for %d states (%s)" % (len(r.cases), r.distinct, cfg))
    for i, c in enumerate(r.cases):
        c["idx"] = offset + i
        compact(c)
    return r


def stratified(ctx, cases, n):
    """Seeded sample that always contains the smallest structs and every feature combination."""
    cases = sorted(cases, key=lambda c: (complexity(c), c["idx"]))
    small = [c for c in cases if len(c["fields"]) <= 1]
    by = {}
    for c in cases:
        by.setdefault(json.dumps(cli_features(c), sort_keys=True), []).append(c)
    chosen = {c["idx"]: c for c in small}
    for lst in by.values():
        for c in lst[:6]:
            chosen[c["idx"]] = c
    rest = [c for c in cases if c["idx"] not in chosen]
    for c in vlib.sample(ctx, rest, max(0, n - len(chosen))):
        chosen[c["idx"]] = c
    return [chosen[k] for k in sorted(chosen)]


def run(ctx):
    import time
    ctx.level = "model_checking"
    phases = {}
    t0 = time.time()

    def lap(name):
        nonlocal t0
        phases[name] = round(time.time() - t0, 1)
        t0 = time.time()
    helper = vlib.go_build_harness(ctx, "cmd/h-layout")
    bins = {n: vlib.go_build_repo(ctx, "./cmd/" + n) for n in ("structlayout", "structlayout-optimize")}

    lap("build")
    if ctx.replay:
        replay_one(ctx, json.load(open(ctx.replay)), helper, bins)
        return

    # 1. TLC: laws + emission
    if SMOKE:
        plan = [("MCLayout_small.cfg", 2400)]
    elif ctx.quick or CAP:
        plan = [("MCLayout_small.cfg", 1200), ("MCLayout_core.cfg", 2400)]
    else:
        plan = [("MCLayout_mid.cfg", 7200), ("MCLayout_corebig.cfg", 14000)]
    runs, cases, seen = [], [], set()
    for cfg, to in plan:
        r = tlc_cases(ctx, cfg, len(cases), to)
        runs.append((cfg, r))
        for c in r.cases:
            k = json.dumps(c["fields"], sort_keys=True)
            if k in seen:
                continue
            seen.add(k)
            c["idx"] = len(cases)
            cases.append(c)
    if CAP and not ctx.quick:
        cases = stratified(ctx, cases, CAP)
        for i, c in enumerate(cases):
            c["idx"] = i
    by_idx = {c["idx"]: c for c in cases}
    n_tail = sum(1 for c in cases if c["tail"])
    n_zero = sum(1 for c in cases if c["size"] == 0 and c["fields"])
    n_shrunk = sum(1 for c in cases if c["optsize"] < c["size"])
    if not (n_tail and n_zero and n_shrunk):
        raise Inconclusive("universe does not exercise tail bytes / zero-size structs / shrinking (%d/%d/%d)" % (n_tail, n_zero, n_shrunk))

    lap("tlc")
    # 2. (b) real gcsizes API + (a) go/types' gc sizes on every emitted struct
    real, std = run_gcsizes(ctx, helper, cases, "all")
    validate_spec(cases, std, "go/types gc sizes")

    lap("gcsizes_api")
    # 3. (a) the real compiler on a sample (thorough: on everything, in chunks)
    if ctx.quick:
        cc_cases = stratified(ctx, cases, 300 if SMOKE else 2500)
        chunks = [cc_cases]
    else:
        cc_cases = cases
        step = 12000 if not CAP else max(1, CAP // 3)
        chunks = [cases[i:i + step] for i in range(0, len(cases), step)]
    for n, ch in enumerate(chunks):
        validate_spec(ch, compile_and_measure(ctx, ch, str(n)), "the compiler (unsafe.Sizeof/Alignof/Offsetof)")

    lap("compiler")
    # 4. verdicts on the API
    api_mism = {}
    for c in cases:
        if real[c["idx"]] != spec_nums(c):
            what, j = culprit(c, real[c["idx"]])
            cls = (what, c["fields"][j]["k"] if j is not None else
                   "zero-size struct" if c["size"] == 0 else "tail byte" if c["tail"] else "other")
            api_mism.setdefault(cls, []).append((c, j))
    for cls, lst in sorted(api_mism.items()):
        lst.sort(key=lambda x: complexity(x[0]))
        c, j = lst[0]
        got = real[c["idx"]]
        what = ("gcsizes.%s is wrong for %s%s: gcsizes %s, compiler %s; %d structs of this class" %
                (cls[0], describe(c), (" field f%d" % (j + 1)) if j is not None else "",
                 {q: got[q] for q in QUANT}, spec_nums(c), len(lst)))
        ctx.violation(vlib.canon_key({"api": cls[0], "class": cls[1]}), what,
                      {"kind": "api", "api": cls[0], "class": cls[1], "fields": c["fields"], "go": describe(c),
                       "expected": spec_nums(c), "observed": got, "count": len(lst)})

    # 5. real binaries on a sample
    cli_cases = stratified(ctx, cases, 60 if SMOKE else 300 if ctx.quick else 2000)
    cli = run_cli(ctx, bins, cli_cases, "main")
    verdicts, robs = judge_optimize(ctx, by_idx, cli)
    n_sl, n_opt = cli_verdicts(ctx, by_idx, cli, verdicts)
    lap("cli")

    # negative self-tests of the bindings
    neg = dict(cases[len(cases) // 2])
    neg["offs"] = [o + 1 for o in neg["offs"]] or [1]
    if real[neg["idx"]] == spec_nums(neg):
        raise Inconclusive("negative self-test: a corrupted expectation was accepted by the API comparison")
    good = next((r for r in cli if r["sl"] and r["sl"] in (rep(by_idx[r["idx"]]), alt(by_idx[r["idx"]]))), None)
    if good is not None:
        bad = json.loads(json.dumps(good))
        bad["sl"][-1]["end"] += 1
        c = by_idx[bad["idx"]]
        if bad["sl"] in (rep(c), alt(c)):
            raise Inconclusive("negative self-test: a corrupted structlayout output was accepted")
        if bad["opt"] and "entries" in bad["opt"] and bad["opt"]["entries"]:
            bad["opt"]["entries"][0]["start"] += 1
            v, _ = judge_optimize(ctx, by_idx, [bad])
            if v[(bad["idx"], "opt")]["valid"]:
                raise Inconclusive("negative self-test: LayoutObs accepted a corrupted optimize layout")
    elif not ctx.violations:
        raise Inconclusive("no structlayout output matched the spec at all")

    sample = cli_cases[len(cli_cases) // 2]
    ctx.coverage = {
        "states": sum(r.distinct for _, r in runs) + (robs.distinct if robs else 0),
        "transitions": sum(r.generated for _, r in runs) + (robs.generated if robs else 0),
        "traces_validated_against_impl": len(cases) + n_sl + n_opt,
        "exhaustive": False,
        "tlc": {"module": "MCLayout", "configs": [cfg for cfg, _ in runs], "wall_s": round(sum(r.wall for _, r in runs), 1),
                "invariants": ["ReportTiles", "ReportAltTiles", "TopTiles(=ShapeReport)", "ReportAligned", "FieldsWellPlaced",
                               "OptimizeLaws(permutation, sorted, never larger, tight)",
                               "OptimizeRNeverGrows", "OptimizeAltNeverGrows", "AppendStable(action)", "ASSUME Examples"]},
        "phase_wall_s": phases,
        "smoke_mode": SMOKE,
        "cap": CAP,
        "structs_enumerated": len(cases),
        "structs_with_tail_byte": n_tail,
        "zero_size_structs": n_zero,
        "structs_shrunk_by_optimize": n_shrunk,
        "gcsizes_api_structs_compared": len(cases),
        "gcsizes_api_mismatching_structs": sum(len(v) for v in api_mism.values()),
        "spec_validated_by_go_types_gc_sizes": len(cases),
        "spec_validated_by_compiled_program": len(cc_cases),
        "structlayout_outputs_compared": n_sl,
        "optimize_outputs_judged_by_tlc": n_opt,
        "samples": [{"go": describe(sample), "spec": dict({k: sample[k] for k in ("size", "align", "offs", "fsz", "fal", "optsize", "roptsize")}, report=rep(sample)),
                     "structlayout": next(r["sl"] for r in cli if r["idx"] == sample["idx"])}],
        "trusted_base": ["TLC", "the Go compiler (unsafe.Sizeof/Alignof/Offsetof of the generated program) as the reference",
                         "go/types gc sizes as a second reference on all structs", "encoding/json output of the tools as observation channel"],
    }
    ctx.assumptions = [
        "target architecture amd64 (word 8, max alignment 8); sync/atomic's align64 marker is out of scope",
        "structs with <= 4 fields over the universe of MCLayout.tla (nesting depth <= 2 inside a field)",
        "a struct's tail byte may be attributed to its trailing zero-size field (DESIGN C19, deliberate tolerance)",
    ]


def cli_verdicts(ctx, by_idx, cli, verdicts):
    n_sl = n_opt = 0
    sl_mism, opt_mism = {}, {}
    for r in cli:
        c = by_idx[r["idx"]]
        feat = cli_features(c)
        if r["sl"] is None:
            sl_mism.setdefault(("fails", json.dumps(feat, sort_keys=True)), []).append((c, r))
            continue
        n_sl += 1
        if r["sl"] not in (rep(c), alt(c)):
            sl_mism.setdefault(("differs", json.dumps(feat, sort_keys=True)), []).append((c, r))
        for mode in ("opt", "optr"):
            o = r[mode]
            if o is None:
                continue
            if "error" in o:
                opt_mism.setdefault((mode, "fails", json.dumps(feat, sort_keys=True)), []).append((c, r, None))
                continue
            n_opt += 1
            v = verdicts[(c["idx"], mode)]
            bad = [k for k in ("perm", "valid", "notlarger") if not v[k]]
            if bad:
                opt_mism.setdefault((mode, bad[0], json.dumps(feat, sort_keys=True)), []).append((c, r, v))
            else:
                want = c["altoptsize"] if mode == "opt" else c["altroptsize"]
                if v["total"] != want and len(ctx.notes) < 5:
                    ctx.note("drift: optimize%s prints a valid layout of %d bytes for %s, the sorted order of Layout.tla needs %d" %
                             (" -r" if mode == "optr" else "", v["total"], describe(c), want))
    for (kind, feat), lst in sorted(sl_mism.items()):
        lst.sort(key=lambda x: complexity(x[0]))
        c, r = lst[0]
        if kind == "fails":
            what = "structlayout fails on %s: rc=%s %s" % (describe(c), r["sl_rc"], r["sl_err"])
        else:
            what = "structlayout prints a layout that differs from the compiler's for %s: got %s, expected %s; %d sampled structs of this shape" % (
                describe(c), brief(r["sl"]), brief(rep(c)), len(lst))
        ctx.violation(vlib.canon_key({"cli": "structlayout", "kind": kind, "shape": json.loads(feat)}), what,
                      {"kind": "structlayout", "how": kind, "shape": json.loads(feat), "fields": c["fields"], "go": describe(c),
                       "expected": rep(c), "expected_alt": alt(c), "observed": r["sl"], "count": len(lst)})
    for (mode, bad, feat), lst in sorted(opt_mism.items()):
        lst.sort(key=lambda x: complexity(x[0]))
        c, r, v = lst[0]
        flag = " -r" if mode == "optr" else ""
        if bad == "fails":
            what = "structlayout-optimize%s fails on %s: %s" % (flag, describe(c), r[mode]["error"])
        else:
            why = {"perm": "is not a permutation of the input fields", "valid": "is not a valid layout of the fields in that order",
                   "notlarger": "is larger than the original (%d > %d)" % (v["total"], c["size"])}[bad]
            what = "structlayout-optimize%s output %s for %s: got %s%s; %d sampled structs of this shape" % (
                flag, why, describe(c), brief(r[mode]["entries"]), (", a valid layout of that order is " + brief(v["expect"])) if v["expect"] else "", len(lst))
        ctx.violation(vlib.canon_key({"cli": "optimize" + flag, "kind": bad, "shape": json.loads(feat)}), what,
                      {"kind": "optimize", "mode": mode, "how": bad, "shape": json.loads(feat),
                       "trailing_zero_nested_aligned": json.loads(feat)["trailing_zero_nested_aligned"],
                       "fields": c["fields"], "go": describe(c),
                       "input": r["sl"], "observed": r[mode], "verdict": v, "origsize": c["size"], "count": len(lst)})
    return n_sl, n_opt


def brief(es):
    return "[" + ", ".join(("pad %d-%d" % (e["start"], e["end"])) if e["pad"] else
                            "%s %d-%d a%d" % (e["name"].split(".", 1)[-1], e["start"], e["end"], e["align"]) for e in es) + "]"


def replay_one(ctx, doc, helper, bins):
    """Re-evaluate exactly the recorded struct: TLC recomputes the expectation from a one-struct constant set."""
    case = doc["case"]
    fields = case["fields"]
    mc = ("---- MODULE MCLayoutReplay ----\nEXTENDS Layout\nTheStruct == JsonDeserialize(\"replay_fields.json\")\n"
          "ReplayInit == s = TheStruct\nReplayNext == UNCHANGED s\nReplaySpec == ReplayInit /\\ [][ReplayNext]_vars\n====\n")
    cfg = "SPECIFICATION ReplaySpec\nCONSTANTS\n  FieldTypes = {}\n  MaxFields = 0\nINVARIANTS ReportTiles ReportAltTiles Emit\nCHECK_DEADLOCK FALSE\n"
    r = vlib.run_tlc(ctx, "MCLayoutReplay", "MCLayoutReplay.cfg", workers=1, timeout=600,
                     extra_files={"MCLayoutReplay.tla": mc, "MCLayoutReplay.cfg": cfg, "replay_fields.json": json.dumps(fields)})
    vlib.tlc_require_ok(r, "replay")
    if len(r.cases) != 1:
        raise Inconclusive("replay: TLC emitted %d cases" % len(r.cases))
    c = compact(r.cases[0])
    c["idx"] = 0
    c["fields"] = fields
    validate_spec([c], compile_and_measure(ctx, [c], "replay"), "the compiler")
    by_idx = {0: c}
    if case["kind"] == "api":
        real, _ = run_gcsizes(ctx, helper, [c], "replay")
        print("replay api: %s spec=%s gcsizes=%s" % (describe(c), spec_nums(c), real[0]))
        if real[0] != spec_nums(c):
            ctx.violation(doc["key"], doc["what"], case)
        return
    cli = run_cli(ctx, bins, [c], "replay")
    verdicts, _ = judge_optimize(ctx, by_idx, cli)
    before = len(ctx.violations)
    cli_verdicts(ctx, by_idx, cli, verdicts)
    print("replay cli: %s structlayout=%s" % (describe(c), brief(cli[0]["sl"]) if cli[0]["sl"] else cli[0]["sl_err"]))
    if len(ctx.violations) == before:
        print("replay: no violation reproduced")
