"""C16 clause (4): behaviour of S*/QF* fixes.

TLC (specs/MCFixCases.tla) enumerates the abstract cases  shape x operand effects x context x
occurrence variation (the occurrences of a repeated metavariable are instantiated identically or
one of them as a near-equal variant: swapped operands, parentheses, literal spelling, x+0, another
index/field/base/element/identifier -- this exercises the checks' *matching conditions*);
this module instantiates each as an executable Go function (one template per shape id), runs
the real analyzers on the generated package through the same record -> FixesObs -> go/types
pipeline as every other input, applies every offered S*/QF* fix, compiles original and fixed
functions natively, runs both on every input vector of the case's domain, and hands the
observation tables to TLC (specs/FixCasesObs.tla), which evaluates FixCases!Preserved.
"""
import base64
import collections
import itertools
import json
import os
import re

import vlib
from vlib import Inconclusive

# QF1009 (== on time.Time -> Equal) and QF1010 (print []byte as string) are documented as
# changing behaviour on purpose; they are not "equivalent rewrites" and have no template.

NOT_EQUIVALENT = {"QF1009", "QF1010"}

PARTNER = 3   # index of the second variable of compound operands
CTXV = 4      # index of the context variable


def operand(kind, eff, k):
    p = PARTNER
    table = {
        "bool": {"var": "b%d" % k, "call": "rt.Eb(%d)" % k, "pcall": "rt.Pb(%d)" % k, "or": "b%d || b%d" % (k, p),
                 "and": "b%d && b%d" % (k, p), "not": "!b%d" % k, "cmp": "i%d < 1" % k},
        "int": {"var": "i%d" % k, "lit": str(k + 1), "call": "rt.Ei(%d)" % k, "add": "i%d + 1" % k},
        "str": {"var": "s%d" % k, "lit": '"a"', "call": "rt.Es(%d)" % k, "cat": 's%d + "b"' % k},
        "flt": {"var": "f%d" % k, "call": "rt.Ef(%d)" % k, "add": "f%d + 1" % k},
        "sl": {"var": "x%d" % k, "call": "rt.Esl(%d)" % k},
        "bs": {"var": "y%d" % k, "call": "rt.Ebs(%d)" % k},
        "w": {"var": "w", "call": "rt.Ew(w)"},
    }
    return table[kind][eff]


def boolctx(E, ctx, paren_bang=False):
    if ctx == "bang" and paren_bang:
        E = "(" + E + ")"
    cond = {"if": E, "andR": "b%d && %s" % (CTXV, E), "orR": "b%d || %s" % (CTXV, E), "bang": "!" + E, "eqL": "%s == b%d" % (E, CTXV)}[ctx]
    return 'if %s {\n\t\tres = "T"\n\t} else {\n\t\tres = "F"\n\t}' % cond


def T_s1002(op):
    def t(o, ctx):
        x = o[0]
        compound = " " in x
        # keep the source well-typed: `true == a < 1` / `!a < 1 == true` would apply ==/! to an int
        if compound and (op == "Teq" or (ctx == "bang" and "<" in x)):
            o = ["(" + x + ")"]
        return boolctx({"eqT": "%s == true", "neT": "%s != true", "eqF": "%s == false", "neF": "%s != false", "Teq": "true == %s"}[op] % o[0], ctx)
    return t


def T_s1003(fn, cmp):
    def t(o, ctx):
        return boolctx("strings.%s(%s, %s) %s" % (fn, o[0], o[1], cmp), ctx, paren_bang=True)
    return t


def T_s1004(cmp):
    def t(o, ctx):
        return boolctx("bytes.Compare(%s, %s) %s" % (o[0], o[1], cmp), ctx, paren_bang=True)
    return t


def T_qf1001(fmt_):
    def t(o, ctx):
        return boolctx(fmt_ % tuple(o), ctx)
    return t


def T_qf1005(n):
    def t(o, ctx):
        e = "math.Pow(%s, %d)" % (o[0], n)
        e = {"stmt": e, "div": "8 / " + e, "neg": "-" + e}[ctx]
        return "res = fmt.Sprint(%s)" % e
    return t


# ---------------------------------------------------------------------------------------------
# occurrence variation (FixCases.tla): realisation of the near-equal variants per metavariable kind
# ---------------------------------------------------------------------------------------------

# shape -> mv -> (kind, n, slot): must equal the reps of specs/MCFixCases.tla (checked against TLC's output)
REPS = {
    "s1010": {"x": ("sl", 2, 0)},
    "s1011": {"lhs": ("sl", 2, 0), "val": ("id", 1, 0)},
    "s1011_idx": {"x": ("sl", 2, 1), "lhs": ("sl", 2, 0)},
    "s1001": {"key": ("id", 1, 0), "value": ("id", 1, 0)},
    "s1001_idx": {"src": ("sl", 2, 1), "key": ("id", 2, 0)},
    "s1016": {"v": ("id", 2, 0)},
    "s1018": {"slice": ("sl", 2, 0), "initvar": ("id", 2, 0)},
    "s1021": {"x": ("id", 1, 0)},
    "s1033": {"m": ("map", 2, 0), "key": ("int", 2, 1)},
    "s1034": {"x": ("id", 2, 0)},
    "s1036_inc": {"m": ("map", 3, 0), "key": ("int", 3, 1), "value": ("int", 2, 2)},
    "qf1002": {"tag": ("int", 3, 0)}, "qf1003": {"tag": ("int", 4, 0)},
    "qf1002_str": {"tag": ("str", 3, 0)}, "qf1003_str": {"tag": ("str", 4, 0)},
    "qf1002_bool": {"tag": ("bool", 3, 0)}, "qf1003_bool": {"tag": ("bool", 4, 0)},
    "qf1007": {"x": ("id", 1, 0)},
}

VA, VB = 4, 5   # input indices of the two operands of swapped / indexed / field variants

MAP_A, MAP_B = "map[int]int{0: 1, 1: 2}", "map[int]int{0: 3, 1: 4, 3: 5}"


def realise(kind, var, D, alt=None):
    """-> {"base", "variant", "decl" (None: keep the template's own declaration), "obs" (None: keep)}
    D is the expression all occurrences carry in the base cases."""
    a, b = VA, VB
    r = {"decl": None, "obs": None}

    def two(x, y, decl=None, obs=None):
        r.update(base=x, variant=y, decl=decl, obs=obs)
        return r

    if var == "paren":
        return two(D, "(%s)" % D)
    if var == "ident":
        r = two(D, alt["name"])
        r["extra_decl"], r["extra_obs"] = alt["decl"], alt.get("obs")
        return r
    if kind == "int":
        ops = {"swapAdd": "+", "swapSub": "-", "swapMul": "*", "swapAnd": "&", "swapOr": "|", "swapXor": "^"}
        if var in ops:
            return two("i%d %s i%d" % (a, ops[var], b), "i%d %s i%d" % (b, ops[var], a))
        return {
            "swapCall": lambda: two("rt.Ei(%d) + rt.Ei(%d)" % (a, b), "rt.Ei(%d) + rt.Ei(%d)" % (b, a)),
            "lit": lambda: two("i%d + 1" % a, "i%d + 0x1" % a),
            "plus0": lambda: two("i%d" % a, "i%d + 0" % a),
            "index": lambda: two("ai[0]", "ai[1]", "ai := [2]int{i%d, i%d}" % (a, b)),
            "field": lambda: two("pi.A", "pi.B", "pi := struct{ A, B int }{i%d, i%d}" % (a, b)),
            "base": lambda: two("pi.A", "qi.A", "pi, qi := struct{ A int }{i%d}, struct{ A int }{i%d}" % (a, b)),
            "elt": lambda: two("[2]int{i%d, 1}[1]" % a, "[2]int{i%d, 2}[1]" % a),
        }[var]()
    if kind == "str":
        return {
            "swapCat": lambda: two("s%d + s%d" % (a, b), "s%d + s%d" % (b, a)),
            "swapCall": lambda: two("rt.Es(%d) + rt.Es(%d)" % (a, b), "rt.Es(%d) + rt.Es(%d)" % (b, a)),
            "lit": lambda: two('s%d + "a"' % a, 's%d + "\\x61"' % a),
            "plus0": lambda: two("s%d" % a, 's%d + ""' % a),
            "index": lambda: two("as[0]", "as[1]", "as := [2]string{s%d, s%d}" % (a, b)),
            "field": lambda: two("ps.A", "ps.B", "ps := struct{ A, B string }{s%d, s%d}" % (a, b)),
            "base": lambda: two("ps.A", "qs.A", "ps, qs := struct{ A string }{s%d}, struct{ A string }{s%d}" % (a, b)),
            "elt": lambda: two('[2]string{s%d, "ab"}[1]' % a, '[2]string{s%d, "ba"}[1]' % a),
        }[var]()
    if kind == "bool":
        return {
            "swapEq": lambda: two("(i%d == i%d)" % (a, b), "(i%d == i%d)" % (b, a)),
            "swapNe": lambda: two("(i%d != i%d)" % (a, b), "(i%d != i%d)" % (b, a)),
            "swapCall": lambda: two("(rt.Ei(%d) == rt.Ei(%d))" % (a, b), "(rt.Ei(%d) == rt.Ei(%d))" % (b, a)),
            "index": lambda: two("ab[0]", "ab[1]", "ab := [2]bool{b%d, b%d}" % (a, b)),
            "field": lambda: two("pb.A", "pb.B", "pb := struct{ A, B bool }{b%d, b%d}" % (a, b)),
            "base": lambda: two("pb.A", "qb.A", "pb, qb := struct{ A bool }{b%d}, struct{ A bool }{b%d}" % (a, b)),
        }[var]()
    if kind == "map":
        return {
            "index": lambda: two("ms[0]", "ms[1]", "ms := [2]map[int]int{%s, %s}" % (MAP_A, MAP_B), "ms"),
            "lit": lambda: two("ms[1]", "ms[0x1]", "ms := [2]map[int]int{%s, %s}" % (MAP_B, MAP_A), "ms"),
            "field": lambda: two("pm.M", "pm.N", "pm := struct{ M, N map[int]int }{%s, %s}" % (MAP_A, MAP_B), "pm"),
            "base": lambda: two("pm.M", "qm.M", "pm, qm := struct{ M map[int]int }{%s}, struct{ M map[int]int }{%s}" % (MAP_A, MAP_B), "pm, qm"),
        }[var]()
    if kind == "sl":
        sa, sb = "rt.Sl(i%d)" % a, "rt.Sl(i%d)" % b
        return {
            "index": lambda: two("xs[0]", "xs[1]", "xs := [2][]int{%s, %s}" % (sa, sb), "xs"),
            "lit": lambda: two("xs[1]", "xs[0x1]", "xs := [2][]int{%s, %s}" % (sb, sa), "xs"),
            "field": lambda: two("px.A", "px.B", "px := struct{ A, B []int }{%s, %s}" % (sa, sb), "px"),
            "base": lambda: two("px.A", "qx.A", "px, qx := struct{ A []int }{%s}, struct{ A []int }{%s}" % (sa, sb), "px, qx"),
            "elt": lambda: two("[]int{10, 20}", "[]int{10, 30}"),
        }[var]()
    raise KeyError((kind, var))


class Occ:
    """How the occurrences of the repeated metavariables of one case are instantiated."""

    def __init__(self, case):
        occ = case.get("occ") or {"mv": "", "var": "same", "at": 0}
        self.shape, self.mv, self.var, self.at = case["shape"], occ["mv"], occ["var"], occ["at"]
        self._alt = {}

    def _r(self, mv, D):
        kind = REPS[self.shape][mv][0]
        return realise(kind, self.var, D, self._alt.get(mv))

    def alt(self, mv, name, decl, obs=None):
        """the other identifier of an `ident` variation (template knowledge)"""
        self._alt[mv] = {"name": name, "decl": decl, "obs": obs}

    def on(self, mv):
        return self.var != "same" and self.mv == mv

    def __call__(self, mv, j, D):
        """expression of the j-th variable occurrence (1-based) of metavariable mv"""
        if not self.on(mv):
            return D
        r = self._r(mv, D)
        return r["variant"] if j == self.at else r["base"]

    def decl(self, mv, D, default=""):
        """declarations that the occurrences of mv need (replaces the template's own if the variant brings one)"""
        if not self.on(mv):
            return default
        r = self._r(mv, D)
        out = default if r["decl"] is None else r["decl"]
        if r.get("extra_decl"):
            out = (out + "\n\t" if out else "") + r["extra_decl"]
        return out

    def obs(self, mv, D, default):
        """what to render so that every object the occurrences may touch is visible in the result"""
        if not self.on(mv):
            return default
        r = self._r(mv, D)
        out = default if r["obs"] is None else r["obs"]
        if r.get("extra_obs"):
            out = out + ", " + r["extra_obs"]
        return out


def join(*stmts):
    return "\n\t".join(s for s in stmts if s)


def T_s1010(o, c, X):
    return join(X.decl("x", "x3"), "res = fmt.Sprint(%s[%s:len(%s)])" % (X("x", 1, "x3"), o[0], X("x", 2, "x3")))


def T_s1011(o, c, X):
    d0 = "var dst []int\n\tdst = append(dst, 7)"
    return join(X.decl("lhs", "dst", d0),
                "for _, e := range %s {\n\t\t%s = append(%s, %s)\n\t}" % (o[0], X("lhs", 1, "dst"), X("lhs", 2, "dst"), X("val", 1, "e")),
                "res = fmt.Sprint(%s)" % X.obs("lhs", "dst", "dst"))


def T_s1011_idx(o, c, X):
    d0 = "var dst []int\n\tdst = append(dst, 7)"
    return join(X.decl("lhs", "dst", d0), X.decl("x", o[0]),
                "for i := range %s {\n\t\t%s = append(%s, %s[i])\n\t}" % (X("x", 1, o[0]), X("lhs", 1, "dst"), X("lhs", 2, "dst"), X("x", 2, o[0])),
                "res = fmt.Sprint(%s)" % X.obs("lhs", "dst", "dst"))


def T_s1001(o, c, X):
    return join("dst := make([]int, 2)", "defer func() { res = fmt.Sprint(dst) }()",
                "for i, e := range %s {\n\t\tdst[%s] = %s\n\t}" % (o[0], X("key", 1, "i"), X("value", 1, "e")))


def T_s1001_idx(o, c, X):
    return join("dst := make([]int, 2)", "defer func() { res = fmt.Sprint(dst) }()", X.decl("src", o[0]),
                "for i := range %s {\n\t\tdst[%s] = %s[%s]\n\t}" % (X("src", 1, o[0]), X("key", 1, "i"), X("src", 2, o[0]), X("key", 2, "i")))


def T_s1016(o, c, X):
    X.alt("v", "v2", "v2 := s1016a{i1, s1}")
    return join("v := s1016a{i0, s0}", X.decl("v", "v"),
                "w := s1016b{A: %s.A, B: %s.B}" % (X("v", 1, "v"), X("v", 2, "v")), "res = fmt.Sprint(w)")


def T_s1018(o, c, X):
    X.alt("slice", "bs2", "bs2 := []int{9, 8, 7, 6, 5}", "bs2")
    return join("bs := []int{1, 2, 3, 4, 5}", X.decl("slice", "bs"), "defer func() { res = fmt.Sprint(%s) }()" % X.obs("slice", "bs", "bs"),
                "n, offset := %s, %s" % (o[0], o[1]),
                "for i := 0; i < n; i++ {\n\t\t%s[%s] = %s[offset+%s]\n\t}" % (X("slice", 1, "bs"), X("initvar", 1, "i"), X("slice", 2, "bs"), X("initvar", 2, "i")))


def T_s1021(o, c, X):
    X.alt("x", "y", "y := 0", "y")
    return join(X.decl("x", "x"), "var x int", "%s = %s" % (X("x", 1, "x"), o[0]), "res = fmt.Sprint(%s)" % X.obs("x", "x", "x"))


def T_s1033(o, c, X):
    k = o[0]
    return join(X.decl("m", "m", "m := " + MAP_A), X.decl("key", k), "defer func() { res = fmt.Sprint(%s) }()" % X.obs("m", "m", "m"),
                "if _, ok := %s[%s]; ok {\n\t\tdelete(%s, %s)\n\t}" % (X("m", 1, "m"), X("key", 1, k), X("m", 2, "m"), X("key", 2, k)))


def T_s1034(o, c, X):
    X.alt("x", "xo", "var xo interface{} = i1")
    return join("var x interface{} = i0", "if b0 {\n\t\tx = s0\n\t}", X.decl("x", "x"),
                'switch %s.(type) {\n\tcase int:\n\t\ty := %s.(int)\n\t\tres = fmt.Sprint("int", y)\n\tcase string:\n\t\tres = "str"\n\t}' % (X("x", 1, "x"), X("x", 2, "x")))


def T_s1036_inc(o, c, X):
    k, v = o[0], o[1]
    return join(X.decl("m", "m", "m := map[int]int{0: 5}"), X.decl("key", k), X.decl("value", v), "defer func() { res = fmt.Sprint(%s) }()" % X.obs("m", "m", "m"),
                "if _, ok := %s[%s]; ok {\n\t\t%s[%s] += %s\n\t} else {\n\t\t%s[%s] = %s\n\t}" % (
                    X("m", 1, "m"), X("key", 1, k), X("m", 2, "m"), X("key", 2, k), X("value", 1, v), X("m", 3, "m"), X("key", 3, k), X("value", 2, v)))


# tag kind -> (tag of the base cases, constants of the last condition, literal case values by slot)
TAGS = {"int": ("i3", ("3", "-1"), None), "str": ("s3", ('"aab"', '"bab"'), ('"ab"', '"ba"')), "bool": ("b3", ("b2", "!b2"), None)}


def tag_operands(kind, o):
    D, consts, lits = TAGS[kind]
    if lits:
        o = [lits[i] if x == '"a"' else x for i, x in enumerate(o)]
    return D, consts, o


def T_qf1002(kind):
    def t(o, c, X):
        D, consts, o = tag_operands(kind, o)
        return join(X.decl("tag", D),
                    'switch {\n\tcase %s == %s:\n\t\tres = "one"\n\tcase %s == %s || %s == %s:\n\t\tres = "two"\n\tdefault:\n\t\tres = "other"\n\t}' % (
                        X("tag", 1, D), o[0], X("tag", 2, D), o[1], X("tag", 3, D), consts[0]))
    return t


def T_qf1003(kind):
    def t(o, c, X):
        D, consts, o = tag_operands(kind, o)
        jump = {"stmt": "", "swcase_break": "\n\t\tbreak", "loop_break": "\n\t\tbreak", "loop_continue": "\n\t\tcontinue"}[c]
        chain = 'if %s == %s {\n\t\tres = "one"%s\n\t} else if %s == %s {\n\t\tres = "two"\n\t} else if %s == %s || %s == %s {\n\t\tres = "nine"%s\n\t} else {\n\t\tres = "other"\n\t}' % (
            X("tag", 1, D), o[0], jump, X("tag", 2, D), o[1], X("tag", 3, D), consts[0], X("tag", 4, D), consts[1], jump)
        if c == "swcase_break":
            # no loop around the chain: the unlabeled break leaves this switch and skips the tail
            chain = 'switch {\n\tcase i1 < 1000000:\n\t' + chain.replace("\n", "\n\t") + '\n\t\tres += ",tail"\n\t}'
        elif c in ("loop_break", "loop_continue"):
            chain = 'for k := 0; k < 2; k++ {\n\t' + chain.replace("\n", "\n\t") + '\n\t\tres += ",tail"\n\t}'
        return join(X.decl("tag", D), chain)
    return t


def T_qf1007(o, c, X):
    X.alt("x", "xo", "xo := false", "xo")
    return join(X.decl("x", "x"), "x := false", "if %s {\n\t\t%s = true\n\t}" % (o[0], X("x", 1, "x")), "res = fmt.Sprint(%s)" % X.obs("x", "x", "x"))


TEMPLATES = {
    "s1002_eqT": T_s1002("eqT"), "s1002_neT": T_s1002("neT"), "s1002_eqF": T_s1002("eqF"), "s1002_neF": T_s1002("neF"), "s1002_Teq": T_s1002("Teq"),
    "s1003_ne": T_s1003("Index", "!= -1"), "s1003_eq": T_s1003("Index", "== -1"), "s1003_ge": T_s1003("Index", ">= 0"),
    "s1003_lt": T_s1003("Index", "< 0"), "s1003_gt": T_s1003("Index", "> -1"), "s1003_any": T_s1003("IndexAny", "!= -1"),
    "s1004_eq": T_s1004("== 0"), "s1004_ne": T_s1004("!= 0"),
    "s1005_rangeiblank": lambda o, c: "n := 0\n\tfor i, _ := range %s {\n\t\tn += i + 1\n\t}\n\tres = fmt.Sprint(n)" % o[0],
    "s1005_rangeblank": lambda o, c: "n := 0\n\tfor _ = range %s {\n\t\tn++\n\t}\n\tres = fmt.Sprint(n)" % o[0],
    "s1010": T_s1010,
    "s1011": T_s1011, "s1011_idx": T_s1011_idx,
    "s1001": T_s1001, "s1001_idx": T_s1001_idx,
    "s1016": T_s1016,
    "s1018": T_s1018,
    "s1021": T_s1021,
    "s1025_str": lambda o, c: 'res = fmt.Sprintf("%%s", %s)' % o[0],
    "s1025_stringer": lambda o, c: 'st := rt.Str(i0)\n\tres = fmt.Sprintf("%s", st)',
    "s1028": lambda o, c: 'err := errors.New(fmt.Sprintf("v=%%d", %s))\n\tres = err.Error()' % o[0],
    "s1030_string": lambda o, c: "var buf bytes.Buffer\n\tbuf.WriteString(s0)\n\tres = string(buf.Bytes())",
    "s1030_bytes": lambda o, c: "var buf bytes.Buffer\n\tbuf.WriteString(s0)\n\tres = fmt.Sprint([]byte(buf.String()))",
    "s1033": T_s1033,
    "s1034": T_s1034,
    "s1036_inc": T_s1036_inc,
    "s1039": lambda o, c: 'res = fmt.Sprint("lit")',
    "qf1001_and2": T_qf1001("!(%s && %s)"), "qf1001_or2": T_qf1001("!(%s || %s)"), "qf1001_and3": T_qf1001("!(%s && %s && %s)"),
    "qf1002": T_qf1002("int"), "qf1002_str": T_qf1002("str"), "qf1002_bool": T_qf1002("bool"),
    "qf1003": T_qf1003("int"), "qf1003_str": T_qf1003("str"), "qf1003_bool": T_qf1003("bool"),
    "qf1004": lambda o, c: "res = strings.Replace(%s, %s, %s, -1)" % (o[0], o[1], o[2]),
    "qf1005_sq": T_qf1005(2), "qf1005_cube": T_qf1005(3),
    "qf1006": lambda o, c: "n := 0\n\tdefer func() { res = fmt.Sprint(n) }()\n\tfor {\n\t\tif %s {\n\t\t\tbreak\n\t\t}\n\t\tn++\n\t\tif n > 2 {\n\t\t\treturn\n\t\t}\n\t}" % o[0],
    "qf1007": T_qf1007,
    "qf1008": lambda o, c: "o := qf1008o{qf1008i{i0}}\n\tres = fmt.Sprint(o.qf1008i.F)",
    "qf1011": lambda o, c: "var x int = %s\n\tres = fmt.Sprint(x)" % o[0],
    "qf1012": lambda o, c: 'var buf bytes.Buffer\n\tvar w io.Writer = &buf\n\tn, err := %s.Write([]byte(fmt.Sprintf("v=%%d", %s)))\n\tres = fmt.Sprint(n, err, buf.String())' % (o[0], o[1]),
}

PKG_DECLS = {
    "s1016": "type s1016a struct {\n\tA int\n\tB string\n}\n\ntype s1016b struct {\n\tA int\n\tB string\n}\n",
    "qf1008": "type qf1008i struct{ F int }\n\ntype qf1008o struct{ qf1008i }\n",
}

LOCALS = [
    (r"\bb(\d)\b", "b%s := rt.In.B[%s]", "B"), (r"\bi(\d)\b", "i%s := rt.In.I[%s]", "I"), (r"\bs(\d)\b", "s%s := rt.In.S[%s]", "S"),
    (r"\bf(\d)\b", "f%s := float64(rt.In.I[%s])", "I"), (r"\bx(\d)\b", "x%s := rt.Sl(rt.In.I[%s])", "I"), (r"\by(\d)\b", "y%s := []byte(rt.In.S[%s])", "S"),
]
CALLS = [(r"rt\.Eb\((\d)\)", ["B"]), (r"rt\.Pb\((\d)\)", ["B", "P"]), (r"rt\.Ei\((\d)\)", ["I"]), (r"rt\.Es\((\d)\)", ["S"]),
         (r"rt\.Ef\((\d)\)", ["I"]), (r"rt\.Esl\((\d)\)", ["I"]), (r"rt\.Ebs\((\d)\)", ["S"])]
IMPORTS = [("fmt.", "fmt"), ("strings.", "strings"), ("bytes.", "bytes"), ("errors.", "errors"), ("math.", "math"), ("io.", "io"), ("rt.", "ex.test/beh/rt")]

RT_GO = '''// Package rt is the observable runtime of the generated behaviour cases.
package rt

import (
	"io"
	"strconv"
)

type Inputs struct {
	B [6]bool
	I [6]int
	S [6]string
	P [6]bool
}

var In Inputs
var Log []int

func Eb(k int) bool { Log = append(Log, k); return In.B[k] }
func Pb(k int) bool {
	Log = append(Log, k)
	if In.P[k] {
		panic("pb")
	}
	return In.B[k]
}
func Ei(k int) int       { Log = append(Log, 10+k); return In.I[k] }
func Es(k int) string    { Log = append(Log, 20+k); return In.S[k] }
func Ef(k int) float64   { Log = append(Log, 30+k); return float64(In.I[k]) }
func Esl(k int) []int    { Log = append(Log, 40+k); return Sl(In.I[k]) }
func Ebs(k int) []byte   { Log = append(Log, 50+k); return []byte(In.S[k]) }
func Ew(w io.Writer) io.Writer { Log = append(Log, 60); return w }

// Sl: n < 0 -> nil, else a fresh slice 10, 20, ...
func Sl(n int) []int {
	if n < 0 {
		return nil
	}
	s := make([]int, n)
	for i := range s {
		s[i] = 10 * (i + 1)
	}
	return s
}

type Str int

func (s Str) String() string { return "S" + strconv.Itoa(int(s)) }
'''

MAIN_GO = '''package main

import (
	"encoding/json"
	"fmt"
	"os"
	"runtime"

	"ex.test/beh/rt"
%(imports)s
)

type obs struct {
	Ret   string `json:"ret"`
	Pan   string `json:"pan"`
	Emits []int  `json:"emits"`
}

type entry struct {
	ID     string
	Inputs []string
	Orig   func() string
	Fixed  func() string
}

var domB = []bool{false, true}
var domI = []int{-1, 0, 1, 3}
var domS = []string{"", "a", "b", "ab", "ba"}

func runOne(f func() string) (o obs) {
	rt.Log = nil
	defer func() {
		if r := recover(); r != nil {
			if _, ok := r.(runtime.Error); ok {
				o.Pan = "runtime error"
			} else {
				o.Pan = "panic: " + fmt.Sprint(r)
			}
		}
		o.Emits = append([]int{}, rt.Log...)
	}()
	o.Ret = f()
	return o
}

func vectors(inputs []string, k int, emit func()) {
	if k == len(inputs) {
		emit()
		return
	}
	idx := int(inputs[k][1] - '0')
	switch inputs[k][0] {
	case 'B':
		for _, v := range domB {
			rt.In.B[idx] = v
			vectors(inputs, k+1, emit)
		}
	case 'P':
		for _, v := range domB {
			rt.In.P[idx] = v
			vectors(inputs, k+1, emit)
		}
	case 'I':
		for _, v := range domI {
			rt.In.I[idx] = v
			vectors(inputs, k+1, emit)
		}
	case 'S':
		for _, v := range domS {
			rt.In.S[idx] = v
			vectors(inputs, k+1, emit)
		}
	}
}

func main() {
	enc := json.NewEncoder(os.Stdout)
	for _, e := range entries {
		var orig, fixed []obs
		var ins []rt.Inputs
		rt.In = rt.Inputs{}
		vectors(e.Inputs, 0, func() {
			saved := rt.In
			orig = append(orig, runOne(e.Orig))
			rt.In = saved
			fixed = append(fixed, runOne(e.Fixed))
			rt.In = saved
			ins = append(ins, saved)
		})
		enc.Encode(map[string]any{"id": e.ID, "orig": orig, "fixed": fixed, "inputs": e.Inputs, "n": len(ins)})
	}
}

var entries = []entry{
%(entries)s
}
'''


def enumerate_cases(ctx):
    r = vlib.run_tlc(ctx, "MCFixCases", "MCFixCases.cfg", workers=2, timeout=900)
    vlib.tlc_require_ok(r, "FixCases enumeration")
    cases = sorted(r.cases, key=case_order)
    if len(cases) != r.distinct:
        raise Inconclusive("MCFixCases emitted %d cases for %d states" % (len(cases), r.distinct))
    shapes = {c["shape"] for c in cases}
    if shapes != set(TEMPLATES):
        raise Inconclusive("shape table of MCFixCases.tla and the templates differ: %s" % sorted(shapes ^ set(TEMPLATES)))
    txt = open(os.path.join(vlib.SPECS, "MCFixCases.tla")).read()
    kinds = {}
    for m in re.finditer(r'\bSR?\("(\w+)",\s*"(\w+)",\s*<<(.*?)>>', txt):
        kinds[m.group(1)] = [{"B": "bool", "I": "int", "T": "str", "F": "flt", "L": "sl", "Y": "bs", "W": "w"}[x] for x in re.findall(r"\b([BITFLYW])\(", m.group(3))]
    # the repeated metavariables of the spec's shape table and of the templates must be the same
    spec_reps = collections.defaultdict(lambda: collections.defaultdict(set))
    for c in cases:
        if c["occ"]["var"] != "same":
            spec_reps[c["shape"]][c["occ"]["mv"]].add(c["occ"]["at"])
    got = {s: {mv: max(ats) for mv, ats in d.items()} for s, d in spec_reps.items()}
    want = {s: {mv: v[1] for mv, v in d.items()} for s, d in REPS.items()}
    if got != want:
        raise Inconclusive("repeated metavariables of MCFixCases.tla and of the templates differ: spec %s / templates %s" % (got, want))
    for s, d in REPS.items():
        for mv, (kind, n, slot) in d.items():
            if slot and kinds[s][slot - 1] != kind:
                raise Inconclusive("metavariable %s of %s is bound to slot %d of kind %s, not %s" % (mv, s, slot, kinds[s][slot - 1], kind))
    return cases, kinds, r


def case_order(c):
    return (c["shape"], c["ctx"], c["effects"], c["occ"]["mv"], c["occ"]["var"], c["occ"]["at"])


def occ_name(c):
    o = c["occ"]
    return "same" if o["var"] == "same" else "%s/%s@%d" % (o["mv"], o["var"], o["at"])


def quick_selection(ctx, cases):
    """all statement shapes, a seeded third of the large boolean families, and one seeded case (variant
    position, operand effects) per (shape, repeated metavariable, variation)"""
    base = [c for c in cases if c["occ"]["var"] == "same"]
    big = [c for c in base if c["shape"].startswith(("qf1001", "s1002", "s1003"))]
    rest = [c for c in base if c not in big]
    groups = collections.defaultdict(list)
    for c in cases:
        if c["occ"]["var"] != "same":
            groups[(c["shape"], c["occ"]["mv"], c["occ"]["var"])].append(c)
    occ = [vlib.sample(ctx, g, 1)[0] for _, g in sorted(groups.items())]
    return sorted(rest + vlib.sample(ctx, big, len(big) // 3) + occ, key=case_order)


def gen_function(name, case, kinds):
    ops = [operand(kinds[case["shape"]][i], e, i) for i, e in enumerate(case["effects"])]
    if case["shape"] in REPS:
        body = TEMPLATES[case["shape"]](ops, case["ctx"], Occ(case))
    else:
        body = TEMPLATES[case["shape"]](ops, case["ctx"])
    decls, inputs = [], set()
    for rx, decl, dom in LOCALS:
        for k in sorted(set(re.findall(rx, body))):
            decls.append("\t" + decl % (k, k))
            inputs.add(dom + k)
    for rx, doms in CALLS:
        for k in set(re.findall(rx, body)):
            for d in doms:
                inputs.add(d + k)
    text = "func %s() (res string) {\n%s\n\t%s\n\treturn res\n}\n" % (name, "\n".join(decls), body)
    return text, sorted(inputs)


def generate(ctx, cases, kinds, root):
    """-> module dir, {file: {"funcs": [(name, first line, last line, case idx)]}}, per-case inputs"""
    os.makedirs(os.path.join(root, "rt"))
    os.makedirs(os.path.join(root, "cases"))
    with open(os.path.join(root, "go.mod"), "w") as f:
        f.write("module ex.test/beh\n\ngo 1.22\n")
    with open(os.path.join(root, "rt", "rt.go"), "w") as f:
        f.write(RT_GO)
    by_shape = collections.defaultdict(list)
    for i, c in enumerate(cases):
        by_shape[c["shape"]].append(i)
    layout, inputs = {}, {}
    for shape, idxs in sorted(by_shape.items()):
        parts, funcs = [], []
        body_all = ""
        fn_texts = []
        for i in idxs:
            name = "C%04d" % i
            text, ins = gen_function(name, cases[i], kinds)
            inputs[i] = ins
            fn_texts.append((name, text, i))
            body_all += text
        imps = sorted(p for tok, p in IMPORTS if tok in body_all or tok in PKG_DECLS.get(shape, ""))
        head = "// Package cases: generated behaviour cases for C16 (shape %s).\npackage cases\n\nimport (\n%s\n)\n\n%s\n" % (
            shape, "\n".join('\t"%s"' % p for p in imps), PKG_DECLS.get(shape, ""))
        line = head.count("\n") + 1
        out = head
        for name, text, i in fn_texts:
            n = text.count("\n")
            funcs.append((name, line, line + n - 1, i))
            out += text + "\n"
            line += n + 1
        fname = os.path.join(root, "cases", "c_%s.go" % shape)
        with open(fname, "w") as f:
            f.write(out)
        layout[fname] = funcs
    return layout, inputs


def run_behaviour(ctx, helper, C16, only=None):
    cases, kinds, tr = enumerate_cases(ctx)
    n_enum_occ = sum(1 for c in cases if c["occ"]["var"] != "same")
    if only:
        # replay: every case of the shape(s); {"shapes": [...], "variations_only": true} is the development form
        shapes = set(only.get("shapes") or [only["shape"]])
        cases = [c for c in cases if c["shape"] in shapes and not (only.get("variations_only") and c["occ"]["var"] == "same")]
    elif ctx.quick or os.environ.get("C16_CAP"):
        cases = quick_selection(ctx, cases)
    root = os.path.join(ctx.tmp("beh"), "mod")
    layout, inputs = generate(ctx, cases, kinds, root)
    env = C16.toolchain_env()
    job = {"id": "behaviour", "dir": root, "patterns": ["./cases"], "tests": False, "env": env, "variant": "generated", "origin": []}

    # the generated originals must compile: a generator bug is never a violation
    rc, so, se = vlib.sh(["go", "build", "./..."], cwd=root, env=vlib.go_env(dict(e.split("=", 1) for e in env)), timeout=1800)
    if rc != 0:
        raise Inconclusive("generated behaviour cases do not compile (generator bug):\n%s" % (so + se)[-3000:])

    stats = C16.new_stats()
    art, dver, fver, c3 = C16.analyse(ctx, helper, [job], "beh", stats)
    if stats["job_errors"] or stats["failed_pkgs"]:
        raise Inconclusive("the runner failed on the generated behaviour package: %s %s" % (stats["job_errors"][:2], stats["failed_pkgs"][:2]))

    # offered S*/QF* fixes per function, in (position, fix order)
    per_func = collections.defaultdict(list)   # case idx -> [(fix record, meta)]
    for fx, meta in zip(art.fixes, art.fmeta):
        cat = meta["diag"]["cat"]
        if not re.match(r"(S1|QF1)\d+$", cat) or cat in NOT_EQUIVALENT:
            continue
        fname = meta["diag"]["pos"]["file"]
        line = meta["diag"]["pos"]["line"]
        for (name, a, b, idx) in layout.get(fname, []):
            if a <= line <= b:
                if c3.get(fx["id"]) == "ok" and fx["edits"]:
                    per_func[idx].append((fx, meta))
                break
    nvar = max([len(v) for v in per_func.values()] or [0])
    if not per_func:
        raise Inconclusive("no S*/QF* fix was offered on the generated behaviour cases")

    # fixed variants: variant n applies the n-th fix of every function that has one
    pkgs = []
    for n in range(nvar):
        items, chosen = [], {}
        for fname, funcs in layout.items():
            edits, newtext = [], []
            for (name, a, b, idx) in funcs:
                if len(per_func[idx]) > n:
                    fx, meta = per_func[idx][n]
                    edits += fx["edits"]
                    newtext += [e["new"] for e in meta["fix"]["edits"]]
                    chosen[idx] = (fx, meta)
            if not edits:
                continue
            content = art.read(fname)
            patched = C16.py_splice(content, edits)
            items.append({"id": fname, "dir": root, "patterns": ["./cases"], "tests": False, "env": env, "pkg": "ex.test/beh/cases", "file": fname,
                          "patched_b64": base64.b64encode(patched).decode(), "newtext": newtext, "want_src": True})
        verdicts = C16.run_check(ctx, helper, items, "beh%d" % n)
        pdir = os.path.join(root, "fixed%d" % n)
        os.makedirs(pdir)
        ok_files = set()
        for it in items:
            v = verdicts[it["id"]]
            if v["status"] != "ok" or not v.get("src"):
                raise Inconclusive("fixes that type-check one by one do not type-check together in %s: %s" % (it["id"], v.get("errors") or v.get("why")))
            src = re.sub(r"(?m)^package cases$", "package fixed%d" % n, v["src"], count=1)
            with open(os.path.join(pdir, os.path.basename(it["id"])), "w") as f:
                f.write(src)
            ok_files.add(it["id"])
        pkgs.append((n, chosen))

    # main program
    entries, imports = [], []
    for n, chosen in pkgs:
        imports.append('\t"ex.test/beh/fixed%d"' % n)
        for idx in sorted(chosen):
            entries.append('\t{"%d#%d", []string{%s}, cases.C%04d, fixed%d.C%04d},' % (idx, n, ", ".join('"%s"' % s for s in inputs[idx]), idx, n, idx))
    imports.append('\t"ex.test/beh/cases"')
    with open(os.path.join(root, "main.go"), "w") as f:
        f.write(MAIN_GO % {"imports": "\n".join(imports), "entries": "\n".join(entries)})
    binp = os.path.join(ctx.tmp("bin"), "beh.bin")
    goenv = vlib.go_env(dict(e.split("=", 1) for e in env))
    rc, so, se = vlib.sh(["go", "build", "-o", binp, "."], cwd=root, env=goenv, timeout=1800)
    if rc != 0:
        raise Inconclusive("the fixed behaviour program does not build although every fix type-checked:\n%s" % (so + se)[-3000:])
    rc, so, se = vlib.sh([binp], timeout=900)
    if rc != 0:
        raise Inconclusive("behaviour program failed rc=%d: %s" % (rc, se[-2000:]))
    tables = [json.loads(l) for l in so.splitlines()]
    if len(tables) != len(entries):
        raise Inconclusive("behaviour program produced %d tables for %d entries" % (len(tables), len(entries)))
    execs = sum(2 * t["n"] for t in tables)

    # TLC judges the tables
    beh = [{"id": t["id"], "orig": t["orig"], "fixed": t["fixed"]} for t in tables]
    verdicts = {}
    states = 0
    for i in range(0, len(beh), 1500):
        r = vlib.run_tlc(ctx, "FixCasesObs", "FixCasesObs.cfg", workers=2, timeout=1800, extra_files={"beh.json": json.dumps(beh[i:i + 1500])})
        vlib.tlc_require_ok(r, "FixCasesObs")
        for c in r.cases:
            verdicts[c["id"]] = c
        states += r.distinct
    if len(verdicts) != len(beh):
        raise Inconclusive("FixCasesObs judged %d of %d tables" % (len(verdicts), len(beh)))

    by_n = dict(pkgs)
    nviol = 0
    for t in tables:
        v = verdicts[t["id"]]
        py_ok = t["orig"] == t["fixed"]
        if v["preserved"] != py_ok:
            raise Inconclusive("TLC and Python disagree on table %s" % t["id"])
        if v["preserved"]:
            continue
        idx, n = [int(x) for x in t["id"].split("#")]
        fx, meta = by_n[n][idx]
        case = cases[idx]
        vec = v["vector"] - 1
        cat = meta["diag"]["cat"]
        nviol += 1
        fname = meta["diag"]["pos"]["file"]
        name, a, b, _ = next(f for f in layout[fname] if f[3] == idx)
        src_lines = open(fname).read().split("\n")[a - 1:b]
        key = vlib.canon_key({"clause": 4, "cat": cat, "shape": case["shape"], "fix": C16.norm_msg(meta["fix"]["msg"]), "why": v["why"]})
        if case["occ"]["var"] != "same":
            key = vlib.canon_key({"clause": 4, "cat": cat, "shape": case["shape"], "fix": C16.norm_msg(meta["fix"]["msg"]), "why": v["why"],
                                  "occ": {"mv": case["occ"]["mv"], "var": case["occ"]["var"]}})
        ctx.violation(key, "%s fix %r changes behaviour of shape %s (effects %s, context %s, occurrences %s): %s" % (cat, meta["fix"]["msg"], case["shape"], case["effects"], case["ctx"], occ_name(case), v["why"]),
                      {"clause": 4, "category": cat, "shape": case["shape"], "why": v["why"], "abstract": case, "fix": {"msg": meta["fix"]["msg"], "edits": [{"new": e["new"], "pos": e["pos"]["off"], "end": e["end"]["off"]} for e in meta["fix"]["edits"]]},
                       "function": "\n".join(src_lines), "input_vector_index": vec, "inputs": t["inputs"], "orig": t["orig"][vec], "fixed": t["fixed"][vec]})

    # negative self-test: a table with one flipped observation must be rejected by TLC
    good = next((t for t in tables if t["orig"] == t["fixed"] and t["n"] > 0), None)
    if good is None:
        raise Inconclusive("no behaviour table with equal observations to build the negative self-test from")
    bad = json.loads(json.dumps({"id": good["id"], "orig": good["orig"], "fixed": good["fixed"]}))
    bad["fixed"][-1]["emits"] = bad["fixed"][-1]["emits"] + [bad["fixed"][-1]["emits"][-1] if bad["fixed"][-1]["emits"] else 0]
    r = vlib.run_tlc(ctx, "FixCasesObs", "FixCasesObs_strict.cfg", workers=1, timeout=600, extra_files={"beh.json": json.dumps([bad])})
    if r.violated != "BehaviourPreserved":
        raise Inconclusive("negative self-test: TLC accepted a behaviour table with a duplicated operand evaluation (%s)" % r.violated)

    offered = collections.Counter(cases[i]["shape"] for i in per_func if per_func[i])
    occ_idx = [i for i, c in enumerate(cases) if c["occ"]["var"] != "same"]
    occ_fired = collections.Counter(cases[i]["occ"]["var"] for i in occ_idx if per_func[i])
    occ_all = collections.Counter(cases[i]["occ"]["var"] for i in occ_idx)
    occ_diff_by_var = collections.Counter(cases[int(t["id"].split("#")[0])]["occ"]["var"] for t in tables
                                          if not verdicts[t["id"]]["preserved"] and cases[int(t["id"].split("#")[0])]["occ"]["var"] != "same")
    occ_diff = sorted({"%s %s" % (cases[int(t["id"].split("#")[0])]["shape"], occ_name(cases[int(t["id"].split("#")[0])]))
                       for t in tables if not verdicts[t["id"]]["preserved"] and cases[int(t["id"].split("#")[0])]["occ"]["var"] != "same"})
    sample_t = tables[len(tables) // 2]
    si, sn = [int(x) for x in sample_t["id"].split("#")]
    return {
        "abstract_cases_enumerated": tr.distinct, "cases_instantiated": len(cases), "cases_with_fix": sum(1 for i in per_func if per_func[i]),
        "fix_applications_executed": len(tables), "executions": execs, "tables_judged_by_tlc": len(verdicts), "tlc_states": states + tr.distinct,
        "behaviour_differences": nviol, "shapes": len(TEMPLATES),
        "occurrence_variation": {
            "cases_enumerated": n_enum_occ, "cases_instantiated": len(occ_idx),
            "repeated_metavariables": sum(len(d) for d in REPS.values()), "shapes_with_repeated_metavariable": len(REPS),
            "triples_shape_mv_variation": len({(cases[i]["shape"], cases[i]["occ"]["mv"], cases[i]["occ"]["var"]) for i in occ_idx}),
            "cases_by_variation": dict(sorted(occ_all.items())),
            "cases_where_the_check_still_fired_by_variation": dict(sorted(occ_fired.items())),
            "differing_tables_by_variation": dict(sorted(occ_diff_by_var.items())),
            "variation_cases_with_behaviour_difference": occ_diff[:200],
        }, "shapes_with_fix_offered": dict(sorted(offered.items())),
        "shapes_never_offered_a_fix": sorted(set(TEMPLATES) - set(offered)),
        "generated_package_diagnostics": stats["diagnostics"], "generated_package_fixes": stats["fixes"],
        "sample": {"abstract": cases[si], "fix": by_n[sn][si][1]["fix"]["msg"], "inputs": sample_t["inputs"], "orig_first": sample_t["orig"][:2], "fixed_first": sample_t["fixed"][:2]},
    }
