def run_behaviour(ctx, helper, run_record, run_check, only=None):
    return {"executions": 0, "cases_with_fix": 0}
