"""C16 clause (4): behaviour of S*/QF* fixes.

TLC (specs/MCFixCases.tla) enumerates the abstract cases  shape x operand effects x context;
this module instantiates each as an executable Go function (one template per shape id), runs
the real analyzers on the generated package through the same record -> FixesObs -> go/types
pipeline as every other input, applies every offered S*/QF* fix, compiles original and fixed
functions natively, runs both on every input vector of the case's domain, and hands the
observation tables to TLC (specs/FixCasesObs.tla), which evaluates FixCases!Preserved.
"""
import base64
import collections
import itertools
import json
import os
import re

import vlib
from vlib import Inconclusive

# QF1009 (== on time.Time -> Equal) and QF1010 (print []byte as string) are documented as
# changing behaviour on purpose; they are not "equivalent rewrites" and have no template.

NOT_EQUIVALENT = {"QF1009", "QF1010"}

PARTNER = 3   # index of the second variable of compound operands
CTXV = 4      # index of the context variable


def operand(kind, eff, k):
    p = PARTNER
    table = {
        "bool": {"var": "b%d" % k, "call": "rt.Eb(%d)" % k, "pcall": "rt.Pb(%d)" % k, "or": "b%d || b%d" % (k, p),
                 "and": "b%d && b%d" % (k, p), "not": "!b%d" % k, "cmp": "i%d < 1" % k},
        "int": {"var": "i%d" % k, "lit": str(k + 1), "call": "rt.Ei(%d)" % k, "add": "i%d + 1" % k},
        "str": {"var": "s%d" % k, "lit": '"a"', "call": "rt.Es(%d)" % k, "cat": 's%d + "b"' % k},
        "flt": {"var": "f%d" % k, "call": "rt.Ef(%d)" % k, "add": "f%d + 1" % k},
        "sl": {"var": "x%d" % k, "call": "rt.Esl(%d)" % k},
        "bs": {"var": "y%d" % k, "call": "rt.Ebs(%d)" % k},
        "w": {"var": "w", "call": "rt.Ew(w)"},
    }
    return table[kind][eff]


def boolctx(E, ctx, paren_bang=False):
    if ctx == "bang" and paren_bang:
        E = "(" + E + ")"
    cond = {"if": E, "andR": "b%d && %s" % (CTXV, E), "orR": "b%d || %s" % (CTXV, E), "bang": "!" + E, "eqL": "%s == b%d" % (E, CTXV)}[ctx]
    return 'if %s {\n\t\tres = "T"\n\t} else {\n\t\tres = "F"\n\t}' % cond


def T_s1002(op):
    def t(o, ctx):
        x = o[0]
        compound = " " in x
        # keep the source well-typed: `true == a < 1` / `!a < 1 == true` would apply ==/! to an int
        if compound and (op == "Teq" or (ctx == "bang" and "<" in x)):
            o = ["(" + x + ")"]
        return boolctx({"eqT": "%s == true", "neT": "%s != true", "eqF": "%s == false", "neF": "%s != false", "Teq": "true == %s"}[op] % o[0], ctx)
    return t


def T_s1003(fn, cmp):
    def t(o, ctx):
        return boolctx("strings.%s(%s, %s) %s" % (fn, o[0], o[1], cmp), ctx, paren_bang=True)
    return t


def T_s1004(cmp):
    def t(o, ctx):
        return boolctx("bytes.Compare(%s, %s) %s" % (o[0], o[1], cmp), ctx, paren_bang=True)
    return t


def T_qf1001(fmt_):
    def t(o, ctx):
        return boolctx(fmt_ % tuple(o), ctx)
    return t


def T_qf1005(n):
    def t(o, ctx):
        e = "math.Pow(%s, %d)" % (o[0], n)
        e = {"stmt": e, "div": "8 / " + e, "neg": "-" + e}[ctx]
        return "res = fmt.Sprint(%s)" % e
    return t


TEMPLATES = {
    "s1002_eqT": T_s1002("eqT"), "s1002_neT": T_s1002("neT"), "s1002_eqF": T_s1002("eqF"), "s1002_neF": T_s1002("neF"), "s1002_Teq": T_s1002("Teq"),
    "s1003_ne": T_s1003("Index", "!= -1"), "s1003_eq": T_s1003("Index", "== -1"), "s1003_ge": T_s1003("Index", ">= 0"),
    "s1003_lt": T_s1003("Index", "< 0"), "s1003_gt": T_s1003("Index", "> -1"), "s1003_any": T_s1003("IndexAny", "!= -1"),
    "s1004_eq": T_s1004("== 0"), "s1004_ne": T_s1004("!= 0"),
    "s1005_rangeiblank": lambda o, c: "n := 0\n\tfor i, _ := range %s {\n\t\tn += i + 1\n\t}\n\tres = fmt.Sprint(n)" % o[0],
    "s1005_rangeblank": lambda o, c: "n := 0\n\tfor _ = range %s {\n\t\tn++\n\t}\n\tres = fmt.Sprint(n)" % o[0],
    "s1010": lambda o, c: "res = fmt.Sprint(x3[%s:len(x3)])" % o[0],
    "s1011": lambda o, c: "var dst []int\n\tdst = append(dst, 7)\n\tfor _, e := range %s {\n\t\tdst = append(dst, e)\n\t}\n\tres = fmt.Sprint(dst)" % o[0],
    "s1001": lambda o, c: "dst := make([]int, 2)\n\tdefer func() { res = fmt.Sprint(dst) }()\n\tfor i, e := range %s {\n\t\tdst[i] = e\n\t}" % o[0],
    "s1016": lambda o, c: "v := s1016a{i0, s0}\n\tw := s1016b{A: v.A, B: v.B}\n\tres = fmt.Sprint(w)",
    "s1018": lambda o, c: "bs := []int{1, 2, 3, 4, 5}\n\tdefer func() { res = fmt.Sprint(bs) }()\n\tn, offset := %s, %s\n\tfor i := 0; i < n; i++ {\n\t\tbs[i] = bs[offset+i]\n\t}" % (o[0], o[1]),
    "s1021": lambda o, c: "var x int\n\tx = %s\n\tres = fmt.Sprint(x)" % o[0],
    "s1025_str": lambda o, c: 'res = fmt.Sprintf("%%s", %s)' % o[0],
    "s1025_stringer": lambda o, c: 'st := rt.Str(i0)\n\tres = fmt.Sprintf("%s", st)',
    "s1028": lambda o, c: 'err := errors.New(fmt.Sprintf("v=%%d", %s))\n\tres = err.Error()' % o[0],
    "s1030_string": lambda o, c: "var buf bytes.Buffer\n\tbuf.WriteString(s0)\n\tres = string(buf.Bytes())",
    "s1030_bytes": lambda o, c: "var buf bytes.Buffer\n\tbuf.WriteString(s0)\n\tres = fmt.Sprint([]byte(buf.String()))",
    "s1033": lambda o, c: "m := map[int]int{0: 1, 1: 2}\n\tdefer func() { res = fmt.Sprint(m) }()\n\tif _, ok := m[%s]; ok {\n\t\tdelete(m, %s)\n\t}" % (o[0], o[0]),
    "s1034": lambda o, c: 'var x interface{} = i0\n\tif b0 {\n\t\tx = s0\n\t}\n\tswitch x.(type) {\n\tcase int:\n\t\ty := x.(int)\n\t\tres = fmt.Sprint("int", y)\n\tcase string:\n\t\tres = "str"\n\t}',
    "s1036_inc": lambda o, c: "m := map[int]int{0: 5}\n\tdefer func() { res = fmt.Sprint(m) }()\n\tif _, ok := m[%s]; ok {\n\t\tm[%s] += %s\n\t} else {\n\t\tm[%s] = %s\n\t}" % (o[0], o[0], o[1], o[0], o[1]),
    "s1039": lambda o, c: 'res = fmt.Sprint("lit")',
    "qf1001_and2": T_qf1001("!(%s && %s)"), "qf1001_or2": T_qf1001("!(%s || %s)"), "qf1001_and3": T_qf1001("!(%s && %s && %s)"),
    "qf1002": lambda o, c: 'switch {\n\tcase i3 == %s:\n\t\tres = "one"\n\tcase i3 == %s || i3 == 7:\n\t\tres = "two"\n\tdefault:\n\t\tres = "other"\n\t}' % (o[0], o[1]),
    "qf1003": lambda o, c: 'if i3 == %s {\n\t\tres = "one"\n\t} else if i3 == %s {\n\t\tres = "two"\n\t} else if i3 == 9 {\n\t\tres = "nine"\n\t} else {\n\t\tres = "other"\n\t}' % (o[0], o[1]),
    "qf1004": lambda o, c: "res = strings.Replace(%s, %s, %s, -1)" % (o[0], o[1], o[2]),
    "qf1005_sq": T_qf1005(2), "qf1005_cube": T_qf1005(3),
    "qf1006": lambda o, c: "n := 0\n\tdefer func() { res = fmt.Sprint(n) }()\n\tfor {\n\t\tif %s {\n\t\t\tbreak\n\t\t}\n\t\tn++\n\t\tif n > 2 {\n\t\t\treturn\n\t\t}\n\t}" % o[0],
    "qf1007": lambda o, c: "x := false\n\tif %s {\n\t\tx = true\n\t}\n\tres = fmt.Sprint(x)" % o[0],
    "qf1008": lambda o, c: "o := qf1008o{qf1008i{i0}}\n\tres = fmt.Sprint(o.qf1008i.F)",
    "qf1011": lambda o, c: "var x int = %s\n\tres = fmt.Sprint(x)" % o[0],
    "qf1012": lambda o, c: 'var buf bytes.Buffer\n\tvar w io.Writer = &buf\n\tn, err := %s.Write([]byte(fmt.Sprintf("v=%%d", %s)))\n\tres = fmt.Sprint(n, err, buf.String())' % (o[0], o[1]),
}

PKG_DECLS = {
    "s1016": "type s1016a struct {\n\tA int\n\tB string\n}\n\ntype s1016b struct {\n\tA int\n\tB string\n}\n",
    "qf1008": "type qf1008i struct{ F int }\n\ntype qf1008o struct{ qf1008i }\n",
}

LOCALS = [
    (r"\bb(\d)\b", "b%s := rt.In.B[%s]", "B"), (r"\bi(\d)\b", "i%s := rt.In.I[%s]", "I"), (r"\bs(\d)\b", "s%s := rt.In.S[%s]", "S"),
    (r"\bf(\d)\b", "f%s := float64(rt.In.I[%s])", "I"), (r"\bx(\d)\b", "x%s := rt.Sl(rt.In.I[%s])", "I"), (r"\by(\d)\b", "y%s := []byte(rt.In.S[%s])", "S"),
]
CALLS = [(r"rt\.Eb\((\d)\)", ["B"]), (r"rt\.Pb\((\d)\)", ["B", "P"]), (r"rt\.Ei\((\d)\)", ["I"]), (r"rt\.Es\((\d)\)", ["S"]),
         (r"rt\.Ef\((\d)\)", ["I"]), (r"rt\.Esl\((\d)\)", ["I"]), (r"rt\.Ebs\((\d)\)", ["S"])]
IMPORTS = [("fmt.", "fmt"), ("strings.", "strings"), ("bytes.", "bytes"), ("errors.", "errors"), ("math.", "math"), ("io.", "io"), ("rt.", "ex.test/beh/rt")]

RT_GO = '''// Package rt is the observable runtime of the generated behaviour cases.
package rt

import (
	"io"
	"strconv"
)

type Inputs struct {
	B [6]bool
	I [6]int
	S [6]string
	P [6]bool
}

var In Inputs
var Log []int

func Eb(k int) bool { Log = append(Log, k); return In.B[k] }
func Pb(k int) bool {
	Log = append(Log, k)
	if In.P[k] {
		panic("pb")
	}
	return In.B[k]
}
func Ei(k int) int       { Log = append(Log, 10+k); return In.I[k] }
func Es(k int) string    { Log = append(Log, 20+k); return In.S[k] }
func Ef(k int) float64   { Log = append(Log, 30+k); return float64(In.I[k]) }
func Esl(k int) []int    { Log = append(Log, 40+k); return Sl(In.I[k]) }
func Ebs(k int) []byte   { Log = append(Log, 50+k); return []byte(In.S[k]) }
func Ew(w io.Writer) io.Writer { Log = append(Log, 60); return w }

// Sl: n < 0 -> nil, else a fresh slice 10, 20, ...
func Sl(n int) []int {
	if n < 0 {
		return nil
	}
	s := make([]int, n)
	for i := range s {
		s[i] = 10 * (i + 1)
	}
	return s
}

type Str int

func (s Str) String() string { return "S" + strconv.Itoa(int(s)) }
'''

MAIN_GO = '''package main

import (
	"encoding/json"
	"fmt"
	"os"
	"runtime"

	"ex.test/beh/rt"
%(imports)s
)

type obs struct {
	Ret   string `json:"ret"`
	Pan   string `json:"pan"`
	Emits []int  `json:"emits"`
}

type entry struct {
	ID     string
	Inputs []string
	Orig   func() string
	Fixed  func() string
}

var domB = []bool{false, true}
var domI = []int{-1, 0, 1, 3}
var domS = []string{"", "a", "ab", "ba"}

func runOne(f func() string) (o obs) {
	rt.Log = nil
	defer func() {
		if r := recover(); r != nil {
			if _, ok := r.(runtime.Error); ok {
				o.Pan = "runtime error"
			} else {
				o.Pan = "panic: " + fmt.Sprint(r)
			}
		}
		o.Emits = append([]int{}, rt.Log...)
	}()
	o.Ret = f()
	return o
}

func vectors(inputs []string, k int, emit func()) {
	if k == len(inputs) {
		emit()
		return
	}
	idx := int(inputs[k][1] - '0')
	switch inputs[k][0] {
	case 'B':
		for _, v := range domB {
			rt.In.B[idx] = v
			vectors(inputs, k+1, emit)
		}
	case 'P':
		for _, v := range domB {
			rt.In.P[idx] = v
			vectors(inputs, k+1, emit)
		}
	case 'I':
		for _, v := range domI {
			rt.In.I[idx] = v
			vectors(inputs, k+1, emit)
		}
	case 'S':
		for _, v := range domS {
			rt.In.S[idx] = v
			vectors(inputs, k+1, emit)
		}
	}
}

func main() {
	enc := json.NewEncoder(os.Stdout)
	for _, e := range entries {
		var orig, fixed []obs
		var ins []rt.Inputs
		rt.In = rt.Inputs{}
		vectors(e.Inputs, 0, func() {
			saved := rt.In
			orig = append(orig, runOne(e.Orig))
			rt.In = saved
			fixed = append(fixed, runOne(e.Fixed))
			rt.In = saved
			ins = append(ins, saved)
		})
		enc.Encode(map[string]any{"id": e.ID, "orig": orig, "fixed": fixed, "inputs": e.Inputs, "n": len(ins)})
	}
}

var entries = []entry{
%(entries)s
}
'''


def enumerate_cases(ctx):
    r = vlib.run_tlc(ctx, "MCFixCases", "MCFixCases.cfg", workers=2, timeout=900)
    vlib.tlc_require_ok(r, "FixCases enumeration")
    cases = sorted(r.cases, key=lambda c: (c["shape"], c["ctx"], c["effects"]))
    if len(cases) != r.distinct:
        raise Inconclusive("MCFixCases emitted %d cases for %d states" % (len(cases), r.distinct))
    shapes = {c["shape"] for c in cases}
    if shapes != set(TEMPLATES):
        raise Inconclusive("shape table of MCFixCases.tla and the templates differ: %s" % sorted(shapes ^ set(TEMPLATES)))
    txt = open(os.path.join(vlib.SPECS, "MCFixCases.tla")).read()
    kinds = {}
    for m in re.finditer(r'S\("(\w+)",\s*"(\w+)",\s*<<(.*?)>>', txt):
        kinds[m.group(1)] = [{"B": "bool", "I": "int", "T": "str", "F": "flt", "L": "sl", "Y": "bs", "W": "w"}[x] for x in re.findall(r"\b([BITFLYW])\(", m.group(3))]
    return cases, kinds, r


def gen_function(name, case, kinds):
    ops = [operand(kinds[case["shape"]][i], e, i) for i, e in enumerate(case["effects"])]
    body = TEMPLATES[case["shape"]](ops, case["ctx"])
    decls, inputs = [], set()
    for rx, decl, dom in LOCALS:
        for k in sorted(set(re.findall(rx, body))):
            decls.append("\t" + decl % (k, k))
            inputs.add(dom + k)
    for rx, doms in CALLS:
        for k in set(re.findall(rx, body)):
            for d in doms:
                inputs.add(d + k)
    text = "func %s() (res string) {\n%s\n\t%s\n\treturn res\n}\n" % (name, "\n".join(decls), body)
    return text, sorted(inputs)


def generate(ctx, cases, kinds, root):
    """-> module dir, {file: {"funcs": [(name, first line, last line, case idx)]}}, per-case inputs"""
    os.makedirs(os.path.join(root, "rt"))
    os.makedirs(os.path.join(root, "cases"))
    with open(os.path.join(root, "go.mod"), "w") as f:
        f.write("module ex.test/beh\n\ngo 1.22\n")
    with open(os.path.join(root, "rt", "rt.go"), "w") as f:
        f.write(RT_GO)
    by_shape = collections.defaultdict(list)
    for i, c in enumerate(cases):
        by_shape[c["shape"]].append(i)
    layout, inputs = {}, {}
    for shape, idxs in sorted(by_shape.items()):
        parts, funcs = [], []
        body_all = ""
        fn_texts = []
        for i in idxs:
            name = "C%04d" % i
            text, ins = gen_function(name, cases[i], kinds)
            inputs[i] = ins
            fn_texts.append((name, text, i))
            body_all += text
        imps = sorted(p for tok, p in IMPORTS if tok in body_all or tok in PKG_DECLS.get(shape, ""))
        head = "// Package cases: generated behaviour cases for C16 (shape %s).\npackage cases\n\nimport (\n%s\n)\n\n%s\n" % (
            shape, "\n".join('\t"%s"' % p for p in imps), PKG_DECLS.get(shape, ""))
        line = head.count("\n") + 1
        out = head
        for name, text, i in fn_texts:
            n = text.count("\n")
            funcs.append((name, line, line + n - 1, i))
            out += text + "\n"
            line += n + 1
        fname = os.path.join(root, "cases", "c_%s.go" % shape)
        with open(fname, "w") as f:
            f.write(out)
        layout[fname] = funcs
    return layout, inputs


def run_behaviour(ctx, helper, C16, only=None):
    cases, kinds, tr = enumerate_cases(ctx)
    if only:
        cases = [c for c in cases if c["shape"] == only["shape"]]
    elif ctx.quick or os.environ.get("C16_CAP"):
        # all statement shapes and a seeded third of the large boolean families
        big = [c for c in cases if c["shape"].startswith(("qf1001", "s1002", "s1003"))]
        rest = [c for c in cases if c not in big]
        cases = sorted(rest + vlib.sample(ctx, big, len(big) // 3), key=lambda c: (c["shape"], c["ctx"], c["effects"]))
    root = os.path.join(ctx.tmp("beh"), "mod")
    layout, inputs = generate(ctx, cases, kinds, root)
    env = C16.toolchain_env()
    job = {"id": "behaviour", "dir": root, "patterns": ["./cases"], "tests": False, "env": env, "variant": "generated", "origin": []}

    # the generated originals must compile: a generator bug is never a violation
    rc, so, se = vlib.sh(["go", "build", "./..."], cwd=root, env=vlib.go_env(dict(e.split("=", 1) for e in env)), timeout=1800)
    if rc != 0:
        raise Inconclusive("generated behaviour cases do not compile (generator bug):\n%s" % (so + se)[-3000:])

    stats = C16.new_stats()
    art, dver, fver, c3 = C16.analyse(ctx, helper, [job], "beh", stats)
    if stats["job_errors"] or stats["failed_pkgs"]:
        raise Inconclusive("the runner failed on the generated behaviour package: %s %s" % (stats["job_errors"][:2], stats["failed_pkgs"][:2]))

    # offered S*/QF* fixes per function, in (position, fix order)
    per_func = collections.defaultdict(list)   # case idx -> [(fix record, meta)]
    for fx, meta in zip(art.fixes, art.fmeta):
        cat = meta["diag"]["cat"]
        if not re.match(r"(S1|QF1)\d+$", cat) or cat in NOT_EQUIVALENT:
            continue
        fname = meta["diag"]["pos"]["file"]
        line = meta["diag"]["pos"]["line"]
        for (name, a, b, idx) in layout.get(fname, []):
            if a <= line <= b:
                if c3.get(fx["id"]) == "ok" and fx["edits"]:
                    per_func[idx].append((fx, meta))
                break
    nvar = max([len(v) for v in per_func.values()] or [0])
    if not per_func:
        raise Inconclusive("no S*/QF* fix was offered on the generated behaviour cases")

    # fixed variants: variant n applies the n-th fix of every function that has one
    pkgs = []
    for n in range(nvar):
        items, chosen = [], {}
        for fname, funcs in layout.items():
            edits, newtext = [], []
            for (name, a, b, idx) in funcs:
                if len(per_func[idx]) > n:
                    fx, meta = per_func[idx][n]
                    edits += fx["edits"]
                    newtext += [e["new"] for e in meta["fix"]["edits"]]
                    chosen[idx] = (fx, meta)
            if not edits:
                continue
            content = art.read(fname)
            patched = C16.py_splice(content, edits)
            items.append({"id": fname, "dir": root, "patterns": ["./cases"], "tests": False, "env": env, "pkg": "ex.test/beh/cases", "file": fname,
                          "patched_b64": base64.b64encode(patched).decode(), "newtext": newtext, "want_src": True})
        verdicts = C16.run_check(ctx, helper, items, "beh%d" % n)
        pdir = os.path.join(root, "fixed%d" % n)
        os.makedirs(pdir)
        ok_files = set()
        for it in items:
            v = verdicts[it["id"]]
            if v["status"] != "ok" or not v.get("src"):
                raise Inconclusive("fixes that type-check one by one do not type-check together in %s: %s" % (it["id"], v.get("errors") or v.get("why")))
            src = re.sub(r"(?m)^package cases$", "package fixed%d" % n, v["src"], count=1)
            with open(os.path.join(pdir, os.path.basename(it["id"])), "w") as f:
                f.write(src)
            ok_files.add(it["id"])
        pkgs.append((n, chosen))

    # main program
    entries, imports = [], []
    for n, chosen in pkgs:
        imports.append('\t"ex.test/beh/fixed%d"' % n)
        for idx in sorted(chosen):
            entries.append('\t{"%d#%d", []string{%s}, cases.C%04d, fixed%d.C%04d},' % (idx, n, ", ".join('"%s"' % s for s in inputs[idx]), idx, n, idx))
    imports.append('\t"ex.test/beh/cases"')
    with open(os.path.join(root, "main.go"), "w") as f:
        f.write(MAIN_GO % {"imports": "\n".join(imports), "entries": "\n".join(entries)})
    binp = os.path.join(ctx.tmp("bin"), "beh.bin")
    goenv = vlib.go_env(dict(e.split("=", 1) for e in env))
    rc, so, se = vlib.sh(["go", "build", "-o", binp, "."], cwd=root, env=goenv, timeout=1800)
    if rc != 0:
        raise Inconclusive("the fixed behaviour program does not build although every fix type-checked:\n%s" % (so + se)[-3000:])
    rc, so, se = vlib.sh([binp], timeout=900)
    if rc != 0:
        raise Inconclusive("behaviour program failed rc=%d: %s" % (rc, se[-2000:]))
    tables = [json.loads(l) for l in so.splitlines()]
    if len(tables) != len(entries):
        raise Inconclusive("behaviour program produced %d tables for %d entries" % (len(tables), len(entries)))
    execs = sum(2 * t["n"] for t in tables)

    # TLC judges the tables
    beh = [{"id": t["id"], "orig": t["orig"], "fixed": t["fixed"]} for t in tables]
    verdicts = {}
    states = 0
    for i in range(0, len(beh), 1500):
        r = vlib.run_tlc(ctx, "FixCasesObs", "FixCasesObs.cfg", workers=2, timeout=1800, extra_files={"beh.json": json.dumps(beh[i:i + 1500])})
        vlib.tlc_require_ok(r, "FixCasesObs")
        for c in r.cases:
            verdicts[c["id"]] = c
        states += r.distinct
    if len(verdicts) != len(beh):
        raise Inconclusive("FixCasesObs judged %d of %d tables" % (len(verdicts), len(beh)))

    by_n = dict(pkgs)
    nviol = 0
    for t in tables:
        v = verdicts[t["id"]]
        py_ok = t["orig"] == t["fixed"]
        if v["preserved"] != py_ok:
            raise Inconclusive("TLC and Python disagree on table %s" % t["id"])
        if v["preserved"]:
            continue
        idx, n = [int(x) for x in t["id"].split("#")]
        fx, meta = by_n[n][idx]
        case = cases[idx]
        vec = v["vector"] - 1
        cat = meta["diag"]["cat"]
        nviol += 1
        fname = meta["diag"]["pos"]["file"]
        name, a, b, _ = next(f for f in layout[fname] if f[3] == idx)
        src_lines = open(fname).read().split("\n")[a - 1:b]
        key = vlib.canon_key({"clause": 4, "cat": cat, "shape": case["shape"], "fix": C16.norm_msg(meta["fix"]["msg"]), "why": v["why"]})
        ctx.violation(key, "%s fix %r changes behaviour of shape %s (effects %s, context %s): %s" % (cat, meta["fix"]["msg"], case["shape"], case["effects"], case["ctx"], v["why"]),
                      {"clause": 4, "category": cat, "shape": case["shape"], "why": v["why"], "abstract": case, "fix": {"msg": meta["fix"]["msg"], "edits": [{"new": e["new"], "pos": e["pos"]["off"], "end": e["end"]["off"]} for e in meta["fix"]["edits"]]},
                       "function": "\n".join(src_lines), "input_vector_index": vec, "inputs": t["inputs"], "orig": t["orig"][vec], "fixed": t["fixed"][vec]})

    # negative self-test: a table with one flipped observation must be rejected by TLC
    good = next((t for t in tables if t["orig"] == t["fixed"] and t["n"] > 0), None)
    if good is None:
        raise Inconclusive("no behaviour table with equal observations to build the negative self-test from")
    bad = json.loads(json.dumps({"id": good["id"], "orig": good["orig"], "fixed": good["fixed"]}))
    bad["fixed"][-1]["emits"] = bad["fixed"][-1]["emits"] + [bad["fixed"][-1]["emits"][-1] if bad["fixed"][-1]["emits"] else 0]
    r = vlib.run_tlc(ctx, "FixCasesObs", "FixCasesObs_strict.cfg", workers=1, timeout=600, extra_files={"beh.json": json.dumps([bad])})
    if r.violated != "BehaviourPreserved":
        raise Inconclusive("negative self-test: TLC accepted a behaviour table with a duplicated operand evaluation (%s)" % r.violated)

    offered = collections.Counter(cases[i]["shape"] for i in per_func if per_func[i])
    sample_t = tables[len(tables) // 2]
    si, sn = [int(x) for x in sample_t["id"].split("#")]
    return {
        "abstract_cases_enumerated": tr.distinct, "cases_instantiated": len(cases), "cases_with_fix": sum(1 for i in per_func if per_func[i]),
        "fix_applications_executed": len(tables), "executions": execs, "tables_judged_by_tlc": len(verdicts), "tlc_states": states + tr.distinct,
        "behaviour_differences": nviol, "shapes": len(TEMPLATES), "shapes_with_fix_offered": dict(sorted(offered.items())),
        "shapes_never_offered_a_fix": sorted(set(TEMPLATES) - set(offered)),
        "generated_package_diagnostics": stats["diagnostics"], "generated_package_fixes": stats["fixes"],
        "sample": {"abstract": cases[si], "fix": by_n[sn][si][1]["fix"]["msg"], "inputs": sample_t["inputs"], "orig_first": sample_t["orig"][:2], "fixed_first": sample_t["fixed"][:2]},
    }
