"""C17 - U1000 verdicts are order-independent, monotone, merged over variants.

Spec: specs/Unused.tla (+ MCUnused.tla, UnusedObs.tla).
  * TLC checks C17 on the construction machine (Build = TRUE): for seed graphs, every order of the
    top-level declarations, every split into <= 3 files and every order of the method-set pass ends in
    the same verdict (Confluence); adding a reference from a used object never shrinks the used set
    (Monotone); lintcmd's merge loop over package variants, in every order, reports exactly the objects
    that are unused in some variant and used in none, and keys do not collide (VariantRule).  Negative
    control: with method sets processed eagerly (Eager = TRUE) TLC must find a Confluence counterexample.
  * TLC enumerates declaration graphs (generation machine) - the cases.
Conformance (R, metamorphic - no rule model involved): every selected graph is rendered as Go source
(checks/unused_gen.py) and the REAL analyzer is run through the REAL runner (harness/cmd/h-unused) on
  (a) the package, a copy of it, and permutations of its declarations over <= 3 files
      (all permutations for <= 4 declarations, a seeded sample beyond): the verdict per object must be
      the one of the unpermuted run;
  (b) the package plus one reference to each object in turn, from an exported function and from an
      existing used function: Used(before) must be a subset of Used(after);
  (c) the package plus an in-package _test.go file that uses an otherwise unused object, plus an external
      test package: the raw per-variant verdicts go through UnusedObs.tla (VariantReported) and the
      real `lintcmd` output (in-process lintcmd.Command and the real staticcheck binary, -tests on/off)
      must be exactly that set; nothing that is used in some variant may be reported.
Corpora: unused/testdata, repository packages and the hand-written shapes module (harness/cmd/h-unused/testdata/shapes)
with files renamed and declarations permuted.
"""
import itertools
import json
import os
import re
import shutil
from collections import Counter

import unused_gen as ug
import vlib
from vlib import Inconclusive

BATCH = 350


# ---------------------------------------------------------------------------------------------
# TLC

BUILD_CFG = """SPECIFICATION Spec
CONSTANTS
  MaxObj = 6
  MaxEdge = 4
  MaxIface = 2
  KindSeq <- MCAllKinds
  RelSeq <- MCAllRels
  Build = TRUE
  SeedGraphs <- GenSeeds
  ExKinds <- MCAllKindSet
  ThinFrom = 99
  ThinMod = 1
  Seed = 1
  NeedRoot = FALSE
  Eager = FALSE
INVARIANTS Confluence VariantRule
PROPERTY Monotone
CHECK_DEADLOCK FALSE
"""


def model_check(ctx, cases):
    """C17 on the construction machine: the hand-written seed graphs, a seeded sample of the generated
    graphs (the same graphs are then replayed on the real analyzer), and the negative control."""
    cfg = "MCUnused_buildq.cfg" if (ctx.quick or ug.smoke()) else "MCUnused_build.cfg"
    r = vlib.run_tlc(ctx, "MCUnused", cfg, workers=4 if ctx.quick else 8, timeout=6000, coverage=not ctx.quick)
    vlib.tlc_require_ok(r, "C17 invariants on the construction machine")
    if r.distinct < 500:
        raise Inconclusive("construction machine explored only %d states" % r.distinct)
    dead = [a for a in r.coverage_zero if a in ("AddDecl", "StartMS", "ProcessMS", "Finish", "AddRef")]
    if dead:
        raise Inconclusive("construction machine: actions never taken: %s" % dead)
    # generated graphs with <= 4 declarations as additional seeds
    small = [c for c in cases if len(ug.Graph(c).units()) <= 4 and c["edges"] and ug.mixed(c)]
    seeds = vlib.sample(ctx, small, 6 if ctx.quick else 60)
    r2 = None
    if seeds:
        body = ",\n  ".join(ug.tla_value({"objs": [{k: o[k] for k in ("k", "ex", "ow", "sl", "ty")} for o in c["objs"]],
                                           "edges": [{k: e[k] for k in ("r", "a", "b", "c")} for e in c["edges"]]}) for c in seeds)
        mod = "---- MODULE MCUnusedGenSeeds ----\nEXTENDS MCUnused\nGenSeeds == {\n  %s }\n====\n" % body
        r2 = vlib.run_tlc(ctx, "MCUnusedGenSeeds", "genseeds.cfg", workers=4, timeout=3000,
                          extra_files={"MCUnusedGenSeeds.tla": mod, "genseeds.cfg": BUILD_CFG})
        vlib.tlc_require_ok(r2, "C17 invariants on the construction machine (generated seed graphs)")
    neg = vlib.run_tlc(ctx, "MCUnused", "MCUnused_eager.cfg", workers=4, timeout=3000)
    if neg.violated != "Confluence":
        raise Inconclusive("negative control: the eager (order-dependent) construction did not violate Confluence (%s)" % neg.violated)
    return r, r2, neg, seeds


# ---------------------------------------------------------------------------------------------
# (a) (b): permutations and added references

def perm_orders(ctx, g, max_sample):
    us = g.units()
    n = len(us)
    sp = ug.splits(n)
    if n <= 4:
        perms = list(itertools.permutations(us))
    else:
        perms = set()
        perms.add(tuple(reversed(us)))
        tries = 0
        while len(perms) < max_sample and tries < 10 * max_sample:
            p = list(us)
            ctx.rng.shuffle(p)
            perms.add(tuple(p))
            tries += 1
        perms = sorted(perms)
    out = []
    for j, p in enumerate(perms):
        if tuple(p) == tuple(us):
            # the identity permutation is still interesting when split over files
            s = sp[(j + 1) % len(sp)]
            if len(set(s)) == 1:
                continue
        else:
            s = sp[j % len(sp)]
        out.append([(u, f) for u, f in zip(p, s)])
    return out


def variants_for(ctx, g, base_status=None, max_perms=6):
    """The renderings of one graph for (a) and (b): list of (tag, kwargs for render)."""
    vs = [("base", {}), ("copy", {})]
    for o in perm_orders(ctx, g, max_perms):
        vs.append(("perm", {"order": o}))
    for x in g.idx():
        s = g.natural_ref(x)
        if s is None:
            continue
        vs.append(("add", {"extra_decls": [(0, "func XAdd() {\n\t%s\n}" % s)], "_x": x, "_via": "XAdd"}))
    return vs


def analyse_packages(ctx, helper, pkgs, tag):
    """pkgs: {dir: files}.  Returns {dir: status map or None (failed)} through the real runner."""
    res = {}
    names = sorted(pkgs)
    batches = [names[i:i + BATCH] for i in range(0, len(names), BATCH)]

    def one(bi):
        mod = ctx.tmp("%s-mod%d" % (tag, bi))
        ug.write_module(mod, {d: pkgs[d] for d in batches[bi]})
        out = ug.run_helper(ctx, helper, mod, ["-raw"])
        st = ug.status_by_pkg(out)
        shutil.rmtree(mod, ignore_errors=True)
        return st, out

    for st, out in vlib.pmap(one, range(len(batches)), workers=3):
        for pid, m in st.items():
            d = pid.split("/")[-1]
            res[d] = m
            if m is None:
                errs = [r.get("errors") for r in out["raw"] if r["id"] == pid]
                raise Inconclusive("generated package %s does not compile (generator bug): %s\n%s" % (d, errs, pkgs[d]))
    missing = [d for d in names if d not in res]
    if missing:
        raise Inconclusive("the runner returned no result for %d packages, e.g. %s" % (len(missing), missing[:3]))
    return res


def compare_perm(s0, s1):
    """Objects whose verdict differs between the unpermuted and the permuted run."""
    return sorted(o for o in s0 if s0[o] != s1.get(o))


def compare_add(s0, s1):
    """Objects that were used and are not used any more after a reference was added."""
    return sorted(o for o in s0 if s0[o] == "used" and s1.get(o) != "used")


def run_perm_add(ctx, helper, cases, max_perms):
    plan, pkgs = [], {}
    for ci, c in enumerate(cases):
        g = ug.Graph(c)
        for vi, (tag, kw) in enumerate(variants_for(ctx, g, max_perms=max_perms)):
            d = "c%04dv%03d" % (ci, vi)
            rk = {k: v for k, v in kw.items() if not k.startswith("_")}
            files, pos = ug.render(g, **rk)
            pkgs[d] = files
            plan.append((ci, tag, kw, d, pos))
    res = analyse_packages(ctx, helper, pkgs, "pa")
    # second round of (b): the reference added inside an existing used function of the graph
    base = {}
    for ci, tag, kw, d, pos in plan:
        if tag == "base":
            base[ci] = ug.obj_status(ug.Graph(cases[ci]), pos, d, res[d])
    pkgs2, plan2 = {}, []
    for ci, c in enumerate(cases):
        g = ug.Graph(c)
        hs = [h for h in g.holders() if base[ci][h] == "used"]
        if not hs:
            continue
        for x in g.idx():
            s = g.natural_ref(x)
            if s is None:
                continue
            h = hs[(x + ctx.seed) % len(hs)]
            d = "d%04dx%02d" % (ci, x)
            files, pos = ug.render(g, extra_stmts={h: [s]})
            pkgs2[d] = files
            plan2.append((ci, "add", {"extra_stmts": {h: [s]}, "_x": x, "_via": g.name(h)}, d, pos))
    res.update(analyse_packages(ctx, helper, pkgs2, "pb"))
    pkgs.update(pkgs2)

    stats = Counter()
    nontrivial = set()
    for ci, tag, kw, d, pos in plan + plan2:
        g = ug.Graph(cases[ci])
        st = ug.obj_status(g, pos, d, res[d])
        stats["analyses"] += 1
        stats["analyses_" + tag] += 1
        if tag == "base":
            vals = set(st.values())
            if "used" in vals and ("unused" in vals or "quiet" in vals):
                nontrivial.add(ci)
            continue
        s0 = base[ci]
        if tag in ("copy", "perm"):
            diff = compare_perm(s0, st)
            if diff:
                what = "U1000 verdict depends on the order of declarations/files: objects %s of graph %s change from %s to %s under order %s" % (
                    [g.name(o) for o in diff], ug.graph_key(cases[ci]), [s0[o] for o in diff], [st.get(o) for o in diff], kw.get("order", "copy"))
                ctx.violation(ug.graph_key(cases[ci]) + "-perm", what,
                              {"kind": "perm", "graph": cases[ci], "order": kw.get("order"), "base": s0, "observed": st,
                               "files": pkgs[d]})
        else:
            diff = compare_add(s0, st)
            if diff:
                what = "adding a reference to %s from used code (%s) makes used objects %s unused (graph %s)" % (
                    g.name(kw["_x"]), kw["_via"], [g.name(o) for o in diff], ug.graph_key(cases[ci]))
                ctx.violation(ug.graph_key(cases[ci]) + "-add", what,
                              {"kind": "add", "graph": cases[ci], "x": kw["_x"], "via": kw["_via"], "base": s0, "observed": st,
                               "files": pkgs[d]})
            if st.get(kw["_x"]) == "used" and s0.get(kw["_x"]) != "used":
                stats["adds_that_changed_a_verdict"] += 1
    return stats, len(nontrivial), base


# ---------------------------------------------------------------------------------------------
# (c): package variants through lintcmd

TEST_EXT = """package p_test

func XExt() {
	xhelperUsed()
}

func xhelperUsed() {}

func xhelperUnused() {}
"""


def variant_module(ctx, cases, base, tag):
    """One package per case: the graph + zz_test.go (in-package, uses an otherwise unused object) +
    zx_test.go (external test package)."""
    pkgs, plan = {}, []
    for ci, c in enumerate(cases):
        g = ug.Graph(c)
        cands = [x for x in g.idx() if base[ci].get(x) in ("unused", "quiet") and g.natural_ref(x)]
        if not cands:
            continue
        x = cands[(ci + ctx.seed) % len(cands)]
        files, pos = ug.render(g)
        files["zz_test.go"] = "package p\n\nfunc XTestUse() {\n\t%s\n}\n\nfunc zhelperUnused() {}\n" % g.natural_ref(x)
        files["zx_test.go"] = TEST_EXT
        d = "w%04d" % ci
        pkgs[d] = files
        plan.append((ci, d, x, pos))
    return pkgs, plan


def keyset(objs, d=None):
    """Object keys (file:line:col); with d only the objects declared in package directory d (the generated
    test main of a package lives in the build cache and is not part of the comparison)."""
    return sorted(set("%s:%d:%d" % (o["file"], o["line"], o["col"]) for o in objs or [] if d is None or o["file"].startswith(d + "/")))


def run_variants(ctx, helper, sc, cases, base, through_binary):
    pkgs, plan = variant_module(ctx, cases, base, "var")
    if not plan:
        raise Inconclusive("no case with an unused object for the variant scenario")
    mod = ctx.tmp("var-mod")
    ug.write_module(mod, pkgs)
    out_t = ug.run_helper(ctx, helper, mod, ["-raw", "-lintcmd", "-tests"])
    out_f = ug.run_helper(ctx, helper, mod, ["-raw", "-lintcmd"])
    outs_bin = None
    if through_binary:
        outs_bin = (ug.run_helper(ctx, helper, mod, ["-lintcmd", "-tests", "-binary", sc]),
                    ug.run_helper(ctx, helper, mod, ["-lintcmd", "-binary", sc]))
    for o in (out_t, out_f) + (outs_bin or ()):
        if o.get("lint_rc") not in (0, 1):
            raise Inconclusive("lintcmd run failed rc=%s: %s" % (o.get("lint_rc"), o.get("lint_err")))
        bad = [p for p in o.get("lint") or [] if p["code"] != "U1000"]
        if bad:
            raise Inconclusive("variant module does not lint cleanly (generator bug): %s" % bad[:3])
    # group raw results per package directory
    by_dir_t, by_dir_f = {}, {}
    for raw in out_t["raw"]:
        if raw.get("failed"):
            raise Inconclusive("variant package %s failed to compile: %s" % (raw["id"], raw.get("errors")))
        d = raw["id"].split(" ")[0].split("/")[-1].replace("_test", "").replace(".test", "")
        by_dir_t.setdefault(d, []).append(raw)
    for raw in out_f["raw"]:
        if raw.get("failed"):
            raise Inconclusive("variant package %s failed to compile: %s" % (raw["id"], raw.get("errors")))
        by_dir_f.setdefault(raw["id"].split("/")[-1], []).append(raw)

    def lint_by_dir(o):
        m = {}
        for p in o.get("lint") or []:
            m.setdefault(p["file"].split("/")[0], set()).add("%s:%d:%d" % (p["file"], p["line"], p["col"]))
        return m

    lint_t, lint_f = lint_by_dir(out_t), lint_by_dir(out_f)
    lint_bt = lint_by_dir(outs_bin[0]) if outs_bin else None
    lint_bf = lint_by_dir(outs_bin[1]) if outs_bin else None
    # observation pass: the spec's VariantReported on the recorded per-variant verdicts
    records = []
    for n, (ci, d, x, pos) in enumerate(plan):
        vs = [{"used": keyset(r["used"], d), "unused": keyset(r["unused"], d)} for r in sorted(by_dir_t.get(d, []), key=lambda r: r["id"])]
        records.append({"t": "merge", "idx": 2 * n, "objs": [], "edges": [], "reported": [], "variants": vs})
        vs = [{"used": keyset(r["used"], d), "unused": keyset(r["unused"], d)} for r in by_dir_f.get(d, [])]
        records.append({"t": "merge", "idx": 2 * n + 1, "objs": [], "edges": [], "reported": [], "variants": vs})
    obs, tr = ug.tlc_observe(ctx, records)
    stats = Counter()
    for n, (ci, d, x, pos) in enumerate(plan):
        g = ug.Graph(cases[ci])
        vt = sorted(by_dir_t.get(d, []), key=lambda r: r["id"])
        if len(vt) < 3:
            raise Inconclusive("expected >= 3 package variants for %s with -tests, got %s" % (d, [r["id"] for r in vt]))
        if not obs[2 * n]["safe"] or not obs[2 * n + 1]["safe"]:
            raise Inconclusive("UnusedObs: operational merge and VariantReported disagree on the model for %s" % d)
        want_t, want_f = set(obs[2 * n]["reported"]), set(obs[2 * n + 1]["reported"])
        used_somewhere = set(k for r in vt for k in keyset(r["used"]))
        stats["variant_cases"] += 1
        stats["variant_results"] += len(vt) + 1
        # scenario realised? x is unused/quiet without tests and used in the test variant
        xkey = ["%s/%s:%d:%d" % (d, f, line, col) for (f, line, col), o in pos.items() if o == x][0]
        testvar = [r for r in vt if "[" in r["id"] and not r["path"].endswith("_test")]
        if testvar and xkey in keyset(testvar[0]["used"]):
            stats["variant_scenarios_realised"] += 1
        runs = [("in-process -tests", lint_t.get(d, set()), want_t), ("in-process -tests=false", lint_f.get(d, set()), want_f)]
        if outs_bin:
            runs += [("binary -tests", lint_bt.get(d, set()), want_t), ("binary -tests=false", lint_bf.get(d, set()), want_f)]
        for how, got, want in runs:
            stats["lintcmd_comparisons"] += 1
            case = {"kind": "variant", "graph": cases[ci], "x": x, "how": how, "files": pkgs[d], "want": sorted(want), "got": sorted(got),
                    "variants": [{"id": r["id"], "used": keyset(r["used"]), "unused": keyset(r["unused"])} for r in vt]}
            wrong = sorted(k for k in got if "-tests=false" not in how and k in used_somewhere)
            if wrong:
                ctx.violation(ug.graph_key(cases[ci]) + "-variant-used",
                              "U1000 (%s) reports %s although it is used in a variant of its package (graph %s)" % (how, wrong, ug.graph_key(cases[ci])), case)
            elif got != want:
                ctx.violation(ug.graph_key(cases[ci]) + "-variant",
                              "U1000 (%s) reports %s; unused-in-some-and-used-in-no variant is %s (graph %s)" % (how, sorted(got), sorted(want), ug.graph_key(cases[ci])), case)
    if stats["variant_scenarios_realised"] * 10 < stats["variant_cases"] * 8:
        raise Inconclusive("variant scenario realised in only %d of %d cases" % (stats["variant_scenarios_realised"], stats["variant_cases"]))
    sample = {"package": plan[0][1], "files": pkgs[plan[0][1]], "reported_with_tests": sorted(lint_t.get(plan[0][1], set())),
              "reported_without_tests": sorted(lint_f.get(plan[0][1], set()))}
    return stats, tr, sample


# ---------------------------------------------------------------------------------------------
# corpora under file / declaration permutation

REPO_PKGS_QUICK = ["unused", "pattern", "config"]
REPO_PKGS_THOROUGH = REPO_PKGS_QUICK + ["analysis/edit", "internal/sync", "lintcmd/cache", "lintcmd/runner", "go/ir/irutil", "go/types/typeutil", "analysis/code",
                                        "analysis/lint", "analysis/report", "go/loader", "simple", "stylecheck", "go/ir", "knowledge"]


SHAPES = os.path.join(vlib.HARNESS, "cmd", "h-unused", "testdata", "shapes")

# cmd/cgo derives the names of its generated objects from a hash of the source text (_cgo_0c2830a4819a_Cfunc_f,
# _cgoexp_0c2830a4819a_f); permuting the declarations changes the text, so the hash is not part of the identity
CGO_HASH = re.compile(r"(_cgo(?:exp)?_)[0-9a-f]{12}_")


def corpus_counter(out):
    res = {}
    for raw in out.get("raw") or []:
        if raw.get("failed"):
            res[raw["id"]] = None
            continue
        c = Counter()
        for st in ("used", "unused", "quiet"):
            for o in raw.get(st) or []:
                c["%s %s %s" % (o["kind"], CGO_HASH.sub(r"\1H_", o["name"]), st)] += 1
        res[raw["id"]] = c
    return res


def run_corpora(ctx, helper):
    stats = Counter()
    # unused/testdata as a module
    src = os.path.join(vlib.REPO, "unused", "testdata", "src", "example.com")
    orig = ctx.tmp("corp-testdata")
    shutil.copytree(src, orig, dirs_exist_ok=True)
    with open(os.path.join(orig, "go.mod"), "w") as f:
        f.write("module example.com\n\ngo 1.22\n")
    # repository packages (non-test files) inside a module that may import the repository's internal packages
    rorig = ctx.tmp("corp-repo")
    hm = open(os.path.join(vlib.HARNESS, "go.mod")).read()
    hm = hm.replace("honnef.co/go/tools/verifharness", "honnef.co/go/tools/verifperm").replace("=> /repo", "=> " + os.path.realpath(vlib.REPO))
    with open(os.path.join(rorig, "go.mod"), "w") as f:
        f.write(hm)
    shutil.copy(os.path.join(vlib.HARNESS, "go.sum"), os.path.join(rorig, "go.sum"))
    for p in (REPO_PKGS_QUICK if ctx.quick else REPO_PKGS_THOROUGH):
        sd = os.path.join(vlib.REPO, p)
        dd = os.path.join(rorig, p.replace("/", "_"))
        os.makedirs(dd, exist_ok=True)
        for fn in sorted(os.listdir(sd)):
            if fn.endswith(".go") and not fn.endswith("_test.go"):
                shutil.copy(os.path.join(sd, fn), os.path.join(dd, fn))
    # the hand-written shapes module (every numbered rule of unused.go outside the vocabulary of Unused.tla; most
    # packages have 2-3 files so that file order and declaration order both matter)
    sorig = ctx.tmp("corp-shapes")
    shutil.copytree(SHAPES, sorig, dirs_exist_ok=True)
    modes = [("both", ctx.seed)] if ctx.quick else [("both", ctx.seed), ("both", ctx.seed + 100), ("files", ctx.seed), ("decls", ctx.seed), ("reverse", 0)]
    # shapes is tiny: the deterministic reversal (declarations of every file and the lexical order of the files) runs in
    # the quick tier too, so that an order dependence between two declarations does not hinge on the seeded shuffle
    modes_shapes = [("both", ctx.seed), ("reverse", 0)] if ctx.quick else modes + [("both", ctx.seed + 200), ("decls", ctx.seed + 100), ("files", ctx.seed + 100)]
    samples = []
    for tag, o, flags in (("testdata", orig, ["-raw", "-tests"]), ("repo", rorig, ["-raw"]), ("shapes", sorig, ["-raw", "-tests"])):
        # shapes shares the cache of testdata (same std dependencies)
        cache = ctx.tmp("corp-cache-" + ("testdata" if tag == "shapes" else tag))
        base = corpus_counter(ug.run_helper(ctx, helper, o, flags, cache=cache))
        ok = [k for k, v in base.items() if v is not None]
        if len(ok) < {"testdata": 40, "repo": 3, "shapes": 38}[tag]:
            raise Inconclusive("corpus %s: only %d packages analysed" % (tag, len(ok)))
        for mode, seed in (modes_shapes if tag == "shapes" else modes):
            dst = ctx.tmp("corp-%s-%s-%d" % (tag, mode, seed))
            rc, so, se = vlib.sh([helper, "-permute", o, "-permute-dst", dst, "-permute-seed", str(seed), "-permute-mode", mode])
            if rc != 0:
                raise Inconclusive("permute failed: %s" % se[-1000:])
            pc = corpus_counter(ug.run_helper(ctx, helper, dst, flags, cache=cache))
            for pid in ok:
                stats["corpus_analyses"] += 1
                if pc.get(pid) is None:
                    # the permuted copy does not build although the original does: permuter problem, not a verdict
                    stats["corpus_permuted_copy_failed"] += 1
                    ctx.note("corpus %s: permuted copy (%s) of %s does not build; skipped" % (tag, mode, pid))
                    continue
                if pc[pid] != base[pid]:
                    only_o = sorted((base[pid] - pc[pid]).elements())
                    only_p = sorted((pc[pid] - base[pid]).elements())
                    key = vlib.canon_key({"corpus": tag, "pkg": pid})
                    if tag == "shapes":
                        key = "shapes-%s-%s" % (pid.split(" ")[0].split("/")[-1], key)
                    ctx.violation(key + "-corpus",
                                  "U1000 verdict of %s changes when files/declarations are permuted (%s): only original %s, only permuted %s" % (pid, mode, only_o[:6], only_p[:6]),
                                  {"kind": "corpus", "corpus": tag, "pkg": pid, "mode": mode, "pseed": seed, "only_original": only_o, "only_permuted": only_p})
            shutil.rmtree(dst, ignore_errors=True)
        samples.append({"corpus": tag, "packages": len(ok), "objects": sum(sum(v.values()) for v in base.values() if v),
                        "modes": modes_shapes if tag == "shapes" else modes})
        stats["corpus_packages_" + tag] = len(ok)
    if stats["corpus_permuted_copy_failed"] * 5 > stats["corpus_analyses"]:
        raise Inconclusive("too many permuted corpus copies failed to build")
    return stats, samples


# ---------------------------------------------------------------------------------------------
# negative self-tests of the binding

NEG_GRAPH = {"objs": [{"k": "func", "ex": True, "ow": 0, "sl": 0, "ty": 0}, {"k": "func", "ex": False, "ow": 0, "sl": 0, "ty": 0},
                      {"k": "var", "ex": False, "ow": 0, "sl": 0, "ty": 0}],
             "edges": [{"r": "call", "a": 1, "b": 2, "c": 0}, {"r": "read", "a": 2, "b": 3, "c": 0}]}


def self_test(ctx, helper):
    """The comparison must notice a real difference: the same graph with its only call removed has
    different verdicts; and a doctored result must be rejected by both comparators."""
    g1 = ug.Graph(NEG_GRAPH)
    g2 = ug.Graph({"objs": NEG_GRAPH["objs"], "edges": NEG_GRAPH["edges"][1:]})
    f1, p1 = ug.render(g1)
    f2, p2 = ug.render(g2)
    res = analyse_packages(ctx, helper, {"neg1": f1, "neg2": f2}, "neg")
    s1, s2 = ug.obj_status(g1, p1, "neg1", res["neg1"]), ug.obj_status(g2, p2, "neg2", res["neg2"])
    if s1 != {1: "used", 2: "used", 3: "used"}:
        raise Inconclusive("self-test: unexpected verdict for the reference chain: %s" % s1)
    if not compare_perm(s1, s2) or not compare_add(s1, s2):
        raise Inconclusive("self-test: the comparators accept a package whose verdicts really differ (%s vs %s)" % (s1, s2))
    doctored = dict(s1)
    doctored[3] = "unused"
    if not compare_perm(s1, doctored) or not compare_add(s1, doctored):
        raise Inconclusive("self-test: a doctored verdict was accepted")
    return 2


# ---------------------------------------------------------------------------------------------

import time


def lap(ctx, what):
    now = time.time()
    ctx.timing = getattr(ctx, "timing", {})
    ctx.timing[what] = round(now - getattr(ctx, "_lap", ctx.t0), 1)
    ctx._lap = now


def run(ctx):
    ctx.level = "exploration"
    helper = vlib.go_build_harness(ctx, "cmd/h-unused")

    if ctx.replay:
        doc = json.load(open(ctx.replay))
        case = doc["case"]
        if case.get("kind") == "corpus":
            run_corpora(ctx, helper)
            return
        cases = [case["graph"]]
        stats, nt, base = run_perm_add(ctx, helper, cases, 24)
        if case.get("kind") == "variant":
            sc = vlib.go_build_repo(ctx, "./cmd/staticcheck")
            for _ in range(4):  # the merge iterates a Go map: repeat
                run_variants(ctx, helper, sc, cases, base, True)
        return

    sc = vlib.go_build_repo(ctx, "./cmd/staticcheck")
    lap(ctx, "build")
    n_self = self_test(ctx, helper)
    lap(ctx, "self_test")
    cases, gen_runs = ug.generate(ctx)
    lap(ctx, "tlc_generation")
    mc, mc2, neg, seeds = model_check(ctx, cases)
    lap(ctx, "tlc_construction")
    chosen = ug.select(ctx, cases, ug.cap(40 if ctx.quick else 1500))
    have = set(ug.graph_key(c) for c in chosen)
    chosen += [c for c in seeds if ug.graph_key(c) not in have]   # the model-checked graphs are replayed too
    have = set(ug.graph_key(c) for c in chosen)
    emb = [c for c in ug.select_embed(ctx, cases, ug.cap(48 if ctx.quick else 1000)) if ug.graph_key(c) not in have]
    chosen += emb                                                  # embedding cycles (rule 6.5), all orders of <= 4 declarations
    stats, nontrivial, base = run_perm_add(ctx, helper, chosen, 4 if ctx.quick else 24)
    lap(ctx, "perm_add")
    vcases_idx = [i for i in range(len(chosen))]
    vsel = vlib.sample(ctx, vcases_idx, ug.cap(30 if ctx.quick else 400))
    vstats, tr, vsample = run_variants(ctx, helper, sc, [chosen[i] for i in vsel], {n: base[i] for n, i in enumerate(vsel)}, True)
    if not ctx.quick:
        # the merge iterates a Go map: repeat the variant scenario to see more orders
        for rep in range(2):
            vs2, _, _ = run_variants(ctx, helper, sc, [chosen[i] for i in vsel], {n: base[i] for n, i in enumerate(vsel)}, False)
            vstats.update(vs2)
    lap(ctx, "variants")
    cstats, csamples = run_corpora(ctx, helper)
    lap(ctx, "corpora")

    evaluations = stats["analyses"] + vstats["variant_results"] + cstats["corpus_analyses"] + n_self
    g0 = ug.Graph(chosen[len(chosen) // 2])
    ctx.coverage = {
        "evaluations": evaluations,
        "distinct_nontrivial": nontrivial,
        "rule": "cases = declaration graphs enumerated by TLC from Unused.tla (generation machine, <= 6 objects, <= 3 references, <= 2 interfaces; "
                "seeded sub-sampling by the Thin constraint), selected by a feature cover + seeded sample; every case is analysed by the real "
                "analyzer through the real runner unpermuted, copied, under permutations of declarations and files (all for <= 4 declarations), "
                "with one added reference per object (from an exported function and from an existing used function) and with test variants "
                "through lintcmd; evaluations = packages analysed; a case is non-trivial if its unpermuted run has both used and unused/quiet objects",
        "samples": [{"graph": chosen[len(chosen) // 2], "source": ug.render(g0)[0]}, {"variants": vsample}, {"corpora": csamples}],
        "exhaustive": False,
        "states": mc.distinct + (mc2.distinct if mc2 else 0),
        "transitions": mc.generated + (mc2.generated if mc2 else 0),
        "tlc": {"construction": {"config": "MCUnused_buildq.cfg" if (ctx.quick or ug.smoke()) else "MCUnused_build.cfg", "states": mc.distinct, "generated": mc.generated,
                                 "wall_s": round(mc.wall, 1), "properties": ["Confluence", "VariantRule", "Monotone(action)"]},
                "construction_on_generated_graphs": {"graphs": len(seeds), "states": mc2.distinct if mc2 else 0, "generated": mc2.generated if mc2 else 0},
                "negative_control": {"config": "MCUnused_eager.cfg", "violated": neg.violated},
                "generation": gen_runs,
                "observation": {"module": "UnusedObs", "artefacts": tr.distinct - 1 if tr else 0}},
        "graphs_enumerated": len(cases),
        "graphs_replayed": len(chosen),
        "graphs_replayed_embedding_cycles": len(emb),
        "phase_wall_s": ctx.timing,
        "analyses": dict(stats),
        "variants": dict(vstats),
        "corpora": dict(cstats),
        "traces_validated_against_impl": evaluations,
        "trusted_base": ["TLC", "go toolchain (go list, go/types as used by the runner)", "checks/unused_gen.py templates (validated: every package compiles)"],
    }
    ctx.assumptions = [
        "vocabulary of Unused.tla (13 kinds, 11 relations); shapes outside it (imports, function-local types, statements, ...) are reached only "
        "through the corpora (unused/testdata, repository packages, the hand-written shapes module), where the permuter keeps every declaration in its file",
        "objects are identified by the position of their defining identifier (generated code) or by (kind, name) multisets (corpora)",
        "bounds: <= 6 objects, <= 3 references per graph; permutations sampled beyond 4 declarations; construction machine on seed graphs only",
    ]
