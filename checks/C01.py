"""C01 — IR preserves program semantics (naive and lifted form).

Spec: specs/IRSem.tla — the IR of go/ir as a transition system, one rule per instruction kind with the
meaning stated in go/ir/ssa.go's doc comments.  Binding (T, trace validation): hand-written corpus
programs (harness/cmd/h-irsem/testdata/corpus) and seeded generated programs (h-irsem gen) are
  (a) built by the REAL go/ir builder from the current /repo tree in the modes {naive, lifted} x
      {GlobalDebug off, on} and exported as JSON through the public API (h-irsem export),
  (b) compiled with `go build` and run natively on every vector of a small input domain; the program's
      own emit* functions print the observable effects.
TLC executes the exported IR for every (program, mode, function, vector) and accepts a run iff the IR
execution produces exactly the recorded native effects in order, the same results and the same
panic / no-panic outcome.  A rejection is a VIOLATION when it is localised to the IR: another builder
mode accepts the same native run, or every mode rejects while every instruction kind of the functions
involved is validated by accepted runs of other functions.
"""
import hashlib
import json
import os

import irsemlib
import vlib
from irsemlib import MODES
from vlib import Inconclusive


def load_corpus():
    progs = []
    for f in sorted(os.listdir(irsemlib.CORPUS)):
        if f.endswith(".go"):
            progs.append(irsemlib.Program("corpus_" + f[:-3], open(os.path.join(irsemlib.CORPUS, f)).read()))
    if not progs:
        raise Inconclusive("corpus is empty")
    return progs


def generate(ctx, helper, n, futs):
    d = ctx.tmp("gen")
    rc, so, se = vlib.sh([helper, "gen", "-seed", str(ctx.seed), "-n", str(n), "-futs", str(futs), "-dir", d], timeout=120)
    if rc != 0:
        raise Inconclusive("program generator failed: " + se[-1000:])
    progs = []
    for f in sorted(os.listdir(d)):
        if f.endswith(".go"):
            progs.append(irsemlib.Program(f[:-3], open(os.path.join(d, f)).read()))
    return progs


def reach_ops(p, fi, memo):
    """instruction kinds (op/sub) of the functions statically reachable from function index fi of prog p"""
    key = (id(p), fi)
    if key in memo:
        return memo[key]
    seen, todo, ops = set(), [fi], set()
    allfn = False
    while todo:
        i = todo.pop()
        if i in seen or i < 1 or i > len(p["fns"]):
            continue
        seen.add(i)
        f = p["fns"][i - 1]
        for b in f["blocks"]:
            for ins in b["instrs"]:
                tag = ins["tags"][0] if ins["op"] in ("call", "defer") and ins["sub"] == "builtin" else ""
                ops.add("%s/%s%s" % (ins["op"], ins["sub"], "/" + tag if tag else ""))
                for a in ins["args"]:
                    if a["k"] == "c" and a["v"]["k"] == "func" and a["v"]["i"]:
                        todo.append(a["v"]["i"])
                if ins["op"] in ("call", "defer") and ins["sub"] == "invoke" and not allfn:
                    allfn = True   # dynamic dispatch: any method may run
                    for tab in p["methods"].values():
                        todo.extend(v for v in tab.values() if v)
    memo[key] = ops
    return ops


def batches(programs, max_runs):
    cur, n, out = [], 0, []
    for pr in programs:
        k = len(pr.native) * len(pr.progs)
        if cur and n + k > max_runs:
            out.append(cur)
            cur, n = [], 0
        cur.append(pr)
        n += k
    if cur:
        out.append(cur)
    return out


def validate(ctx, programs, workers, max_runs=1600, par=2):
    """-> list of (program, mode, native run, verdict, case), tlc stats"""
    results, stats = [], {"states": 0, "transitions": 0, "tlc_runs": 0, "tlc_wall": 0.0}

    def one(batch):
        doc, meta = irsemlib.make_doc(batch)
        r, per = irsemlib.run_tlc_doc(ctx, doc, workers=workers, timeout=3000)
        return r, per, meta

    for r, per, meta in vlib.pmap(one, batches(programs, max_runs), workers=par):
        stats["states"] += r.distinct
        stats["transitions"] += r.generated
        stats["tlc_runs"] += 1
        stats["tlc_wall"] += r.wall
        for i, (pr, mode, nr) in enumerate(meta):
            v, c = irsemlib.summarize(per.get(i + 1, []))
            results.append((pr, mode, nr, v, c))
    return results, stats


def run_key(pr, nr):
    return (pr.name, nr["fn"], json.dumps(nr["args"], sort_keys=True))


def describe(nr):
    return "%s(%s)" % (nr["fn"], ", ".join(irsemlib.val2str(a) for a in nr["args"]))


def native_str(nr):
    s = "out=[%s]" % ", ".join(irsemlib.ev2str(e) for e in nr["out"])
    if nr["panic"]:
        return s + " PANIC " + irsemlib.val2str(nr["pv"])
    return s + " results=(%s)" % ", ".join(irsemlib.val2str(x) for x in nr["res"])


def case_str(c):
    if c is None:
        return "no terminal state"
    s = "%s%s out=[%s]" % (c["s"], (" (" + c["why"] + (" in " + c["at"] if c["at"] else "") + ")") if c["why"] else "",
                           ", ".join(irsemlib.ev2str(e) for e in c["out"]))
    if c["s"] == "panic":
        return s + " PANIC " + ", ".join(irsemlib.val2str(x) for x in c["res"])
    if c["s"] == "done":
        return s + " results=(%s)" % ", ".join(irsemlib.val2str(x) for x in c["res"])
    return s


def triage(ctx, results):
    """group by (program, fn, args); decide per group.  Returns counters."""
    groups = {}
    for pr, mode, nr, v, c in results:
        groups.setdefault(run_key(pr, nr), []).append((pr, mode, nr, v, c))
    # instruction kinds validated by accepted runs, per (program, fn)
    memo = {}
    validated_by = {}   # (program name, fn) -> set of ops, only when every run of that fn in every mode was accepted
    fn_ok = {}
    for pr, mode, nr, v, c in results:
        k = (pr.name, nr["fn"])
        fn_ok[k] = fn_ok.get(k, True) and v == "accept"
    for pr, mode, nr, v, c in results:
        k = (pr.name, nr["fn"])
        if fn_ok[k] and k not in validated_by:
            ops = set()
            for p in pr.progs:
                ops |= reach_ops(p, irsemlib.fn_index(p, nr["fn"]), memo)
            validated_by[k] = ops
    cnt = {"accepted": 0, "skipped_unsup": 0, "groups": len(groups), "rejected_groups": 0, "unlocalised": []}
    reported_fns = set()
    for key, rows in sorted(groups.items()):
        verdicts = {mode: v for _, mode, _, v, _ in rows}
        pr, nr = rows[0][0], rows[0][2]
        if any(v == "missing" for v in verdicts.values()):
            raise Inconclusive("TLC produced no terminal state for %s %s" % (pr.name, describe(nr)))
        cnt["accepted"] += sum(1 for v in verdicts.values() if v == "accept")
        cnt["skipped_unsup"] += sum(1 for v in verdicts.values() if v == "unsup")
        bad = sorted(m for m, v in verdicts.items() if v in ("reject", "stuck"))
        if not bad:
            continue
        cnt["rejected_groups"] += 1
        good = sorted(m for m, v in verdicts.items() if v == "accept")
        detail = {m: case_str(c) for _, m, _, v, c in rows if v in ("reject", "stuck")}
        case = {"kind": "c01", "program": pr.name, "source": pr.src, "fn": nr["fn"], "args": nr["args"],
                "native": native_str(nr), "verdicts": verdicts, "ir_behaviour": detail}
        ckey = vlib.canon_key({"src": hashlib.sha1(pr.src.encode()).hexdigest(), "fn": nr["fn"], "args": nr["args"], "bad": bad})
        if (pr.name, nr["fn"]) in reported_fns:
            continue      # one report per function is enough
        if good:
            reported_fns.add((pr.name, nr["fn"]))
            ctx.violation(ckey, "%s %s: IR built in mode(s) %s does not reproduce the native run (%s) although mode(s) %s do: %s"
                          % (pr.name, describe(nr), ",".join(bad), native_str(nr), ",".join(good), detail[bad[0]]), case)
            continue
        # every mode rejects: localised to the IR only if IRSem's rules for every instruction kind involved are
        # validated by fully accepted functions elsewhere
        ops = set()
        for p in pr.progs:
            ops |= reach_ops(p, irsemlib.fn_index(p, nr["fn"]), memo)
        others = set()
        for k, o in validated_by.items():
            if k != (pr.name, nr["fn"]):
                others |= o
        unvalidated = sorted(ops - others)
        if not unvalidated:
            reported_fns.add((pr.name, nr["fn"]))
            ctx.violation(ckey, "%s %s: no builder mode reproduces the native run (%s); every instruction kind involved is validated by accepted runs of other functions: %s"
                          % (pr.name, describe(nr), native_str(nr), detail[bad[0]]), case)
        else:
            cnt["unlocalised"].append("%s %s: rejected in every mode, instruction kinds without independent validation: %s; %s"
                                      % (pr.name, describe(nr), ",".join(unvalidated[:6]), detail[bad[0]]))
    return cnt


def negative_selftest(ctx, programs, workers):
    """corrupted recorded runs (an effect changed, a result changed, panic flag flipped) must be rejected"""
    pr = programs[0]
    neg = irsemlib.Program(pr.name + "_neg", pr.src)
    neg.progs = [p for p in pr.progs if p["mode"] in ("naive", "lifted")]
    neg.native = []
    kinds = set()
    for nr in pr.native:
        c = json.loads(json.dumps(nr))
        if c["out"] and c["out"][0]["a"] and c["out"][0]["a"][0]["k"] == "int" and "effect" not in kinds:
            c["out"][0]["a"][0]["i"] += 1
            kinds.add("effect")
        elif c["res"] and c["res"][0]["k"] == "int" and not c["panic"] and "result" not in kinds:
            c["res"][0]["i"] += 1
            kinds.add("result")
        elif len(c["out"]) >= 2 and "order" not in kinds and c["out"][0] != c["out"][1]:
            c["out"][0], c["out"][1] = c["out"][1], c["out"][0]
            kinds.add("order")
        elif not c["panic"] and "panic" not in kinds:
            c["panic"] = 1
            c["pv"] = irsemlib.mk("iface", t="runtime.Error")
            kinds.add("panic")
        else:
            continue
        neg.native.append(c)
    if len(kinds) < 3:
        raise Inconclusive("negative self-test: could not build corrupted runs from %s (%s)" % (pr.name, kinds))
    results, _ = validate(ctx, [neg], workers)
    for _, mode, nr, v, c in results:
        if v != "reject":
            raise Inconclusive("negative self-test: corrupted native run %s was not rejected in mode %s (%s)" % (describe(nr), mode, v))
    return len(results)


def run(ctx):
    ctx.level = "translation_validation"
    helper = vlib.go_build_harness(ctx, "cmd/h-irsem")
    workers = 4

    if ctx.replay:
        doc = json.load(open(ctx.replay))
        case = doc["case"]
        pr = irsemlib.Program(case["program"], case["source"])
        irsemlib.prepare(ctx, helper, pr)
        if pr.error:
            raise Inconclusive("replay: " + pr.error)
        pr.native = [r for r in pr.native if r["fn"] == case["fn"]]
        results, _ = validate(ctx, [pr] + load_prepared_corpus(ctx, helper), workers)
        triage(ctx, results)
        return

    if ctx.quick:
        ngen, futs, maxvec = 4, 5, 16
    else:
        ngen, futs, maxvec = 16, 6, 32
    if os.environ.get("VERIF_CAP"):      # smoke-run of a tier with fewer generated programs
        ngen = min(ngen, int(os.environ["VERIF_CAP"]))
    corpus = load_corpus()
    gen = generate(ctx, helper, ngen, futs)
    programs = corpus + gen
    vlib.pmap(lambda p: irsemlib.prepare(ctx, helper, p, maxvec=(64 if p in corpus else maxvec)), programs, workers=8)
    for p in programs:
        if p.error:
            # a generated/corpus program that does not build natively or cannot be exported is infrastructure
            raise Inconclusive("%s: %s" % (p.name, p.error))
        if not p.native:
            raise Inconclusive("%s: no native runs" % p.name)
    results, stats = validate(ctx, programs, workers)
    cnt = triage(ctx, results)
    nneg = negative_selftest(ctx, corpus, workers)
    if cnt["unlocalised"] and not ctx.violations:
        raise Inconclusive("rejections that cannot be localised to the IR (IRSem or builder?):\n  " + "\n  ".join(cnt["unlocalised"][:10]))

    # coverage bookkeeping
    ops_seen = set()
    memo = {}
    for pr, mode, nr, v, c in results:
        if v == "accept":
            p = next(x for x in pr.progs if x["mode"] == mode)
            ops_seen |= reach_ops(p, irsemlib.fn_index(p, nr["fn"]), memo)
    total = len(results)
    samples = []
    for pr, mode, nr, v, c in results[:: max(1, total // 5)][:5]:
        samples.append({"program": pr.name, "mode": mode, "call": describe(nr), "native": native_str(nr), "verdict": v,
                        "steps": c["steps"] if c else None})
    if total == 0 or cnt["accepted"] == 0:
        raise Inconclusive("nothing was validated")
    ctx.coverage = {
        "programs": len(programs),
        "program_mode_pairs": sum(len(p.progs) for p in programs),
        "functions_under_test": sum(len({r["fn"] for r in p.native}) for p in programs),
        "disagreements_checked": total,
        "accepted": cnt["accepted"],
        "skipped_outside_fragment": cnt["skipped_unsup"],
        "input_vectors": cnt["groups"],
        "rejected_input_vectors": cnt["rejected_groups"],
        "negative_selftest_runs_rejected": nneg,
        "states": stats["states"],
        "transitions": stats["transitions"],
        "tlc_runs": stats["tlc_runs"],
        "tlc_wall_s": round(stats["tlc_wall"], 1),
        "modes": MODES,
        "instruction_kinds_in_accepted_functions": sorted(ops_seen),
        "exhaustive": False,
        "samples": samples,
        "trusted_base": ["TLC", "go toolchain (native reference: go build + run)", "h-irsem exporter (reads only exported go/ir API)"],
    }
    ctx.assumptions = [
        "fragment: see checks/C01.notes.md (no goroutines/channels/select, floats/complex, unsafe, reflection, un-instantiated generic bodies; integers within +-2^30)",
        "input domain per parameter: int {-1,0,1,2}, int8 {-1,0,1,127}, uint8 {0,1,2,255}, bool {false,true}, string {\"\",\"a\",\"h\\u00e9y\"}; all vectors up to the per-function cap",
        "generated programs never observe the capacity of a slice grown by append (unspecified in Go)",
    ]


def load_prepared_corpus(ctx, helper):
    corpus = load_corpus()
    vlib.pmap(lambda p: irsemlib.prepare(ctx, helper, p), corpus, workers=8)
    return [p for p in corpus if not p.error]
