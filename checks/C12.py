"""C12 — Merging runs follows any/all semantics, order-independently.

Spec: specs/Merge.tla (+ MCMerge.tla).  TLC checks the laws of C12 on the oracle over every
sequence of <= 3 runs (2 files, 5 descriptors, restricted-growth build names incl. "") and
emits every sequence with its expected `Merged` set.  Conformance (R): every emitted case is
encoded as a real `-f binary` gob stream and pushed through the real `staticcheck -merge`
(stdin / one file per run / split files); printed problems + build-name annotations must
equal `Merged`.  `-matrix` is bound by a tagged fixture module: `-matrix` output must equal
manual per-line `-f binary` runs merged with `-merge`, and equal the oracle evaluated on the
per-build problem sets.
"""
import itertools
import json
import os
import re

import vlib
from vlib import Inconclusive

DESCS = [
    {"id": 1, "file": "a.go", "line": 1, "endcol": 0, "cat": "SA4000", "msg": "m", "all": False},
    {"id": 2, "file": "a.go", "line": 1, "endcol": 0, "cat": "S1000", "msg": "m", "all": False},
    {"id": 3, "file": "a.go", "line": 2, "endcol": 0, "cat": "U1000", "msg": "u", "all": True},
    {"id": 4, "file": "b.go", "line": 1, "endcol": 0, "cat": "S1002", "msg": "b", "all": True},
    {"id": 5, "file": "a.go", "line": 2, "endcol": 9, "cat": "U1000", "msg": "u", "all": True},
]


def check_descs_match_spec():
    """The Go-side descriptor table must be the one in MCMerge.tla (single source of truth)."""
    txt = open(os.path.join(vlib.SPECS, "MCMerge.tla")).read()
    got = re.findall(r'\[id \|-> (\d+), file \|-> "([^"]+)", line \|-> (\d+), endcol \|-> (\d+), cat \|-> "(\w+)",\s+msg \|-> "(\w+)", all \|-> (TRUE|FALSE)\]', txt)
    spec = [{"id": int(a), "file": b, "line": int(c), "endcol": int(d), "cat": e, "msg": f, "all": g == "TRUE"} for a, b, c, d, e, f, g in got]
    if sorted(spec, key=lambda d: d["id"]) != DESCS:
        raise Inconclusive("descriptor table in C12.py differs from MCMerge.tla")


def case_key(c):
    """Canonical key of the abstract case (runs as given; names matter)."""
    return vlib.canon_key({"runs": [{"name": r["name"], "checked": sorted(r["checked"]), "diags": sorted(r["diags"])} for r in c["runs"]]})


def is_foreign(c):
    """Some run reports a problem in a file it did not check."""
    fileof = {d["id"]: d["file"] for d in DESCS}
    return any(fileof[i] not in r["checked"] for r in c["runs"] for i in r["diags"])


def norm_case(c, idx):
    return {"idx": idx,
            "runs": [{"name": r["name"], "checked": sorted(r["checked"]), "diags": sorted(r["diags"])} for r in c["runs"]],
            "merged": sorted(({"id": m["id"], "names": sorted(m["names"])} for m in c["merged"]), key=lambda m: m["id"])}


def replay_cases(ctx, sc, helper, cases):
    """sc = path of the real binary (one process per merge), or "" = same code path in-process
    (lintcmd.Command.ParseFlags+Execute with cmd/staticcheck's analyzers) in worker processes."""
    d = ctx.tmp("merge-replay")
    cpath = os.path.join(d, "cases.ndjson")
    with open(cpath, "w") as f:
        for c in cases:
            f.write(json.dumps(c) + "\n")
    dpath = os.path.join(d, "desc.json")
    with open(dpath, "w") as f:
        json.dump(DESCS, f)
    rc, so, se = vlib.sh([helper, "-sc", sc, "-cases", cpath, "-desc", dpath, "-j", str(vlib.NCPU), "-dir", d], timeout=7200)
    if rc != 0:
        raise Inconclusive("h-merge failed rc=%d: %s" % (rc, se[-2000:]))
    mism, summary = [], None
    for line in so.splitlines():
        o = json.loads(line)
        if o.get("summary"):
            summary = o
        else:
            mism.append(o)
    if summary is None or summary["cases"] != len(cases):
        raise Inconclusive("h-merge did not process all cases: %s" % summary)
    return mism, summary


# ---------------------------------------------------------------------------------------------
# -matrix binding
# ---------------------------------------------------------------------------------------------

MATRIX_FILES = {
    "go.mod": "module ex.test/mx\n\ngo 1.22\n",
    # common.go: unconditional; `helperAll` is unused under every build (U1000, strategy all);
    # `onlyT1` is used only by t1.go: unused (reported) in builds without t1.
    "common.go": """package mx

func helperAll() {}

func onlyT1() int { return 1 }

func Common(x int) bool {
	return x == x
}
""",
    "t1.go": """//go:build t1

package mx

func UseT1(y int) bool {
	_ = onlyT1()
	return y == y
}
""",
    "arch_386.go": """package mx

func Use386(z int) bool {
	return z == z
}
""",
    "t2.go": """//go:build t2

package mx

import "strings"

func UseT2(s string) bool {
	return strings.ToLower(s) == strings.ToLower("A")
}
""",
}

# name -> (matrix line, env for the equivalent single run, flags for the equivalent single run, files checked)
# Env-based lines (e1, a386) matter: a configuration's environment must not leak into later lines.
MATRIX_BUILDS = {
    "plain": ("plain:", {}, [], {"common.go"}),
    "t1": ("t1: -tags=t1", {}, ["-tags", "t1"], {"common.go", "t1.go"}),
    "t2": ("t2: -tags=t2", {}, ["-tags", "t2"], {"common.go", "t2.go"}),
    "t12": ("t12: -tags=t1,t2", {}, ["-tags", "t1,t2"], {"common.go", "t1.go", "t2.go"}),
    "e1": ("e1: GOFLAGS=-tags=t1", {"GOFLAGS": "-tags=t1"}, [], {"common.go", "t1.go"}),
    "a386": ("a386: GOARCH=386", {"GOARCH": "386"}, [], {"common.go", "arch_386.go"}),
}
MATRIX_LINES = {k: v[0] for k, v in MATRIX_BUILDS.items()}

TEXT_RE = re.compile(r"^(\S+?):(\d+):(\d+): (.*?)(?: \[([^\]]*)\])? \((\w+)\)$")


def parse_text(out):
    res = []
    for line in out.splitlines():
        if not line.strip():
            continue
        m = TEXT_RE.match(line)
        if not m:
            res.append(("UNPARSED", line))
            continue
        res.append((m.group(1), int(m.group(2)), int(m.group(3)), m.group(4), m.group(6), m.group(5) or ""))
    return sorted(res)


def matrix_binding(ctx, sc):
    """-matrix == per-line `-f binary` + `-merge` == oracle over the per-build problem sets."""
    mod = ctx.tmp("mx")
    for name, text in MATRIX_FILES.items():
        with open(os.path.join(mod, name), "w") as f:
            f.write(text)
    env = vlib.go_env({"STATICCHECK_CACHE": ctx.tmp("mx-cache")})
    checks = "SA4000,U1000,SA6005"
    strategy_all = {"U1000"}
    names = list(MATRIX_LINES)
    subsets = []
    for k in (1, 2, 3):
        for comb in itertools.permutations(names, k):
            subsets.append(comb)
    if ctx.quick:
        subsets = [s for s in subsets if len(s) <= 2] + vlib.sample(ctx, [s for s in subsets if len(s) == 3], 10)
    # per-build single runs: text output (problem set per build) and binary stream
    per_build_text, per_build_bin = {}, {}
    for n in names:
        _, benv, bflags, _ = MATRIX_BUILDS[n]
        env_n = dict(env)
        env_n.update(benv)
        rc, so, se = vlib.sh([sc, "-checks", checks] + bflags + ["./..."], cwd=mod, env=env_n, timeout=1200)
        if rc not in (0, 1):
            raise Inconclusive("matrix fixture run failed (%s): rc=%d %s" % (n, rc, se[-1000:]))
        per_build_text[n] = parse_text(so)
        if any(p[0] == "UNPARSED" or p[4] in ("compile", "config") for p in per_build_text[n]):
            raise Inconclusive("matrix fixture does not lint cleanly under %s: %s" % (n, per_build_text[n]))
        p = subprocess_bytes([sc, "-checks", checks, "-f", "binary", "-matrix", "./..."], cwd=mod, env=env,
                             stdin=(MATRIX_LINES[n] + "\n").encode())
        per_build_bin[n] = p
    # fixture sanity: the fixture must exercise both strategies and a build-dependent `all` problem
    allp = set(p for n in names for p in per_build_text[n])
    if not any(p[4] == "U1000" for p in allp) or not any(p[4] == "SA4000" for p in allp):
        raise Inconclusive("matrix fixture lost its triggers: %s" % sorted(allp))
    u_onlyT1 = [p for p in allp if p[4] == "U1000" and "onlyT1" in p[3]]
    if not u_onlyT1 or any(u_onlyT1[0] in per_build_text[n] for n in ("t1", "t12")):
        raise Inconclusive("matrix fixture: onlyT1 is not build-dependent as designed")
    if per_build_text["e1"] != per_build_text["t1"] or per_build_text["a386"] == per_build_text["plain"]:
        raise Inconclusive("matrix fixture: env-based builds do not behave as designed")
    checked = {k: v[3] for k, v in MATRIX_BUILDS.items()}
    def one(comb):
        stdin = "".join(MATRIX_LINES[n] + "\n" for n in comb)
        rc, so, se = vlib.sh([sc, "-checks", checks, "-matrix", "./..."], cwd=mod, env=env, input=stdin, timeout=1800)
        if rc not in (0, 1):
            raise Inconclusive("-matrix run failed: rc=%d %s" % (rc, se[-1000:]))
        got_matrix = parse_text(so)
        # manual merge of the per-build binary streams, in this order
        blob = b"".join(per_build_bin[n] for n in comb)
        out = subprocess_bytes([sc, "-checks", checks, "-merge"], cwd=mod, env=env, stdin=blob, ok=(0, 1))
        got_merge = parse_text(out.decode())
        # oracle (Merge.tla's Kept/Names on the per-build sets)
        want = []
        for p in sorted(set(x for n in comb for x in per_build_text[n])):
            key = p[:5]
            reporters = [n for n in comb if p in per_build_text[n]]
            if p[4] in strategy_all:
                if any(p[0] in checked[n] and p not in per_build_text[n] for n in comb):
                    continue
            want.append(key + (",".join(sorted(reporters)),))
        return comb, sorted(want), got_matrix, got_merge

    n_cmp = 0
    for comb, want, got_matrix, got_merge in vlib.pmap(one, subsets, workers=6):
        n_cmp += 1
        case = {"kind": "matrix", "builds": list(comb), "want": want, "matrix": got_matrix, "merge": got_merge}
        if got_matrix != want:
            ctx.violation(vlib.canon_key({"matrix": list(comb)}), "-matrix output differs from Merged() for builds %s" % (comb,), case)
        elif got_merge != want:
            ctx.violation(vlib.canon_key({"matrixmerge": list(comb)}), "manual -f binary + -merge differs from Merged() for builds %s" % (comb,), case)
    return n_cmp, {"builds": list(subsets[0]), "per_build_problems": {n: [list(p) for p in per_build_text[n]] for n in subsets[0]}}


def subprocess_bytes(cmd, cwd, env, stdin, ok=(0,)):
    import subprocess
    p = subprocess.run(cmd, cwd=cwd, env=env, input=stdin, stdout=subprocess.PIPE, stderr=subprocess.PIPE, timeout=1800)
    if p.returncode not in ok:
        raise Inconclusive("command failed rc=%d: %s\n%s" % (p.returncode, cmd, p.stderr.decode()[-1500:]))
    return p.stdout


# ---------------------------------------------------------------------------------------------


def run(ctx):
    ctx.level = "model_checking"
    check_descs_match_spec()
    sc = vlib.go_build_repo(ctx, "./cmd/staticcheck")
    helper = vlib.go_build_harness(ctx, "cmd/h-merge")

    if ctx.replay:
        doc = json.load(open(ctx.replay))
        case = doc["case"]
        if case.get("kind") == "matrix":
            matrix_binding(ctx, sc)
            return
        mism, _ = replay_cases(ctx, sc, helper, [case["case"]])
        mism += replay_cases(ctx, "", helper, [case["case"]])[0]
        for m in mism:
            ctx.violation(doc["key"], doc["what"], {"case": case["case"], "observed": m})
        return

    if os.environ.get("C12_ONLY") == "matrix":   # development aid: only the -matrix binding (writes no complete evidence)
        n_matrix, msample = matrix_binding(ctx, sc)
        raise Inconclusive("C12_ONLY=matrix: %d matrix comparisons, %d violations (partial run, no verdict)" % (n_matrix, len(ctx.violations)))

    # 1. TLC: laws on the oracle + case emission, every sequence of <= 3 runs
    r = vlib.run_tlc(ctx, "MCMerge", "MCMerge_gen3laws.cfg", workers=min(vlib.NCPU, 12), timeout=1200)
    vlib.tlc_require_ok(r, "Merge laws")
    cases = [norm_case(c, i) for i, c in enumerate(r.cases)]
    if len(cases) != r.distinct - 1:
        raise Inconclusive("TLC emitted %d cases for %d states" % (len(cases), r.distinct))
    # 1b. the same with runs that report problems in files they did not check (Foreign = TRUE): <= 2 runs over all
    # descriptors, <= 3 runs over three descriptors; indices continue after the first family
    rf = []
    for cfgname in ("MCMerge_foreign2.cfg", "MCMerge_foreign3.cfg"):
        r2 = vlib.run_tlc(ctx, "MCMerge", cfgname, workers=min(vlib.NCPU, 8), timeout=1200)
        vlib.tlc_require_ok(r2, "Merge laws (%s)" % cfgname)
        if len(r2.cases) != r2.distinct - 1:
            raise Inconclusive("TLC emitted %d cases for %d states (%s)" % (len(r2.cases), r2.distinct, cfgname))
        rf.append(r2)
    fcases, seen_f = [], set()
    for r2 in rf:
        for c in r2.cases:
            nc = norm_case(c, len(cases) + len(fcases))
            if not is_foreign(nc):
                continue          # already in the first family
            k = case_key(nc)
            if k not in seen_f:
                seen_f.add(k)
                fcases.append(nc)
    small = [c for c in cases if len(c["runs"]) <= 2]
    big = [c for c in cases if len(c["runs"]) == 3]
    if ctx.quick:
        chosen = small + vlib.sample(ctx, big, 20000) + vlib.sample(ctx, fcases, 12000)
        via_binary = vlib.sample(ctx, small, 200) + vlib.sample(ctx, big, 200) + vlib.sample(ctx, fcases, 150)
    else:
        chosen = cases + fcases
        via_binary = vlib.sample(ctx, small, 2000) + vlib.sample(ctx, big, 6000) + vlib.sample(ctx, fcases, 2000)
    mism, summary = replay_cases(ctx, "", helper, chosen)
    mism_b, summary_b = replay_cases(ctx, sc, helper, via_binary)
    byidx = {c["idx"]: c for c in chosen}
    for m in mism_b:
        m["mode"] += "/binary"
        byidx[m["idx"]] = next(c for c in via_binary if c["idx"] == m["idx"])
    for m in mism + mism_b:
        c = byidx[m["idx"]]
        ctx.violation(case_key(c), "staticcheck -merge (%s, -f %s) prints %s, Merged() is %s" % (m["mode"], m["format"], m["got"], m["want"]),
                      {"kind": "merge", "case": c, "observed": m})
        if len(ctx.violations) >= 25:
            ctx.note("stopping after 25 violations (%d mismatches in total)" % len(mism))
            break

    # negative self-test of the binding: a corrupted expectation must be rejected
    neg = dict(small[-1])
    neg = json.loads(json.dumps(next(c for c in small if c["merged"])))
    neg["merged"][0]["names"] = neg["merged"][0]["names"] + ["zz"]
    nm, _ = replay_cases(ctx, "", helper, [neg])
    if not nm:
        raise Inconclusive("negative self-test: a corrupted expectation was accepted by the comparison")

    # 2. -matrix binding
    n_matrix, msample = matrix_binding(ctx, sc)

    ctx.coverage = {
        "states": r.distinct + sum(x.distinct for x in rf),
        "transitions": r.generated + sum(x.generated for x in rf),
        "foreign_file_cases_enumerated": len(fcases),
        "foreign_file_cases_replayed": len([c for c in chosen if c["idx"] >= len(cases)]),
        "traces_validated_against_impl": summary["cases"] + summary_b["cases"] + n_matrix,
        "exhaustive": not ctx.quick,
        "tlc": {"module": "MCMerge", "config": "MCMerge_gen3laws.cfg", "wall_s": round(r.wall, 1),
                "invariants": ["OrderIndependent", "RepeatIdempotent", "AnnotationExact", "AnySemantics", "AllSemantics", "AnyMonotone(action)"]},
        "replayed_merge_cases": summary["cases"],
        "replayed_through_real_binary": summary_b["cases"],
        "replayed_merge_cases_nonempty_result": summary["nonempty"],
        "merge_invocations": summary["invocations"],
        "mismatches": len(mism) + len(mism_b),
        "matrix_comparisons": n_matrix,
        "samples": [chosen[len(chosen) // 3], chosen[-1], {"matrix": msample}],
        "trusted_base": ["TLC 1.8.0", "go toolchain (build of cmd/staticcheck from /repo)"],
    }
    ctx.assumptions = [
        "runs are modelled as (build name, checked files, problem set); Severity/Related/SuggestedFixes are constant across runs",
        "bounds: <= 3 runs, 2 files, 5 descriptors, build names from <<b1,b2,''>> in restricted-growth order; runs that report "
        "problems in files they did not check: <= 2 runs over the 5 descriptors, <= 3 runs over 3 descriptors",
    ]
