"""C02 — Built IR is well-formed, strictly dominated, consistently typed SSA.

Spec: specs/IRWf.tla (definition of well-formedness: shape, def-use inverse, path-based dominance,
typing rules from the doc comments of go/ir/ssa.go; independent of go/ir/sanity.go) bound to the
artefact by specs/MCIRWf.tla.  Conformance (O, observation validation): harness/cmd/h-irexport
builds packages with the real go/ir builder of the current tree under builder-mode combinations
and exports every function body through the exported go/ir API; TLC loads the export
(ndJsonDeserialize) and evaluates every conjunct of Wf on one function per state.

  report mode (MCIRWf_report.cfg): one run lists every (function, failed conjunct, witnesses);
  strict mode (MCIRWf_strict.cfg): every conjunct is a named invariant; used to confirm each
      distinct failure on the single function (TLC names the conjunct, the state the function)
      and for the negative self-test.

A failed conjunct on a function the builder produced is a VIOLATION, keyed by conjunct +
instruction kind + shape (not by file).
"""
import hashlib
import json
import os
import re

import vlib
from vlib import Inconclusive

GEN_ONLY = r"\.(F\d|GF\d|use_|GM\d)|\bGM\d"   # generated programs: skip the fixed prelude
MAX_BLOCKS, MAX_INSTRS = 60, 600

TESTDATA_ROOTS = ["go/ir", "unused", "staticcheck", "simple", "stylecheck", "quickfix"]
REPO_PKGS = ["./go/ir", "./go/ir/irutil", "./pattern", "./unused", "./config", "./lintcmd", "./lintcmd/cache",
             "./lintcmd/runner", "./analysis/code", "./analysis/edit", "./analysis/report", "./analysis/lint",
             "./analysis/facts/nilness", "./analysis/facts/purity", "./analysis/facts/typedness", "./analysis/dfa",
             "./go/types/typeutil", "./go/gcsizes", "./go/loader", "./go/ast/astutil", "./structlayout", "./sarif",
             "./printf", "./knowledge", "./internal/sharedcheck", "./internal/passes/buildir", "./simple/s1008",
             "./staticcheck/sa4006", "./staticcheck/sa5011", "./staticcheck/sa1019", "./stylecheck/st1005",
             "./quickfix/qf1003", "./cmd/structlayout-optimize", "./cmd/staticcheck"]
STD_PKGS = ["sort", "strings", "bytes", "strconv", "errors", "context", "sync", "time", "io", "bufio", "fmt",
            "unicode/utf8", "container/heap", "container/list", "encoding/json", "encoding/binary", "regexp/syntax",
            "text/template/parse", "net/url", "path/filepath", "math/big", "slices", "maps", "iter", "go/scanner",
            "go/token", "sync/atomic", "os", "reflect", "flag"]


def mode_name(bits):
    s = "naive" if bits & 1 else "lifted"
    for b, n in ((2, "debug"), (4, "inst"), (8, "serial")):
        if bits & b:
            s += "+" + n
    return s


# ---------------------------------------------------------------------------------------------
# corpora
# ---------------------------------------------------------------------------------------------

def testdata_dirs():
    out = []
    for top in TESTDATA_ROOTS:
        for root, dirs, files in os.walk(os.path.join(vlib.REPO, top)):
            dirs.sort()
            if "/testdata" not in root:
                continue
            if any(f.endswith(".go") and not f.endswith("_test.go") for f in files):
                m = re.search(r"/(go1\.\d+)(/|$)", root)
                out.append({"kind": "dir", "name": os.path.relpath(root, vlib.REPO), "path": root,
                            "goversion": m.group(1) if m else ""})
    return out


def mode_pairs(rng, n_extra):
    """A naive and a lifted mode that differ only in that bit, plus n_extra random modes."""
    rest = rng.randrange(8) << 1
    ms = [rest, rest | 1]
    while n_extra > 0:
        m = rng.randrange(16)
        if m not in ms:
            ms.append(m)
            n_extra -= 1
    return ms


def build_jobs(ctx):
    rng = ctx.rng
    jobs = []
    corp = {}

    def add(corpus, job):
        job["corpus"] = corpus
        jobs.append(job)
        corp[corpus] = corp.get(corpus, 0) + 1

    all_modes = list(range(16))
    tds = testdata_dirs()
    irtd = [t for t in tds if t["name"].startswith("go/ir/testdata") and "/src/" not in t["name"]]
    irsrc = [t for t in tds if t["name"].startswith("go/ir/testdata/src/")]
    other = [t for t in tds if not t["name"].startswith("go/ir/")]
    if ctx.quick:
        ngen, gen_extra = 4, 0
        for k in range(ngen):
            seed = ctx.seed * 1000 + k
            add("generated", {"kind": "gen", "name": "gen%d" % seed, "seed": seed, "modes": mode_pairs(rng, gen_extra),
                              "only": "" if k == 0 else GEN_ONLY})
        for t in irtd:
            add("testdata go/ir", dict(t, modes=mode_pairs(rng, 0), sample=40, seed=ctx.seed))
        for t in vlib.sample(ctx, other, 24):
            add("testdata checks", dict(t, modes=mode_pairs(rng, 0)))
        for t in vlib.sample(ctx, irsrc, 2):
            add("testdata go/ir", dict(t, modes=[rng.randrange(16)], sample=25, seed=ctx.seed))
        pk = vlib.sample(ctx, REPO_PKGS, 2)
        add("repository", {"kind": "pkgs", "name": "repo:" + ",".join(pk), "cwd": vlib.REPO, "patterns": pk,
                           "modes": mode_pairs(rng, 0), "sample": 30, "seed": ctx.seed})
        sp = vlib.sample(ctx, STD_PKGS, 2)
        add("std", {"kind": "pkgs", "name": "std:" + ",".join(sp), "cwd": vlib.REPO, "patterns": sp,
                    "modes": mode_pairs(rng, 0), "sample": 25, "seed": ctx.seed})
    else:
        for k in range(32):
            seed = ctx.seed * 1000 + k
            # every program under 3 modes; the 16 modes rotate over the programs
            ms = [(3 * k + j) % 16 for j in range(3)] if k % 2 == 0 else mode_pairs(rng, 1)
            add("generated", {"kind": "gen", "name": "gen%d" % seed, "seed": seed, "modes": ms,
                              "only": "" if k == 0 else GEN_ONLY})
        for t in irtd:
            add("testdata go/ir", dict(t, modes=all_modes))
        for i, t in enumerate(other):
            add("testdata checks", dict(t, modes=mode_pairs(rng, 0)))
        for t in irsrc:
            add("testdata go/ir", dict(t, modes=mode_pairs(rng, 0), sample=40, seed=ctx.seed))
        for i in range(0, len(REPO_PKGS), 4):
            pk = REPO_PKGS[i:i + 4]
            add("repository", {"kind": "pkgs", "name": "repo:" + ",".join(pk), "cwd": vlib.REPO, "patterns": pk,
                               "modes": mode_pairs(rng, 0), "sample": 40, "seed": ctx.seed})
        for i in range(0, len(STD_PKGS), 5):
            sp = STD_PKGS[i:i + 5]
            add("std", {"kind": "pkgs", "name": "std:" + ",".join(sp), "cwd": vlib.REPO, "patterns": sp,
                        "modes": mode_pairs(rng, 0), "sample": 40, "seed": ctx.seed})
    cap = int(os.environ.get("VERIF_C02_CAP", "0") or 0)
    if cap > 0:
        # development aid: at most `cap` jobs per corpus (the tier's code path, a fraction of its cost)
        kept, seen = [], {}
        for j in jobs:
            seen[j["corpus"]] = seen.get(j["corpus"], 0) + 1
            if seen[j["corpus"]] <= cap:
                kept.append(j)
        jobs = kept
        corp = {c: min(n, cap) for c, n in corp.items()}
    return jobs, corp


# ---------------------------------------------------------------------------------------------
# export and TLC
# ---------------------------------------------------------------------------------------------

def goroot():
    rc, so, se = vlib.sh(["go", "env", "GOROOT"], cwd=vlib.HARNESS, env=vlib.go_env())
    if rc != 0 or not so.strip():
        raise Inconclusive("go env GOROOT failed: " + se[-500:])
    return so.strip()


def run_export(ctx, helper, jobs, tag):
    d = ctx.tmp("export-" + tag)
    jp, op = os.path.join(d, "jobs.json"), os.path.join(d, "out.ndjson")
    with open(jp, "w") as f:
        json.dump([{k: v for k, v in j.items() if k != "corpus"} for j in jobs], f)
    env = vlib.go_env({"GOROOT": goroot(), "CGO_ENABLED": "0"})
    rc, so, se = vlib.sh([helper, "-jobs", jp, "-out", op, "-j", str(min(vlib.NCPU, 8)),
                          "-maxblocks", str(MAX_BLOCKS), "-maxinstrs", str(MAX_INSTRS)], env=env, timeout=3600)
    if rc != 0:
        raise Inconclusive("h-irexport failed rc=%d: %s" % (rc, se[-3000:]))
    results = [json.loads(l) for l in so.splitlines() if l.strip()]
    if len(results) != len(jobs):
        raise Inconclusive("h-irexport reported %d results for %d jobs" % (len(results), len(jobs)))
    return op, results


def read_docs(path):
    """Yield (raw line, light summary) per document without keeping the parsed bodies."""
    with open(path) as f:
        for line in f:
            line = line.rstrip("\n")
            if line:
                yield line


def make_batches(lines, max_fns, max_bytes):
    batches, cur, nf, nb = [], [], 0, 0
    for line in lines:
        n = line.count('"ninstr":')
        if n == 0:
            continue
        if cur and (nf + n > max_fns or nb + len(line) > max_bytes):
            batches.append(cur)
            cur, nf, nb = [], 0, 0
        cur.append(line)
        nf += n
        nb += len(line)
    if cur:
        batches.append(cur)
    return batches


def tlc_report(ctx, batch, workers):
    text = "\n".join(batch) + "\n"
    r = vlib.run_tlc(ctx, "MCIRWf", "MCIRWf_report.cfg", workers=workers, timeout=3000,
                     extra_files={"irwf_batch.ndjson": text}, heap="4g")
    vlib.tlc_require_ok(r, "IRWf report run")
    return r


def tlc_strict(ctx, doc):
    r = vlib.run_tlc(ctx, "MCIRWf", "MCIRWf_strict.cfg", workers=1, timeout=900,
                     extra_files={"irwf_batch.ndjson": json.dumps(doc) + "\n"}, heap="2g")
    m = re.match(r"C_(\w+)$", r.violated or "")
    if r.violated and not m:
        raise Inconclusive("strict TLC run failed with %s:\n%s" % (r.violated, r.out[-2000:]))
    return (m.group(1) if m else None), r


# ---------------------------------------------------------------------------------------------
# failures -> violations
# ---------------------------------------------------------------------------------------------

def instr_at(fn, p):
    """Instruction at position code p = block*1000 + index (1-based), or None."""
    try:
        b, i = divmod(p, 1000)
        if b < 1 or i < 1:
            return None
        return fn["blocks"][b - 1]["instrs"][i - 1]
    except Exception:
        return None


BLOCK_CONJ = ("BlockIndex", "Terminator", "TerminatorArity")


def shape_of(fn, conj, w):
    """Abstract shape of a failure: instruction kind, operand kinds, CFG relation - no names/paths."""
    if conj in BLOCK_CONJ and isinstance(w, int) and 1 <= w <= len(fn["blocks"]):
        blk = fn["blocks"][w - 1]
        last = blk["instrs"][-1]["op"] if blk["instrs"] else "empty"
        return {"last": last, "nsuccs": len(blk["succs"])}
    if conj == "SuccPredInverse":
        return {"edge": "succ/pred"}
    if conj == "T_Params":
        return {"param": "type/arity"}
    pos, extra = None, {}
    if isinstance(w, int):
        pos = w
    elif isinstance(w, list) and len(w) == 3:       # <<def kind, def, user position>>
        pos, extra = w[2], {"def": w[0]}
        if w[0] == "i":
            d = instr_at(fn, w[1])
            extra["defop"] = d["op"] if d else "?"
    elif isinstance(w, list) and len(w) == 2:       # a definition <<kind, p>>
        extra = {"def": w[0]}
        pos = w[1] if w[0] == "i" else None
    x = instr_at(fn, pos) if pos else None
    if x:
        sh = {"op": x["op"]}
        if "sub" in x:
            sh["sub"] = x["sub"]
        if conj == "DefDominatesUse":
            # where the offending definition sits relative to the use
            rel = set()
            for a in x["args"]:
                if a["k"] == "i" and a["p"]:
                    rel.add("same-block" if a["p"] // 1000 == pos // 1000 else "other-block")
            sh["defs"] = sorted(rel)
        sh.update(extra)
        return sh
    return dict(extra, w="other")


def job_for_replay(job):
    """The job that produced the function, with repository paths made relative ($REPO)."""
    j = {k: v for k, v in job.items() if k in ("kind", "name", "path", "goversion", "cwd", "patterns", "seed", "files")}
    for k in ("path", "cwd"):
        if isinstance(j.get(k), str) and j[k].startswith(vlib.REPO):
            j[k] = "$REPO" + j[k][len(vlib.REPO):]
    return j


def cfg_stats(fn):
    """(has multi-entry loop, has phi, has recover) - used only to report what the corpus exercised."""
    n = len(fn["blocks"])
    succs = [[x - 1 for x in b["succs"] if 1 <= x <= n] for b in fn["blocks"]]
    if fn["recover"] and n:
        succs[0] = succs[0] + [fn["recover"] - 1]
    # iterative dominators
    dom = [set(range(n)) for _ in range(n)]
    if n:
        dom[0] = {0}
    preds = [[] for _ in range(n)]
    for u in range(n):
        for v in succs[u]:
            preds[v].append(u)
    changed = True
    while changed:
        changed = False
        for v in range(1, n):
            ps = [dom[p] for p in preds[v]]
            nd = (set.intersection(*ps) if ps else set()) | {v}
            if nd != dom[v]:
                dom[v], changed = nd, True
    # retreating edges of a DFS whose target does not dominate the source
    color, irreducible = [0] * n, False
    stack = [(0, iter(succs[0]))] if n else []
    if n:
        color[0] = 1
    while stack:
        u, it = stack[-1]
        for v in it:
            if color[v] == 0:
                color[v] = 1
                stack.append((v, iter(succs[v])))
                break
            if color[v] == 1 and v not in dom[u]:
                irreducible = True
        else:
            color[u] = 2
            stack.pop()
    has_phi = any(x["op"] == "Phi" for b in fn["blocks"] for x in b["instrs"])
    return irreducible, has_phi, bool(fn["recover"])


ESSENTIAL_KINDS = ["Alloc", "Phi", "Load", "Store", "BinOp", "UnOp", "Call", "Go", "Defer", "ChangeType", "Convert",
                   "MultiConvert", "ChangeInterface", "SliceToArrayPointer", "SliceToArray", "MakeInterface", "MakeClosure",
                   "MakeMap", "MakeChan", "MakeSlice", "Slice", "FieldAddr", "Field", "IndexAddr", "Index", "MapLookup",
                   "Range", "Next", "TypeAssert", "Extract", "If", "Jump", "Return", "Panic", "Unreachable", "Send", "Recv",
                   "MapUpdate", "Select", "TypeSwitch", "ConstantSwitch", "DebugRef", "RunDefers", "BlankStore", "CompositeValue"]


# ---------------------------------------------------------------------------------------------
# negative self-test of the binding
# ---------------------------------------------------------------------------------------------

def corruptions(doc):
    """Four single-field corruptions of an exported function, with the conjunct that must reject."""
    def find(pred):
        for fi, f in enumerate(doc["fns"]):
            for bi, b in enumerate(f["blocks"]):
                for ii, x in enumerate(b["instrs"]):
                    if pred(f, b, x):
                        return fi, bi, ii
        return None
    out = []
    nt = len(doc["types"])

    def clone():
        return json.loads(json.dumps(doc))
    # 1. operand type of an arithmetic BinOp
    p = find(lambda f, b, x: x["op"] == "BinOp" and x["sub"] == "+" and x["v"] == 1)
    if p:
        d = clone()
        x = d["fns"][p[0]]["blocks"][p[1]]["instrs"][p[2]]
        x["args"][0]["t"] = x["args"][0]["t"] % nt + 1
        d["fns"] = [d["fns"][p[0]]]
        out.append(("operand type", "T_BinOp", d))
    # 2. one referrer dropped
    p = find(lambda f, b, x: x["v"] == 1 and len(x["refs"]) >= 1)
    if p:
        d = clone()
        x = d["fns"][p[0]]["blocks"][p[1]]["instrs"][p[2]]
        x["refs"] = x["refs"][1:]
        d["fns"] = [d["fns"][p[0]]]
        out.append(("referrer dropped", "OperandRefersBack", d))
    # 3. one successor edge dropped
    p = find(lambda f, b, x: x["op"] == "If")
    if p:
        d = clone()
        blk = d["fns"][p[0]]["blocks"][p[1]]
        blk["succs"] = blk["succs"][:1]
        d["fns"] = [d["fns"][p[0]]]
        out.append(("successor dropped", "SuccPredInverse", d))
    # 4. a use moved before its definition (operand re-pointed at a later value of the same block
    #    and type, referrers adjusted so that only dominance is broken)
    def use_before_def():
        for fi, f in enumerate(doc["fns"]):
            for bi, b in enumerate(f["blocks"]):
                for ii, x in enumerate(b["instrs"]):
                    if x["op"] == "Phi":
                        continue
                    here = (bi + 1) * 1000 + ii + 1
                    for ai, a in enumerate(x["args"]):
                        if a["k"] != "i":
                            continue
                        for jj in range(ii + 1, len(b["instrs"])):
                            y = b["instrs"][jj]
                            if y["v"] == 1 and y["t"] == a["t"] and y["op"] != "Phi":
                                d = clone()
                                ff = d["fns"][fi]
                                od = instr_at(ff, a["p"])
                                if od is None or here not in od.get("refs", []):
                                    continue
                                od["refs"].remove(here)
                                ff["blocks"][bi]["instrs"][jj]["refs"].append(here)
                                ff["blocks"][bi]["instrs"][ii]["args"][ai] = {"k": "i", "p": (bi + 1) * 1000 + jj + 1, "t": a["t"]}
                                d["fns"] = [ff]
                                return d
        return None
    d = use_before_def()
    if d:
        out.append(("use before def", "DefDominatesUse", d))
    return out


def negative_selftest(ctx, lines):
    doc = None
    for line in lines:
        if '"BinOp"' in line and '"If"' in line:
            doc = json.loads(line)
            cs = corruptions(doc)
            if len(cs) == 4:
                break
    else:
        raise Inconclusive("negative self-test: no exported document offers all four corruption sites")
    # all four corrupted functions in one report-mode run: each must be listed with its conjunct ...
    text = "\n".join(json.dumps(d) for _, _, d in cs) + "\n"
    r = vlib.run_tlc(ctx, "MCIRWf", "MCIRWf_report.cfg", workers=2, timeout=900, extra_files={"irwf_batch.ndjson": text}, heap="2g")
    vlib.tlc_require_ok(r, "negative self-test (report mode)")
    caught = []
    for k, (what, want, d) in enumerate(cs):
        got = sorted(c["conj"] for c in r.cases if c["d"] == k + 1)
        if want not in got:
            raise Inconclusive("negative self-test: corruption '%s' must be rejected by conjunct %s, TLC listed %s" % (what, want, got))
        caught.append({"corruption": what, "rejected_by": want, "all_failed_conjuncts": got, "fn": d["fns"][0]["name"]})
    # ... and TLC itself must stop on one of them in the strict configuration, naming the conjunct
    what, want, d = cs[ctx.seed % len(cs)]
    got, r = tlc_strict(ctx, d)
    if got != want:
        raise Inconclusive("negative self-test: strict configuration must stop at C_%s for '%s', TLC reported %s" % (want, what, got))
    caught.append({"corruption": what, "strict_invariant_violated": "C_" + got})
    if ctx.quick:
        return caught, None
    # thorough: the uncorrupted function is accepted by the strict configuration
    d0 = dict(doc)
    name0 = cs[0][2]["fns"][0]["name"]
    d0["fns"] = [next(f for f in doc["fns"] if f["name"] == name0)]
    got, r = tlc_strict(ctx, d0)
    if got is not None:
        return caught, {"fn": d0["fns"][0]["name"], "conj": got}
    return caught, None


# ---------------------------------------------------------------------------------------------

def replay(ctx, helper):
    rp = json.load(open(ctx.replay))
    case = rp["case"]
    job = dict(case["job"])
    for k in ("path", "cwd"):
        if isinstance(job.get(k), str) and job[k].startswith("$REPO"):
            job[k] = vlib.REPO + job[k][len("$REPO"):]
    job["modes"] = [case["modebits"]]
    job["only"] = "^" + re.escape(case["fn"]) + "$"
    job["dump"] = case["fn"]
    out, results = run_export(ctx, helper, [job], "replay")
    if results[0]["status"] != "ok":
        raise Inconclusive("replay: export failed: %s" % results[0])
    lines = [l for l in read_docs(out) if '"ninstr":' in l]
    if not lines:
        raise Inconclusive("replay: function %s not produced any more" % case["fn"])
    seen = False
    for line in lines:
        doc = json.loads(line)
        got, r = tlc_strict(ctx, doc)
        if got is not None:
            seen = True
            ctx.violation(rp["key"], "conjunct %s fails on %s [%s]" % (got, case["fn"], case["mode"]), case)
    if not seen:
        print("replay: %s [%s] is well-formed now" % (case["fn"], case["mode"]))


def run(ctx):
    ctx.level = "model_checking"
    helper = vlib.go_build_harness(ctx, "cmd/h-irexport")
    if ctx.replay:
        replay(ctx, helper)
        return

    import time
    t0 = time.time()
    jobs, corp = build_jobs(ctx)
    out, results = run_export(ctx, helper, jobs, "main")
    t_export = time.time() - t0
    print("export: %d jobs in %.1fs" % (len(jobs), t_export), flush=True)
    byname = {j["name"]: j for j in jobs}
    skipped_jobs, per_corpus = [], {}
    n_big = 0
    for j, r in zip(jobs, results):
        pc = per_corpus.setdefault(j["corpus"], {"jobs": 0, "built": 0, "not_type_correct": 0, "functions": 0,
                                                 "skipped_large": 0, "not_sampled": 0})
        pc["jobs"] += 1
        if r["status"] == "ok":
            pc["built"] += 1
            pc["functions"] += r["fns"]
            pc["skipped_large"] += r["skipped"]
            pc["not_sampled"] += r.get("notsampled", 0)
            n_big += r["skipped"]
        elif r["status"] == "skip":
            pc["not_type_correct"] += 1
            skipped_jobs.append({"job": r["job"], "why": r["why"][:160]})
        else:
            # a builder panic on a type-correct package is C03's subject, but a package that cannot
            # be exported cannot be judged here either
            raise Inconclusive("export job %s failed: %s" % (r["job"], r["why"][:1500]))
    if per_corpus.get("generated", {}).get("built", 0) != per_corpus.get("generated", {}).get("jobs", -1):
        raise Inconclusive("a generated program did not build (generator bug)")

    lines = list(read_docs(out))
    batches = make_batches(lines, 260 if ctx.quick else 400, 3_500_000 if ctx.quick else 6_000_000)
    total_workers = max(2, min(12, vlib.NCPU, int(os.environ.get("VERIF_TLC_WORKERS", "12") or 12)))
    nproc = 4 if total_workers >= 8 else 2
    wk = max(1, total_workers // nproc)

    # negative self-test runs next to the batches
    import threading
    neg = {}

    def do_neg():
        try:
            neg["res"] = negative_selftest(ctx, lines)
        except Exception as e:  # re-raised below
            neg["err"] = e
    th = threading.Thread(target=do_neg)
    th.start()
    t1 = time.time()
    runs = vlib.pmap(lambda b: tlc_report(ctx, b, wk), batches, workers=nproc)
    th.join()
    print("TLC: %d batches in %.1fs" % (len(batches), time.time() - t1), flush=True)
    caught, clean_fail = neg.get("res", ([], None))

    # index documents lazily for failure reporting
    states = sum(r.distinct for r in runs)
    transitions = sum(r.generated for r in runs)
    n_fn = 0
    ops, modes_seen, pkgs = {}, {}, set()
    samples = []
    doc_of = {}  # (batch idx, d) -> line
    for bi, b in enumerate(batches):
        for di, line in enumerate(b):
            doc_of[(bi, di + 1)] = line
    for line in lines:
        n_fn += line.count('"ninstr":')
        for m in re.finditer(r'"op":"(\w+)"', line):
            ops[m.group(1)] = ops.get(m.group(1), 0) + 1
        m = re.search(r'"mode":"([^"]+)"', line)
        if m:
            modes_seen[m.group(1)] = modes_seen.get(m.group(1), 0) + line.count('"ninstr":')
        m = re.search(r'"pkg":"([^"]+)"', line)
        if m:
            pkgs.add(m.group(1))
    # one state per function + root, document and chunk (25 functions) states per batch
    expect_states = n_fn + sum(1 + len(b) + sum(-(-l.count('"ninstr":') // 25) for l in b) for b in batches)
    if states != expect_states:
        raise Inconclusive("TLC visited %d states, expected %d for %d exported functions" % (states, expect_states, n_fn))

    # failures
    fails = []
    for bi, r in enumerate(runs):
        for c in r.cases:
            fails.append((bi, c))
    groups = {}
    parsed = {}
    for bi, c in fails:
        line = doc_of[(bi, c["d"])]
        if (bi, c["d"]) not in parsed:
            parsed[(bi, c["d"])] = json.loads(line)
        doc = parsed[(bi, c["d"])]
        fn = doc["fns"][c["i"] - 1]
        w = c["w"]
        w1 = w[0] if isinstance(w, list) and w else w
        shape = shape_of(fn, c["conj"], w1)
        key = vlib.canon_key({"conj": c["conj"], "shape": shape})
        groups.setdefault(key, []).append((doc, fn, c, shape))
    n_viol = 0
    n_confirmed = 0
    for key, items in sorted(groups.items()):
        doc, fn, c, shape = min(items, key=lambda it: it[1]["ninstr"])
        got = "(not re-run)"
        if n_confirmed < 3:
            # TLC itself must reject the single function in the strict configuration and name a conjunct
            n_confirmed += 1
            one = {k: v for k, v in doc.items() if k != "fns"}
            one["fns"] = [fn]
            got, r = tlc_strict(ctx, one)
            if got is None:
                raise Inconclusive("report mode lists conjunct %s for %s but the strict configuration accepts the function"
                                   % (c["conj"], fn["name"]))
        job = byname.get(doc["job"]) or byname.get(doc["job"].rsplit("/", 1)[0]) or {"name": doc["job"]}
        case = {"conj": c["conj"], "strict_first_conj": got, "shape": shape, "fn": fn["name"], "pkg": doc["pkg"],
                "mode": doc["mode"], "modebits": doc["modebits"], "witnesses": c["w"][:5] if isinstance(c["w"], list) else c["w"],
                "job": job_for_replay(job), "occurrences": len(items),
                "other_functions": sorted(set(it[1]["name"] + " [" + it[0]["mode"] + "]" for it in items))[:8]}
        what = "IRWf conjunct %s fails on %s [%s] (%s; %d function(s) with this shape)" % (
            c["conj"], fn["name"], doc["mode"], json.dumps(shape, sort_keys=True), len(items))
        if ctx.violation(key, what, case):
            n_viol += 1
        if n_viol >= 25:
            ctx.note("stopping after 25 distinct violations (%d distinct failure shapes)" % len(groups))
            break
    if "err" in neg:
        if not groups:
            raise neg["err"]
        # the self-test corrupts functions of the tree under test; on a tree whose functions already
        # fail conjuncts it can be unusable - the violations above stand on their own
        ctx.note("negative self-test not usable on this tree: %s" % str(neg["err"])[:300])
    if clean_fail and not groups:
        raise Inconclusive("strict configuration rejects %s (%s) although report mode lists nothing" % (clean_fail["fn"], clean_fail["conj"]))

    # what the corpus exercised (vacuity guard)
    missing_kinds = [k for k in ESSENTIAL_KINDS if not ops.get(k)]
    n_irred = n_phi = n_recover = 0
    for line in lines:
        if '"job":"gen' not in line[:200]:
            continue
        for f in json.loads(line)["fns"]:
            irr, ph, rec = cfg_stats(f)
            n_irred += irr
            n_phi += ph
            n_recover += rec
    if not ctx.quick and not os.environ.get("VERIF_C02_CAP") and (missing_kinds or not n_irred or not n_phi or not n_recover):
        raise Inconclusive("vacuity: the thorough corpus lacks instruction kinds %s / irreducible=%d phi=%d recover=%d"
                           % (missing_kinds, n_irred, n_phi, n_recover))
    if ctx.quick and (not n_irred or not n_phi or not n_recover):
        raise Inconclusive("vacuity: generated programs exercised irreducible=%d phi=%d recover=%d functions" % (n_irred, n_phi, n_recover))

    # evidence
    smp = []
    for line in lines[:: max(1, len(lines) // 4)][:4]:
        d = json.loads(line)
        if d["fns"]:
            f = max(d["fns"], key=lambda f: f["ninstr"])
            smp.append({"fn": f["name"], "pkg": d["pkg"], "mode": d["mode"], "blocks": len(f["blocks"]), "instrs": f["ninstr"],
                        "kinds": sorted(set(x["op"] for b in f["blocks"] for x in b["instrs"]))})
    conj_names = re.findall(r"^\s+C_(\w+)$", open(os.path.join(vlib.SPECS, "MCIRWf_strict.cfg")).read(), re.M)
    ctx.coverage = {
        "states": states,
        "transitions": transitions,
        "traces_validated_against_impl": n_fn,
        "functions_validated": n_fn,
        "function_conjunct_failures": len(fails),
        "distinct_failure_shapes": len(groups),
        "exhaustive": False,
        "tlc": {"module": "MCIRWf", "config": "MCIRWf_report.cfg (+ MCIRWf_strict.cfg to confirm / self-test)",
                "runs": len(runs), "wall_s_sum": round(sum(r.wall for r in runs), 1),
                "conjuncts": conj_names},
        "documents": len(lines),
        "packages": len(pkgs),
        "per_corpus": per_corpus,
        "functions_per_mode": dict(sorted(modes_seen.items())),
        "instructions_by_kind": dict(sorted(ops.items(), key=lambda kv: -kv[1])),
        "instruction_kinds_not_exercised": missing_kinds,
        "generated_functions_with_irreducible_cfg": n_irred,
        "generated_functions_with_phi": n_phi,
        "generated_functions_with_recover_block": n_recover,
        "skipped_large_functions": n_big,
        "size_cap": {"blocks": MAX_BLOCKS, "instrs": MAX_INSTRS},
        "packages_not_type_correct": skipped_jobs[:40],
        "negative_selftest": caught,
        "samples": smp,
        "trusted_base": ["TLC 2 / CommunityModules Json", "go toolchain", "go/types (type identity, method sets, core types via x/exp/typeparams)",
                         "harness/cmd/h-irexport (reads exported go/ir API only)"],
    }
    ctx.assumptions = [
        "functions with more than %d blocks or %d instructions are counted and skipped" % (MAX_BLOCKS, MAX_INSTRS),
        "Recover is modelled as a CFG successor of the entry block (control reaches it only after the entry block started)",
        "typing rules involving type parameters are asserted for identity only where ssa.go's comments define them; "
        "rules whose operand has no core type are not asserted",
        "quick tier: seeded sample of corpora x modes; thorough: all testdata, rotating mode combinations",
    ]
