"""C04 — Cache transparency: a run that reuses a cache populated by any earlier history of runs,
source edits, configuration edits and flag changes reports exactly what a cold-cache run reports.

Spec: specs/CacheKey.tla (+ MCCacheKey.tla, MCCacheKey_*.cfg).  The spec is a state machine over a
small world (packages a -> b -> d, a -> w <- c; two versions per source and of go.mod; staticcheck.conf
at two levels with an option-changing and a checks-only content; flags -go/-tags/-tests/-checks) whose
`Run` computes, per analysis unit in dependency order, the action key as subrunner.do/computeHash do,
looks it up in `cache`, stores artefacts and produces the reported problems.  TLC checks Transparent,
HitOnlyIfSameInputs, CacheKeyFunctional on every reachable (world, cache) state up to a history bound
and KeyCoversDeps over all worlds, and EMITS the history of every Run transition (transition cover of
the VIEWed graph) plus -simulate histories.

Binding (R): every selected history is replayed on a real module tree with the real `staticcheck`
binary built from the current tree.  For every Run of the history the binary is executed twice, with
the history's persistent STATICCHECK_CACHE and with a fresh empty one:
  L1 (property, VIOLATION)   sorted `-f json` lines and exit status must be identical
  L2 (drift)                 the reported problems must be the ones the model predicts
  L3 (drift)                 the number of new cache index entries (`*-a` files) must be the number of
                             (key, kind) pairs the model stores (>= after a re-analysis under an
                             existing key, because vetx bytes are unordered); fewer = "hit where the
                             model predicts a miss" -> targeted follow-up histories
  L4 (drift, sample)         with GODEBUG=gocachehash=1 the binary prints the hashed key tuple of every
                             package; the equality pattern of every key component (cfg, pkg, go, vet)
                             over all (run, unit) pairs of a history must be the model's
No hooks in /repo are used (none exist in lintcmd/runner at the time of writing); L3/L4 observe from
outside.
"""
import json
import os
import re
import shutil
import threading
import time

import vlib
from vlib import Inconclusive

MODPATH = "ex.test/t4"

# ---------------------------------------------------------------------------------------------
# Fixture.  Every edit keeps all other positions in place; d's two versions have the same export
# data and positions (only the text of one comment line differs).
# ---------------------------------------------------------------------------------------------

GOMOD = {1: "module ex.test/t4\n\ngo 1.22\n", 2: "module ex.test/t4\n\ngo 1.3\n"}

A_GO_1 = """// Package a is the package whose problems depend on the facts of b and d.
package a

import (
	"ex.test/t4/b"
	. "ex.test/t4/w"
)

// UseGet compares the result of b.Get with nil.
func UseGet() bool {
	return b.Get() == nil
}

// UseM calls a method declared in d through b.V; a does not import d.
func UseM() int {
	return b.V.M() + W
}
"""
A_GO_2 = A_GO_1 + """
// Own is only present in version 2 of a.
func Own(x int) bool {
	return x == x
}
"""
A_TEST = """package a

// HelperInTest lives in a _test.go file: it is only analysed with -tests.
func HelperInTest(x int) bool {
	return x == x
}
"""
B_GO_1 = """// Package b sits between a and d.
package b

import "ex.test/t4/d"

// E is an error type.
type E struct{}

func (*E) Error() string { return "e" }

// V exposes a d.T to importers of b.
var V d.T

// Cur is the current error.
var Cur error

// Same is b's own, constant problem.
func Same(x int) bool {
	return x == x
}

// Get returns a typed nil pointer in an interface: it never returns a nil interface.
func Get() error {
	var p *E
	return p
}
"""
B_GO_2 = """// Package b sits between a and d.
package b

import "ex.test/t4/d"

// E is an error type.
type E struct{}

func (*E) Error() string { return "e" }

// V exposes a d.T to importers of b.
var V d.T

// Cur is the current error.
var Cur error

// Same is b's own, constant problem.
func Same(x int) bool {
	return x == x
}

// Get returns the current error.
//
// Deprecated: read Cur instead.
func Get() error {
	return Cur
}
"""
C_GO_1 = """// Package c is independent of a, b and d.
package c

import . "ex.test/t4/w"

// Sum ranges with a blank identifier (S1005 is gated on go1.4).
func Sum(xs []int) int {
	n := W
	for _ = range xs {
		n++
	}
	return n
}
"""
C_GO_2 = C_GO_1 + """
// Own is only present in version 2 of c.
func Own(x int) bool {
	return x == x
}
"""
C_T = """//go:build t

package c

// Tagged is only compiled with -tags t.
func Tagged(x int) bool {
	return x == x
}
"""
D_GO = """// Package d is the leaf of the chain a -> b -> d.
package d

// T carries the method whose facts flip between the two versions of d.
type T struct{ N int }

// M returns N.
//
// %s
//
//go:noinline
func (t T) M() int { return t.N }
"""
D_GO_1 = D_GO % "Deprecated: use N directly."
D_GO_2 = D_GO % "Deprecation: none at present."
W_GO = """// Package w is dot-imported by a and c.
package w

// W is a constant.
const W = 1
"""

SRC = {"a": ("a/a.go", {1: A_GO_1, 2: A_GO_2}), "b": ("b/b.go", {1: B_GO_1, 2: B_GO_2}),
       "c": ("c/c.go", {1: C_GO_1, 2: C_GO_2}), "d": ("d/d.go", {1: D_GO_1, 2: D_GO_2}),
       "m": ("go.mod", GOMOD)}
STATIC = {"a/a_test.go": A_TEST, "c/c_t.go": C_T, "w/w.go": W_GO}
CONF = {("root", "opt"): 'dot_import_whitelist = ["inherit", "ex.test/t4/w"]\n',
        ("root", "chk"): 'checks = ["inherit", "-S1005", "-SA4023"]\n',
        ("a", "opt"): 'dot_import_whitelist = ["ex.test/t4/w"]\n',
        ("a", "chk"): 'checks = ["inherit", "-SA1019"]\n'}
CONF_PATH = {"root": "staticcheck.conf", "a": "a/staticcheck.conf"}
ALT_CHECKS = "SA4023,SA1019,S1005"
INIT_FLAGS = {"go": "module", "tags": "none", "tests": "off", "checks": "dflt"}
PAT = {"a": "./a", "b": "./b", "c": "./c", "all": "./..."}
DEPENDENTS = {"w", "d", "b", "at", "std"}   # units whose vetx is hashed into another unit's key


class Tree:
    """A real module tree + the flags of the next run, driven by the abstract actions."""

    def __init__(self, root):
        self.root = root
        self.src = {p: 1 for p in SRC}
        self.conf = {"root": "none", "a": "none"}
        self.flags = dict(INIT_FLAGS)
        self.clock = 1_600_000_000
        os.makedirs(root, exist_ok=True)
        for p in SRC:
            self._write_src(p)
        for rel, text in STATIC.items():
            self._write(rel, text)

    def _write(self, rel, text):
        path = os.path.join(self.root, rel)
        os.makedirs(os.path.dirname(path), exist_ok=True)
        with open(path, "w") as f:
            f.write(text)
        self.clock += 7
        os.utime(path, (self.clock, self.clock))

    def _write_src(self, p):
        rel, vers = SRC[p]
        self._write(rel, vers[self.src[p]])

    def apply(self, a):
        act = a["act"]
        if act == "Edit":
            self.src[a["p"]] = 3 - self.src[a["p"]]
            if str(self.src[a["p"]]) != a["v"]:
                raise Inconclusive("replay out of step with the model at %s" % a)
            self._write_src(a["p"])
        elif act == "Revert":
            for p in SRC:
                if self.src[p] != 1:
                    self.src[p] = 1
                    self._write_src(p)
        elif act == "Touch":
            self._write_src(a["p"])          # same bytes, new mtime
        elif act == "SetConf":
            self.conf[a["p"]] = a["v"]
            self._write(CONF_PATH[a["p"]], CONF[(a["p"], a["v"])])
        elif act == "RmConf":
            self.conf[a["p"]] = "none"
            os.remove(os.path.join(self.root, CONF_PATH[a["p"]]))
        elif act == "SetFlag":
            self.flags[a["p"]] = a["v"]
        else:
            raise Inconclusive("unknown action %s" % a)

    def argv(self, pats):
        f = self.flags
        av = ["-f", "json", "-go", "module" if f["go"] == "module" else "1.3",
              "-tests=" + ("true" if f["tests"] == "on" else "false")]
        if f["tags"] == "t":
            av += ["-tags", "t"]
        if f["checks"] == "alt":
            av += ["-checks", ALT_CHECKS]
        return av + [PAT[p] for p in sorted(pats)]

    def world(self):
        return {"src": dict(self.src), "conf": dict(self.conf), "flags": dict(self.flags)}


def is_heavy(flags, pats):
    """-tests with a's test file pulls the ~95 std packages behind the test main into the run."""
    return flags["tests"] == "on" and ("a" in pats or "all" in pats)


# ---------------------------------------------------------------------------------------------
# Running the real binary and reading its observable behaviour
# ---------------------------------------------------------------------------------------------

def run_sc(sc, tree, cache_dir, pats, godebug=None, trace="/dev/null"):
    env = vlib.go_env({"STATICCHECK_CACHE": cache_dir, "VERIF_TRACE_RUNNER": trace})
    env.pop("GODEBUG", None)
    env.pop("VERIF_TRACE", None)
    env.pop("VERIF_YIELD_SEED", None)
    if godebug:
        env["GODEBUG"] = godebug
    argv = [sc] + tree.argv(pats)
    rc, so, se = vlib.sh(argv, cwd=tree.root, env=env, timeout=1800)
    if rc not in (0, 1):
        raise Inconclusive("staticcheck failed rc=%d argv=%s\n%s" % (rc, argv[1:], se[-1500:]))
    lines = sorted(l for l in so.splitlines() if l.strip())
    return {"rc": rc, "lines": lines, "stderr": se, "argv": argv[1:]}


def problem_ids(tree_root, lines):
    """Map `-f json` lines to the model's problem ids (anything else is kept as an unmapped token)."""
    ids = set()
    for l in lines:
        try:
            o = json.loads(l)
        except Exception:
            ids.add("?unparsed")
            continue
        code, msg = o.get("code", ""), o.get("message", "")
        f = o.get("location", {}).get("file", "")
        rel = os.path.relpath(f, tree_root) if f.startswith(tree_root + os.sep) else f
        if o.get("severity") == "ignored":
            ids.add("?ignored")
        elif code == "compile" and not f.startswith(tree_root + os.sep):
            ids.add("std.compile")
        elif rel == "a/a.go" and code == "ST1001":
            ids.add("a.st1001")
        elif rel == "a/a.go" and code == "SA4023":
            ids.add("a.sa4023")
        elif rel == "a/a.go" and code == "SA1019" and "b.Get" in msg:
            ids.add("a.sa1019b")
        elif rel == "a/a.go" and code == "SA1019" and "d.T" in msg:
            ids.add("a.sa1019d")
        elif rel == "a/a.go" and code == "SA4000":
            ids.add("a.own")
        elif rel == "a/a_test.go" and code == "SA4000":
            ids.add("a.test")
        elif rel == "b/b.go" and code == "SA4000":
            ids.add("b.own")
        elif rel == "c/c.go" and code == "ST1001":
            ids.add("c.st1001")
        elif rel == "c/c.go" and code == "S1005":
            ids.add("c.s1005")
        elif rel == "c/c.go" and code == "SA4000":
            ids.add("c.own")
        elif rel == "c/c_t.go" and code == "SA4000":
            ids.add("c.tag")
        else:
            ids.add("?%s@%s" % (code, rel))
    return ids


def index_entries(cache_dir):
    out = set()
    if not os.path.isdir(cache_dir):
        return out
    for d in os.listdir(cache_dir):
        sub = os.path.join(cache_dir, d)
        if len(d) == 2 and os.path.isdir(sub):
            for f in os.listdir(sub):
                if f.endswith("-a"):
                    out.add(f)
    return out


def same_report(x, y):
    """L1: the property-level comparison (sorted json lines and exit status)."""
    return x["rc"] == y["rc"] and x["lines"] == y["lines"]


HASH_RE = re.compile(r'^HASH\[staticcheck ([^\]]+)\]: (.*)$')


def parse_key_tuples(stderr):
    """GODEBUG=gocachehash=1: per package id path, the components written into the action hash."""
    per = {}
    for line in stderr.splitlines():
        m = HASH_RE.match(line)
        if not m:
            continue
        path, rest = m.group(1), m.group(2)
        d = per.setdefault(path, {"cfg": None, "pkg": None, "go": None, "vet": [], "n": 0, "sum": None})
        if rest.startswith('"'):
            try:
                txt = json.loads(rest)
            except Exception:
                txt = rest              # the salt is binary; Go's %q is not always JSON
            if txt.startswith("cfg "):
                d["cfg"] = txt
                d["n"] += 1
            elif txt.startswith("pkg "):
                d["pkg"] = txt
            elif txt.startswith("go "):
                d["go"] = txt
            elif txt.startswith("vetout "):
                d["vet"].append(txt)
        else:
            d["sum"] = rest.strip()
    return per


ID_UNIT = {MODPATH + "/a": "a", MODPATH + "/a [" + MODPATH + "/a.test]": "at", MODPATH + "/a.test": "am",
           MODPATH + "/b": "b", MODPATH + "/c": "c", MODPATH + "/d": "d", MODPATH + "/w": "w"}
# units whose key may legitimately differ from the model's after `u` was re-analysed under an existing key
TRANS_DEPS = {"w": set(), "d": set(), "std": set(), "b": {"d"}, "c": {"w"}, "a": {"b", "d", "w"},
              "at": {"b", "d", "w"}, "am": {"at", "b", "d", "w", "std"}}
DOWNSTREAM = {"w": {"c", "a", "at", "am"}, "d": {"b", "a", "at", "am"}, "b": {"a", "at", "am"},
              "at": {"am"}, "std": {"am"}, "a": set(), "c": set(), "am": set()}


def parse_trace(path):
    """Cache-layer events of the `verif` hooks in lintcmd/runner (key, keydep, miss, store), if present."""
    t = {"key": {}, "dep": {}, "miss": set(), "store": []}
    try:
        f = open(path, errors="replace")
    except OSError:
        return None
    with f:
        for line in f:
            if '"ev":"key' not in line and '"ev":"miss"' not in line and '"ev":"store"' not in line:
                continue
            try:
                e = json.loads(line)
            except Exception:
                continue
            ev, pkg = e.get("ev"), e.get("pkg", "")
            if ev == "key" and len(e.get("l") or []) >= 6:
                l = e["l"]
                t["key"][pkg] = {"hash": e.get("s"), "factsOnly": e.get("flag"), "cfg": l[1], "pkg": l[2], "go": l[4]}
            elif ev == "keydep" and len(e.get("l") or []) >= 2:
                t["dep"].setdefault(pkg, []).append("%s=%s" % (e.get("tpkg"), e["l"][1]))
            elif ev == "miss":
                t["miss"].add(pkg)
            elif ev == "store":
                t["store"].append((pkg, e.get("s")))
    return t if t["key"] else None


# model unit -> package path whose HASH[...] block is that unit's key. a and a [a.test] share the
# PkgPath (two blocks under one name); std is not compared.
UNIT_PATH = {"a": MODPATH + "/a", "b": MODPATH + "/b", "c": MODPATH + "/c", "d": MODPATH + "/d",
             "w": MODPATH + "/w", "am": MODPATH + "/a.test"}


def canon(v):
    if isinstance(v, dict):
        return "{" + ",".join("%s:%s" % (k, canon(v[k])) for k in sorted(v)) + "}"
    if isinstance(v, list):
        return "[" + ",".join(sorted(canon(x) for x in v)) + "]"
    return json.dumps(v)


# ---------------------------------------------------------------------------------------------
# Replaying one history
# ---------------------------------------------------------------------------------------------

def abstract(hist, upto=None):
    out = []
    for a in hist[: (upto + 1) if upto is not None else None]:
        if a["act"] == "Run":
            out.append({"act": "Run", "pats": sorted(a["pats"])})
        else:
            out.append({"act": a["act"], "p": a["p"], "v": a["v"]})
    return out


def replay(sc, base, hist, nstd, keymode=False, model=True):
    """Replay one history.  Returns a dict with per-run observations and the findings of L1..L4."""
    tree = Tree(os.path.join(base, "t4"))
    warm = os.path.join(base, "cache")
    os.makedirs(warm, exist_ok=True)
    godebug = "gocachehash=1" if keymode else None
    res = {"runs": [], "viol": [], "drift": [], "extra_misses": 0, "invocations": 0, "heavy": 0,
           "key_obs": [], "nonempty": 0}
    fuzzy = False
    tainted = set()
    ncold = 0
    res["hooks"] = None
    res["key_obs_hook"] = []
    try:
        for i, a in enumerate(hist):
            if a["act"] != "Run":
                tree.apply(a)
                continue
            pats = sorted(a["pats"])
            before = index_entries(warm)
            tpath = os.path.join(base, "trace%d.ndjson" % i)
            w = run_sc(sc, tree, warm, pats, godebug, trace=tpath)
            after = index_entries(warm)
            tr = parse_trace(tpath)
            if os.path.exists(tpath):
                os.remove(tpath)
            if res["hooks"] is None:
                res["hooks"] = tr is not None
            ncold += 1
            cold_dir = os.path.join(base, "cold%d" % ncold)
            c = run_sc(sc, tree, cold_dir, pats, godebug)
            shutil.rmtree(cold_dir, ignore_errors=True)
            res["invocations"] += 2
            if is_heavy(tree.flags, pats):
                res["heavy"] += 1
            ids = problem_ids(tree.root, w["lines"])
            if ids:
                res["nonempty"] += 1
            obs = {"step": i, "pats": pats, "world": tree.world(), "argv": w["argv"],
                   "new_entries": len(after - before), "problems": sorted(ids), "rc": w["rc"]}
            res["runs"].append(obs)
            # L1 -- the property
            if not same_report(w, c):
                res["viol"].append({"step": i, "what": "warm-cache report differs from cold-cache report",
                                    "warm": w["lines"], "cold": c["lines"], "warm_rc": w["rc"], "cold_rc": c["rc"],
                                    "only_warm": sorted(set(w["lines"]) - set(c["lines"])),
                                    "only_cold": sorted(set(c["lines"]) - set(w["lines"])),
                                    "world": tree.world(), "argv": w["argv"]})
            if not model:
                continue
            pred = a["pred"]
            # L2 -- model output
            if sorted(ids) != sorted(pred["probs"]):
                res["drift"].append({"layer": "output", "step": i, "model": sorted(pred["probs"]), "real": sorted(ids)})
            # L3 -- hit/miss seen from outside
            go = tree.flags["go"]
            want = pred["new"] + (nstd[go] if pred["newstd"] else 0)
            for u in DEPENDENTS:
                if pred["log"].get(u) == "upgrade":
                    fuzzy = True
                    tainted |= DOWNSTREAM[u]
            # L3h / L4h -- the same two layers per unit, from the runner's verif hooks when they exist
            if tr is not None:
                res["drift"] += hook_layer(tr, pred, i, go, nstd, tainted, res)
            got = obs["new_entries"]
            obs["model_new"] = want
            if got < want:
                res["drift"].append({"layer": "hit-where-model-predicts-miss", "step": i, "model_new": want,
                                     "real_new": got, "log": pred["log"]})
            elif got > want:
                if fuzzy:
                    res["extra_misses"] += got - want
                else:
                    res["drift"].append({"layer": "miss-where-model-predicts-hit", "step": i, "model_new": want,
                                         "real_new": got, "log": pred["log"]})
            # L4 -- key tuples
            if keymode and pred.get("keys"):
                real = parse_key_tuples(w["stderr"])
                for ku in pred["keys"]:
                    u = ku["u"]
                    if u not in UNIT_PATH or (u == "a" and pred["log"].get("at", "-") != "-"):
                        continue        # a and a [a.test] print under the same name: skip when both ran
                    r = real.get(UNIT_PATH[u])
                    if not r or r["n"] != 1 or r["pkg"] is None:
                        res["drift"].append({"layer": "key", "step": i, "what": "no unique key block for %s" % u})
                        continue
                    res["key_obs"].append({"step": i, "u": u, "fuzzy": fuzzy, "depmiss": dep_reanalysed(pred, u),
                                           "m": {c_: canon(ku["k"][c_]) for c_ in ("cfg", "pkg", "go", "vet")},
                                           "r": {"cfg": r["cfg"], "pkg": r["pkg"], "go": r["go"],
                                                 "vet": "|".join(sorted(r["vet"]))}})
        if keymode:
            res["drift"] += key_partition_drift(res["key_obs"])
        for d in key_partition_drift(res["key_obs_hook"]):
            d["via"] = "hooks"
            res["drift"].append(d)
    finally:
        shutil.rmtree(base, ignore_errors=True)
    return res


def hook_layer(tr, pred, step, go, nstd, tainted, res):
    """Per-unit hit/miss (and key components) as logged by subrunner.do against the model's Run."""
    out = []
    byunit = {}
    std_keys, std_stores = 0, 0
    for pid, k in tr["key"].items():
        u = ID_UNIT.get(pid)
        if u is None:
            std_keys += 1
        else:
            byunit[u] = (pid, k)
    for pid, kind in tr["store"]:
        if pid not in ID_UNIT:
            std_stores += 1
    for u, lg in pred["log"].items():
        if u == "std":
            want = nstd[go] if pred["newstd"] else 0
            if std_stores < want:
                out.append({"layer": "hit-where-model-predicts-miss", "via": "hooks", "step": step, "unit": "std",
                            "model_new": want, "real_new": std_stores, "log": pred["log"]})
            elif std_stores > want:
                out.append({"layer": "miss-where-model-predicts-hit", "via": "hooks", "step": step, "unit": "std",
                            "model_new": want, "real_new": std_stores})
            continue
        if lg in ("-", "depfailed"):
            if u in byunit:
                out.append({"layer": "unit-set", "via": "hooks", "step": step, "unit": u, "model": lg, "real": "key computed"})
            continue
        if u not in byunit:
            out.append({"layer": "unit-set", "via": "hooks", "step": step, "unit": u, "model": lg, "real": "no key event"})
            continue
        pid, k = byunit[u]
        real_hit = pid not in tr["miss"]
        if real_hit and lg != "hit":
            out.append({"layer": "hit-where-model-predicts-miss", "via": "hooks", "step": step, "unit": u,
                        "model_new": 1, "real_new": 0, "log": pred["log"]})
        elif not real_hit and lg == "hit":
            if u in tainted:
                res["extra_misses_units"] = res.get("extra_misses_units", 0) + 1
            else:
                out.append({"layer": "miss-where-model-predicts-hit", "via": "hooks", "step": step, "unit": u, "log": pred["log"]})
    for ku in pred.get("keys") or []:
        u = ku["u"]
        if u in byunit:
            pid, k = byunit[u]
            res["key_obs_hook"].append({"step": step, "u": u, "fuzzy": u in tainted, "depmiss": dep_reanalysed(pred, u),
                                        "m": {c_: canon(ku["k"][c_]) for c_ in ("cfg", "pkg", "go", "vet")},
                                        "r": {"cfg": k["cfg"], "pkg": k["pkg"], "go": k["go"],
                                              "vet": "|".join(sorted(tr["dep"].get(pid, [])))}})
    return out


def dep_reanalysed(pred, u):
    """Some (transitive) dependency of u was analysed, not served, in this run: its vetx bytes are new."""
    return any(pred["log"].get(x) in ("miss", "upgrade") for x in TRANS_DEPS[u])


def key_partition_drift(obs):
    """For every key component: over all pairs of (run, unit) observations of one history, the real
    values are equal iff the model values are equal.  For `vet` (hashes of the dependencies' vetx
    FILES) 'model equal, real different' is legitimate when the later run analysed a dependency anew
    or a dependency was re-analysed under an existing key before: a vetx file is a gob stream in map
    order, so two analyses of the same inputs may differ in bytes; 'real equal => model equal' always
    has to hold."""
    out = []
    for comp in ("cfg", "pkg", "go", "vet"):
        for i in range(len(obs)):
            for j in range(i + 1, len(obs)):
                x, y = obs[i], obs[j]
                if comp == "pkg" and x["u"] != y["u"]:
                    continue            # package hashes of different packages always differ
                me, re_ = x["m"][comp] == y["m"][comp], x["r"][comp] == y["r"][comp]
                if comp == "vet" and x["u"] != y["u"]:
                    continue
                if me == re_:
                    continue
                if comp == "vet" and me and not re_ and (x["fuzzy"] or y["fuzzy"] or y["depmiss"]):
                    continue
                out.append({"layer": "key", "component": comp, "model_equal": me, "real_equal": re_,
                            "a": {k: x[k] for k in ("step", "u")}, "b": {k: y[k] for k in ("step", "u")}})
                if len(out) > 5:
                    return out
    return out


# ---------------------------------------------------------------------------------------------
# Baseline of the fixture (every designed trigger really fires, cold)
# ---------------------------------------------------------------------------------------------

BASE_PROBS = {"a.st1001", "a.sa4023", "a.sa1019d", "b.own", "c.st1001", "c.s1005"}
BASELINE = [
    # (name, actions from the initial world, expected problem ids of a cold `./...` run)
    ("initial", [], BASE_PROBS),
    ("edit-b flips a", [("Edit", "b", "2")], BASE_PROBS - {"a.sa4023"} | {"a.sa1019b"}),
    ("edit-d flips a", [("Edit", "d", "2")], BASE_PROBS - {"a.sa1019d"}),
    ("edit-a", [("Edit", "a", "2")], BASE_PROBS | {"a.own"}),
    ("edit-c", [("Edit", "c", "2")], BASE_PROBS | {"c.own"}),
    ("go.mod 1.3", [("Edit", "m", "2")], BASE_PROBS - {"c.s1005"}),
    ("-go 1.3", [("SetFlag", "go", "old")], BASE_PROBS - {"c.s1005"}),
    ("-tags t", [("SetFlag", "tags", "t")], BASE_PROBS | {"c.tag"}),
    ("-checks", [("SetFlag", "checks", "alt")], {"a.sa4023", "a.sa1019d", "c.s1005"}),
    ("root opt", [("SetConf", "root", "opt")], BASE_PROBS - {"a.st1001", "c.st1001"}),
    ("a opt", [("SetConf", "a", "opt")], BASE_PROBS - {"a.st1001"}),
    ("root chk", [("SetConf", "root", "chk")], BASE_PROBS - {"a.sa4023", "c.s1005"}),
    ("a chk", [("SetConf", "a", "chk")], BASE_PROBS - {"a.sa1019d"}),
    ("root chk + -checks", [("SetConf", "root", "chk"), ("SetFlag", "checks", "alt")], {"a.sa4023", "a.sa1019d", "c.s1005"}),
]


def baseline(ctx, sc):
    """Cold runs that prove the fixture: each trigger fires, editing only b/d flips a's problems while
    a's files stay the same, and the std closure behind the test main has a stable size."""
    def one(item):
        name, acts, want = item
        base = ctx.tmp("base-" + re.sub(r"\W+", "_", name))
        tree = Tree(os.path.join(base, "t4"))
        a_before = open(os.path.join(tree.root, "a/a.go")).read()
        for act, p, v in acts:
            tree.apply({"act": act, "p": p, "v": v})
        r = run_sc(sc, tree, os.path.join(base, "cold"), ["all"])
        got = problem_ids(tree.root, r["lines"])
        a_same = open(os.path.join(tree.root, "a/a.go")).read() == a_before
        ok = got == set(want) and (a_same or name == "edit-a")
        shutil.rmtree(base, ignore_errors=True)
        return name, ok, sorted(got), sorted(want)

    def std_size(go):
        base = ctx.tmp("base-std-" + go)
        tree = Tree(os.path.join(base, "t4"))
        tree.apply({"act": "SetFlag", "p": "tests", "v": "on"})
        tree.apply({"act": "SetFlag", "p": "go", "v": go})
        cd = os.path.join(base, "cold")
        r = run_sc(sc, tree, cd, ["a"])
        n = len(index_entries(cd))
        ids = problem_ids(tree.root, r["lines"])
        shutil.rmtree(base, ignore_errors=True)
        # model entries of that run: w, d, b vetx (3) + a (2) + at (2) + am (2); -go applies only to the
        # packages named on the command line (68d8d5d), so the std closure type-checks under -go 1.3 too
        own = 9
        want = {"a.st1001", "a.sa4023", "a.sa1019d", "a.test"}
        return go, n - own, ids == want, sorted(ids)

    results = vlib.pmap(one, BASELINE, workers=8)
    bad = [r for r in results if not r[1]]
    if bad:
        raise Inconclusive("fixture baseline not reproduced (cold runs): %s" % bad[:3])
    nstd = {}
    for go, n, ok, ids in vlib.pmap(std_size, ["module", "old"], workers=2):
        if not ok or n < 20:
            raise Inconclusive("fixture baseline (-tests, -go %s): std closure %d entries, problems %s" % (go, n, ids))
        nstd[go] = n
    return nstd, len(results) + 2


# ---------------------------------------------------------------------------------------------
# Case selection
# ---------------------------------------------------------------------------------------------

def hist_key(h):
    return vlib.canon_key(abstract(h))


def n_runs(h):
    return sum(1 for a in h if a["act"] == "Run")


def heavy_runs(h):
    flags = dict(INIT_FLAGS)
    n = 0
    for a in h:
        if a["act"] == "SetFlag":
            flags[a["p"]] = a["v"]
        elif a["act"] == "Run" and is_heavy(flags, a["pats"]):
            n += 1
    return n


def initial_units(pats, flags):
    ex = set()
    for p in pats:
        ex |= {"a", "b", "c", "d", "w"} if p == "all" else {p}
    if flags["tests"] == "on" and "a" in ex:
        ex |= {"at", "am"}
    return ex


def features(h):
    """What a history exercises, per run that follows an earlier run: for every unit the run looked
    up, (a mutation applied since the previous run | none, unit, model outcome hit/miss/upgrade/
    depfailed, role in which the unit had been analysed before in this history, role now).  Covering
    these makes sure that for every input change there is a history in which every unit that was
    already cached -- as a root and as a dependency -- is looked up again afterwards."""
    fs = set()
    flags = dict(INIT_FLAGS)
    seen = {}
    first = True
    muts = []
    for a in h:
        if a["act"] != "Run":
            if a["act"] == "SetFlag":
                flags[a["p"]] = a["v"]
            muts.append((a["act"], a["p"], a["v"]))
            continue
        init = initial_units(a["pats"], flags)
        log = a["pred"]["log"]
        if not first:
            for u, lg in log.items():
                if lg == "-":
                    continue
                for m in (muts or [None]):
                    fs.add((m, u, lg, seen.get(u, "none"), "i" if u in init else "f"))
        for u, lg in log.items():
            if lg in ("hit", "miss", "upgrade"):
                if u in init:
                    seen[u] = "i"
                else:
                    seen.setdefault(u, "f")
        first, muts = False, []
    return fs


def greedy_cover(cands, max_heavy):
    """Pick histories until every feature of the candidate set is covered (cheap ones first)."""
    feats = [(features(h), heavy_runs(h), len(h), i) for i, h in enumerate(cands)]
    todo = set()
    for f, _, _, _ in feats:
        todo |= f
    chosen, heavy = [], 0
    order = sorted(range(len(cands)), key=lambda i: (feats[i][1], feats[i][2], i))
    remaining = set(order)
    while todo:
        best, gain = None, 0
        for i in order:
            if i not in remaining:
                continue
            if feats[i][1] and heavy + feats[i][1] > max_heavy:
                continue
            g = len(feats[i][0] & todo)
            if g > gain:
                best, gain = i, g
        if best is None:
            break
        chosen.append(best)
        remaining.discard(best)
        heavy += feats[best][1]
        todo -= feats[best][0]
    return [cands[i] for i in chosen], len(todo)


def maximal_histories(cases):
    """-simulate prints every Run prefix of a behaviour: keep the longest of each behaviour."""
    keys = {}
    for h in cases:
        keys[json.dumps(abstract(h), sort_keys=True)] = h
    out = []
    ks = sorted(keys, key=len, reverse=True)
    kept = []
    for k in ks:
        body = k[:-1]          # strip the closing bracket: a proper prefix continues with ", "
        if any(o.startswith(body + ",") for o in kept):
            continue
        kept.append(k)
        out.append(keys[k])
    return out


# ---------------------------------------------------------------------------------------------
# Reporting
# ---------------------------------------------------------------------------------------------

def report(ctx, sc, h, res, nstd, stats):
    for v in res["viol"]:
        key = vlib.canon_key({"hist": abstract(h, v["step"])})
        ctx.violation(key, "run %d of the history reports %d line(s) only with the warm cache and %d only with a cold cache (world %s, argv %s)"
                      % (v["step"], len(v["only_warm"]), len(v["only_cold"]), json.dumps(v["world"], sort_keys=True), " ".join(v["argv"])),
                      {"kind": "history", "hist": h[: v["step"] + 1], "abstract": abstract(h, v["step"]), "observed": v})
    for d in res["drift"]:
        stats["drift"].append({"hist": abstract(h), "at": d})
    stats["extra_misses"] += res["extra_misses"]
    stats["invocations"] += res["invocations"]
    stats["heavy"] += res["heavy"]
    stats["runs"] += len(res["runs"])
    stats["nonempty"] += res["nonempty"]
    stats["hook_histories"] += 1 if res.get("hooks") else 0
    stats["key_obs"] += len(res.get("key_obs_hook") or []) + len(res.get("key_obs") or [])
    stats["extra_misses_units"] += res.get("extra_misses_units", 0)


def followups(ctx, sc, h, res, nstd, stats, all_pats):
    """'hit where the model predicts a miss': replay, from the state of the previous run, each
    mutation that happened since then on its own followed by every run pattern; judged by L1 only."""
    done = 0
    seen = set()
    for d in res["drift"]:
        if d.get("layer") != "hit-where-model-predicts-miss":
            continue
        i = d["step"]
        prev = max([j for j in range(i) if h[j]["act"] == "Run"], default=None)
        if prev is None:
            continue
        muts = [a for a in h[prev + 1:i] if a["act"] != "Run"]
        for m in muts:
            for pats in all_pats:
                # the world must still be consistent with the model's bookkeeping for Edit: rebuild v
                h2 = [x for x in h[: prev + 1]] + [m] + [{"act": "Run", "pats": list(pats)}]
                if hist_key(h2) in seen:
                    continue
                seen.add(hist_key(h2))
                base = ctx.tmp("fu-%s-%d" % (hist_key(h2), done))
                try:
                    r2 = replay(sc, base, h2, nstd, model=False)
                except Inconclusive:
                    continue
                done += 1
                report(ctx, sc, h2, r2, nstd, stats)
    return done


# ---------------------------------------------------------------------------------------------

KEYMODES = ["nocfg", "nogo", "novet", "nofiles"]


# ---------------------------------------------------------------------------------------------
# External lint target (CacheKeyExt.tla): a package of a replaced module, named by import path
# ---------------------------------------------------------------------------------------------

EXT_FILES = {
    "main/go.mod": "module ex.test/t4e\n\ngo 1.22\n\nrequire ex.test/xmod v0.0.0\n\nreplace ex.test/xmod => ../xmod\n",
    "main/m/m.go": "// Package m uses x.\npackage m\n\nimport \"ex.test/xmod/x\"\n\n// UseFoo uses both functions of x.\nfunc UseFoo() int { return x.MakeFoo() + x.Old() }\n",
    "xmod/go.mod": "module ex.test/xmod\n\ngo 1.22\n",
}
EXT_X = {1: "// Package x is the external lint target.\npackage x\n\n// MakeFoo makes a foo.\nfunc MakeFoo() int { return 1 }\n\n// Old is the old way.\nfunc Old() int { return 2 }\n",
         2: "// Package x is the external lint target.\npackage x\n\n// MakeFoo makes a foo.\nfunc MakeFoo() int { return 1 }\n\n// Old is the old way.\n//\n// Deprecated: use MakeFoo.\nfunc Old() int { return 2 }\n\n// Same compares a value with itself.\nfunc Same(a int) bool { return a == a }\n"}
EXT_CONF = 'initialisms = ["inherit", "FOO"]\n'
EXT_PAT = {"x": "ex.test/xmod/x", "m": "./m"}


def ext_ids(lines):
    ids = set()
    for l in lines:
        try:
            o = json.loads(l)
        except Exception:
            ids.add("?unparsed")
            continue
        f = o.get("location", {}).get("file", "")
        unit = "x" if "/xmod/" in f else ("m" if "/main/" in f else "?")
        ids.add("%s.%s" % (unit, o.get("code", "").lower()))
    return ids


def ext_run_history(sc, root, h):
    """One history of CacheKeyExt.tla on a fresh two-module tree: every Run is executed with the shared cache and
    with an empty cache."""
    for rel, text in EXT_FILES.items():
        pth = os.path.join(root, rel)
        os.makedirs(os.path.dirname(pth), exist_ok=True)
        open(pth, "w").write(text)
    os.makedirs(os.path.join(root, "xmod", "x"), exist_ok=True)
    open(os.path.join(root, "xmod", "x", "x.go"), "w").write(EXT_X[1])
    cache = os.path.join(root, "cache")
    os.makedirs(cache)
    out = []
    ncold = 0
    for si, a in enumerate(h):
        if a["act"] == "EditX":
            open(os.path.join(root, "xmod", "x", "x.go"), "w").write(EXT_X[a["v"]])
        elif a["act"] in ("SetXConf", "SetMConf"):
            pth = os.path.join(root, "xmod" if a["act"] == "SetXConf" else "main", "staticcheck.conf")
            if a["v"] == "opt":
                open(pth, "w").write(EXT_CONF)
            elif os.path.exists(pth):
                os.remove(pth)
        elif a["act"] == "Run":
            argv = [sc, "-f", "json", "-checks", "ST1003,SA4000,SA1019"] + [EXT_PAT[t] for t in sorted(a["t"])]
            res = []
            for which in ("warm", "cold"):
                cdir = cache
                if which == "cold":
                    ncold += 1
                    cdir = os.path.join(root, "cold%d" % ncold)
                    os.makedirs(cdir)
                env = vlib.go_env({"STATICCHECK_CACHE": cdir})
                for k in ("GODEBUG", "VERIF_TRACE", "VERIF_TRACE_RUNNER", "VERIF_YIELD_SEED"):
                    env.pop(k, None)
                rc, so, se = vlib.sh(argv, cwd=os.path.join(root, "main"), env=env, timeout=900)
                if rc not in (0, 1):
                    raise Inconclusive("staticcheck failed on the external-target fixture rc=%d argv=%s\n%s" % (rc, argv[1:], se[-1200:]))
                res.append(sorted(l for l in so.splitlines() if l.strip()))
            out.append({"step": si, "targets": sorted(a["t"]), "warm": res[0], "cold": res[1], "want": sorted(a["want"]), "argv": argv[1:]})
    shutil.rmtree(root, ignore_errors=True)
    return out


def ext_target_scenario(ctx, sc):
    """TLC enumerates the histories of CacheKeyExt.tla (Transparent holds on the model; the key that forgets the
    external package's configuration is refuted); a seeded cover of them is replayed on a real two-module tree:
    every run through the shared cache must print what a run with an empty cache prints."""
    r = vlib.run_tlc(ctx, "CacheKeyExt", "CacheKeyExt.cfg", workers=2, timeout=900)
    vlib.tlc_require_ok(r, "CacheKeyExt invariants")
    neg = vlib.run_tlc(ctx, "CacheKeyExt", "CacheKeyExt_noxconf.cfg", workers=2, timeout=900)
    if neg.violated != "Transparent":
        raise Inconclusive("negative control: a key without the external package's configuration did not violate Transparent (%s)" % neg.violated)
    hists = [h for h in r.cases if isinstance(h, list)]
    if len(hists) < 100:
        raise Inconclusive("CacheKeyExt emitted only %d histories" % len(hists))
    # a history is interesting when a run follows an edit / configuration change that follows a run
    def score(h):
        acts = [a["act"] for a in h]
        runs = [i for i, a in enumerate(acts) if a == "Run"]
        mid = sum(1 for i, a in enumerate(acts) if a != "Run" and runs and runs[0] < i < runs[-1])
        # a change of one unit's configuration or source between two runs that print that unit
        def between(act, unit):
            idx = [i for i in runs if unit in h[i]["t"]]
            return any(acts[j] == act for a, b in zip(idx, idx[1:]) for j in range(a + 1, b))
        aimed = sum((between("SetXConf", "x"), between("SetMConf", "m"), between("EditX", "x"), between("EditX", "m"), between("SetMConf", "x")))
        return (len(runs) >= 2, aimed, mid, len(h))
    hists.sort(key=lambda h: json.dumps(h, sort_keys=True))
    ctx.rng.shuffle(hists)
    hists.sort(key=score, reverse=True)
    chosen = hists[:(24 if ctx.quick else 400)]
    stats = {"histories": len(chosen), "runs": 0, "nonempty": 0, "model_mismatch": 0, "states": r.distinct, "generated": r.generated,
             "emitted": len(hists)}
    base = ctx.tmp("ext")

    def one(hi):
        return hi, ext_run_history(sc, os.path.join(base, "h%04d" % hi), chosen[hi])
    for hi, out in vlib.pmap(one, range(len(chosen)), workers=6):
        for o in out:
            stats["runs"] += 1
            stats["nonempty"] += bool(o["cold"])
            if o["warm"] != o["cold"]:
                only_w = [l for l in o["warm"] if l not in o["cold"]]
                only_c = [l for l in o["cold"] if l not in o["warm"]]
                ctx.violation(vlib.canon_key({"ext": [[a["act"], a["v"], sorted(a["t"])] for a in chosen[hi]], "step": o["step"]}),
                              "external lint target: run %d of the history prints %d line(s) only with the warm cache and %d only with a cold cache (targets %s; e.g. %s)"
                              % (o["step"], len(only_w), len(only_c), o["targets"], (only_w + only_c)[0][:200]),
                              {"kind": "ext-history", "hist": chosen[hi], "observed": o})
            elif sorted(ext_ids(o["cold"])) != o["want"]:
                stats["model_mismatch"] += 1
    if stats["model_mismatch"]:
        ctx.note("external-target scenario: %d cold run(s) print something else than CacheKeyExt.tla's Cold() (fixture/model drift, not a verdict)" % stats["model_mismatch"])
    if not stats["nonempty"]:
        raise Inconclusive("external-target scenario: no run printed a problem (vacuous)")
    return stats



def cfg_text(name, **subst):
    txt = open(os.path.join(vlib.SPECS, name)).read()
    for k, v in subst.items():
        txt, n = re.subn(r"(?m)^(\s*%s\s*=\s*).*$" % k, lambda m: m.group(1) + v, txt)
        if n != 1:
            raise Inconclusive("cannot substitute %s in %s" % (k, name))
    return txt


def run(ctx):
    ctx.level = "model_checking"
    t0 = time.time()
    sc = vlib.go_build_repo(ctx, "./cmd/staticcheck")
    hooks = vlib.sh("grep -rl verifEvent %s/lintcmd/runner 2>/dev/null | head -1" % vlib.REPO)[1].strip()

    if ctx.replay:
        doc = json.load(open(ctx.replay))
        h = doc["case"]["hist"]
        if doc["case"].get("kind") == "ext-history":
            for o in ext_run_history(sc, os.path.join(ctx.tmp("ext-replay"), "h"), h):
                if o["warm"] != o["cold"]:
                    ctx.violation(doc["key"], doc["what"], {"kind": "ext-history", "hist": h, "observed": o})
            return
        res = replay(sc, ctx.tmp("replay"), h, {"module": 0, "old": 0}, model=False)
        for v in res["viol"]:
            ctx.violation(doc["key"], doc["what"], {"kind": "history", "hist": h, "abstract": abstract(h), "observed": v})
        print("replayed %d runs, %d differing" % (len(res["runs"]), len(res["viol"])))
        return

    # --- TLC (static check in the background; it is start-up-heavy and independent) -----------
    static = {}

    def do_static():
        try:
            static["r"] = vlib.run_tlc(ctx, "MCCacheKey", "MCCacheKey_static.cfg", workers=2, timeout=1500)
        except Exception as e:      # reported below
            static["err"] = e
    th = threading.Thread(target=do_static)
    th.start()

    nstd_box = {}

    def do_baseline():
        try:
            nstd_box["v"] = baseline(ctx, sc)
        except Exception as e:
            nstd_box["err"] = e
    tb = threading.Thread(target=do_baseline)
    tb.start()

    tlc_runs = []
    cover_cfg = "MCCacheKey_keys.cfg" if ctx.quick else "MCCacheKey_ex4.cfg"
    r_cover = vlib.run_tlc(ctx, "MCCacheKey", cover_cfg, workers=min(vlib.NCPU, 6), timeout=3000)
    vlib.tlc_require_ok(r_cover, "CacheKey invariants (%s)" % cover_cfg)
    tlc_runs.append((cover_cfg, r_cover))
    cover = r_cover.cases
    keycases = cover if ctx.quick else None
    if not ctx.quick:
        r_keys = vlib.run_tlc(ctx, "MCCacheKey", "MCCacheKey_keys.cfg", workers=min(vlib.NCPU, 6), timeout=3000, coverage=True)
        vlib.tlc_require_ok(r_keys, "CacheKey invariants (keys)")
        tlc_runs.append(("MCCacheKey_keys.cfg", r_keys))
        keycases = r_keys.cases
        if r_keys.coverage_zero:
            raise Inconclusive("vacuity: actions never taken in MCCacheKey_keys.cfg: %s" % r_keys.coverage_zero)
    nsim = 40 if ctx.quick else 400
    r_sim = vlib.run_tlc(ctx, "MCCacheKey", "MCCacheKey_sim.cfg", workers=2, timeout=1500,
                         simulate="num=%d" % nsim, depth=10, seed=ctx.seed)
    vlib.tlc_require_ok(r_sim, "CacheKey invariants (simulation)")
    msim = re.search(r"The number of states generated: (\d+)", r_sim.out)
    if msim and not r_sim.generated:
        r_sim.generated = r_sim.distinct = int(msim.group(1))     # simulation mode has no 'distinct' count
    tlc_runs.append(("MCCacheKey_sim.cfg -simulate", r_sim))
    sims = [h for h in maximal_histories(r_sim.cases) if n_runs(h) >= 2]

    # model-level negative tests: a key that omits a component must be caught by TLC on the model
    mutants = {}
    if not ctx.quick:
        for km in KEYMODES:
            txt = cfg_text("MCCacheKey_ex3.cfg", KeyMode='"%s"' % km, EmitRuns="FALSE")
            rm = vlib.run_tlc(ctx, "MCCacheKey", "mut_%s.cfg" % km, workers=4, timeout=1500, extra_files={"mut_%s.cfg" % km: txt})
            mutants[km] = rm.violated
            if not rm.violated:
                raise Inconclusive("vacuity: the model with KeyMode=%s satisfies every invariant" % km)

    tb.join()
    if "err" in nstd_box:
        raise nstd_box["err"]
    nstd, n_base = nstd_box["v"]

    # --- selection ----------------------------------------------------------------------------
    multi = [h for h in cover if n_runs(h) >= 2]
    single = [h for h in cover if n_runs(h) == 1]
    # sample sizes (the feature cover is always replayed in full); VERIF_C04_SCALE scales the seeded
    # samples only (default 1.0) -- for use on an overloaded machine, recorded in the evidence
    try:
        scale = float(os.environ.get("VERIF_C04_SCALE", "1"))
    except ValueError:
        scale = 1.0

    def n(x):
        return max(1, int(round(x * scale)))
    light = [h for h in multi if heavy_runs(h) == 0]
    if ctx.quick:
        max_heavy = 4
        chosen, uncovered = greedy_cover(multi, max_heavy)
        chosen_keys = {hist_key(h) for h in chosen}
        chosen += [h for h in vlib.sample(ctx, light, n(15)) if hist_key(h) not in chosen_keys]
        chosen += vlib.sample(ctx, [h for h in single if heavy_runs(h) == 0], n(6))
        chosen += vlib.sample(ctx, [h for h in sims if heavy_runs(h) == 0], n(10))
        keysample = vlib.sample(ctx, [h for h in light if len(h) == 3], n(8))
    else:
        max_heavy = 60
        chosen, uncovered = greedy_cover(multi, max_heavy)
        chosen_keys = {hist_key(h) for h in chosen}
        rest = [h for h in light if hist_key(h) not in chosen_keys]
        chosen += vlib.sample(ctx, [h for h in rest if len(h) <= 3], n(400))
        chosen += vlib.sample(ctx, [h for h in rest if len(h) > 3], n(500))
        chosen += vlib.sample(ctx, [h for h in single if heavy_runs(h) == 0], n(40))
        chosen += vlib.sample(ctx, [h for h in sims if heavy_runs(h) <= 1], n(100))
        keysample = vlib.sample(ctx, [h for h in keycases if n_runs(h) >= 2 and heavy_runs(h) == 0], n(60))
    # VERIF_C04_MAXHIST caps the number of replayed histories (smoke-testing a tier on an overloaded
    # machine); 0 = no cap. Recorded in the evidence.
    try:
        cap = int(os.environ.get("VERIF_C04_MAXHIST", "0"))
    except ValueError:
        cap = 0
    if cap > 0:
        chosen = chosen[:cap]
        keysample = keysample[:max(1, cap // 10)]
    # heavy histories first (long poles)
    jobs = [("std", h) for h in chosen] + [("key", h) for h in keysample]
    jobs.sort(key=lambda j: -heavy_runs(j[1]))

    stats = {"drift": [], "extra_misses": 0, "invocations": 0, "heavy": 0, "runs": 0, "nonempty": 0,
             "hook_histories": 0, "key_obs": 0, "extra_misses_units": 0}
    lock = threading.Lock()
    results = []

    stop = threading.Event()

    def job(ix_job):
        ix, (kind, h) = ix_job
        if stop.is_set():
            return None
        base = ctx.tmp("h%05d" % ix)
        return kind, h, replay(sc, base, h, nstd, keymode=(kind == "key"))
    all_pats = [("a",), ("b",), ("c",), ("a", "c"), ("all",)]
    n_follow = 0
    n_done = 0
    from concurrent.futures import ThreadPoolExecutor, as_completed
    with ThreadPoolExecutor(max_workers=min(vlib.NCPU, 12)) as ex:
        futs = [ex.submit(job, ij) for ij in enumerate(jobs)]
        try:
            for fu in as_completed(futs):
                out = fu.result()
                if out is None:
                    continue
                kind, h, res = out
                n_done += 1
                report(ctx, sc, h, res, nstd, stats)
                if any(d.get("layer") == "hit-where-model-predicts-miss" for d in res["drift"]) and n_follow < 40 and not stop.is_set():
                    n_follow += followups(ctx, sc, h, res, nstd, stats, all_pats)
                if len(ctx.violations) >= 10 and not stop.is_set():
                    stop.set()
                    ctx.note("stopping after %d violations" % len(ctx.violations))
        except BaseException:
            stop.set()
            raise
    if stop.is_set():
        ctx.note("%d of %d selected histories replayed before stopping" % (n_done, len(jobs)))

    # --- negative self-tests of the binding ------------------------------------------------------
    neg = negative_selftest(ctx, sc, nstd, multi)

    th.join()
    if "err" in static:
        raise static["err"]
    vlib.tlc_require_ok(static["r"], "KeyCoversDeps (static)")
    tlc_runs.append(("MCCacheKey_static.cfg", static["r"]))

    ext = ext_target_scenario(ctx, sc)

    if stats["drift"]:
        ctx.note("conformance drift (model != code, not a violation): %d item(s); first: %s"
                 % (len(stats["drift"]), json.dumps(stats["drift"][0], sort_keys=True)[:600]))
    sample_h = chosen[len(chosen) // 2]
    ctx.coverage = {
        "states": sum(r.distinct for _, r in tlc_runs) + ext["states"],
        "transitions": sum(r.generated for _, r in tlc_runs) + ext["generated"],
        "traces_validated_against_impl": n_done + ext["histories"],
        "exhaustive": False,
        "tlc": [{"config": n, "distinct": r.distinct, "generated": r.generated, "cases": len(r.cases), "wall_s": round(r.wall, 1)}
                for n, r in tlc_runs],
        "invariants": ["Transparent", "HitOnlyIfSameInputs", "CacheKeyFunctional", "KeyCoversDeps(static, 1152 worlds x 8 units)", "TypeOK"],
        "model_mutants_rejected_by_tlc": mutants,
        "emitted_run_transitions": len(cover),
        "emitted_with_two_or_more_runs": len(multi),
        "simulated_histories": len(sims),
        "histories_replayed": len(chosen),
        "histories_replayed_with_key_tuples": len(keysample),
        "cover_features_left_uncovered": uncovered,
        "sample_scale(VERIF_C04_SCALE)": scale,
        "history_cap(VERIF_C04_MAXHIST)": cap,
        "real_runs_compared_warm_vs_cold": stats["runs"],
        "runs_with_nonempty_report": stats["nonempty"],
        "staticcheck_invocations": stats["invocations"] + n_base,
        "heavy_runs(-tests with std closure)": stats["heavy"],
        "fixture_baseline_cold_runs": n_base,
        "std_closure_entries": nstd,
        "followup_histories": n_follow,
        "drift": stats["drift"][:10],
        "drift_count": len(stats["drift"]),
        "extra_real_misses_after_reanalysis(vetx bytes unordered)": stats["extra_misses"],
        "negative_selftest": neg,
        "external_lint_target(CacheKeyExt.tla)": ext,
        "runner_hooks_present": bool(hooks),
        "histories_with_hook_layer(per-unit hit/miss from VERIF_TRACE_RUNNER)": stats["hook_histories"],
        "key_tuple_observations_compared": stats["key_obs"],
        "extra_real_unit_misses_after_reanalysis": stats["extra_misses_units"],
        "samples": [abstract(sample_h), {"runs_of_sample": [a["pred"]["log"] for a in sample_h if a["act"] == "Run"]},
                    abstract(chosen[0])],
        "trusted_base": ["TLC", "go toolchain (go list -export, build of cmd/staticcheck from the current tree)",
                         "`-f json` as observation channel", "GODEBUG=gocachehash=1 output of lintcmd/cache (key-tuple layer only)"],
        "wall_before_evidence_s": round(time.time() - t0, 1),
    }
    ctx.assumptions = [
        "world bounded to the fixture ex.test/t4 (a->b->d, a->w<-c, go.mod) with 2 versions each, 2 config levels x {none,opt,chk}, 4 binary flags; GOOS flips, GOFLAGS, cgo env, toolchain swaps are not explored",
        "salt (binary build id), analyzer list and GODEBUG are constant within a history (they change only with the binary/environment); GODEBUG=gocachehash=1 is set for both runs of the key-tuple sample",
        "quick: TLC exhaustive to history length 3, thorough to 4 (+ -simulate to 9); replayed set = feature cover + seeded sample, not all emitted histories",
    ]


def negative_selftest(ctx, sc, nstd, multi):
    """(1) two real reports from different worlds must be told apart by L1's comparison;
    (2) a corrupted model prediction must be flagged by L2 and L3."""
    base = ctx.tmp("neg")
    tree = Tree(os.path.join(base, "t4"))
    r1 = run_sc(sc, tree, os.path.join(base, "c1"), ["all"])
    tree.apply({"act": "Edit", "p": "b", "v": "2"})
    r2 = run_sc(sc, tree, os.path.join(base, "c2"), ["all"])
    shutil.rmtree(base, ignore_errors=True)
    if same_report(r1, r2):
        raise Inconclusive("negative self-test: reports of two different worlds compare equal")
    r3 = dict(r1)
    r3["lines"] = r1["lines"][:-1]
    if same_report(r1, r3) or not same_report(r1, dict(r1)):
        raise Inconclusive("negative self-test: the report comparison is broken")
    h = json.loads(json.dumps(next(h for h in multi if heavy_runs(h) == 0 and len(h) <= 3 and h[-1]["pred"]["probs"])))
    h[-1]["pred"]["probs"] = h[-1]["pred"]["probs"][1:]
    h[-1]["pred"]["new"] += 1
    res = replay(sc, ctx.tmp("neg2"), h, nstd)
    layers = {d["layer"] for d in res["drift"]}
    if "output" not in layers or "hit-where-model-predicts-miss" not in layers:
        raise Inconclusive("negative self-test: corrupted prediction accepted (%s)" % sorted(layers))
    if res["viol"]:
        raise Inconclusive("negative self-test history unexpectedly violates L1")
    return {"different_worlds_distinguished": True, "truncated_report_rejected": True,
            "corrupted_prediction_flagged": sorted(layers)}
