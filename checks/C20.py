"""C20 — Version-restricted problems respect the effective Go version.

Spec: specs/Versions.tla (+ MCVersions.tla).  A configuration is (module `go 1.m`, file
`//go:build go1.tag` or none, `-go 1.g` or module); the spec defines Base / Lang / Stdlib and
Reported(kind, t) for the four bound kinds and TLC checks the laws (half lines, min/max
complement, -go overrides the module, a constraint fixes the file's language, old/new go.mod
semantics, raising never lowers) in every configuration and over every edit between
configurations, and emits every configuration with the exact set of thresholds at which each
bound kind must be reported.

Binding:
  (V) the spec's Lang is validated against the real compiler: feature-gated one-line programs
      (generics 1.18, slice->array 1.20, min 1.21, range-over-int 1.22, range-over-func 1.23,
      new(expr) 1.26) must compile exactly when Lang >= feature.  Disagreement = the spec is
      wrong = INCONCLUSIVE.
  (R) harness/cmd/h-versions: a lintcmd.Command (real -go flag parsing, real runner, real loader)
      whose analyzers call the real report.Report with exactly one bound option for every
      threshold; run over one generated module per (m, g) holding one package per constraint plus
      a package mixing all constraints; the reported set must equal the spec's at every point.
  (T) tie to real checks through the real staticcheck binary: S1005 (MinimumLanguageVersion
      go1.4), S1024 (MinimumStdlibVersion go1.8), SA1019 (math/rand.Seed since go1.20,
      reflect.PtrTo since go1.22) on the configurations of MCVersions_tie.cfg.
"""
import json
import os
import re

import vlib
from vlib import Inconclusive

KINDS = ["minlang", "maxlang", "minstd", "maxstd"]
# development aid (mutation trials on a loaded machine): same code path, far fewer invocations;
# never used by the registered tiers and recorded in the evidence when set
SMOKE = os.environ.get("VERIF_SMOKE") == "1"
# VERIF_CAP=N: thorough path (all modules for the compiler validation, TLC coverage) with at most N
# probe invocations and N/2 tie invocations; recorded in the evidence when set
CAP = int(os.environ.get("VERIF_CAP", "0") or 0)
CODE2KIND = {"XV1001": "minlang", "XV1002": "maxlang", "XV1003": "minstd", "XV1004": "maxstd"}

# language features gated by the compiler on the file's language version
FEATURES = {
    18: "func F[T any](x T) T { return x }",
    20: "var X = [1]int([]int{1})",
    21: "var X = min(1, 2)",
    22: "func F() {\n\tfor range 3 {\n\t}\n}",
    23: "func F(f func(func(int) bool)) {\n\tfor range f {\n\t}\n}",
    26: "var X = new(42)",
}


def toolchain(ctx):
    """The toolchain /repo builds with; fixture modules are listed/built with exactly it (a `go 1.N`
    directive newer than the launcher `go` would otherwise try to download go1.N)."""
    rc, so, se = vlib.sh(["go", "env", "GOVERSION"], cwd=vlib.REPO, env=vlib.go_env())
    v = so.strip()
    if rc != 0 or not re.match(r"^go1\.\d+(\.\d+)?$", v):
        raise Inconclusive("cannot determine the toolchain: %s %s" % (so, se))
    return v


def fixture_env(ctx, tc, extra=None):
    e = {"GOTOOLCHAIN": tc}
    if extra:
        e.update(extra)
    return vlib.go_env(e)


def tagline(tag):
    return "//go:build go1.%d\n\n" % tag if tag else ""


def tagname(tag):
    return "none" if tag == 0 else str(tag)


def goflag_args(g, variant):
    if g == 0:
        return ["-go", "module"] if variant % 3 == 0 else []
    return ["-go", ("go1.%d" if variant % 2 else "1.%d") % g]


# ---------------------------------------------------------------------------------------------
# (V) the compiler decides what language a file gets
# ---------------------------------------------------------------------------------------------

def validate_lang_against_compiler(ctx, tc, cases, tcminor):
    byM = {}
    for c in cases:
        if c["g"] == 0:
            byM.setdefault(c["m"], []).append(c)
    root = ctx.tmp("langv")
    jobs = []
    for m, cs in sorted(byM.items()):
        if SMOKE and m not in (min(byM), 22):
            continue
        if ctx.quick and m not in (min(byM), 20, 21, 22, max(byM)):
            continue   # quick: both sides of the go1.21 change of semantics and the extremes
        d = os.path.join(root, "m%d" % m)
        os.makedirs(d)
        with open(os.path.join(d, "go.mod"), "w") as f:
            f.write("module ex.test/v%d\n\ngo 1.%d\n" % (m, m))
        want = {}
        for c in cs:
            for feat, src in FEATURES.items():
                if feat > tcminor:
                    continue
                p = "t%sf%d" % (tagname(c["tag"]), feat)
                os.makedirs(os.path.join(d, p))
                with open(os.path.join(d, p, "a.go"), "w") as f:
                    f.write(tagline(c["tag"]) + "package p\n\n" + src + "\n")
                want[p] = (c, feat, c["lang"] >= feat)
        jobs.append((m, d, want))

    def build(job):
        m, d, want = job
        rc, so, se = vlib.sh(["go", "build", "./..."], cwd=d, env=fixture_env(ctx, tc), timeout=900)
        failed = set(re.findall(r"^# ex\.test/v\d+/(\S+)", so + se, re.M))
        other = [l for l in (so + se).splitlines() if l.startswith("go: ") or "cannot find" in l]
        return m, want, failed, other, rc, se

    n = 0
    for m, want, failed, other, rc, se in vlib.pmap(build, jobs, workers=min(vlib.NCPU, 10)):
        if other or (rc != 0 and not failed):
            raise Inconclusive("compiler validation: go build failed for module go 1.%d: %s" % (m, se[-1500:]))
        for p, (c, feat, ok) in want.items():
            n += 1
            if (p not in failed) != ok:
                raise Inconclusive(
                    "the SPEC disagrees with the compiler: module go 1.%d, file constraint %s: Versions.tla says "
                    "Lang = 1.%d, but a go1.%d feature %s" % (m, tagname(c["tag"]), c["lang"], feat,
                                                              "compiles" if p not in failed else "is rejected"))
    return n


# ---------------------------------------------------------------------------------------------
# (R) probes through the real runner/loader
# ---------------------------------------------------------------------------------------------

def single_tags(tags, m):
    """Constraints that also get a package of their own (every constraint is in the mixed package)."""
    nz = [t for t in tags if t]
    return sorted(set([0, nz[0], nz[-1]] + [t for t in nz if t in (m - 1, m + 1, 21)]))


def write_probe_module(d, m, tags):
    os.makedirs(d)
    with open(os.path.join(d, "go.mod"), "w") as f:
        f.write("module ex.test/m\n\ngo 1.%d\n" % m)
    os.makedirs(os.path.join(d, "mix"))
    for tag in tags:
        if tag in single_tags(tags, m):
            p = os.path.join(d, "pt" + tagname(tag))
            os.makedirs(p)
            with open(os.path.join(p, "a.go"), "w") as f:
                f.write(tagline(tag) + "package pt%s\n\nfunc Anchor() {}\n" % tagname(tag))
        with open(os.path.join(d, "mix", "f%s.go" % tagname(tag)), "w") as f:
            f.write(tagline(tag) + "package mix\n\nfunc AnchorT%s() {}\n" % tagname(tag))


SITE_RE = re.compile(r"(?:^|/)(pt(\w+)/a\.go|mix/f(\w+)\.go)$")


def site_of(path):
    mm = SITE_RE.search(path)
    if not mm:
        return None
    t = mm.group(2) or mm.group(3)
    layout = "single" if mm.group(2) else "mixed"
    return layout, (0 if t == "none" else int(t))


def run_probe(ctx, hv, tc, root, m, g, tags, thresholds, variant):
    d = os.path.join(root, "m%d_g%d" % (m, g))
    if not os.path.exists(d):
        write_probe_module(d, m, tags)
    env = fixture_env(ctx, tc, {"VERIF_THRESHOLDS": ",".join(map(str, thresholds)),
                                "STATICCHECK_CACHE": os.path.join(d, ".sccache")})
    argv = [hv] + goflag_args(g, variant) + ["-f", "json", "./..."]
    rc, so, se = vlib.sh(argv, cwd=d, env=env, timeout=900)
    if rc not in (0, 1):
        raise Inconclusive("h-versions failed rc=%d for go 1.%d %s: %s" % (rc, m, argv[1:], se[-1500:]))
    obs = {}   # (layout, tag) -> {"base": str, kind: set(t)}
    for line in so.splitlines():
        o = json.loads(line)
        code = o["code"]
        site = site_of(o["location"]["file"])
        if code in ("compile", "config") or site is None:
            raise Inconclusive("probe module go 1.%d %s does not lint cleanly: %s" % (m, argv[1:], line[:400]))
        rec = obs.setdefault(site, {k: set() for k in KINDS})
        if code == "XV1000":
            rec["base"] = o["message"]
        elif code in CODE2KIND:
            k, t = o["message"].split()
            if k != CODE2KIND[code]:
                raise Inconclusive("probe output garbled: %s" % line[:300])
            rec[k].add(int(t))
        else:
            raise Inconclusive("unexpected diagnostic from the probe command: %s" % line[:300])
    return argv[1:], obs


def compare_probe(case, layout, rec):
    """-> list of (kind, dir, t) where the real code and Versions.tla disagree."""
    out = []
    for k in KINDS:
        want, got = set(case[k]), rec[k]
        for t in sorted(want - got):
            out.append((k, "missing", t))
        for t in sorted(got - want):
            out.append((k, "extra", t))
    return out


def describe(c):
    return "go.mod `go 1.%d`, file %s, %s" % (
        c["m"], ("`//go:build go1.%d`" % c["tag"]) if c["tag"] else "without constraint",
        ("-go 1.%d" % c["g"]) if c["g"] else "-go module")


# ---------------------------------------------------------------------------------------------
# (T) tie to real checks
# ---------------------------------------------------------------------------------------------

S1005_SRC = "func Anchor(xs []int) {\n\tfor _ = range xs {\n\t}\n}\n"
STD_SRC = ("import (\n\t\"math/rand\"\n\t\"reflect\"\n\t\"time\"\n)\n\n"
           "func Anchor(t time.Time) (time.Duration, reflect.Type) {\n"
           "\trand.Seed(1)\n"
           "\treturn t.Sub(time.Now()), reflect.PtrTo(reflect.TypeOf(0))\n}\n")

# real check -> (bound kind, threshold) per the checks' own sources / knowledge table
TIE_CHECKS = {"S1005": ("minlang", 4), "S1024": ("minstd", 8), "SA1019 Seed": ("minstd", 20), "SA1019 PtrTo": ("minstd", 22)}


def verify_tie_table():
    """The thresholds above must be what the checks' sources say (else the tie is stale: exit 2)."""
    def has(path, pat):
        return re.search(pat, open(os.path.join(vlib.REPO, path)).read()) is not None
    ok = (has("simple/s1005/s1005.go", r'MinimumLanguageVersion\("go1\.4"\)')
          and has("simple/s1024/s1024.go", r'MinimumStdlibVersion\("go1\.8"\)')
          and has("knowledge/deprecated.go", r'"math/rand\.Seed":\s*\{"go1\.20"')
          and has("knowledge/deprecated.go", r'"reflect\.PtrTo":\s*\{"go1\.22"'))
    if not ok:
        raise Inconclusive("tie table out of date: S1005/S1024/SA1019 thresholds changed in the sources")


def write_tie_module(d, m, tags):
    os.makedirs(d)
    with open(os.path.join(d, "go.mod"), "w") as f:
        f.write("module ex.test/tie\n\ngo 1.%d\n" % m)
    for tag in tags:
        for pre, src in (("lang", S1005_SRC), ("std", STD_SRC)):
            p = os.path.join(d, "%s%s" % (pre, tagname(tag)))
            os.makedirs(p)
            with open(os.path.join(p, "a.go"), "w") as f:
                f.write(tagline(tag) + "package p\n\n" + src)


TIE_SITE_RE = re.compile(r"(?:^|/)(lang|std)(\w+)/a\.go$")


def run_tie(ctx, sc, tc, root, m, g, tags, variant):
    d = os.path.join(root, "m%d_g%d" % (m, g))
    if not os.path.exists(d):
        write_tie_module(d, m, tags)
    env = fixture_env(ctx, tc, {"STATICCHECK_CACHE": os.path.join(d, ".sccache")})
    argv = [sc] + goflag_args(g, variant) + ["-checks", "S1005,S1024,SA1019", "-f", "json", "./..."]
    rc, so, se = vlib.sh(argv, cwd=d, env=env, timeout=1800)
    if rc not in (0, 1):
        raise Inconclusive("staticcheck failed rc=%d for go 1.%d %s: %s" % (rc, m, argv[1:], se[-1500:]))
    obs, failures = {}, []
    for line in so.splitlines():
        o = json.loads(line)
        code = o["code"]
        if code in ("compile", "config"):
            failures.append("%s: %s" % (o["location"]["file"].split("/src/")[-1], o["message"]))
            continue
        mm = TIE_SITE_RE.search(o["location"]["file"])
        if not mm:
            raise Inconclusive("unexpected diagnostic location in the tie fixture: %s" % line[:300])
        tag = 0 if mm.group(2) == "none" else int(mm.group(2))
        if code == "SA1019":
            code = "SA1019 Seed" if "rand.Seed" in o["message"] else "SA1019 PtrTo" if "PtrTo" in o["message"] else code
        if code not in TIE_CHECKS:
            raise Inconclusive("unexpected diagnostic in the tie fixture: %s" % line[:300])
        obs.setdefault(tag, set()).add(code)
    return argv[1:], obs, failures


# ---------------------------------------------------------------------------------------------

def group_by_invocation(cases):
    by = {}
    for c in cases:
        by.setdefault((c["m"], c["g"]), {})[c["tag"]] = c
    return by


def run(ctx):
    import time
    ctx.level = "model_checking"
    phases = {}
    t0 = [time.time()]

    def lap(name):
        phases[name] = round(time.time() - t0[0], 1)
        t0[0] = time.time()
    verify_tie_table()
    tc = toolchain(ctx)
    tcminor = int(tc.split(".")[1])
    hv = vlib.go_build_harness(ctx, "cmd/h-versions")
    sc = vlib.go_build_repo(ctx, "./cmd/staticcheck")

    lap("build")
    # 1. TLC: laws on the oracle over the whole grid + case emission
    r = vlib.run_tlc(ctx, "MCVersions", "MCVersions_grid.cfg", workers=4, timeout=900, coverage=not ctx.quick)
    vlib.tlc_require_ok(r, "Versions laws (grid)")
    cases = r.cases
    if len(cases) != r.distinct or not cases:
        raise Inconclusive("TLC emitted %d cases for %d configurations" % (len(cases), r.distinct))
    if max(c["m"] for c in cases) > tcminor:
        raise Inconclusive("the grid contains go 1.%d but the toolchain is %s" % (max(c["m"] for c in cases), tc))
    rt = vlib.run_tlc(ctx, "MCVersions", "MCVersions_tie.cfg", workers=4, timeout=900)
    vlib.tlc_require_ok(rt, "Versions laws (tie)")
    tie_cases = rt.cases
    if len(tie_cases) != rt.distinct or not tie_cases:
        raise Inconclusive("TLC emitted %d tie cases for %d configurations" % (len(tie_cases), rt.distinct))
    thresholds = sorted(set(t for c in cases for k in KINDS for t in c[k]))
    tags = sorted(set(c["tag"] for c in cases))
    # vacuity: every kind must be both reported and not reported somewhere, on both sides of 1.21
    for k in KINDS:
        sizes = set(len(c[k]) for c in cases)
        if 0 in sizes or len(thresholds) in sizes or len(sizes) < 3:
            raise Inconclusive("grid does not exercise both outcomes of %s" % k)

    if ctx.replay:
        doc = json.load(open(ctx.replay))
        replay_one(ctx, doc, hv, sc, tc, cases, tie_cases, thresholds, tags)
        return

    lap("tlc")
    # 2. (V) the compiler validates Lang
    n_lang = validate_lang_against_compiler(ctx, tc, cases, tcminor)
    lap("compiler")

    # 3. (R) every grid point through the real flag parser / runner / loader / report.Report
    by = group_by_invocation(cases)
    root = ctx.tmp("probe")
    inv = sorted(by)
    if ctx.quick:
        mods = sorted(set(m for m, _ in inv))
        keep = set((m, 0) for m in mods)
        for g in sorted(set(g for _, g in inv if g)):
            keep.update((m, g) for m in ctx.rng.sample(mods, 2))
        inv = sorted(keep)
    if SMOKE:
        inv = [mg for mg in inv if mg in ((17, 0), (22, 0), (26, 0))] + vlib.sample(ctx, [mg for mg in inv if mg[1]], 4)
    if CAP and not ctx.quick:
        inv = vlib.sample(ctx, inv, CAP)

    def do(mg):
        m, g = mg
        return mg, run_probe(ctx, hv, tc, root, m, g, tags, thresholds, variant=ctx.seed + m + g)
    results = vlib.pmap(do, inv, workers=min(vlib.NCPU, 12))
    n_points = n_sites = n_reported = 0
    mism = {}      # (kind, dir) -> list of (case, layout, t, argv)
    drift = []
    sample_obs = None
    for (m, g), (argv, obs) in results:
        for tag, c in sorted(by[(m, g)].items()):
            for layout in (("single", "mixed") if tag in single_tags(tags, m) else ("mixed",)):
                rec = obs.get((layout, tag))
                if rec is None or "base" not in rec:
                    raise Inconclusive("baseline probe XV1000 missing for %s (%s): the file was not analysed" % (describe(c), layout))
                n_sites += 1
                n_points += len(KINDS) * len(thresholds)
                n_reported += sum(len(rec[k]) for k in KINDS)
                wantbase = "base lang=go1.%d std=go1.%d" % (c["lang"], c["std"])
                if rec["base"] != wantbase and len(drift) < 5:
                    drift.append("%s (%s): code.* say %r, spec %r" % (describe(c), layout, rec["base"], wantbase))
                for (k, dr, t) in compare_probe(c, layout, rec):
                    mism.setdefault((k, dr), []).append((c, layout, t, argv))
                if sample_obs is None and c["tag"] and c["g"]:
                    sample_obs = {"config": {"m": m, "tag": tag, "g": g}, "argv": argv, "layout": layout,
                                  "spec": {"lang": c["lang"], "std": c["std"], **{k: c[k] for k in KINDS}},
                                  "observed": {"base": rec["base"], **{k: sorted(rec[k]) for k in KINDS}}}
    for (k, dr), lst in sorted(mism.items()):
        c, layout, t, argv = lst[0]
        what = ("report.Report with the %s bound go1.%d is %s for %s [%s] (spec: Lang=1.%d Stdlib=1.%d); %d grid points of this shape" %
                (k, t, "NOT reported although the version is in range" if dr == "missing" else "reported although the version is out of range",
                 describe(c), " ".join(argv), c["lang"], c["std"], len(lst)))
        ctx.violation(vlib.canon_key({"probe": k, "dir": dr}), what,
                      {"kind": "probe", "bound": k, "dir": dr, "t": t, "layout": layout, "config": {"m": c["m"], "tag": c["tag"], "g": c["g"]},
                       "expected": {kk: c[kk] for kk in KINDS}, "count": len(lst),
                       "more": [{"m": x[0]["m"], "tag": x[0]["tag"], "g": x[0]["g"], "t": x[2], "layout": x[1]} for x in lst[1:12]]})
    for dmsg in drift:
        ctx.note("drift: " + dmsg)

    lap("probes")
    # negative self-test of the binding: a corrupted expectation must be rejected
    (m0, g0), (argv0, obs0) = results[len(results) // 2]
    neg_layout = "mixed"
    c0 = dict(by[(m0, g0)][tags[1]])
    bad = dict(c0)
    bad["minstd"] = [t for t in c0["minstd"] if t != max(c0["minstd"])] if c0["minstd"] else [thresholds[0]]
    if not compare_probe(bad, neg_layout, obs0[(neg_layout, tags[1])]) and not mism:
        raise Inconclusive("negative self-test: a corrupted expectation was accepted by the comparison")
    other = by[(m0, g0)][tags[-1]]
    if other["lang"] != c0["lang"] and not compare_probe(other, neg_layout, obs0[(neg_layout, tags[1])]) and not mism:
        raise Inconclusive("negative self-test: the observation of one configuration was accepted for another")

    # 4. (T) tie to S1005 / S1024 / SA1019 through the real binary
    n_tie, tie_sample = tie(ctx, sc, tc, tie_cases)
    lap("tie")

    ctx.coverage = {
        "states": r.distinct + rt.distinct,
        "transitions": r.generated + rt.generated,
        "traces_validated_against_impl": n_sites + n_tie,
        "exhaustive": not ctx.quick and not CAP,
        "tlc": {"module": "MCVersions", "configs": ["MCVersions_grid.cfg", "MCVersions_tie.cfg"],
                "wall_s": round(r.wall + rt.wall, 1),
                "invariants": ["TypeOK", "HalfLines", "MinMaxComplement", "Monotone", "PlainModule", "GoFlagOverrides",
                               "TagFixesLanguage", "NewSemanticsStdlib", "OldSemanticsStdlib", "RaiseNeverLowers(action)",
                               "ASSUME DocExamples"],
                "coverage_zero": r.coverage_zero},
        "phase_wall_s": phases,
        "smoke_mode": SMOKE,
        "cap": CAP,
        "grid_configurations": len(cases),
        "probe_invocations": len(inv),
        "probe_sites_compared": n_sites,
        "grid_points_compared": n_points,
        "grid_points_reported": n_reported,
        "mismatching_points": sum(len(v) for v in mism.values()),
        "compiler_validated_lang_points": n_lang,
        "tie_sites_compared": n_tie,
        "samples": [sample_obs, tie_sample],
        "trusted_base": ["TLC", "go toolchain %s (go list, compiler as the reference for the file language version)" % tc,
                         "JSON formatter of lintcmd as observation channel"],
    }
    ctx.assumptions = [
        "module directives and constraints of the form 1.N (no patch releases, no toolchain lines); modules 1.17..1.%d" % tcminor,
        "file constraints are plain `//go:build go1.N` lines; thresholds go1.16..go1.27",
        "go/types' floor max(tag, go1.21) for constrained files is part of the oracle and validated against the compiler on every run",
    ]
    if not ctx.quick and r.coverage_zero:
        raise Inconclusive("TLC coverage: never-evaluated expressions %s" % r.coverage_zero)


def tie(ctx, sc, tc, tie_cases):
    by = group_by_invocation(tie_cases)
    inv = sorted(by)
    tags = sorted(set(c["tag"] for c in tie_cases))
    if ctx.quick:
        lowest = min(g for _, g in inv if g)
        keep = [mg for mg in inv if mg[1] == 0] + [mg for mg in inv if mg[1] == lowest][:1]
        rest = [mg for mg in inv if mg not in keep]
        inv = keep + vlib.sample(ctx, rest, 5)
    if SMOKE:
        inv = inv[:2] + [mg for mg in inv if mg[1]][:2]
    if CAP and not ctx.quick:
        lowest = min(g for _, g in inv if g)
        inv = [mg for mg in inv if mg[1] in (0, lowest)][:max(2, CAP // 2)]
    root = ctx.tmp("tie")

    def do(mg):
        return mg, run_tie(ctx, sc, tc, root, mg[0], mg[1], tags, variant=ctx.seed + mg[0] + mg[1])
    n = 0
    sample = None
    seen = {k: set() for k in TIE_CHECKS}
    mism = {}
    for (m, g), (argv, obs, failures) in vlib.pmap(do, inv, workers=min(vlib.NCPU, 8)):
        for tag, c in sorted(by[(m, g)].items()):
            got = obs.get(tag, set())
            want = set(chk for chk, (k, t) in TIE_CHECKS.items() if t in c[k])
            n += 1
            for chk in TIE_CHECKS:
                seen[chk].add(chk in want)
            if sample is None and want and want != set(TIE_CHECKS):
                sample = {"config": {"m": m, "tag": tag, "g": g}, "argv": argv, "expected": sorted(want), "observed": sorted(got)}
            for chk in sorted(want ^ got):
                dr = "missing" if chk in want else "extra"
                mism.setdefault((chk, dr, bool(failures)), []).append((c, argv, failures))
    for chk, s in seen.items():
        if s != {True, False} and not SMOKE and not CAP:
            raise Inconclusive("tie does not exercise both outcomes of %s" % chk)
    for (chk, dr, failed), lst in sorted(mism.items()):
        c, argv, failures = lst[0]
        k, t = TIE_CHECKS[chk]
        what = ("%s (%s go1.%d) is %s for %s [staticcheck %s] (spec: Lang=1.%d Stdlib=1.%d)%s; %d configurations of this shape" %
                (chk, k, t, "NOT reported although the version is in range" if dr == "missing" else "reported although the version is out of range",
                 describe(c), " ".join(argv), c["lang"], c["std"],
                 ("; the run failed instead: " + "; ".join(failures[:2])) if failed else "", len(lst)))
        ctx.violation(vlib.canon_key({"tie": chk, "dir": dr, "run_failed": failed}), what,
                      {"kind": "tie", "check": chk, "dir": dr, "run_failed": failed, "config": {"m": c["m"], "tag": c["tag"], "g": c["g"]},
                       "failures": failures[:6], "count": len(lst)})
    return n, sample


def replay_one(ctx, doc, hv, sc, tc, cases, tie_cases, thresholds, tags):
    case = doc["case"]
    cfg = case["config"]
    if case.get("kind") == "tie":
        c = next(x for x in tie_cases if (x["m"], x["tag"], x["g"]) == (cfg["m"], cfg["tag"], cfg["g"]))
        ttags = sorted(set(x["tag"] for x in tie_cases))
        argv, obs, failures = run_tie(ctx, sc, tc, ctx.tmp("tie"), cfg["m"], cfg["g"], ttags, variant=ctx.seed + cfg["m"] + cfg["g"])
        chk = case["check"]
        k, t = TIE_CHECKS[chk]
        want, got = (t in c[k]), (chk in obs.get(cfg["tag"], set()))
        print("replay tie: %s %s want=%s got=%s failures=%s" % (describe(c), chk, want, got, failures[:2]))
        if want != got:
            ctx.violation(doc["key"], doc["what"], case)
        return
    c = next(x for x in cases if (x["m"], x["tag"], x["g"]) == (cfg["m"], cfg["tag"], cfg["g"]))
    argv, obs = run_probe(ctx, hv, tc, ctx.tmp("probe"), cfg["m"], cfg["g"], tags, thresholds, variant=ctx.seed + cfg["m"] + cfg["g"])
    rec = obs.get((case["layout"], cfg["tag"]))
    if rec is None:
        raise Inconclusive("replay: site not analysed")
    k, t = case["bound"], case["t"]
    want, got = (t in c[k]), (t in rec[k])
    print("replay probe: %s %s go1.%d want=%s got=%s (%s)" % (describe(c), k, t, want, got, rec.get("base")))
    if want != got:
        ctx.violation(doc["key"], doc["what"], case)
