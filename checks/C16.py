"""C16 — Problems point at real locations; fixes apply cleanly and keep behaviour.

Specs: specs/Fixes.tla (state machine "apply a suggested fix": ApplyEdit, geometry predicates,
order-independence law), MCFixes.tla (small abstract universe, all application orders),
FixesObs.tla (observation validation of recorded diagnostics + fixes, canonical splice),
FixCases.tla / MCFixCases.tla / FixCasesObs.tla (abstract behaviour cases: trigger shape x
operand effects x context x occurrence variation of repeated metavariables; the equivalence
relation evaluated on recorded observation tables).

Conformance:
  (O) harness/cmd/h-fixes `record` runs the REAL analyzers through the REAL runner over every
      testdata package of simple/quickfix/staticcheck/stylecheck, packages of the repository, and
      variants under semantics-preserving rewrites (parens, comments+line breaks, renamed imports,
      CRLF); TLC (FixesObs) evaluates clauses (1)+(2) on every recorded diagnostic/fix and computes
      the patched text;
  (3) the patched text (TLC's splice, cross-checked by a Python splice) goes to the property's own
      oracle: go/parser, import fix-up, go/types (`h-fixes check`);
  (4) TLC (MCFixCases) enumerates trigger-shape x operand-effect x context x occurrence-variation
      cases (occurrences of a repeated metavariable identical, or one of them a near-equal variant,
      which exercises the checks' matching conditions); they are
      instantiated as executable Go functions whose operands call emit-functions, the real
      S*/QF* analyzers are run on them, every offered fix is applied, original and fixed
      programs are compiled natively and run on all input vectors of a small domain; TLC
      (FixCasesObs) evaluates the equivalence relation on the recorded observation tables.
"""
import base64
import collections
import glob
import json
import os
import re
import shutil
import sys

import vlib
from vlib import Inconclusive

import C16_behaviour

CATS = ("simple", "quickfix", "staticcheck", "stylecheck")
VARIANTS = ("parens", "comments", "imports", "crlf")
VER_RE = re.compile(r"go1\.\d+$")


# ---------------------------------------------------------------------------------------------
# inputs: testdata modules (merged per Go version), variants, repository packages
# ---------------------------------------------------------------------------------------------

def testdata_units():
    """[(check, version, src dir, [package dir names], has_vendor, has_golden)]"""
    units = []
    for cat in CATS:
        for d in sorted(glob.glob(os.path.join(vlib.REPO, cat, "*", "testdata", "*"))):
            ver = os.path.basename(d)
            if not VER_RE.match(ver) or not os.path.isdir(d):
                continue
            chk = os.path.basename(os.path.dirname(os.path.dirname(d)))
            pk = sorted(x for x in os.listdir(d) if os.path.isdir(os.path.join(d, x)))
            vend = "vendor" in pk
            golden = bool(glob.glob(os.path.join(d, "**", "*.golden"), recursive=True))
            units.append({"check": chk, "ver": ver, "src": d, "pkgs": [p for p in pk if p != "vendor"], "vendor": vend, "golden": golden})
    return units


def toolchain_env():
    """Testdata modules declare `go 1.0` etc., which would make the default `go` (1.23) analyse and
    compile them itself; the repository's tests run them under the repository's toolchain, so pin it."""
    m = re.search(r"^go (\d+\.\d+(\.\d+)?)", open(os.path.join(vlib.REPO, "go.mod")).read(), re.M)
    if not m:
        return []
    v = m.group(1) if m.group(2) else m.group(1) + ".0"
    return ["GOTOOLCHAIN=go" + v]


def build_modules(ctx, root, units, variant, helper, seed):
    """Merge the testdata of many checks into one module per Go version (import paths
    example.com/<pkgdir> are preserved); name collisions / vendor trees get their own module.
    Returns jobs [{id, dir, patterns, tests, env, variant, units}]."""
    buckets = []  # {ver, dir, names:set, units:[], env}
    for u in units:
        if u["vendor"]:
            buckets.append({"ver": u["ver"], "names": set(u["pkgs"]), "units": [u], "env": ["GOFLAGS=-mod=vendor"] + toolchain_env(), "solo": True})
            continue
        for b in buckets:
            if b["ver"] == u["ver"] and not b.get("solo") and not (b["names"] & set(u["pkgs"])) and len(b["units"]) < 40:
                b["names"] |= set(u["pkgs"])
                b["units"].append(u)
                break
        else:
            buckets.append({"ver": u["ver"], "names": set(u["pkgs"]), "units": [u], "env": toolchain_env()})
    jobs = []
    for i, b in enumerate(buckets):
        d = os.path.join(root, "%s_%s_%d" % (variant, b["ver"], i))
        os.makedirs(d)
        for u in b["units"]:
            for p in u["pkgs"] + (["vendor"] if u["vendor"] else []):
                shutil.copytree(os.path.join(u["src"], p), os.path.join(d, p))
        with open(os.path.join(d, "go.mod"), "w") as f:
            f.write("module example.com\n\ngo %s\n" % b["ver"][2:])
        if variant != "orig":
            rc, so, se = vlib.sh([helper, "rewrite", "-dir", d, "-kind", variant, "-seed", str(seed)], timeout=600)
            if rc != 0:
                raise Inconclusive("h-fixes rewrite failed: %s" % se[-1000:])
        jobs.append({"id": "%s/%s/%d" % (variant, b["ver"], i), "dir": d, "patterns": ["./..."], "tests": True, "env": b["env"],
                     "variant": variant, "origin": [{"check": u["check"], "ver": u["ver"]} for u in b["units"]]})
    return jobs


def repo_packages():
    rc, so, se = vlib.sh(["go", "list", "./..."], cwd=vlib.REPO, env=vlib.go_env(), timeout=600)
    if rc != 0:
        raise Inconclusive("go list ./... in the repository failed: %s" % se[-1000:])
    return sorted(p.replace("honnef.co/go/tools", ".", 1) for p in so.split())


def run_record(ctx, helper, jobs, tag):
    """Run `h-fixes record` in a few worker processes sharing one staticcheck cache."""
    d = ctx.tmp("record-" + tag)
    cache = ctx.tmp("sc-cache")
    nproc = max(1, min(4, len(jobs)))
    parts = [jobs[i::nproc] for i in range(nproc)]

    def one(i):
        jp = os.path.join(d, "jobs%d.ndjson" % i)
        op = os.path.join(d, "out%d.ndjson" % i)
        with open(jp, "w") as f:
            for j in parts[i]:
                f.write(json.dumps({k: j[k] for k in ("id", "dir", "patterns", "tests", "env")}) + "\n")
        rc, so, se = vlib.sh([helper, "record", "-jobs", jp, "-out", op, "-cache", cache], env=vlib.go_env(), timeout=5400)
        if rc != 0:
            raise Inconclusive("h-fixes record failed rc=%d: %s" % (rc, se[-2000:]))
        return [json.loads(l) for l in open(op)]

    recs = []
    for part in vlib.pmap(one, range(nproc), workers=nproc):
        recs += part
    return recs


# ---------------------------------------------------------------------------------------------
# observation artefact for TLC (FixesObs)
# ---------------------------------------------------------------------------------------------

def norm_msg(s):
    s = re.sub(r'"[^"]*"|`[^`]*`|\'[^\']*\'', "Q", s)
    s = re.sub(r"\d+", "N", s)
    return s[:120]


class Artefact:
    """All recorded diagnostics of a run, flattened for FixesObs + back-references."""

    def __init__(self):
        self.files = []      # {lines, size}
        self.fkey = {}       # (job, pkg, name) -> index (1-based)
        self.diags = []      # TLA records
        self.fixes = []
        self.dmeta = []      # python side: job, rec, diag
        self.fmeta = []
        self.excluded_remap = 0
        self.content = {}    # file name -> bytes

    def read(self, name):
        if name not in self.content:
            with open(name, "rb") as f:
                self.content[name] = f.read()
        return self.content[name]


def build_artefact(jobs_by_id, recs):
    art = Artefact()
    for rec in recs:
        if rec.get("joberr") or rec["failed"]:
            continue
        job = jobs_by_id[rec["job"]]
        fidx = {}
        for fi in rec["files"]:
            if fi["missing"]:
                continue
            art.files.append({"lines": fi["lines"], "size": fi["size"]})
            fidx[fi["name"]] = len(art.files)
        for d in rec["diags"]:
            # positions remapped by //line directives (and cgo) are outside the property
            names = [d["pos"]["file"]] + [e[k]["file"] for fx in d["fixes"] for e in fx["edits"] for k in ("pos", "end")]
            # A //line directive may point into another, real file of the package (generated.go pretending that its
            # code came from input.go): the reported file then exists and has no directive itself.  Which physical
            # file a position came from cannot be told from the report, so every problem of a package that contains a
            # file with a line directive (or cgo) is left out.
            if any(fi["linedir"] for fi in rec["files"]) or (rec["remap"] and any(n not in fidx for n in names)):
                art.excluded_remap += 1
                continue
            did = len(art.diags) + 1
            hasend = 1 if d["end"]["file"] != "" or d["end"]["line"] != 0 else 0
            art.diags.append({"id": did, "file": fidx.get(d["pos"]["file"], 0), "line": d["pos"]["line"], "col": d["pos"]["col"], "off": d["pos"]["off"],
                              "hasend": hasend, "efile": fidx.get(d["end"]["file"], 0) if hasend else 0,
                              "eline": d["end"]["line"], "ecol": d["end"]["col"], "eoff": d["end"]["off"]})
            art.dmeta.append({"job": job, "rec": rec, "diag": d})
            for fx in d["fixes"]:
                fid = len(art.fixes) + 1
                edits = []
                for e in fx["edits"]:
                    edits.append({"file": fidx.get(e["pos"]["file"], 0), "sline": e["pos"]["line"], "scol": e["pos"]["col"], "soff": e["pos"]["off"],
                                  "efile": fidx.get(e["end"]["file"], 0), "eline": e["end"]["line"], "ecol": e["end"]["col"], "eoff": e["end"]["off"],
                                  "new": list(base64.b64decode(e["new_b64"]))})
                lo = hi = 0
                win = []
                if edits and all(e["file"] == edits[0]["file"] and e["file"] > 0 for e in edits):
                    content = art.read(fx["edits"][0]["pos"]["file"])
                    a = max(0, min(len(content), min(e["soff"] for e in edits)))
                    b = max(a, min(len(content), max(e["eoff"] for e in edits)))
                    # window = whole lines around the hull of the edits
                    lo = content.rfind(b"\n", 0, a) + 1
                    nl = content.find(b"\n", b)
                    hi = len(content) if nl < 0 else nl + 1
                    win = list(content[lo:hi])
                art.fixes.append({"id": fid, "diag": did, "edits": edits, "lo": lo, "hi": hi, "win": win})
                art.fmeta.append({"job": job, "rec": rec, "diag": d, "fix": fx, "did": did})
    return art


def tlc_obs(ctx, art, strict=False, chunk=6000):
    """Evaluate FixesObs on the artefact, in chunks of diagnostics; returns verdict dicts by id."""
    dver, fver = {}, {}
    states = trans = 0
    fixes_by_diag = collections.defaultdict(list)
    for fx in art.fixes:
        fixes_by_diag[fx["diag"]].append(fx)
    chunks = [art.diags[i:i + chunk] for i in range(0, len(art.diags), chunk)] or [[]]

    def one(ds):
        used = sorted({d["file"] for d in ds if d["file"]} | {d["efile"] for d in ds if d["efile"]} |
                      {e[k] for d in ds for fx in fixes_by_diag[d["id"]] for e in fx["edits"] for k in ("file", "efile") if e[k]})
        remap = {f: i + 1 for i, f in enumerate(used)}
        remap[0] = 0
        files = [art.files[f - 1] for f in used] or [{"lines": [0], "size": 0}]
        dd = [dict(d, file=remap[d["file"]], efile=remap[d["efile"]]) for d in ds]
        ff = [dict(fx, edits=[dict(e, file=remap[e["file"]], efile=remap[e["efile"]]) for e in fx["edits"]])
              for d in ds for fx in fixes_by_diag[d["id"]]]
        obs = {"files": files, "diags": dd, "fixes": ff}
        r = vlib.run_tlc(ctx, "FixesObs", "FixesObs_strict.cfg" if strict else "FixesObs.cfg", workers=4, timeout=1800,
                         extra_files={"obs.json": json.dumps(obs)})
        return r, len(dd), len(ff)

    for (r, nd, nf) in vlib.pmap(one, chunks, workers=3):
        if strict:
            return r
        vlib.tlc_require_ok(r, "FixesObs")
        got_d = [c for c in r.cases if c["kind"] == "diag"]
        got_f = [c for c in r.cases if c["kind"] == "fix"]
        if len(got_d) != nd or len(got_f) != nf:
            raise Inconclusive("FixesObs judged %d/%d diagnostics and %d/%d fixes" % (len(got_d), nd, len(got_f), nf))
        for c in got_d:
            dver[c["id"]] = c
        for c in got_f:
            fver[c["id"]] = c
        states += r.distinct
        trans += r.generated
    return dver, fver, states, trans


def py_splice(content, edits):
    """Independent splice (sort by start, end, list index) used to cross-check TLC's."""
    order = sorted(range(len(edits)), key=lambda i: (edits[i]["soff"], edits[i]["eoff"], i))
    out = bytearray()
    last = 0
    for i in order:
        e = edits[i]
        out += content[last:e["soff"]]
        out += bytes(e["new"])
        last = e["eoff"]
    out += content[last:]
    return bytes(out)


def rel(job, name):
    return os.path.relpath(name, job["dir"]) if name.startswith(job["dir"]) else name


def diag_case(meta, extra=None):
    d = meta["diag"]
    job = meta["job"]
    c = {"clause": 0, "job": {k: job[k] for k in ("id", "variant", "origin", "patterns", "tests", "env") if k in job},
         "package": meta["rec"]["pkg"], "category": d["cat"], "message": d["msg"],
         "pos": dict(d["pos"], file=rel(job, d["pos"]["file"])), "end": dict(d["end"], file=rel(job, d["end"]["file"]))}
    if "fix" in meta:
        c["fix"] = {"msg": meta["fix"]["msg"], "edits": [{"pos": dict(e["pos"], file=rel(job, e["pos"]["file"])), "end": dict(e["end"], file=rel(job, e["end"]["file"])), "new": e["new"]} for e in meta["fix"]["edits"]]}
    try:
        src = open(d["pos"]["file"], "rb").read().decode("utf-8", "replace").split("\n")
        c["source_line"] = src[d["pos"]["line"] - 1][:200] if 0 < d["pos"]["line"] <= len(src) else ""
    except OSError:
        pass
    if extra:
        c.update(extra)
    return c


# ---------------------------------------------------------------------------------------------

def laws(ctx):
    cfg = "MCFixes_laws.cfg" if (ctx.quick or os.environ.get("C16_CAP")) else "MCFixes_laws_big.cfg"
    nw = int(os.environ.get("C16_TLC_WORKERS", "4" if ctx.quick else "10"))
    r = vlib.run_tlc(ctx, "MCFixes", cfg, workers=min(vlib.NCPU, nw), timeout=3000, coverage=not ctx.quick)
    vlib.tlc_require_ok(r, "Fixes laws (%s)" % cfg)
    if r.distinct < 1000:
        raise Inconclusive("MCFixes explored only %d states" % r.distinct)
    if not ctx.quick and r.coverage_zero:
        raise Inconclusive("MCFixes: never exercised (vacuity): %s" % r.coverage_zero)
    n = vlib.run_tlc(ctx, "MCFixes", "MCFixes_naive.cfg", workers=2, timeout=900)
    if n.violated != "OrderIndependent":
        raise Inconclusive("negative self-test of the law: the naive shift rule was not refuted by TLC (%s)" % n.violated)
    return r, cfg


def select_inputs(ctx):
    units = testdata_units()
    with_fix_checks = set()
    for cat in CATS:
        for f in glob.glob(os.path.join(vlib.REPO, cat, "*", "*.go")):
            if "_test" in f:
                continue
            if re.search(r"report\.Fixes\(|edit\.Fix\(", open(f).read()):
                with_fix_checks.add(os.path.basename(os.path.dirname(f)))
    fixy = [u for u in units if u["check"] in with_fix_checks or u["golden"]]
    others = [u for u in units if u not in fixy]
    if ctx.quick:
        base = fixy + vlib.sample(ctx, others, 8)
        var_units = {v: vlib.sample(ctx, fixy, 6) for v in VARIANTS}
    else:
        base = units
        var_units = {v: units for v in VARIANTS}
        cap = int(os.environ.get("C16_CAP", "0"))
        if cap:   # smoke test of the thorough path only (not a registered mode)
            base = vlib.sample(ctx, units, cap)
            var_units = {v: vlib.sample(ctx, units, max(1, cap // 4)) for v in VARIANTS}
    return units, base, var_units, with_fix_checks


def analyse(ctx, helper, jobs, tag, stats):
    """record -> FixesObs (clauses 1, 2 + splice) -> go/parser + go/types (clause 3)."""
    jobs_by_id = {j["id"]: j for j in jobs}
    recs = run_record(ctx, helper, jobs, tag)
    for r in recs:
        if r.get("joberr"):
            stats["job_errors"].append("%s: %s" % (r["job"], r["joberr"][:300]))
        elif r["failed"]:
            stats["failed_pkgs"].append("%s %s: %s" % (r["job"], r["pkg"], "; ".join(r["errors"])[:200]))
    stats["packages"] += sum(1 for r in recs if not r.get("joberr") and not r["failed"])
    art = build_artefact(jobs_by_id, recs)
    stats["excluded_remapped"] += art.excluded_remap
    dver, fver, st, tr = tlc_obs(ctx, art)
    stats["obs_states"] += st
    stats["obs_transitions"] += tr
    stats["diagnostics"] += len(art.diags)
    stats["fixes"] += len(art.fixes)
    stats["with_end"] += sum(d["hasend"] for d in art.diags)

    # clause 1
    for d, meta in zip(art.diags, art.dmeta):
        v = dver[d["id"]]
        stats["by_variant"][meta["job"]["variant"]]["diags"] += 1
        stats["cats"][meta["diag"]["cat"]] += 1
        if not v["pos"]:
            shape = "position does not exist in the file (line %s col %s)" % ("ok" if 0 < d["line"] <= len(art.files[d["file"] - 1]["lines"]) else "out of range", "?") if d["file"] else "file is not a Go file of the package"
            ctx.violation(vlib.canon_key({"clause": 1, "cat": meta["diag"]["cat"], "what": "pos", "variant": meta["job"]["variant"] == "crlf"}),
                          "%s: reported position %s:%d:%d does not name an existing line/column (Fixes!PosOK false)" % (meta["diag"]["cat"], rel(meta["job"], meta["diag"]["pos"]["file"]), d["line"], d["col"]),
                          diag_case(meta, {"clause": 1, "tlc": v, "shape": shape}))
        elif not v["end"]:
            ctx.violation(vlib.canon_key({"clause": 1, "cat": meta["diag"]["cat"], "what": "end"}),
                          "%s: end %s:%d:%d of the problem at %d:%d is in another file, does not exist or precedes the start (Fixes!EndOK false)" % (
                              meta["diag"]["cat"], rel(meta["job"], meta["diag"]["end"]["file"]), d["eline"], d["ecol"], d["line"], d["col"]),
                          diag_case(meta, {"clause": 1, "tlc": v}))

    # clause 2 + splice
    items = []
    for fx, meta in zip(art.fixes, art.fmeta):
        v = fver[fx["id"]]
        cat = meta["diag"]["cat"]
        stats["by_variant"][meta["job"]["variant"]]["fixes"] += 1
        stats["fix_cats"][cat] += 1
        stats["edit_counts"][len(fx["edits"])] += 1
        bad = [k for k in ("onefile", "inbounds", "disjoint", "editpos") if not v[k]]
        if bad:
            ctx.violation(vlib.canon_key({"clause": 2, "cat": cat, "fix": norm_msg(meta["fix"]["msg"]), "shape": bad}),
                          "%s fix %r: edits violate %s (Fixes.tla geometry)" % (cat, meta["fix"]["msg"], "+".join(bad)),
                          diag_case(meta, {"clause": 2, "tlc": {k: v[k] for k in v if k != "patched"}}))
            continue
        if not fx["edits"]:
            stats["empty_fixes"] += 1
            continue
        if not v["window"]:
            raise Inconclusive("the recorded window of fix %d does not cover its edits" % fx["id"])
        if v["orders"]:
            stats["fixes_all_orders"] += 1
        name = meta["fix"]["edits"][0]["pos"]["file"]
        content = art.read(name)
        patched = content[:fx["lo"]] + bytes(v["patched"]) + content[fx["hi"]:]
        if patched != py_splice(content, fx["edits"]):
            raise Inconclusive("TLC's canonical splice and the Python splice disagree on fix %d (%s)" % (fx["id"], cat))
        stats["spliced"] += 1
        if any(fi["linedir"] for fi in meta["rec"]["files"]):
            stats["clause3_skipped_cgo"] += 1
            continue
        job = meta["job"]
        items.append({"id": str(fx["id"]), "dir": job["dir"], "patterns": job["patterns"], "tests": job["tests"], "env": job.get("env", []),
                      "pkg": meta["rec"]["pkg"], "file": name, "patched_b64": base64.b64encode(patched).decode(),
                      "newtext": [e["new"] for e in meta["fix"]["edits"]], "want_src": False})
    verdicts = run_check(ctx, helper, items, tag)
    metas = {str(fx["id"]): m for fx, m in zip(art.fixes, art.fmeta)}
    c3 = {}
    for it in items:
        v = verdicts.get(it["id"])
        meta = metas[it["id"]]
        if v is None:
            raise Inconclusive("h-fixes check returned no verdict for item %s" % it["id"])
        if v["status"] == "skip":
            stats["clause3_skipped"].append("%s: %s" % (meta["rec"]["pkg"], v.get("why", "")[:160]))
            continue
        c3[int(it["id"])] = v["status"]
        stats["typechecked"] += 1
        stats["imports_added"] += len(v["added"])
        stats["imports_dropped"] += len(v["dropped"])
        if v["status"] in ("parse", "types"):
            cat = meta["diag"]["cat"]
            err = norm_msg(re.sub(r"^[^ ]*:\d+:\d+: ", "", v["errors"][0]))
            what = "does not parse" if v["status"] == "parse" else "does not type-check after import fix-up"
            ctx.violation(vlib.canon_key({"clause": 3, "cat": cat, "fix": norm_msg(meta["fix"]["msg"]), "stage": v["status"], "err": err}),
                          "%s fix %r: patched file %s: %s" % (cat, meta["fix"]["msg"], what, v["errors"][0][-200:]),
                          diag_case(meta, {"clause": 3, "stage": v["status"], "errors": v["errors"], "imports_added": v["added"], "imports_dropped": v["dropped"]}))
    return art, dver, fver, c3


def run_check(ctx, helper, items, tag):
    if not items:
        return {}
    d = ctx.tmp("check-" + tag)
    groups = collections.defaultdict(list)
    for it in items:
        groups[(it["dir"], tuple(it["patterns"]))].append(it)
    gl = sorted(groups.values(), key=len, reverse=True)
    nproc = max(1, min(6, len(gl)))
    parts = [[] for _ in range(nproc)]
    for i, g in enumerate(gl):
        parts[i % nproc] += g

    def one(i):
        ip = os.path.join(d, "items%d.ndjson" % i)
        op = os.path.join(d, "res%d.ndjson" % i)
        with open(ip, "w") as f:
            for it in parts[i]:
                f.write(json.dumps(it) + "\n")
        rc, so, se = vlib.sh([helper, "check", "-in", ip, "-out", op], env=vlib.go_env(), timeout=5400)
        if rc != 0:
            raise Inconclusive("h-fixes check failed rc=%d: %s" % (rc, se[-2000:]))
        return [json.loads(l) for l in open(op)]

    out = {}
    for part in vlib.pmap(one, range(nproc), workers=nproc):
        for v in part:
            out[v["id"]] = v
    return out


def negative_selftest(ctx, art):
    """Corrupt one recorded edit (overlap / out of bounds) and one position: TLC must reject."""
    import copy
    cand = [fx for fx in art.fixes if len(fx["edits"]) >= 1 and all(e["file"] > 0 for e in fx["edits"])]
    if not cand:
        raise Inconclusive("negative self-test: no recorded fix to corrupt")
    wide = [fx for fx in cand if fx["edits"][0]["eoff"] > fx["edits"][0]["soff"] + 1 and art.diags[fx["diag"] - 1]["hasend"]
            and art.diags[fx["diag"] - 1]["eoff"] > art.diags[fx["diag"] - 1]["off"]]
    base = (wide or cand)[len(wide or cand) // 2]
    d0 = art.diags[base["diag"] - 1]
    results, corrupted = [], []
    for kind in ("overlap", "oob", "endbeforestart", "column"):
        d = copy.deepcopy(d0)
        fx = copy.deepcopy(base)
        size = art.files[fx["edits"][0]["file"] - 1]["size"]
        if kind == "overlap":
            e = copy.deepcopy(fx["edits"][0])
            if e["eoff"] == e["soff"]:
                continue
            e["soff"] = e["eoff"] - 1      # second edit starts inside the first
            e["scol"] = e["ecol"] - 1 if e["sline"] == e["eline"] else e["scol"]
            fx["edits"].append(e)
        elif kind == "oob":
            fx["edits"][0]["eoff"] = size + 3
        elif kind == "endbeforestart":
            if not d["hasend"] or d["eoff"] == d["off"]:
                continue
            d["eoff"], d["off"] = d["off"], d["eoff"]
            d["eline"], d["line"] = d["line"], d["eline"]
            d["ecol"], d["col"] = d["col"], d["ecol"]
            fx["edits"] = []
        elif kind == "column":
            lt = art.files[d["file"] - 1]["lines"]
            d["col"] = lt[d["line"] - 1] + 5
            fx["edits"] = []
        a = Artefact()
        a.files = art.files
        d["id"], fx["id"], fx["diag"] = 1, 1, 1
        a.diags, a.fixes = [d], [fx]
        r = tlc_obs(ctx, a, strict=True)
        if r.violated != "GeometryHolds":
            raise Inconclusive("negative self-test: TLC accepted a recorded artefact corrupted by %r (%s)" % (kind, r.violated))
        corrupted.append((kind, d, fx))
        results.append(kind)
    # the verdict channel must say the same (one run over all corrupted artefacts)
    a = Artefact()
    a.files = art.files
    for i, (kind, d, fx) in enumerate(corrupted):
        a.diags.append(dict(d, id=i + 1))
        a.fixes.append(dict(fx, id=i + 1, diag=i + 1))
    dv, fv, _, _ = tlc_obs(ctx, a)
    for i, (kind, d, fx) in enumerate(corrupted):
        if dv[i + 1]["pos"] and dv[i + 1]["end"] and all(fv[i + 1][k] for k in ("onefile", "inbounds", "disjoint", "editpos")):
            raise Inconclusive("negative self-test: verdict channel accepted corruption %r" % kind)
    if len(results) < 3:
        raise Inconclusive("negative self-test: only %s corruptions were applicable" % results)
    return results


def new_stats():
    return {"packages": 0, "diagnostics": 0, "fixes": 0, "with_end": 0, "excluded_remapped": 0, "obs_states": 0, "obs_transitions": 0,
            "spliced": 0, "typechecked": 0, "imports_added": 0, "imports_dropped": 0, "empty_fixes": 0, "fixes_all_orders": 0,
            "clause3_skipped": [], "clause3_skipped_cgo": 0, "job_errors": [], "failed_pkgs": [],
            "by_variant": collections.defaultdict(lambda: {"diags": 0, "fixes": 0}), "cats": collections.Counter(), "fix_cats": collections.Counter(),
            "edit_counts": collections.Counter()}


def make_jobs(ctx, helper, base, var_units, repo_pkgs):
    root = ctx.tmp("modules")
    jobs = build_modules(ctx, root, base, "orig", helper, ctx.seed)
    for v in VARIANTS:
        if var_units.get(v):
            jobs += build_modules(ctx, root, var_units[v], v, helper, ctx.seed)
    if repo_pkgs:
        for i in range(0, len(repo_pkgs), 12):
            jobs.append({"id": "repo/%d" % (i // 12), "dir": os.path.realpath(vlib.REPO), "patterns": repo_pkgs[i:i + 12], "tests": True, "env": [],
                         "variant": "repo", "origin": []})
    return jobs


def run(ctx):
    ctx.level = "exploration"
    helper = vlib.go_build_harness(ctx, "cmd/h-fixes", tags=None)

    if ctx.replay:
        return replay(ctx, helper)

    import time
    phases = {}
    t0 = time.time()
    # 0. the laws of the Fixes state machine, exhaustively on the small universe
    lawr, lawcfg = laws(ctx)
    phases["laws"] = round(time.time() - t0, 1)
    t0 = time.time()

    # 1-3. recorded diagnostics and fixes
    units, base, var_units, with_fix_checks = select_inputs(ctx)
    rp = [p for p in repo_packages() if "/testdata" not in p]
    repo_sel = vlib.sample(ctx, rp, 5) if ctx.quick else rp
    if not ctx.quick and os.environ.get("C16_CAP"):
        repo_sel = vlib.sample(ctx, rp, 3)
    jobs = make_jobs(ctx, helper, base, var_units, repo_sel)
    stats = new_stats()
    art, dver, fver, _ = analyse(ctx, helper, jobs, "main", stats)
    capped = bool(os.environ.get("C16_CAP")) and not ctx.quick
    if not capped and (stats["diagnostics"] < 200 or stats["fixes"] < 100):
        raise Inconclusive("recorded only %d diagnostics / %d fixes; job errors: %s" % (stats["diagnostics"], stats["fixes"], stats["job_errors"][:3]))
    if stats["job_errors"]:
        raise Inconclusive("runner failed on %d jobs: %s" % (len(stats["job_errors"]), stats["job_errors"][:3]))
    phases["record+obs+typecheck"] = round(time.time() - t0, 1)
    t0 = time.time()
    neg = negative_selftest(ctx, art)
    phases["negative_selftest"] = round(time.time() - t0, 1)
    t0 = time.time()

    # 4. behaviour
    beh = C16_behaviour.run_behaviour(ctx, helper, sys.modules[__name__])

    phases["behaviour"] = round(time.time() - t0, 1)
    fix_checks_seen = sorted(stats["fix_cats"])
    sample_fix = next((m for fx, m in zip(art.fixes, art.fmeta) if len(fx["edits"]) > 1), art.fmeta[0])
    ctx.coverage = {
        "evaluations": stats["diagnostics"] + stats["fixes"] + beh["generated_package_diagnostics"] + beh["generated_package_fixes"] + beh["executions"],
        "phase_wall_s": phases,
        "distinct_nontrivial": len({(m["diag"]["cat"], norm_msg(m["fix"]["msg"]), len(m["fix"]["edits"])) for m in art.fmeta}) + beh["cases_with_fix"],
        "rule": "evaluations = recorded diagnostics + recorded suggested fixes (each judged by TLC/FixesObs, each fix spliced and sent to go/parser+go/types) "
                "+ native executions of behaviour cases (original and fixed function x input vector). distinct_nontrivial = distinct (check, fix message shape, "
                "number of edits) triples among fixes actually offered by the real analyzers + distinct abstract behaviour cases (shape x operand effects x context x occurrence variation, "
                "enumerated by TLC from FixCases.tla) for which the real analyzer offered a fix that was applied and executed.",
        "exhaustive": False,
        "laws": {"module": "MCFixes", "config": lawcfg, "states": lawr.distinct, "transitions": lawr.generated, "wall_s": round(lawr.wall, 1),
                 "invariants": ["InitWellFormed", "PartialCanonical", "OrderIndependent", "PendingApplicable", "Frame", "ASSUME LineLaws (PosBijection)"],
                 "negative": "MCFixes_naive.cfg: naive shift rule refuted by TLC (OrderIndependent violated)"},
        "observation_validation": {"module": "FixesObs", "states": stats["obs_states"], "transitions": stats["obs_transitions"],
                                   "diagnostics": stats["diagnostics"], "with_end": stats["with_end"], "fixes": stats["fixes"],
                                   "fixes_explored_in_all_orders": stats["fixes_all_orders"], "excluded_line_directive_or_cgo": stats["excluded_remapped"],
                                   "negative_selftest": neg},
        "packages": stats["packages"], "failed_packages": len(stats["failed_pkgs"]), "failed_packages_sample": stats["failed_pkgs"][:5],
        "inputs": {"testdata_units_total": len(units), "testdata_units_base": len(base), "variant_units": {v: len(var_units[v]) for v in VARIANTS},
                   "repo_packages": len(repo_sel), "by_variant": {k: dict(v) for k, v in stats["by_variant"].items()}},
        "checks_with_fix_in_source": len(with_fix_checks), "checks_whose_fix_was_observed": fix_checks_seen,
        "edit_count_histogram": {str(k): v for k, v in sorted(stats["edit_counts"].items())},
        "clause3": {"patched_files_typechecked": stats["typechecked"], "spliced": stats["spliced"], "imports_added": stats["imports_added"],
                    "imports_dropped": stats["imports_dropped"], "skipped": len(stats["clause3_skipped"]), "skipped_sample": stats["clause3_skipped"][:3],
                    "skipped_cgo": stats["clause3_skipped_cgo"]},
        "behaviour": beh,
        "samples": [diag_case(sample_fix), beh.get("sample", {})],
        "trusted_base": ["TLC", "go/parser, go/types (named by the property)", "the Go toolchain (native execution as behaviour oracle)"],
    }
    ctx.assumptions = [
        "clauses 1-2: TLC evaluates Fixes.tla's geometry predicates on artefacts recorded from the real runner (observation validation); line tables are computed from the file bytes, independently of go/token",
        "clause 3 is decided by go/parser + go/types after an AST-level import fix-up (unused imports dropped; std packages / packages imported elsewhere in the package added when the replacement text names them)",
        "clause 4 is decided by native execution of original vs fixed functions (IRSem route of DESIGN.md is future work); only checks with a generator template; QF1009/QF1010 (documented as behaviour-changing) excluded",
        "clause 4, matching conditions: repeated metavariables of a trigger shape are instantiated identically or with one near-equal occurrence (FixCases.tla occurrence variation); a check that does not fire on a variant is not judged",
        "positions in files with //line directives or cgo are excluded, as the property says",
    ]


def replay(ctx, helper):
    doc = json.load(open(ctx.replay))
    case = doc["case"]
    if case.get("clause") == 4:
        beh = C16_behaviour.run_behaviour(ctx, helper, sys.modules[__name__], only=case.get("abstract"))
        print("note: behaviour replay: %d cases, %d with a fix, %d fix applications, %d differences; occurrence variation: %s" % (
            beh["cases_instantiated"], beh["cases_with_fix"], beh["fix_applications_executed"], beh["behaviour_differences"],
            json.dumps(beh["occurrence_variation"], sort_keys=True)), flush=True)
        return
    job = case["job"]
    units = [u for u in testdata_units() if {"check": u["check"], "ver": u["ver"]} in job.get("origin", [])]
    root = ctx.tmp("modules")
    if job["variant"] == "repo":
        jobs = [{"id": job["id"], "dir": os.path.realpath(vlib.REPO), "patterns": job["patterns"], "tests": True, "env": [], "variant": "repo", "origin": []}]
    else:
        jobs = build_modules(ctx, root, units, job["variant"], helper, doc.get("seed", ctx.seed))
    analyse(ctx, helper, jobs, "replay", new_stats())
