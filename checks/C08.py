"""C08 — Pattern pre-filtering never changes what a pattern matches.

Spec: specs/PatternFilter.tla (+ MCPatternFilter.tla).  The three collectors of pattern/parser.go (Entry =
collectEntryNodes + nodeToASTTypes, Syms = collectSymbols, RootCalls = collectRootCallSymbols) are transcribed
rule by rule next to the match relation M(p, v) of the pattern language (automatic unnesting, symbol-aware nodes,
aliases, conversions); TLC checks FilterComplete (and EntrySound / SymsSound / RootCallsSound) for every pattern of
the families against every node of an abstract package that contains the call forms of the property, and prints the
collectors' results for every pattern.

Conformance:
 (a) drift: every TLC-enumerated pattern is rendered and parsed by the REAL pattern.Parser; EntryNodes,
     SymbolsPattern and RootCallSymbols are compared with the specification's collectors (drift, not a verdict);
 (b) property level: harness/cmd/h-pfilter runs a probe analyzer that requires code.RequiredAnalyzers through the
     REAL lintcmd/runner; for every pattern and package it compares code.Matches with brute-force pattern.Match on
     every syntax node (a brute-force hit at n is explained by a filtered hit with the same bindings at a node of
     n's unwrap chain; (pattern, package) pairs whose symbols are declared in the package are skipped -- the
     property's proviso).  Patterns: the TLC-enumerated ones, hand-written ones over the call-form fixture, and
     every string passed to pattern.MustParse in the repository (extracted at check time).  Packages: a generated
     call-form module (qualified, parenthesised callee, method value/expression, generic instantiation, dot
     import, renamed import, alias of a type, func variable, promotion through embedding, conversion, callee
     declared in the package) and the checks' testdata trees.
"""
import json
import os
import re

import vlib
from vlib import Inconclusive

FILES = {
"go.mod": "module ex.test/cf\n\ngo 1.22\n",
"lib/lib.go": '''package lib

import "time"

func F(x int) int { return x }

func G[T any](x T) T { return x }

type T struct{ N int }

func (T) M(x int) int { return x }

func (*T) PM(x int) int { return x }

type TA = T

type D = time.Duration

type E struct{ T }

type I interface{ M(int) int }

var V = 1

const C = 2

var FV = F
''',
# qualified uses of every call form
"forms/forms.go": '''package forms

import "ex.test/cf/lib"

func Plain(x int) int {
	lib.F(x)
	(lib.F)(x)
	((lib.F))(1)
	y := lib.F(lib.F(2))
	if lib.F(3) == 3 {
		lib.F(4)
	}
	return y
}

func Methods(t lib.T, p *lib.T) {
	t.M(1)
	(t).M(2)
	lib.T.M(t, 3)
	(lib.T).M(t, 4)
	f := t.M
	f(5)
	p.PM(6)
	t.PM(7)
	(*lib.T).PM(p, 8)
	(&t).PM(9)
	lib.T{}.M(10)
}

func Generic() {
	lib.G[int](1)
	lib.G(2)
	g := lib.G[string]
	g("s")
	(lib.G[int])(3)
}

func Alias(x int64) {
	_ = lib.D(5)
	_ = lib.D(x)
	var ta lib.TA
	ta.M(1)
	_ = lib.TA{N: 1}
	_ = lib.TA(ta)
	_ = lib.T(ta)
}

func Vars() int {
	lib.FV(1)
	lib.V = lib.V + lib.C
	lib.V %= 1
	return -lib.V + +1 - -2
}

func Embedding(e lib.E, i lib.I) {
	e.M(1)
	e.T.M(2)
	e.PM(3)
	i.M(4)
}

func Blocks(x int) {
	{
	}
	{
		lib.F(1)
	}
	{
		lib.F(1)
		lib.F(2)
	}
L:
	for {
		lib.F(5)
		break L
	}
	var _ = lib.F(6)
	defer lib.F(7)
	go lib.F(8)
	_ = []int{lib.F(9)}
	_ = func() int { return lib.F(10) }
	_ = len([]int{})
	_ = x
}
''',
"dot/dot.go": '''package dot

import . "ex.test/cf/lib"

func Use(t T) {
	F(1)
	(F)(2)
	G[int](3)
	G(4)
	t.M(5)
	T.M(t, 6)
	_ = D(7)
	_ = TA{}
	V = V + C
	FV(8)
}
''',
"ren/ren.go": '''package ren

import l2 "ex.test/cf/lib"

func Use(t l2.T) {
	l2.F(1)
	(l2.F)(2)
	l2.G[int](3)
	t.M(4)
	l2.T.M(t, 5)
	_ = l2.D(6)
	_ = l2.V
}
''',
# uses only the alias: the package references neither time nor lib.T by name
"aliasonly/aliasonly.go": '''package aliasonly

import "ex.test/cf/lib"

func Use() {
	_ = lib.D(5)
	var ta lib.TA
	_ = ta
}
''',
# a package that declares the symbols itself (the property's proviso)
"decl/decl.go": '''package decl

func F(x int) int { return x }

type T struct{}

func (T) M(x int) int { return x }

func Use(t T) {
	F(1)
	t.M(2)
}
''',
"nouse/nouse.go": '''package nouse

func F(x int) int { return x }

func Use() int {
	x := 1
	x %= 1
	return F(x) + len("a")
}

func Universe(s []int, b []byte) (int, string, bool) {
	var p *int = nil
	_ = p
	s = append(s, int(1))
	return len(s), string(b), true
}
''',
# std call forms (conversion of a std type, std alias-free)
"std/std.go": '''package std

import (
	"fmt"
	"time"
)

func Use(x int64) {
	fmt.Println(x)
	(fmt.Println)(x)
	_ = time.Duration(x)
	_ = time.Duration(5) * time.Second
	time.Sleep(1)
	var d time.Duration
	_ = d.Seconds()
	_ = time.Duration.Seconds(d)
}
''',
}

L = "ex.test/cf/lib"
# hand-written patterns over the fixture symbols (besides the TLC-enumerated and the repository's)
PATTERNS = [
 '(CallExpr (Symbol "%s.F") _)' % L,
 '(CallExpr (Symbol "%s.F") [_])' % L,
 '(CallExpr fn@(Symbol "%s.F") args)' % L,
 '(CallExpr (Symbol (Or "%s.F" "%s.G")) _)' % (L, L),
 '(CallExpr (Or (Symbol "%s.F") (Symbol "%s.G")) _)' % (L, L),
 '(CallExpr (Symbol name@(Or "%s.F" "(%s.T).M")) _)' % (L, L),
 '(CallExpr (Symbol "%s.G") _)' % L,
 '(CallExpr (Symbol "(%s.T).M") _)' % L,
 '(CallExpr (Symbol "(*%s.T).PM") _)' % L,
 '(CallExpr (Symbol "(%s.T).PM") _)' % L,
 '(CallExpr (Symbol "(%s.I).M") _)' % L,
 '(CallExpr (Symbol "%s.T") _)' % L,
 '(CallExpr (Symbol "%s.TA") _)' % L,
 '(CallExpr (Symbol "%s.D") _)' % L,
 '(CallExpr (Symbol "time.Duration") [_])',
 '(CallExpr (Symbol "time.Duration") _)',
 '(CallExpr (Symbol "%s.FV") _)' % L,
 '(CallExpr (Symbol "fmt.Println") _)',
 '(CallExpr (Symbol "time.Sleep") _)',
 '(CallExpr (Symbol "(time.Duration).Seconds") _)',
 '(Symbol "%s.F")' % L,
 '(Symbol "%s.G")' % L,
 '(Symbol "%s.V")' % L,
 '(Symbol "%s.T")' % L,
 '(Symbol "time.Duration")',
 '(Or (Symbol "%s.F") (Symbol "%s.V"))' % (L, L),
 '(BinaryExpr (Symbol "%s.V") _ _)' % L,
 '(BinaryExpr _ _ (Symbol "%s.C"))' % L,
 '(AssignStmt (Symbol "%s.V") "%%=" (IntegerLiteral "1"))' % L,
 '(UnaryExpr "-" (Symbol "%s.V"))' % L,
 '(SelectorExpr _ (Symbol "(%s.T).M"))' % L,
 '(CompositeLit (Symbol "%s.T") _)' % L,
 '(CompositeLit (Symbol "%s.TA") _)' % L,
 '(IndexExpr (Symbol "%s.G") _)' % L,
 '(Not (Ident _))',
 '(Not (CallExpr _ _))',
 '(Not (Symbol "%s.F"))' % L,
 '(Any)',
 '(Binding "x" nil)',
 '(Binding "x" (CallExpr (Symbol "%s.F") _))' % L,
 '(Or (CallExpr (Symbol "%s.F") _) (BinaryExpr _ _ _))' % L,
 '(Or (Not (CallExpr _ _)) (Ident "zz"))',
 '[(CallExpr (Symbol "%s.F") _)]' % L if False else '(List (CallExpr (Symbol "%s.F") _) (List nil nil))' % L,
 '(List _ _)',
 '(List nil nil)',
 '(IfStmt nil _ [(CallExpr (Symbol "%s.F") _)] nil)' % L,
 '(GoStmt (CallExpr (Symbol "%s.F") _))' % L,
 '(DeferStmt (CallExpr (Symbol "%s.F") _))' % L,
 '(IntegerLiteral _)',
 '(IntegerLiteral "1")',
 '(Builtin "len")',
 '(CallExpr (Builtin "len") _)',
 '(TrulyConstantExpression _)',
 '(Object "x")',
 # predeclared identifiers named through Symbol
 '(Symbol "len")',
 '(CallExpr (Symbol "len") _)',
 '(CallExpr (Symbol "append") _)',
 '(Symbol "int")',
 '(CallExpr (Symbol "string") _)',
 '(CallExpr (Symbol (Or "int" "len")) _)',
]


DEVIATIONS = ["operand", "plain", "named", "direct", "func"]


def write_fixture(ctx):
    root = ctx.tmp("cf")
    for name, text in FILES.items():
        p = os.path.join(root, name)
        os.makedirs(os.path.dirname(p), exist_ok=True)
        with open(p, "w") as f:
            f.write(text)
    rc, so, se = vlib.sh(["go", "build", "./..."], cwd=root, env=vlib.go_env(), timeout=900)
    if rc != 0:
        raise Inconclusive("the call-form fixture does not compile (generator bug): %s" % (so + se)[-2000:])
    return root


def check_symtab(symtab):
    """the fixture library must declare what MCPatternFilter.tla's SymTab names"""
    lib = FILES["lib/lib.go"]
    for sid, s in symtab.items():
        if s["path"] != L:
            raise Inconclusive("SymTab symbol %s is not in the fixture library" % sid)
        pat = {"func": r"func %s[\[(]" % s["ident"], "method": r"func \(\*?%s\) %s\(" % (s["type"], s["ident"]),
               "type": r"type %s " % s["ident"], "var": r"var %s " % s["ident"]}[s["kind"]]
        if not re.search(pat, lib):
            raise Inconclusive("fixture library lacks %s %s" % (s["kind"], sid))


def testdata_dirs(ctx):
    out = []
    for root, dirs, files in os.walk(vlib.REPO):
        if "/.git" in root:
            dirs[:] = []
            continue
        if os.path.basename(root) == "testdata":
            for d in sorted(dirs):
                if re.match(r"^go1\.\d+$", d):
                    out.append(os.path.join(root, d))
            dirs[:] = []
    return sorted(out)


def run_probe(ctx, helper, name, patterns, dirs, selftest=False, timeout=7200):
    d = ctx.tmp("probe")
    pp, dp = os.path.join(d, name + ".pats.json"), os.path.join(d, name + ".dirs.json")
    json.dump(patterns, open(pp, "w"))
    json.dump(dirs, open(dp, "w"))
    cmd = [helper, "probe", "-patterns", pp, "-dirs", dp] + (["-selftest-drop-calls"] if selftest else [])
    rc, so, se = vlib.sh(cmd, env=vlib.go_env({"STATICCHECK_CACHE": ctx.tmp("sc-cache")}), timeout=timeout)
    if rc != 0:
        raise Inconclusive("h-pfilter probe failed rc=%d: %s" % (rc, se[-3000:]))
    mism, summary = [], None
    for line in so.splitlines():
        o = json.loads(line)
        if "summary" in o:
            summary = o["summary"]
        else:
            mism.append(o)
    if summary is None:
        raise Inconclusive("h-pfilter probe printed no summary")
    return mism, summary


def call_form(m):
    """the abstract call form / node shape a dropped match is keyed by: source text with identifiers of
    arguments normalised away is too fine; the stage, the pattern and the node type chain identify the input"""
    return {"pattern": m["pattern"], "stage": m["stage"], "node": m["chain"][-1] if m.get("chain") else m.get("node_type", ""),
            "source": m.get("source", "")}


def report(ctx, mism, where):
    n = 0
    # at most two reports per class (stage, root constructor of the pattern, type of the matched node)
    per_class = {}
    ordered = []
    for m in mism:
        cls = (m["kind"], m.get("stage", ""), m["pattern"].split(" ")[0].strip("()"), (m.get("chain") or [""])[-1])
        per_class[cls] = per_class.get(cls, 0) + 1
        if per_class[cls] <= 2:
            ordered.append(m)
    if len(ordered) < len(mism):
        ctx.note("%s: %d mismatching (pattern, node) samples in %d classes; reporting two per class" % (where, len(mism), len(per_class)))
    # round-robin over the stages so that every way of losing a match shows up among the first reports
    by_stage = {}
    for m in ordered:
        by_stage.setdefault((m["kind"], m.get("stage", "")), []).append(m)
    ordered = []
    while any(by_stage.values()):
        for k in sorted(by_stage):
            if by_stage[k]:
                ordered.append(by_stage[k].pop(0))
    for m in ordered:
        if m["kind"] == "panic":
            key = vlib.canon_key({"panic": m["pattern"], "detail": m.get("detail", "")[:80]})
            what = "%s panics for pattern %s in %s: %s" % (where, m["pattern"], m["pkg"], m.get("detail", ""))
        elif m["kind"] == "dropped":
            cf = call_form(m)
            key = vlib.canon_key(cf)
            what = ("code.Matches drops a match of %s: brute-force pattern.Match matches %s `%s` at %s (package %s), the filtered "
                    "search does not report it (lost at stage: %s)" % (m["pattern"], m["node_type"], m.get("source", ""), m.get("pos", ""), m["pkg"], m["stage"]))
        else:
            key = vlib.canon_key({"extra": m["pattern"], "src": m.get("source", "")})
            what = "code.Matches reports %s `%s` for %s with bindings {%s}, brute force: %s" % (
                m["node_type"], m.get("source", ""), m["pattern"], m.get("state", ""), m.get("detail", ""))
        case = dict(m)
        case["call_form"] = call_form(m) if m["kind"] == "dropped" else {}
        case["stage_pattern"] = "%s|%s" % (m.get("stage", ""), m["pattern"])
        if ctx.violation(key, what, case):
            n += 1
        if len(ctx.violations) >= 25:
            ctx.note("stopping after 25 violations")
            break
    return n


def run(ctx):
    ctx.level = "model_checking"
    helper = vlib.go_build_harness(ctx, "cmd/h-pfilter")
    workers = int(os.environ.get("VERIF_TLC_WORKERS", "8"))

    # 1. TLC: the design satisfies FilterComplete on every (pattern, node); emits the collectors
    r = vlib.run_tlc(ctx, "MCPatternFilter", "MCPatternFilter_design.cfg", workers=workers, timeout=3000, keep_cases=False)
    vlib.tlc_require_ok(r, "FilterComplete on the design")
    tlc_out = os.path.join(r.dir, "tlc.out")

    # 2. (a) drift of the transcribed collectors against the real parser; rendered patterns for (b)
    rc, so, se = vlib.sh([helper, "collect", "-tlc", tlc_out], timeout=900)
    if rc != 0:
        raise Inconclusive("h-pfilter collect failed: %s" % se[-2000:])
    col = json.loads(so)
    if col["compared"] == 0 or r.distinct <= col["compared"]:
        raise Inconclusive("TLC emitted %d patterns for %d states" % (col["compared"], r.distinct))
    check_symtab(col["symtab"])
    drift = col["drift"] or []
    bad_render = [d for d in drift if d["what"] in ("parse error", "parser panic")]
    if bad_render:
        raise Inconclusive("renderer produced a pattern the parser rejects: %s" % bad_render[:3])
    drift_kinds = {}
    for d in drift:
        drift_kinds[d["what"]] = drift_kinds.get(d["what"], 0) + 1
    for d in drift[:6]:
        ctx.note("drift (%s) %s: spec-only {%s} real-only {%s}" % (d["what"], d["pattern"], d["spec"], d["real"]))

    if ctx.replay:
        doc = json.load(open(ctx.replay))
        c = doc["case"]
        root = write_fixture(ctx)
        pats = [{"id": "R0", "pattern": c["pattern"]}]
        dirs = [{"dir": root, "label": "fixture", "notests": True}]
        if c.get("label", "fixture") != "fixture":
            dirs.append({"dir": os.path.join(vlib.REPO, c["label"]), "module": "example.com", "go": os.path.basename(c["label"])[2:], "label": c["label"]})
        mism, _ = run_probe(ctx, helper, "replay", pats, dirs)
        report(ctx, mism, "replay")
        return

    # 3. patterns
    rc, so, se = vlib.sh([helper, "extract", "-repo", vlib.REPO], timeout=900)
    if rc != 0:
        raise Inconclusive("h-pfilter extract failed: %s" % se[-2000:])
    ex = json.loads(so)
    repo_pats = [{"id": "P%d:%s:%d" % (i, p["file"], p["line"]), "pattern": p["pattern"]} for i, p in enumerate(ex["patterns"])]
    if len(repo_pats) < 50:
        raise Inconclusive("only %d MustParse patterns found in the repository" % len(repo_pats))
    tlc_pats = [{"id": "T%d" % p["i"], "pattern": p["pattern"]} for p in col["patterns"]]
    hand_pats = [{"id": "H%d" % i, "pattern": p} for i, p in enumerate(PATTERNS)]
    generic = [p for p in tlc_pats if re.match(r"^\((\w+)( _)*\)$", p["pattern"])]

    # 4. (b) the call-form fixture: every pattern
    root = write_fixture(ctx)
    fx_pats = tlc_pats + hand_pats + repo_pats
    mism_fx, sum_fx = run_probe(ctx, helper, "fixture", fx_pats, [{"dir": root, "label": "fixture", "notests": True}])
    if sum_fx["parse_errors"]:
        raise Inconclusive("patterns rejected by the parser: %s" % sum_fx["parse_errors"][:3])
    if sum_fx["load_errors"]:
        raise Inconclusive("fixture did not load: %s" % sum_fx["load_errors"][:3])
    st = sum_fx["stats"]
    if st.get("brute_matches", 0) < 1000 or st.get("pairs_skipped_proviso", 0) == 0:
        raise Inconclusive("vacuous fixture run: %s" % st)
    report(ctx, mism_fx, "fixture")

    # 5. (b) the checks' testdata: the repository's patterns + one pattern per node type + std call forms
    tds = testdata_dirs(ctx)
    if len(tds) < 100:
        raise Inconclusive("only %d testdata trees found" % len(tds))
    cap = int(os.environ.get("VERIF_C08_TESTDATA", "8" if ctx.quick else "0"))
    chosen = vlib.sample(ctx, tds, cap) if cap else tds
    td_pats = repo_pats + generic + [p for p in hand_pats if "ex.test" not in p["pattern"]]
    dirs = [{"dir": d, "module": "example.com", "go": os.path.basename(d)[2:], "label": os.path.relpath(d, vlib.REPO)} for d in chosen]
    mism_td, sum_td = run_probe(ctx, helper, "testdata", td_pats, dirs)
    std = sum_td["stats"]
    if sum_td["load_errors"]:
        ctx.note("testdata trees with load errors (skipped by the runner): %d, e.g. %s" % (len(sum_td["load_errors"]), sum_td["load_errors"][0][:200]))
    if std.get("packages", 0) == 0 or std.get("brute_matches", 0) == 0:
        raise Inconclusive("vacuous testdata run: %s" % std)
    report(ctx, mism_td, "testdata")

    # 6. negative self-test of the binding: a filter that loses every call expression must be noticed
    neg_m, neg_s = run_probe(ctx, helper, "selftest", hand_pats[:8], [{"dir": root, "label": "fixture", "notests": True}], selftest=True)
    if not any(m["kind"] == "dropped" for m in neg_m):
        raise Inconclusive("negative self-test: dropping every CallExpr hit was not noticed by the comparison")

    # 7. thorough: every named deviation of the collectors must be refuted by TLC (vacuity of the laws)
    dev = {}
    if not ctx.quick:
        for d in DEVIATIONS:
            rd = vlib.run_tlc(ctx, "MCPatternFilter", "MCPatternFilter_dev_%s.cfg" % d, workers=4, timeout=1800, keep_cases=False)
            if not rd.violated:
                raise Inconclusive("self-test: deviation %s is not refuted by TLC" % d)
            dev[d] = str(rd.violated)

    ctx.coverage = {
        "states": r.distinct, "transitions": r.generated,
        "traces_validated_against_impl": st.get("pairs", 0) + std.get("pairs", 0),
        "exhaustive": ctx.quick or not cap,       # model part exhaustive; thorough replays all testdata trees unless capped
        "tlc": {"module": "MCPatternFilter", "config": "MCPatternFilter_design.cfg", "wall_s": round(r.wall, 1),
                "invariants": ["FilterComplete", "EntrySound", "SymsSound", "RootCallsSound"]},
        "tlc_patterns": len(tlc_pats), "hand_patterns": len(hand_pats), "repo_patterns": len(repo_pats), "generic_node_patterns": len(generic),
        "collector_drift": {"compared": col["compared"], "differences": len(drift), "by_kind": drift_kinds},
        "fixture": st, "fixture_patterns_with_matches": len(sum_fx["patterns_with_matches"]),
        "testdata_trees": len(chosen), "testdata_trees_total": len(tds), "testdata": std,
        "testdata_patterns_with_matches": len(sum_td["patterns_with_matches"]),
        "testdata_load_errors": len(sum_td["load_errors"] or []),
        "negative_selftest_dropped_reported": len(neg_m),
        "deviations_refuted_by_tlc": dev,
        "samples": [p["pattern"] for p in tlc_pats[10:13]] + [repo_pats[0]["pattern"][:120]],
        "trusted_base": ["TLC 1.8.0", "go toolchain", "go/types (symbol resolution)", "inspector.Preorder as the enumeration of syntax nodes"],
    }
    ctx.assumptions = [
        "syntax nodes = nodes of the 41 types a pattern can name plus the wrappers/list carriers the matcher looks through (ParenExpr, ExprStmt, DeclStmt, LabeledStmt, BlockStmt, FieldList); File, Comment(Group), Ellipsis, IndexListExpr, Bad* are outside",
        "a brute-force hit at a wrapper is explained by a filtered hit with the same bindings at a node of its unwrap chain (DESIGN 1.4)",
        "(pattern, package) pairs are skipped when a symbol named by the pattern is declared in the package (the property's proviso)",
        "model: 6 symbols (func, generic func, method, type, alias of the type, var), one alias; call forms qualified / dot import / parenthesised / method / instantiation / conversion / alias conversion; quick tier runs %s of the testdata trees (seeded), thorough all" % ("8" if ctx.quick else "all"),
    ]
