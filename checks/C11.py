"""C11 — Check selection, config inheritance, exit status and formats agree.

Spec: specs/Checks.tla (+ MCChecks.tla).  The module is the documented algebra (configuration
docs + property text): staticcheck.conf files merged outermost-first with "inherit" splicing, the
-checks flag resolved over the result, left-to-right evaluation of all / * / category globs /
prefix globs / exact names / '-' negation (case-insensitive), `Printed` = problems restricted to
the allowed set (+ compile / config / directive errors), severity and exit status from -fail.
TLC checks the laws (last-wins, append-exactness, inherit identity, override, case
insensitivity, normalisation neutrality, category-glob partition, exit law, frame conditions) in
every reachable configuration of three models and emits every configuration with the expected
result for five fixture package kinds.

Conformance (R):
  * every emitted configuration is realised as a chain of real directories with staticcheck.conf
    files and pushed through the real config.Load (exhaustive);
  * configurations are realised as module trees (one package per configuration and fixture kind,
    many per invocation) and linted by the real staticcheck — in-process (lintcmd.Command, same
    analyzers as cmd/staticcheck) for the bulk, the real binary for a sample — with -checks,
    -fail and -f text|stylish|json|sarif; printed check ids, positions, messages, severities
    (JSON) and the exit status must equal the spec's expectation, for every format.
"""
import json
import os
import re

import vlib
from vlib import Inconclusive

ANALYZERS = ["S1002", "SA4000", "SA9004", "ST1017", "ST1000", "U1000"]
KINDS = ["plain", "ign", "mal", "unm", "bad"]
FORMATS = ["json", "text", "stylish", "sarif"]

FIXTURES = {
    # exactly one problem per analyzer of the universe, each on its own line
    "plain": """package p

func unusedFn() {}

func F(x int, b bool) bool {
	if b == true {
		return x == x
	}
	if 1 == x {
		return false
	}
	return b
}

const (
	A int = 1
	B     = 2
)
""",
    # S1002 reported, SA4000 suppressed by a matching line directive
    "ign": """// Package p is a fixture.
package p

// F is exported.
func F(x int, b bool) bool {
	if b == true {
		//lint:ignore SA4000 comparing x with itself on purpose
		return x == x
	}
	return b
}
""",
    # S1002 reported, a directive without reason (malformed: a compile-category error)
    "mal": """// Package p is a fixture.
package p

// F is exported.
func F(x int, b bool) bool {
	if b == true {
		//lint:ignore SA4000
		return x != 0
	}
	return b
}
""",
    # S1002 reported, a well-formed SA4000 directive that matches nothing
    "unm": """// Package p is a fixture.
package p

// F is exported.
func F(x int, b bool) bool {
	if b == true {
		//lint:ignore SA4000 nothing to ignore here
		return x != 0
	}
	return b
}
""",
    # does not build: imports a package that does not exist (a compile-category error with a position)
    "bad": """// Package p is a fixture.
package p

import _ "ex.test/m/doesnotexist"
""",
}

# what `-checks all -show-ignored` must report for each fixture (code -> severity); must equal
# MCPkg in specs/MCChecks.tla (checked by check_tables_match_spec)
BASELINE = {
    "plain": {"S1002": "error", "SA4000": "error", "SA9004": "error", "ST1017": "error", "ST1000": "error", "U1000": "error"},
    "ign": {"S1002": "error", "SA4000": "ignored"},
    "mal": {"S1002": "error", "compile": "error"},
    "unm": {"S1002": "error", "staticcheck": "error"},
    "bad": {"compile": "error"},
}

# slots per lane and kind (each slot is one physical package whose analysis result is cached
# independently of the `checks` option, so configurations are swapped under a fixed pool)
POOL = {"plain": 14, "ign": 4, "mal": 3, "unm": 4, "bad": 1}


def check_tables_match_spec():
    txt = open(os.path.join(vlib.SPECS, "MCChecks.tla")).read()
    m = re.search(r"MCAnalyzers\s*==\s*\{([^}]*)\}", txt)
    if not m or sorted(x.strip() for x in m.group(1).split(",")) != sorted(ANALYZERS):
        raise Inconclusive("analyzer universe in C11.py differs from MCChecks.tla")
    m = re.search(r"MCPkgKinds\s*==\s*\{([^}]*)\}", txt)
    if not m or sorted(x.strip().strip('"') for x in m.group(1).split(",")) != sorted(KINDS):
        raise Inconclusive("package kinds in C11.py differ from MCChecks.tla")


# ---------------------------------------------------------------------------------------------
# realisation
# ---------------------------------------------------------------------------------------------

def conf_text(level, variant):
    """staticcheck.conf content for one directory level ("" = no file)."""
    if level["kind"] == "broken":
        return 'checks = ["all"\n'
    if level["kind"] == "unset":
        # an unset option: no file at all, or a file that does not mention `checks`
        return "" if variant % 2 == 0 else 'initialisms = ["inherit"]\n'
    return "checks = [%s]\n" % ", ".join('"%s"' % a for a in level["list"])


def case_key(c, kind=None):
    k = {"levels": [[l["kind"]] + l["list"] for l in c["levels"]],
         "checks": c["checks"]["list"] if c["checks"]["set"] else None,
         "fail": c["fail"]["list"] if c["fail"]["set"] else None}
    if kind:
        k["pkg"] = kind
    return vlib.canon_key(k)


def flags_of(c):
    argv = []
    if c["checks"]["set"]:
        argv.append("-checks=" + ",".join(c["checks"]["list"]))
    if c["fail"]["set"]:
        argv.append("-fail=" + ",".join(c["fail"]["list"]))
    return argv


class Pool:
    """A module with `lanes` x POOL packages; lane l owns directory L<l>/."""

    def __init__(self, root, lanes, kinds=None):
        self.root = root
        self.lanes = lanes
        self.slots = {}  # kind -> list of slot indices (within a lane)
        n = 0
        for k in KINDS:
            self.slots[k] = list(range(n, n + POOL[k]))
            n += POOL[k]
        self.nslots = n
        os.makedirs(root, exist_ok=True)
        with open(os.path.join(root, "go.mod"), "w") as f:
            f.write("module ex.test/m\n\ngo 1.22\n")
        for l in range(lanes):
            for k in KINDS:
                for s in self.slots[k]:
                    d = os.path.join(root, self.slotdir(l, s), "a", "b")
                    os.makedirs(d, exist_ok=True)
                    with open(os.path.join(d, "p.go"), "w") as f:
                        f.write(FIXTURES[k])
        # no staticcheck.conf may exist above the pool (the real walk goes up to the root)
        d = os.path.abspath(root)
        while True:
            if os.path.exists(os.path.join(d, "staticcheck.conf")):
                raise Inconclusive("a staticcheck.conf exists above the scratch tree: %s" % d)
            nd = os.path.dirname(d)
            if nd == d:
                break
            d = nd

    @staticmethod
    def slotdir(lane, slot):
        return "L%d/T%d" % (lane, slot)

    def conf_paths(self, lane, slot):
        t = self.slotdir(lane, slot)
        return [t + "/staticcheck.conf", t + "/a/staticcheck.conf", t + "/a/b/staticcheck.conf"]


class JobBuilder:
    def __init__(self, pool):
        self.pool = pool
        self.jobs = []       # job dicts for h-lint
        self.meta = {}       # job id -> {"units": [(case, kind, slot)], "exit": n, "format": f, "lane": l}
        self.next_lane = 0

    def add_group(self, units, formats, variant_seed=0):
        """units: list of (case, kind) sharing -checks / -fail (and expected exit).
        Splits into jobs that fit a lane's pool; each job is run once per format."""
        pool = self.pool
        cur, free = [], {k: list(pool.slots[k]) for k in KINDS}

        def flush():
            nonlocal cur, free
            if not cur:
                return
            lane = self.next_lane
            self.next_lane = (self.next_lane + 1) % pool.lanes
            write, remove, pats = {}, [], []
            for (c, kind, slot) in cur:
                for i, p in enumerate(pool.conf_paths(lane, slot)):
                    txt = conf_text(c["levels"][i], c["idx"] + i + variant_seed)
                    if txt:
                        write[p] = txt
                    else:
                        remove.append(p)
                pats.append("./" + pool.slotdir(lane, slot) + "/a/b")
            c0 = cur[0][0]
            exp_exit = 1 if any(c["exp"][k]["exit"] == 1 for (c, k, _) in cur) else 0
            for n, fmt in enumerate(formats):
                jid = len(self.jobs)
                job = {"id": jid, "lane": lane, "cwd": pool.root, "argv": flags_of(c0) + ["-f", fmt] + pats, "format": fmt}
                if n == 0:
                    job["write"], job["remove"] = write, remove
                self.jobs.append(job)
                self.meta[jid] = {"units": cur, "exit": 0 if fmt == "sarif" else exp_exit, "format": fmt, "lane": lane}
            cur, free = [], {k: list(pool.slots[k]) for k in KINDS}

        for (c, kind) in units:
            if not free[kind]:
                flush()
            cur.append((c, kind, free[kind].pop(0)))
        flush()


def run_jobs(ctx, helper, sc, jobs, tag):
    d = ctx.tmp("jobs-" + tag)
    jp = os.path.join(d, "jobs.ndjson")
    with open(jp, "w") as f:
        for j in jobs:
            f.write(json.dumps(j) + "\n")
    env = vlib.go_env({"STATICCHECK_CACHE": ctx.tmp("sccache")})
    rc, so, se = vlib.sh([helper, "-jobs", jp, "-sc", sc, "-dir", d], env=env, timeout=6 * 3600)
    if rc != 0:
        raise Inconclusive("h-lint failed rc=%d: %s" % (rc, se[-2000:]))
    res = {}
    for line in so.splitlines():
        r = json.loads(line)
        res[r["id"]] = r
    if len(res) != len(jobs):
        raise Inconclusive("h-lint returned %d results for %d jobs" % (len(res), len(jobs)))
    return res


def slot_of(p):
    """The pool slot a printed problem belongs to (compile errors reported by `go list` carry
    their position only inside the message)."""
    m = re.match(r"L(\d+)/T(\d+)/", p["f"])
    if not m and p["f"] == "" and p["code"] == "compile":
        m = re.search(r"\bL(\d+)/T(\d+)/", p["msg"])
    return m


def compare_job(pool, meta, res, baseline):
    """-> list of (unit or None, what, observed) where the real output contradicts the spec."""
    out = []
    fmt = meta["format"]
    if res.get("err"):
        raise Inconclusive("lint job could not run: %s" % res["err"])
    if res.get("unparsed"):
        raise Inconclusive("cannot parse %s output: %r (stderr %r)" % (fmt, res["unparsed"][:3], res.get("stderr", "")[-500:]))
    lane = meta["lane"]
    by_slot = {}
    stray = []
    for p in res["probs"]:
        m = slot_of(p)
        if not m or int(m.group(1)) != lane:
            stray.append(p)
            continue
        by_slot.setdefault(int(m.group(2)), []).append(p)
    used = set()
    for (c, kind, slot) in meta["units"]:
        used.add(slot)
        exp = c["exp"][kind]["printed"]
        if c["broken"] and kind == "bad":
            continue
        want = sorted((e["code"], e["sev"] if fmt == "json" else "") for e in exp)
        obs = by_slot.get(slot, [])
        got = sorted((p["code"], p.get("sev", "") if fmt == "json" else "") for p in obs)
        if kind == "bad":
            got = sorted(set(got))
        if fmt == "sarif" and any(p.get("sev") == "ignored" for p in obs):
            out.append(((c, kind), "sarif output marks a problem as suppressed without -show-ignored", obs))
        if got != want:
            out.append(((c, kind), "-f %s prints %s, the specification prescribes %s" % (fmt, got, want), obs))
            continue
        # same problems = same positions and messages in every format
        for p in obs:
            b = baseline[kind].get(p["code"])
            if p["code"] == "config":
                if not p["f"].endswith("staticcheck.conf"):
                    out.append(((c, kind), "config error not located in a staticcheck.conf: %s" % p["f"], obs))
                continue
            if b is None:
                continue
            if (p["l"], p["c"], p["msg"]) != (b["l"], b["c"], b["msg"]) and kind != "bad":
                out.append(((c, kind), "-f %s renders %s at %d:%d %r, baseline (json, -checks all) has %d:%d %r" %
                            (fmt, p["code"], p["l"], p["c"], p["msg"], b["l"], b["c"], b["msg"]), obs))
    for s, ps in by_slot.items():
        if s not in used:
            stray.extend(ps)
    if stray:
        out.append((None, "problems reported for files that were not linted: %s" % stray[:3], stray))
    if res["exit"] != meta["exit"]:
        out.append((None, "exit status %d with -f %s, the specification prescribes %d" % (res["exit"], fmt, meta["exit"]), res["probs"][:20]))
    return out


# ---------------------------------------------------------------------------------------------
# baseline: the fixtures must produce exactly the problems MCPkg says they contain
# ---------------------------------------------------------------------------------------------

def take_baseline(ctx, helper, sc, pool, tag):
    jobs = []
    for lane in range(pool.lanes):
        pats, remove = [], []
        for k in KINDS:
            for s in pool.slots[k]:
                pats.append("./" + pool.slotdir(lane, s) + "/a/b")
                remove += pool.conf_paths(lane, s)
        jobs.append({"id": lane, "lane": lane, "cwd": pool.root, "remove": remove,
                     "argv": ["-checks=all", "-show-ignored", "-f", "json"] + pats, "format": "json"})
    res = run_jobs(ctx, helper, sc, jobs, "baseline-" + tag)
    baseline = {k: {} for k in KINDS}
    for lane in range(pool.lanes):
        r = res[lane]
        if r.get("err") or r.get("unparsed"):
            raise Inconclusive("baseline run failed: %s %s %s" % (r.get("err"), r.get("unparsed"), r.get("stderr", "")[-1500:]))
        by_slot = {}
        for p in r["probs"]:
            m = slot_of(p)
            if not m:
                raise Inconclusive("baseline: problem outside the pool: %s" % p)
            by_slot.setdefault(int(m.group(2)), []).append(p)
        for k in KINDS:
            for s in pool.slots[k]:
                got = {}
                for p in by_slot.get(s, []):
                    if k == "bad" and p["code"] in got:
                        continue
                    if p["code"] in got:
                        raise Inconclusive("baseline: fixture %s reports %s twice" % (k, p["code"]))
                    got[p["code"]] = p
                if {c: p["sev"] for c, p in got.items()} != BASELINE[k]:
                    raise Inconclusive("baseline: fixture %s yields %s, expected %s (stderr: %s)" %
                                       (k, {c: p["sev"] for c, p in got.items()}, BASELINE[k], r.get("stderr", "")[-800:]))
                for c, p in got.items():
                    b = baseline[k].setdefault(c, {"l": p["l"], "c": p["c"], "msg": p["msg"]})
                    if k != "bad" and (b["l"], b["c"], b["msg"]) != (p["l"], p["c"], p["msg"]):
                        raise Inconclusive("baseline: unstable position for %s/%s" % (k, c))
    return baseline


# ---------------------------------------------------------------------------------------------
# the specification against the documentation's own examples (validated on every run)
# ---------------------------------------------------------------------------------------------

def lookup(index, levels=None, checks=None, fail=None):
    lv = [["unset"], ["unset"], ["unset"]]
    for i, l in (levels or {}).items():
        lv[i - 1] = ["list"] + l
    k = vlib.canon_key({"levels": lv, "checks": checks, "fail": fail})
    if k not in index:
        raise Inconclusive("documentation example not among the enumerated configurations: %s %s %s" % (levels, checks, fail))
    return index[k]


def validate_spec_against_docs(index):
    allc = set(ANALYZERS)
    default = allc - {"ST1000"}
    ex = [
        # options.md: default = everything except the non-default checks
        (lookup(index), default, None),
        # _index.md: checks = ["inherit", "ST1000"] inherits the enabled checks and additionally enables ST1000
        (lookup(index, {3: ["inherit", "ST1000"]}), allc, None),
        # options.md: "S*", "SA*" and "SA1*" enable all checks in the S, SA and SA1 subgroups respectively
        (lookup(index, {3: ["S*"]}), {"S1002"}, None),
        (lookup(index, {3: ["SA*"]}), {"SA4000", "SA9004"}, None),
        (lookup(index, {3: ["SA4*"]}), {"SA4000"}, None),
        # _index.md: "-" in combination with "all" expresses "all but"
        (lookup(index, {3: ["all", "-S1002"]}), allc - {"S1002"}, None),
        # ... or in combination with "inherit" to remove values from the inherited option
        (lookup(index, {3: ["inherit", "-SA4*"]}), default - {"SA4000"}, None),
        # options.md: "To disable checks, prefix them with a minus sign. This works on all of the previously mentioned values."
        (lookup(index, {3: ["all", "-SA*"]}), allc - {"SA4000", "SA9004"}, None),
        # _index.md: files deeper in the package tree override rules higher up the tree
        (lookup(index, {1: ["all"], 3: ["S*"]}), {"S1002"}, None),
        (lookup(index, {1: ["S*"], 2: ["inherit", "SA*"]}), {"S1002", "SA4000", "SA9004"}, None),
        # formatters.md: whether a problem is an error or a warning is determined by the -fail flag
        (lookup(index, fail=["sa4000"]), default, {"SA4000"}),
    ]
    for c, allowed, failset in ex:
        if set(c["allowed"]) != allowed:
            raise Inconclusive("specification contradicts the documentation: %s allows %s, documentation says %s" %
                               (json.dumps({k: c[k] for k in ("levels", "checks", "fail")}), sorted(c["allowed"]), sorted(allowed)))
        if failset is not None:
            errs = {p["code"] for p in c["exp"]["plain"]["printed"] if p["sev"] == "error"}
            if errs != failset or c["exp"]["plain"]["exit"] != 1:
                raise Inconclusive("specification contradicts the documentation on -fail: %s" % errs)
    return len(ex)


# ---------------------------------------------------------------------------------------------
# config.Load binding (exhaustive)
# ---------------------------------------------------------------------------------------------

def confload_binding(ctx, helper, cases):
    d = ctx.tmp("confload")
    p = os.path.join(d, "cases.ndjson")
    with open(p, "w") as f:
        for c in cases:
            f.write(json.dumps({"id": c["idx"], "default": c["default"],
                                "files": [conf_text(l, c["idx"] + i) for i, l in enumerate(c["levels"])]}) + "\n")
    # the real walk continues above l1: nothing may be there
    dd = d
    while True:
        if os.path.exists(os.path.join(dd, "staticcheck.conf")):
            raise Inconclusive("a staticcheck.conf exists above the scratch tree: %s" % dd)
        nd = os.path.dirname(dd)
        if nd == dd:
            break
        dd = nd
    rc, so, se = vlib.sh([helper, "-confload", p, "-dir", d, "-j", str(min(vlib.NCPU, 8))], env=vlib.go_env(), timeout=3600)
    if rc != 0:
        raise Inconclusive("h-lint -confload failed rc=%d: %s" % (rc, se[-2000:]))
    byid = {c["idx"]: c for c in cases}
    n, bad = 0, []
    for line in so.splitlines():
        r = json.loads(line)
        c = byid[r["id"]]
        n += 1
        if c["broken"]:
            if not r.get("err"):
                bad.append((c, "config.Load accepted a broken staticcheck.conf", r))
        elif r.get("err"):
            bad.append((c, "config.Load failed: %s" % r["err"], r))
        elif r["checks"] != c["loaded"]:
            bad.append((c, "config.Load returns %s, the specification's merged list is %s" % (r["checks"], c["loaded"]), r))
    if n != len(cases):
        raise Inconclusive("config.Load binding processed %d of %d cases" % (n, len(cases)))
    return n, bad


# ---------------------------------------------------------------------------------------------
# case selection
# ---------------------------------------------------------------------------------------------

def features(c, pairs=True):
    fs = set()
    for i, l in enumerate(c["levels"]):
        fs.add(("kind", i, l["kind"]))
        for j, a in enumerate(l["list"]):
            fs.add(("lv", i, a))
            if pairs and j + 1 < len(l["list"]):
                fs.add(("lvpair", a, l["list"][j + 1]))
    for wh in ("checks", "fail"):
        l = c[wh]["list"]
        for j, a in enumerate(l):
            fs.add((wh, a, j))
            if pairs and j + 1 < len(l):
                fs.add((wh + "pair", a, l[j + 1]))
    fs.add(("allowed", tuple(sorted(c["allowed"]))))
    fs.add(("failset", tuple(sorted(c["failset"]))))
    return fs


def cover_and_sample(ctx, cases, n, pairs=True):
    """A feature cover (every atom in every place, every adjacent pair, every allowed set) plus a seeded sample."""
    order = list(cases)
    ctx.rng.shuffle(order)
    seen, chosen, rest = set(), [], []
    for c in order:
        f = features(c, pairs)
        if not f <= seen:
            seen |= f
            chosen.append(c)
        else:
            rest.append(c)
    if len(chosen) < n:
        chosen += rest[: n - len(chosen)]
    return sorted(chosen, key=lambda c: c["idx"])


def group_units(units):
    """(case, kind) -> groups sharing -checks, -fail and the expected exit status."""
    groups = {}
    for (c, k) in units:
        if c["broken"] and k == "bad":
            continue
        key = (tuple(c["checks"]["list"]) if c["checks"]["set"] else None,
               tuple(c["fail"]["list"]) if c["fail"]["set"] else None,
               c["exp"][k]["exit"])
        groups.setdefault(key, []).append((c, k))
    return groups


# ---------------------------------------------------------------------------------------------

def select_units(ctx, cases, conf_bad):
    """Which (configuration, fixture kind) units are linted end to end in this tier."""
    by_model = {m: [c for c in cases if c["model"] == m] for m, _ in MODELS}
    if ctx.quick:
        # invocations are the cost: sel shares two (-checks, -fail, exit) groups, tree / fail have one group per flag value
        sel = cover_and_sample(ctx, by_model["sel"], 1200)
        tree = cover_and_sample(ctx, by_model["tree"], 300, pairs=False) + cover_and_sample(ctx, by_model["broken"], 30, pairs=False)
        fail = cover_and_sample(ctx, by_model["fail"], 90, pairs=False)
        side, nbad = 120, 20
    else:
        # config.Load is bound on every configuration; end to end: every sel and broken configuration,
        # a cover + large sample of tree and fail
        sel = by_model["sel"]
        tree = cover_and_sample(ctx, by_model["tree"], 15000) + by_model["broken"]
        fail = cover_and_sample(ctx, by_model["fail"], 1500, pairs=False)
        side, nbad = 1500, 300
        cap = int(os.environ.get("VERIF_CAP", "0"))
        if cap:      # smoke run of the thorough path on an overloaded machine
            sel, tree, fail = vlib.sample(ctx, sel, cap), vlib.sample(ctx, tree, cap), vlib.sample(ctx, fail, max(1, cap // 10))
            side, nbad = max(1, cap // 10), 5
            ctx.note("VERIF_CAP=%d: thorough tier capped, not a full run" % cap)
    units = [(c, "plain") for c in sel + tree + fail]
    for k in ("ign", "mal", "unm"):
        units += [(c, k) for c in vlib.sample(ctx, sel, side) + vlib.sample(ctx, tree, side)]
    units += [(c, "ign") for c in fail]
    units += [(c, k) for k in ("mal", "unm") for c in vlib.sample(ctx, fail, side)]
    units += [(c, "bad") for c in vlib.sample(ctx, sel + tree + fail, nbad)]
    have = {c["idx"] for c in sel + tree + fail}
    units += [(c, "plain") for c in {c["idx"]: c for (c, _, _) in conf_bad}.values() if c["idx"] not in have]
    return units, sel, tree, fail


MODELS = [("sel", "MCChecks_sel.cfg"), ("tree", "MCChecks_tree.cfg"), ("broken", "MCChecks_broken.cfg"), ("fail", "MCChecks_fail.cfg")]
LAWS = ["LawLastWins", "LawAppendExact", "LawInheritIdentity", "LawOverride", "LawCaseInsensitive",
        "LawNormalizeNeutral", "LawCategoryGlob", "LawPrintedExact", "LawExit", "FrameFail(action)",
        "FrameChecks(action)", "FrameAppend(action)"]


def run_models(ctx):
    def one(m):
        name, cfg = m
        r = vlib.run_tlc(ctx, "MCChecks", cfg, workers=4 if name in ("sel", "tree") else 2, timeout=3000)
        vlib.tlc_require_ok(r, "Checks laws (%s)" % cfg)
        if len(r.cases) != r.distinct:
            raise Inconclusive("TLC emitted %d cases for %d states (%s)" % (len(r.cases), r.distinct, cfg))
        return name, r
    return vlib.pmap(one, MODELS, workers=4)


def describe(c, kind):
    lv = "/".join("-" if l["kind"] == "unset" else ("BROKEN" if l["kind"] == "broken" else "[" + ",".join(l["list"]) + "]") for l in c["levels"])
    return "conf %s%s%s pkg=%s" % (lv, " -checks=" + ",".join(c["checks"]["list"]) if c["checks"]["set"] else "",
                                   " -fail=" + ",".join(c["fail"]["list"]) if c["fail"]["set"] else "", kind)


def report(ctx, mism, mode):
    for (unit, what, obs, meta) in mism:
        if len(ctx.violations) >= 25:
            ctx.note("stopping after 25 violations (%d mismatches in total)" % len(mism))
            break
        if unit is not None:
            c, kind = unit
            key = case_key(c, kind)
            case = {"kind": "lint", "case": strip(c), "pkg": kind, "format": meta["format"], "mode": mode, "observed": obs}
            what = describe(c, kind) + ": " + what
        else:
            cs = [(strip(c), k) for (c, k, _) in meta["units"]]
            key = vlib.canon_key({"job": [case_key(c, k) for (c, k, _) in meta["units"]], "format": meta["format"]})
            case = {"kind": "job", "units": cs, "format": meta["format"], "mode": mode, "observed": obs}
            c0 = meta["units"][0][0]
            what = "%s on %d configurations (first: %s): %s" % (" ".join(flags_of(c0)) or "(default flags)", len(cs),
                                                             describe(c0, meta["units"][0][1]), what)
        ctx.violation(key, "staticcheck (%s): %s" % (mode, what), case)


def strip(c):
    return {k: v for k, v in c.items() if k not in ("model",)}


def execute(ctx, helper, sc, pool, baseline, groups, fmt_plan, tag, mode):
    jb = JobBuilder(pool)
    for gi, (key, units) in enumerate(sorted(groups.items(), key=lambda kv: repr(kv[0]))):
        jb.add_group(units, fmt_plan(gi), variant_seed=ctx.seed)
    res = run_jobs(ctx, helper, sc, jb.jobs, tag)
    mism = []
    nunits = 0
    for jid, meta in jb.meta.items():
        nunits += len(meta["units"])
        for (unit, what, obs) in compare_job(pool, meta, res[jid], baseline):
            mism.append((unit, what, obs, meta))
    return len(jb.jobs), nunits, mism, jb


def run(ctx):
    ctx.level = "model_checking"
    check_tables_match_spec()
    sc = vlib.go_build_repo(ctx, "./cmd/staticcheck")
    helper = vlib.go_build_harness(ctx, "cmd/h-lint")
    lanes = max(1, min(vlib.NCPU, int(os.environ.get("VERIF_LANES", "8"))))

    if ctx.replay:
        return replay(ctx, helper, sc)

    # 1. TLC: laws + emission on the three models
    models = run_models(ctx)
    cases, index = [], {}
    per_model = {}
    for name, r in models:
        per_model[name] = {"states": r.distinct, "transitions": r.generated, "wall_s": round(r.wall, 1)}
        for c in r.cases:
            k = case_key(c)
            if k in index:
                continue      # the same configuration reached in two models
            c["idx"] = len(cases)
            c["model"] = name
            index[k] = c
            cases.append(c)
    n_doc = validate_spec_against_docs(index)

    # 2. config.Load on every configuration
    n_conf, conf_bad = confload_binding(ctx, helper, cases)

    # 3. end-to-end
    units, sel, tree, fail = select_units(ctx, cases, conf_bad)
    groups = group_units(units)

    pool = Pool(os.path.join(ctx.tmp("pool"), "m"), lanes)
    baseline = take_baseline(ctx, helper, "", pool, "inproc")
    others = ["text", "stylish", "sarif"]
    njobs, nunits, mism, jb = execute(ctx, helper, "", pool, baseline, groups,
                                      lambda gi: ["json", others[gi % 3]] if (ctx.quick or gi % 2 == 0) else ["json"],
                                      "inproc", "in-process")
    report(ctx, mism, "in-process")

    # config.Load disagreements: a violation if the end-to-end run of the same configuration fails too
    bad_e2e = {id(u[0]) for (u, _, _, _) in mism if u is not None}
    drift = []
    for (c, what, r) in conf_bad:
        if id(c) in bad_e2e:
            ctx.violation(case_key(c), what, {"kind": "confload", "case": strip(c), "observed": r})
        else:
            drift.append({"case": case_key(c), "what": what})
    if drift:
        ctx.note("config.Load returns a different list than the specification for %d configurations whose end-to-end "
                 "behaviour agrees (drift, not a violation); first: %s" % (len(drift), drift[0]))

    # 4. a sample through the real binary, all four formats
    blanes = 4
    bpool = Pool(os.path.join(ctx.tmp("bpool"), "m"), blanes)
    bbase = take_baseline(ctx, helper, sc, bpool, "binary")
    if bbase != baseline:
        raise Inconclusive("the real binary and the in-process command disagree on the fixture baseline")
    gkeys = sorted(groups, key=repr)
    bsel = vlib.sample(ctx, gkeys, 20 if ctx.quick else 400)
    bgroups = {k: groups[k][: sum(POOL.values())] for k in bsel}
    bjobs, bunits, bmism, _ = execute(ctx, helper, sc, bpool, bbase, bgroups, lambda gi: list(FORMATS), "binary", "binary")
    report(ctx, bmism, "binary")

    # 5. negative self-test of the binding: a corrupted expectation must be rejected
    neg_ok = negative_selftest(ctx, helper, pool, baseline, cases)

    ctx.coverage = {
        "states": sum(v["states"] for v in per_model.values()),
        "transitions": sum(v["transitions"] for v in per_model.values()),
        "traces_validated_against_impl": n_conf + nunits + bunits,
        "exhaustive": False,
        "exhaustive_parts": (["config.Load on every enumerated configuration"] +
                             ([] if (ctx.quick or os.environ.get("VERIF_CAP")) else
                              ["end-to-end lint of every configuration of the sel and broken models (fixture kind plain)"])),
        "tlc": {"module": "MCChecks", "models": per_model, "invariants": LAWS},
        "distinct_configurations": len(cases),
        "documentation_examples_checked_on_spec": n_doc,
        "config_load_cases": n_conf,
        "config_load_disagreements": len(conf_bad),
        "lint_invocations_inprocess": njobs,
        "configuration_x_package_units_inprocess": nunits,
        "lint_invocations_real_binary": bjobs,
        "configuration_x_package_units_real_binary": bunits,
        "mismatches": len(mism) + len(bmism),
        "negative_selftest_rejected": neg_ok,
        "formats": FORMATS,
        "samples": [strip(cases[len(cases) // 3]), strip(cases[-1])],
        "trusted_base": ["TLC", "go toolchain (go list, build of cmd/staticcheck from the repo tree)",
                         "fixture baseline taken with -checks all -f json -show-ignored"],
    }
    ctx.assumptions = [
        "universe: S1002, SA4000, SA9004, ST1017, ST1000 (non-default), U1000; other analyzers produce nothing on the fixtures (baseline-checked)",
        "bounds: sel = one conf list <= 3 atoms over 31 atoms; tree = 3 levels + -checks, <= 3 atoms in total over 9 atoms; "
        "broken = tree with broken files, <= 2 atoms over 3; fail = -fail <= 2 atoms over 30 atoms x 5 -checks lists",
        "-show-ignored is not varied (outside the property's quantifier)",
        "SARIF is compared on rule ids, locations and messages, not the full schema",
    ]


def negative_selftest(ctx, helper, pool, baseline, cases):
    c = next(c for c in cases if len(c["exp"]["plain"]["printed"]) >= 2 and not c["broken"] and c["exp"]["plain"]["exit"] == 1)
    bad = json.loads(json.dumps(c))
    bad["exp"]["plain"]["printed"] = bad["exp"]["plain"]["printed"][1:]
    bad2 = json.loads(json.dumps(c))
    bad2["exp"]["plain"]["exit"] = 0
    n = 0
    for b in (bad, bad2):
        jb = JobBuilder(pool)
        jb.add_group([(b, "plain")], ["json"])
        res = run_jobs(ctx, helper, "", jb.jobs, "neg")
        mm = []
        for jid, meta in jb.meta.items():
            mm += compare_job(pool, meta, res[jid], baseline)
        if not mm:
            raise Inconclusive("negative self-test: a corrupted expectation was accepted by the comparison")
        n += 1
    return n


def replay(ctx, helper, sc):
    doc = json.load(open(ctx.replay))
    case = doc["case"]
    if case.get("kind") == "job":
        units = [(c, k) for (c, k) in case["units"]]
    else:
        units = [(case["case"], case.get("pkg", "plain"))]
    for i, (c, _) in enumerate(units):
        c.setdefault("idx", i)
    fmts = [case.get("format", "json")] if case.get("format") else list(FORMATS)
    for mode, binary in (("binary", sc), ("in-process", "")):
        pool = Pool(os.path.join(ctx.tmp("rpool-" + mode), "m"), 1)
        base = take_baseline(ctx, helper, binary, pool, "r" + mode)
        jb = JobBuilder(pool)
        for key, us in group_units(units).items():
            jb.add_group(us, fmts)
        res = run_jobs(ctx, helper, binary, jb.jobs, "replay-" + mode)
        for jid, meta in jb.meta.items():
            for (unit, what, obs) in compare_job(pool, meta, res[jid], base):
                ctx.violation(doc["key"], "staticcheck (%s): %s" % (mode, what), dict(case, observed=obs))
                print("  observed:", json.dumps(obs)[:600])
