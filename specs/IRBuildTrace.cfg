SPECIFICATION TSpec
CONSTANTS
  Builders <- TBuilders
  PkgBuilders = {}
  Shared <- TShared
  Callers = {}
  RelaxedReads = TRUE
CONSTRAINT HighWater
POSTCONDITION Accepted
CHECK_DEADLOCK FALSE
