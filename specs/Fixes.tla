------------------------------- MODULE Fixes -------------------------------
(***************************************************************************)
(* "Apply a suggested fix" as a state machine (property C16, clauses 1-3). *)
(*                                                                         *)
(* Code modelled: lintcmd/runner/runner.go (Diagnostic, SuggestedFix,      *)
(* TextEdit: token.Position = file, line, column, byte offset),            *)
(* analysis/report/report.go (getRange / shortRange produce Pos..End),     *)
(* analysis/edit/edit.go (ReplaceWithString/Node/Pattern, Delete produce   *)
(* [Pos, End) + NewText).  A consumer (gopls, analysistest.applyEdits,     *)
(* x/tools diff.Apply) splices the edits of ONE fix into ONE file.         *)
(*                                                                         *)
(* State:  text     the file contents, a sequence of byte values           *)
(*         pending  the edits of the fix not yet applied, in CURRENT       *)
(*                  coordinates (they shift as other edits are applied)    *)
(*         orig, edits   the file and the fix as recorded (history)        *)
(* Action: ApplyEdit(e) splices one pending edit and shifts the others.    *)
(*                                                                         *)
(* Geometry (the property's clauses 1 and 2) is a set of predicates over   *)
(* a line table and recorded positions/edits; they are evaluated by TLC on *)
(* artefacts recorded from the real runner in FixesObs.tla.                *)
(*                                                                         *)
(* Law: if the edits of a fix are in bounds and pairwise disjoint, every   *)
(* application order ends in the same text, the canonical splice; TLC      *)
(* explores all orders (MCFixes.tla).  So "apply the fix" is well defined  *)
(* exactly under the property's geometric conditions.                      *)
(*                                                                         *)
(* Deliberate deviations / conventions:                                    *)
(*  - A line table is Split(content, "\n") as line lengths in bytes (a     *)
(*    "\r" before "\n" belongs to the line).  go/token attributes the      *)
(*    offset just after a final newline to the last terminated line        *)
(*    (line n-1, column len+2) where an editor shows (line n, column 1);   *)
(*    GoEOF accepts that alias.                                            *)
(*  - Two insertions at the same offset are disjoint (empty ranges do not  *)
(*    overlap; x/tools diff.validate agrees) and keep their order in the   *)
(*    fix's edit list (stable sort, as diff.Apply does).                   *)
(*  - Edits are ranked ONCE in original coordinates.  The tempting rule    *)
(*    "compare current positions, break ties by list index" is order       *)
(*    dependent (a deletion can collapse two insertion points whose list   *)
(*    order is the reverse of their textual order); NaiveRank = TRUE       *)
(*    selects that rule and TLC refutes it (negative self-test).           *)
(***************************************************************************)
EXTENDS Integers, Sequences, FiniteSets, TLC

CONSTANT NaiveRank      \* FALSE: the specified rule; TRUE: the refuted naive rule

VARIABLES text, pending, orig, edits

fvars == <<text, pending, orig, edits>>

-----------------------------------------------------------------------------
(* Line tables and positions (clause 1).                                    *)

RECURSIVE SumTo(_, _)
SumTo(lt, k) == IF k = 0 THEN 0 ELSE lt[k] + SumTo(lt, k - 1)

\* number of bytes of a file with line table lt (n lines are joined by n-1 newlines)
Size(lt) == IF Len(lt) = 0 THEN 0 ELSE SumTo(lt, Len(lt)) + Len(lt) - 1

LineStart(lt, l) == SumTo(lt, l - 1) + (l - 1)

\* "a line and column that exist": column <= line length + 1
PosExists(lt, l, c) == l \in 1..Len(lt) /\ c \in 1..(lt[l] + 1)

\* go/token's name for the offset after a final newline
GoEOF(lt, l, c) == /\ Len(lt) >= 2 /\ lt[Len(lt)] = 0
                   /\ l = Len(lt) - 1 /\ c = lt[l] + 2

OffsetOf(lt, l, c) == LineStart(lt, l) + c - 1

\* a recorded position [line, col, off] names an existing place, consistently
PosOK(lt, p) == /\ (PosExists(lt, p.line, p.col) \/ GoEOF(lt, p.line, p.col))
                /\ OffsetOf(lt, p.line, p.col) = p.off

\* "when it has an end, one in the same file that does not precede its start"
EndOK(lt, samefile, p, q) == samefile /\ PosOK(lt, q) /\ q.off >= p.off

\* Law (checked over all small line tables): existing positions and offsets 0..Size
\* correspond one to one, and the GoEOF alias names offset Size
Positions(lt) == UNION { { <<l, c>> : c \in 1..(lt[l] + 1) } : l \in 1..Len(lt) }
PosBijection(lt) ==
  /\ \A p \in Positions(lt) : OffsetOf(lt, p[1], p[2]) \in 0..Size(lt)
  /\ \A off \in 0..Size(lt) :
        Cardinality({ p \in Positions(lt) : OffsetOf(lt, p[1], p[2]) = off }) = 1
  /\ \A l \in 1..Len(lt) : GoEOF(lt, l, lt[l] + 2) => OffsetOf(lt, l, lt[l] + 2) = Size(lt)

-----------------------------------------------------------------------------
(* Edit geometry (clause 2).  An edit is [id, s, e, new]: replace the bytes  *)
(* at offsets s..e-1 (0-based, half open) by the sequence new.               *)

InBounds(n, ed)  == 0 <= ed.s /\ ed.s <= ed.e /\ ed.e <= n
Disjoint(ed, fd) == ed.e <= fd.s \/ fd.e <= ed.s

WellFormed(n, es) ==
  /\ \A i \in 1..Len(es) : InBounds(n, es[i])
  /\ \A i \in 1..Len(es) : \A j \in 1..Len(es) : i < j => Disjoint(es[i], es[j])

\* canonical order: by start, then end (an insertion precedes a replacement that starts
\* at the same offset), then position in the fix's edit list
Before(es, i, j) ==
  \/ es[i].s < es[j].s
  \/ es[i].s = es[j].s /\ es[i].e < es[j].e
  \/ es[i].s = es[j].s /\ es[i].e = es[j].e /\ i < j

Rank(es, i) == 1 + Cardinality({ j \in 1..Len(es) : Before(es, j, i) })

\* the edits es[i], i \in S, in canonical order
SortedSub(es, S) ==
  LET idx == { i \in 1..Len(es) : i \in S }
      pos(i) == 1 + Cardinality({ j \in idx : Before(es, j, i) })
  IN  [ k \in 1..Cardinality(idx) |-> es[CHOOSE i \in idx : pos(i) = k] ]

RECURSIVE SpliceFrom(_, _, _)
SpliceFrom(t, sorted, from) ==
  IF Len(sorted) = 0 THEN SubSeq(t, from + 1, Len(t))
  ELSE SubSeq(t, from + 1, sorted[1].s) \o sorted[1].new
         \o SpliceFrom(t, Tail(sorted), sorted[1].e)

\* THE patched text of a well-formed fix
Canonical(t, es)        == SpliceFrom(t, SortedSub(es, 1..Len(es)), 0)
CanonicalSub(t, es, S)  == SpliceFrom(t, SortedSub(es, S), 0)

RECURSIVE DeltaSum(_, _)
DeltaSum(es, k) == IF k = 0 THEN 0
                   ELSE Len(es[k].new) - (es[k].e - es[k].s) + DeltaSum(es, k - 1)

-----------------------------------------------------------------------------
(* The state machine.                                                       *)

\* a pending edit: [id (index in edits), k (rank), s, e, new] in current coordinates
MkPending(es) == { [id |-> i, k |-> Rank(es, i), s |-> es[i].s, e |-> es[i].e, new |-> es[i].new]
                   : i \in 1..Len(es) }

Load(t, es) ==
  /\ orig = t /\ edits = es /\ text = t /\ pending = MkPending(es)

\* does the pending edit f lie after e, i.e. does applying e move it?
After(f, e) ==
  IF NaiveRank
  THEN \/ f.s > e.s
       \/ f.s = e.s /\ f.e > e.e
       \/ f.s = e.s /\ f.e = e.e /\ f.id > e.id
  ELSE f.k > e.k

ApplyEdit(e) ==
  /\ e \in pending
  /\ text' = SubSeq(text, 1, e.s) \o e.new \o SubSeq(text, e.e + 1, Len(text))
  /\ LET d == Len(e.new) - (e.e - e.s)
     IN  pending' = { IF After(f, e) THEN [f EXCEPT !.s = @ + d, !.e = @ + d] ELSE f
                      : f \in pending \ {e} }
  /\ UNCHANGED <<orig, edits>>

Apply == \E e \in pending : ApplyEdit(e)

-----------------------------------------------------------------------------
(* Laws.                                                                    *)

AppliedIds == (1..Len(edits)) \ { f.id : f \in pending }

\* in every state the text is the canonical splice of the edits applied so far
PartialCanonical ==
  WellFormed(Len(orig), edits) => text = CanonicalSub(orig, edits, AppliedIds)

\* when nothing is pending the text is the canonical splice, whatever the order was
OrderIndependent ==
  (WellFormed(Len(orig), edits) /\ pending = {}) => text = Canonical(orig, edits)

\* pending edits stay applicable: in bounds of the current text and disjoint
PendingApplicable ==
  WellFormed(Len(orig), edits) =>
     \A f \in pending : /\ InBounds(Len(text), f)
                        /\ \A g \in pending : f.id # g.id => Disjoint(f, g)

\* bytes before the first and after the last edit are untouched, and the length adds up
\* (this is what lets the observation binding hand TLC a window of the file only)
Frame ==
  (WellFormed(Len(orig), edits) /\ Len(edits) > 0) =>
    LET c  == Canonical(orig, edits)
        lo == CHOOSE m \in { edits[i].s : i \in 1..Len(edits) } : \A i \in 1..Len(edits) : m <= edits[i].s
        hi == CHOOSE m \in { edits[i].e : i \in 1..Len(edits) } : \A i \in 1..Len(edits) : m >= edits[i].e
    IN  /\ Len(c) = Len(orig) + DeltaSum(edits, Len(edits))
        /\ SubSeq(c, 1, lo) = SubSeq(orig, 1, lo)
        /\ SubSeq(c, Len(c) - (Len(orig) - hi) + 1, Len(c)) = SubSeq(orig, hi + 1, Len(orig))
=============================================================================
