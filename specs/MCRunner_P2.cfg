\* exhaustive: every package DAG on <= 3 nodes (safety + deadlock)
SPECIFICATION Spec
CONSTANTS
  GraphAt <- MCGraphAt
  NGraphs <- MCNGraphs
  Family = "P2"
  InlineAnytime = FALSE
  SemGuard = TRUE
  TrackResults = TRUE
INVARIANTS TypeOK ExecAfterDeps ExactlyOnce SemBound NoSpuriousFailure FailurePropagates
  ResultIsFunctionOfGraph NoSendOnClosed SendNeverBlocks InlineUnderPackageToken
CHECK_DEADLOCK TRUE
