------------------------------ MODULE GoAtoms ------------------------------
(***************************************************************************)
(* Input space of C03 ("analysis is total on buildable code"): the cases    *)
(* context x construct atom x nested atom from which checks/C03.py builds   *)
(* compilable Go functions (Go text of each atom: checks/goatoms.py) that   *)
(* are linted by the real staticcheck with every analyzer.                  *)
(*                                                                         *)
(* This module decides WHICH cases exist and WHAT they cover:               *)
(*   - Contexts: the six places a function body can live in;                *)
(*   - Atoms: name, whether the atom has a hole for a nested atom           *)
(*     (container), and its form tags:                                      *)
(*        S:<ast statement kind>[/variant]   E:<ast expression kind>[/var]  *)
(*        B:<builtin>                         I:<go/ir instruction kind>    *)
(*   - Required: every statement and expression form of go/ast (with the    *)
(*     variants that are built differently), every builtin incl. unsafe,    *)
(*     every instruction kind of go/ir (transcribed from go/ir/ssa.go);     *)
(*   - Coverage (ASSUME, checked by TLC at start-up): Required is covered   *)
(*     by the atoms and no atom carries a tag that is not Required;         *)
(*   - the I: tags are claims about what the real IR builder emits; they    *)
(*     are validated O-style: harness/cmd/h-irkinds builds the IR of the    *)
(*     realised packages and ObservedCoversIR is evaluated on what it saw.  *)
(* Cases: every atom alone in every context of SingleContexts, and every    *)
(* ordered pair (a, b) in the contexts of PairContexts: b is placed in a's  *)
(* hole if a is a container, after a otherwise.                             *)
(***************************************************************************)
EXTENDS Integers, Sequences, FiniteSets, TLC, Json

CONSTANTS SingleContexts, PairContexts,
          CheckObs   \* BOOLEAN: evaluate the O-style validation of the I: tags (irkinds.json) at start-up

Contexts == {"func", "method", "closure", "generic", "init", "pkgvar"}

A(name, container, forms) == [name |-> name, container |-> container, forms |-> forms]

Atoms == {
    A("assign", FALSE, {"E:BinaryExpr/arith", "E:Ident", "I:BinOp", "I:Const", "I:Parameter", "S:AssignStmt/=", "S:AssignStmt/op="}),
    A("define", FALSE, {"E:BinaryExpr/arith", "S:AssignStmt/:="}),
    A("declstmt", FALSE, {"E:CompositeLit/struct", "E:KeyValueExpr", "S:DeclStmt/const", "S:DeclStmt/type", "S:DeclStmt/var"}),
    A("incdec", FALSE, {"I:IndexAddr", "I:Load", "I:MapLookup", "I:MapUpdate", "I:Store", "S:IncDecStmt"}),
    A("exprstmt", FALSE, {"E:CallExpr/func", "E:CallExpr/method", "E:ParenExpr", "I:Call", "S:ExprStmt"}),
    A("empty_block", TRUE, {"S:BlockStmt", "S:EmptyStmt"}),
    A("if_else", TRUE, {"E:BinaryExpr/cmp", "I:If", "I:Jump", "I:Phi", "S:IfStmt"}),
    A("for3", TRUE, {"I:Phi", "S:BranchStmt/break", "S:BranchStmt/continue", "S:ForStmt/3"}),
    A("for_cond", TRUE, {"S:ForStmt/cond"}),
    A("for_ever", TRUE, {"S:BranchStmt/break", "S:ForStmt/ever"}),
    A("range_slice", TRUE, {"S:RangeStmt/slice"}),
    A("range_array", TRUE, {"S:RangeStmt/array", "S:RangeStmt/arrayptr"}),
    A("range_string", TRUE, {"I:Extract", "I:Next", "I:Range", "S:RangeStmt/string"}),
    A("range_map", TRUE, {"I:Next", "I:Range", "S:RangeStmt/map"}),
    A("range_chan", TRUE, {"B:close", "I:Recv", "S:RangeStmt/chan"}),
    A("range_int", TRUE, {"S:RangeStmt/int"}),
    A("range_func", TRUE, {"I:MakeClosure", "S:RangeStmt/func"}),
    A("switch_tag", TRUE, {"S:BranchStmt/fallthrough", "S:CaseClause", "S:SwitchStmt/notag", "S:SwitchStmt/tag"}),
    A("switch_string", FALSE, {"S:CaseClause", "S:SwitchStmt/tag"}),
    A("typeswitch", TRUE, {"I:TypeAssert", "I:TypeSwitch", "S:CaseClause", "S:TypeSwitchStmt/bind", "S:TypeSwitchStmt/nilcase", "S:TypeSwitchStmt/nobind"}),
    A("select", TRUE, {"E:UnaryExpr/recv", "I:Select", "S:CommClause", "S:SelectStmt", "S:SendStmt"}),
    A("select_empty", FALSE, {"I:Select", "I:Unreachable", "S:SelectStmt"}),
    A("select_block", FALSE, {"S:CommClause", "S:GoStmt", "S:SelectStmt"}),
    A("labeled", TRUE, {"S:BranchStmt/break-label", "S:BranchStmt/continue-label", "S:LabeledStmt"}),
    A("goto", FALSE, {"S:BlockStmt", "S:BranchStmt/goto", "S:LabeledStmt"}),
    A("labeled_block_break", FALSE, {"S:BranchStmt/break-label", "S:LabeledStmt", "S:SwitchStmt/notag"}),
    A("return_early", FALSE, {"I:MakeInterface", "I:Return", "S:ReturnStmt"}),
    A("defer_call", TRUE, {"E:CallExpr/funclit", "E:FuncLit", "I:Defer", "I:RunDefers", "S:DeferStmt"}),
    A("go_call", TRUE, {"E:FuncLit", "I:Go", "S:GoStmt"}),
    A("send_recv", FALSE, {"E:UnaryExpr/recv", "I:Recv", "I:Send", "S:SendStmt"}),
    A("panic_call", FALSE, {"B:panic", "I:Panic"}),
    A("recover_deferred", FALSE, {"B:recover", "E:FuncLit", "S:DeferStmt"}),
    A("recover_direct", FALSE, {"B:recover"}),
    A("literals", FALSE, {"E:BasicLit/char", "E:BasicLit/float", "E:BasicLit/imag", "E:BasicLit/int", "E:BasicLit/string", "E:Ellipsis"}),
    A("arith", FALSE, {"E:BinaryExpr/andnot", "E:BinaryExpr/arith", "E:BinaryExpr/shift", "E:ParenExpr", "E:UnaryExpr/neg", "E:UnaryExpr/plus", "E:UnaryExpr/xor", "I:BinOp", "I:UnOp"}),
    A("compare_logic", FALSE, {"E:BinaryExpr/cmp", "E:BinaryExpr/logic", "E:UnaryExpr/not"}),
    A("const_expr", FALSE, {"B:len", "B:unsafe.Sizeof", "S:DeclStmt/const"}),
    A("complex_ops", FALSE, {"B:complex", "B:imag", "B:real", "E:BasicLit/imag"}),
    A("conversions", FALSE, {"E:CallExpr/conversion", "I:ChangeType", "I:Convert"}),
    A("struct_conversion", FALSE, {"E:CallExpr/conversion", "E:CompositeLit/struct", "I:ChangeType"}),
    A("slice_array_conv", FALSE, {"E:CallExpr/conversion", "I:SliceToArray", "I:SliceToArrayPointer"}),
    A("composite_struct", FALSE, {"E:CompositeLit/struct", "E:KeyValueExpr", "E:UnaryExpr/addr", "I:Alloc", "I:CompositeValue", "I:FieldAddr"}),
    A("composite_seq", FALSE, {"E:CompositeLit/array", "E:CompositeLit/elided", "E:CompositeLit/slice", "E:KeyValueExpr", "I:Slice"}),
    A("composite_map", FALSE, {"E:CompositeLit/elided", "E:CompositeLit/map", "E:KeyValueExpr", "I:MakeMap", "I:MapUpdate"}),
    A("index", FALSE, {"E:IndexExpr/array", "E:IndexExpr/arrayptr", "E:IndexExpr/map", "E:IndexExpr/slice", "E:IndexExpr/string", "I:Extract", "I:Index", "I:IndexAddr", "I:MapLookup"}),
    A("slice_expr", FALSE, {"E:SliceExpr/2", "E:SliceExpr/3", "E:SliceExpr/array", "E:SliceExpr/arrayptr", "E:SliceExpr/string", "I:Slice"}),
    A("selector", FALSE, {"E:SelectorExpr/embedded", "E:SelectorExpr/field", "E:SelectorExpr/method", "I:Field", "I:FieldAddr"}),
    A("method_values", FALSE, {"E:SelectorExpr/methodexpr", "E:SelectorExpr/methodvalue", "I:MakeClosure"}),
    A("interfaces", FALSE, {"E:TypeAssertExpr/commaok", "I:ChangeInterface", "I:MakeInterface", "I:TypeAssert"}),
    A("type_assert", FALSE, {"E:TypeAssertExpr/commaok", "E:TypeAssertExpr/single", "I:TypeAssert"}),
    A("pointers", FALSE, {"B:new", "E:StarExpr", "E:UnaryExpr/addr", "I:Alloc", "I:Load", "I:Store"}),
    A("new_expr", FALSE, {"B:new-expr"}),
    A("func_lit", TRUE, {"E:CallExpr/funclit", "E:FuncLit", "I:FreeVar", "I:MakeClosure"}),
    A("closure_capture", FALSE, {"E:FuncLit", "I:FreeVar", "I:MakeClosure"}),
    A("calls", FALSE, {"E:CallExpr/func", "E:CallExpr/funclit", "E:CallExpr/variadic", "E:Ellipsis", "I:Call", "I:Extract"}),
    A("generics_call", FALSE, {"E:CallExpr/generic", "E:IndexExpr/generic", "E:IndexListExpr", "I:MultiConvert"}),
    A("generic_local", FALSE, {"E:IndexExpr/generic", "S:DeclStmt/type"}),
    A("tparam_chan", FALSE, {"T:range/chan", "T:recv", "T:recv/commaok", "T:select", "T:send", "T:close", "T:len"}),
    A("tparam_bytes_slice", FALSE, {"T:index/bytestring", "T:slice/bytestring", "T:convert/bytestring", "T:append", "T:make/slice",
                                    "T:copy", "T:index/slice", "T:range/slice", "T:slice/3", "T:clear"}),
    A("tparam_map_func", FALSE, {"T:range/map", "T:index/map", "T:mapupdate", "T:delete", "T:make/map", "T:call", "T:convert/func"}),
    A("tparam_ptr_conv", FALSE, {"T:range/arrayptr", "T:index/arrayptr", "T:slice/arrayptr", "T:convert/int", "T:shift", "T:minmax",
                                 "T:complit", "T:deref"}),
    A("builtin_len_cap", FALSE, {"B:cap", "B:len"}),
    A("builtin_append_copy", FALSE, {"B:append", "B:copy"}),
    A("builtin_make", FALSE, {"B:make", "I:MakeChan", "I:MakeMap", "I:MakeSlice"}),
    A("builtin_delete_clear", FALSE, {"B:clear", "B:delete"}),
    A("builtin_minmax", FALSE, {"B:max", "B:min"}),
    A("builtin_print", FALSE, {"B:print", "B:println"}),
    A("builtin_close", FALSE, {"B:close", "B:make"}),
    A("unsafe_ops", FALSE, {"B:unsafe.Add", "B:unsafe.Alignof", "B:unsafe.Offsetof", "B:unsafe.Sizeof", "B:unsafe.Slice", "B:unsafe.SliceData", "B:unsafe.String", "B:unsafe.StringData", "E:SelectorExpr/pkg"}),
    A("shifts", FALSE, {"E:BinaryExpr/shift", "S:AssignStmt/op="}),
    A("string_ops", FALSE, {"E:IndexExpr/string", "E:SliceExpr/string"}),
    A("nil_checks", FALSE, {"E:BinaryExpr/cmp", "E:BinaryExpr/logic"}),
    A("return_ptr", FALSE, {"I:MakeInterface", "S:ReturnStmt"}),
    A("blank", FALSE, {"I:BlankStore", "S:AssignStmt/=", "S:DeclStmt/var"}),
    A("array_value", FALSE, {"E:CompositeLit/array", "E:IndexExpr/array"}),
    A("struct_compare_copy", FALSE, {"E:BinaryExpr/cmp", "E:CompositeLit/struct"}),
    A("multi_assign_swap", FALSE, {"S:AssignStmt/="}),
    A("errors_iface", FALSE, {"E:SelectorExpr/method", "I:MakeInterface"}),
    A("method_on_embedded_iface", FALSE, {"E:SelectorExpr/methodexpr", "I:ChangeInterface"}),
    A("infinite_select_loop", FALSE, {"S:ForStmt/ever", "S:ReturnStmt", "S:SelectStmt"}),
    A("chan_dirs", FALSE, {"E:UnaryExpr/recv", "I:ChangeType", "S:SendStmt"}),
    A("func_types", FALSE, {"E:CallExpr/variadic", "I:ChangeType", "S:DeclStmt/type"}),
    A("string_concat_loop", FALSE, {"S:AssignStmt/op=", "S:ForStmt/3"})

}

StmtForms == {
  "S:AssignStmt/=", "S:AssignStmt/:=", "S:AssignStmt/op=", "S:BlockStmt", "S:BranchStmt/break",
  "S:BranchStmt/continue", "S:BranchStmt/goto", "S:BranchStmt/fallthrough", "S:BranchStmt/break-label",
  "S:BranchStmt/continue-label", "S:CaseClause", "S:CommClause", "S:DeclStmt/var", "S:DeclStmt/const",
  "S:DeclStmt/type", "S:DeferStmt", "S:EmptyStmt", "S:ExprStmt", "S:ForStmt/3", "S:ForStmt/cond",
  "S:ForStmt/ever", "S:GoStmt", "S:IfStmt", "S:IncDecStmt", "S:LabeledStmt", "S:RangeStmt/slice",
  "S:RangeStmt/array", "S:RangeStmt/arrayptr", "S:RangeStmt/string", "S:RangeStmt/map", "S:RangeStmt/chan",
  "S:RangeStmt/int", "S:RangeStmt/func", "S:ReturnStmt", "S:SelectStmt", "S:SendStmt", "S:SwitchStmt/tag",
  "S:SwitchStmt/notag", "S:TypeSwitchStmt/bind", "S:TypeSwitchStmt/nobind", "S:TypeSwitchStmt/nilcase" }

ExprForms == {
  "E:BasicLit/int", "E:BasicLit/float", "E:BasicLit/imag", "E:BasicLit/char", "E:BasicLit/string",
  "E:BinaryExpr/arith", "E:BinaryExpr/cmp", "E:BinaryExpr/logic", "E:BinaryExpr/shift", "E:BinaryExpr/andnot",
  "E:CallExpr/func", "E:CallExpr/method", "E:CallExpr/conversion", "E:CallExpr/generic", "E:CallExpr/variadic",
  "E:CallExpr/funclit", "E:CompositeLit/struct", "E:CompositeLit/array", "E:CompositeLit/slice",
  "E:CompositeLit/map", "E:CompositeLit/elided", "E:Ellipsis", "E:FuncLit", "E:Ident", "E:IndexExpr/slice",
  "E:IndexExpr/array", "E:IndexExpr/map", "E:IndexExpr/string", "E:IndexExpr/arrayptr", "E:IndexExpr/generic",
  "E:IndexListExpr", "E:KeyValueExpr", "E:ParenExpr", "E:SelectorExpr/field", "E:SelectorExpr/method",
  "E:SelectorExpr/methodvalue", "E:SelectorExpr/methodexpr", "E:SelectorExpr/embedded", "E:SelectorExpr/pkg",
  "E:SliceExpr/2", "E:SliceExpr/3", "E:SliceExpr/string", "E:SliceExpr/array", "E:SliceExpr/arrayptr",
  "E:StarExpr", "E:TypeAssertExpr/single", "E:TypeAssertExpr/commaok", "E:UnaryExpr/neg", "E:UnaryExpr/not",
  "E:UnaryExpr/xor", "E:UnaryExpr/addr", "E:UnaryExpr/recv", "E:UnaryExpr/plus" }

Builtins == {
  "B:append", "B:cap", "B:clear", "B:close", "B:complex", "B:copy", "B:delete", "B:imag", "B:len", "B:make",
  "B:max", "B:min", "B:new", "B:new-expr", "B:panic", "B:print", "B:println", "B:real", "B:recover",
  "B:unsafe.Add", "B:unsafe.Alignof", "B:unsafe.Offsetof", "B:unsafe.Sizeof", "B:unsafe.Slice",
  "B:unsafe.SliceData", "B:unsafe.String", "B:unsafe.StringData" }

\* go/ir/ssa.go: every type with an Operands method that the builder can emit for source code
\* (DebugRef is emitted because internal/passes/buildir builds with ir.GlobalDebug)
IRKindNames == {
  "Alloc", "Phi", "Call", "BinOp", "UnOp", "Load", "ChangeType", "Convert", "MultiConvert", "ChangeInterface",
  "SliceToArrayPointer", "SliceToArray", "MakeInterface", "MakeClosure", "MakeMap", "MakeChan", "MakeSlice",
  "Slice", "FieldAddr", "Field", "IndexAddr", "Index", "MapLookup", "Select", "Range", "Next",
  "TypeAssert", "Extract", "Jump", "Unreachable", "If", "TypeSwitch", "Return", "RunDefers", "Panic", "Go", "Defer", "Send",
  "Recv", "Store", "BlankStore", "MapUpdate", "Const", "CompositeValue", "Parameter",
  "FreeVar" }
\* ConstantSwitch is produced by an optimisation of if-chains, DebugRef by the GlobalDebug mode, StringLookup is
\* declared in ssa.go but never constructed by the builder, AggregateConst only by a simplification that is
\* switched off (doSimplifyConstantCompositeValues = false); Global / Builtin / Function are operands, not
\* instructions.  They are reported when seen, their absence is not an error.
IRKindsOptional == {"ConstantSwitch", "DebugRef", "StringLookup", "AggregateConst", "Global", "Builtin", "Function",
                    "ArrayConst", "GenericConst", "ZeroConst"}
IRKinds == {"I:" \o k : k \in IRKindNames}

\* operations on values whose type is a type parameter: the builder and the analyzers need the core type
\* (or a uniform type set) of the constraint, whose terms may be listed in any order (`<-chan int | chan int`)
TParamForms == {
  "T:range/chan", "T:recv", "T:recv/commaok", "T:select", "T:send", "T:close", "T:len",
  "T:index/bytestring", "T:slice/bytestring", "T:convert/bytestring", "T:append", "T:make/slice", "T:copy",
  "T:index/slice", "T:range/slice", "T:slice/3", "T:clear", "T:range/map", "T:index/map", "T:mapupdate",
  "T:delete", "T:make/map", "T:call", "T:convert/func", "T:range/arrayptr", "T:index/arrayptr",
  "T:slice/arrayptr", "T:convert/int", "T:shift", "T:minmax", "T:complit", "T:deref" }

Required == StmtForms \cup ExprForms \cup Builtins \cup IRKinds \cup TParamForms
Covered  == UNION {a.forms : a \in Atoms}

ASSUME Coverage      == Required \subseteq Covered
ASSUME NoStrayTags   == Covered \subseteq Required
ASSUME UniqueNames   == \A a, b \in Atoms : a.name = b.name => a = b
ASSUME HasContainers == Cardinality({a \in Atoms : a.container}) >= 10
ASSUME CtxOK         == SingleContexts \subseteq Contexts /\ PairContexts \subseteq Contexts

-----------------------------------------------------------------------------
VARIABLE cs

Cases ==
  {[ctx |-> c, a |-> a.name, b |-> "none"] : c \in SingleContexts, a \in Atoms}
  \cup {[ctx |-> c, a |-> a.name, b |-> b.name] : c \in PairContexts, a \in Atoms, b \in Atoms}

Init == cs \in Cases
Next == FALSE /\ UNCHANGED cs
Spec == Init /\ [][Next]_cs

AtomOf(n) == CHOOSE a \in Atoms : a.name = n
FormsOf(c) == AtomOf(c.a).forms \cup (IF c.b = "none" THEN {} ELSE AtomOf(c.b).forms)

\* a case is well formed: known context, known atoms; nesting is decided by the container flag alone
WellFormed == cs.ctx \in Contexts /\ (\E a \in Atoms : a.name = cs.a)
              /\ (cs.b = "none" \/ \E b \in Atoms : b.name = cs.b)

Emit == PrintT("CASE " \o ToJson([ctx |-> cs.ctx, a |-> cs.a, b |-> cs.b,
                                  nested |-> (cs.b # "none" /\ AtomOf(cs.a).container)]))

\* the atom table itself (checked against checks/goatoms.py)
ASSUME PrintT("ATOMS " \o ToJson({[name |-> a.name, container |-> a.container] : a \in Atoms}))

-----------------------------------------------------------------------------
(* O-style validation of the I: tags: the instruction kinds that the real   *)
(* builder emitted for the realised packages (irkinds.json, written by      *)
(* harness/cmd/h-irkinds).                                                  *)
ToSet(s) == {s[i] : i \in 1..Len(s)}
Observed == ToSet(JsonDeserialize("irkinds.json"))
ObservedCoversIR == IRKindNames \subseteq Observed
MissingIR == IRKindNames \ Observed
UnknownIR == Observed \ (IRKindNames \cup IRKindsOptional)
ObsReport == PrintT("IROBS " \o ToJson([missing |-> MissingIR, unknown |-> UnknownIR,
                                         optional_seen |-> Observed \cap IRKindsOptional]))
ASSUME ObsOK == CheckObs => (ObsReport /\ ObservedCoversIR /\ UnknownIR = {})
=============================================================================
