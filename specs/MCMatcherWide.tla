--------------------------- MODULE MCMatcherWide ---------------------------
(* Up to 64 names (one bit each in a frame's bit set, Matcher.setBindings): *)
(* wide Ors of single-name alternatives, each of which binds its name and   *)
(* then fails unless the right operand is its identifier, so that every bit *)
(* index up to 63 has to be popped / merged correctly.                      *)
EXTENDS MCMatcherBase

WN(i) == "n" \o ToString(i)
WV(i) == "v" \o ToString(i)
WideNames == { WN(i) : i \in 1..64 }

\* alternative i: (BinaryExpr n_i@(Any) "+" (Ident "v_i"))
Alt(i)  == PBin(Bind(WN(i), PAny), PId(PStr(WV(i))))
Wide(k) == [k |-> "or", alts |-> [i \in 1..k |-> Alt(i)]]
Widths  == {2, 32, 33, 63, 64}

WidePatSet ==
  { Wide(k) : k \in Widths }
  \cup { Not(Wide(k)) : k \in {33, 64} }
  \* the inner Or binds n_j and merges; the outer sequence then fails unless y is v1: n_j must go
  \cup { Or2(PBin(Wide(k), PId(PStr(WV(1)))), Ref(WN(k))) : k \in {33, 64} }
  \cup { Not(PBin(Wide(k), PId(PStr("zz")))) : k \in {64} }
  \cup { PBin(Not(PBin(Wide(k), PId(PStr("zz")))), Ref(WN(k))) : k \in {64} }

A == TId("a")
WideTreeSet ==
  { TBin(A, TId(WV(j))) : j \in 1..64 } \cup { TBin(A, A) }
  \cup { TBin(TBin(A, TId(WV(j))), TId(WV(2))) : j \in {1, 2, 31, 32, 33, 63, 64} }
  \cup { TBin(TBin(A, TId(WV(j))), TId(WV(1))) : j \in {1, 33, 64} }

WidePats  == SetToSeq({ q \in WidePatSet : WellFormed(q) })
WideTrees == SetToSeq(WideTreeSet)
SpecWide  == GenInit(WidePats, WideTrees) /\ [][MatchCall(WidePats, WideTrees)]_vars
=============================================================================
