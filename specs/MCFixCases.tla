----------------------------- MODULE MCFixCases -----------------------------
(***************************************************************************)
(* The shape table of FixCases: one entry per trigger shape of an S*/QF*   *)
(* check whose fix claims to be an equivalent rewrite.  The harness        *)
(* (checks/C16_behaviour.py) holds one Go template per shape id and        *)
(* refuses to run if the two tables differ.                                 *)
(* Effects:  var   a local variable              lit   a literal            *)
(*           call  emit-function call (observable evaluation)               *)
(*           pcall emit-function call that panics for some inputs           *)
(*           or/and/not/cmp   compound boolean operands                     *)
(*           add/cat          compound int / string operands                *)
(* Contexts for boolean-valued shapes E:  if E | b && E | b || E | !E |     *)
(*           E == b ; "stmt" for statement shapes; div/neg for QF1005.      *)
(***************************************************************************)
EXTENDS FixCases

BoolE  == {"var", "call", "pcall", "or", "and", "not", "cmp"}
Bool3  == {"var", "call", "or"}
IntE   == {"var", "lit", "call", "add"}
IntS   == {"var", "lit", "call"}
StrS   == {"var", "lit", "call"}
VC     == {"var", "call"}
BoolCtx == {"if", "andR", "orR", "bang", "eqL"}
Stmt    == {"stmt"}

S(id, check, slots, ctxs) == [id |-> id, check |-> check, slots |-> slots, ctxs |-> ctxs]
B(a) == [kind |-> "bool", allow |-> a]
I(a) == [kind |-> "int", allow |-> a]
T(a) == [kind |-> "str", allow |-> a]
F(a) == [kind |-> "flt", allow |-> a]
L(a) == [kind |-> "sl", allow |-> a]
Y(a) == [kind |-> "bs", allow |-> a]
W(a) == [kind |-> "w", allow |-> a]

MCShapes == {
  S("s1002_eqT", "S1002", <<B(BoolE)>>, BoolCtx),
  S("s1002_neT", "S1002", <<B(BoolE)>>, BoolCtx),
  S("s1002_eqF", "S1002", <<B(BoolE)>>, BoolCtx),
  S("s1002_neF", "S1002", <<B(BoolE)>>, BoolCtx),
  S("s1002_Teq", "S1002", <<B(BoolE)>>, BoolCtx),
  S("s1003_ne",  "S1003", <<T(StrS), T(StrS)>>, {"if", "bang"}),
  S("s1003_eq",  "S1003", <<T(StrS), T(StrS)>>, {"if", "bang"}),
  S("s1003_ge",  "S1003", <<T(StrS), T(StrS)>>, {"if", "bang"}),
  S("s1003_lt",  "S1003", <<T(StrS), T(StrS)>>, {"if", "bang"}),
  S("s1003_gt",  "S1003", <<T(StrS), T(StrS)>>, {"if", "bang"}),
  S("s1003_any", "S1003", <<T(StrS), T(StrS)>>, {"if", "bang"}),
  S("s1004_eq",  "S1004", <<Y(VC), Y(VC)>>, {"if", "bang", "andR"}),
  S("s1004_ne",  "S1004", <<Y(VC), Y(VC)>>, {"if", "bang", "andR"}),
  S("s1005_rangeiblank", "S1005", <<L(VC)>>, Stmt),
  S("s1005_rangeblank",  "S1005", <<L(VC)>>, Stmt),
  S("s1010",     "S1010", <<I(IntS)>>, Stmt),
  S("s1011",     "S1011", <<L(VC)>>, Stmt),
  S("s1001",     "S1001", <<L(VC)>>, Stmt),
  S("s1016",     "S1016", << >>, Stmt),
  S("s1018",     "S1018", <<I({"var", "lit"}), I({"var", "lit"})>>, Stmt),
  S("s1021",     "S1021", <<I(IntE)>>, Stmt),
  S("s1025_str", "S1025", <<T({"var", "call", "cat"})>>, Stmt),
  S("s1025_stringer", "S1025", << >>, Stmt),
  S("s1028",     "S1028", <<I(IntE)>>, Stmt),
  S("s1030_string", "S1030", << >>, Stmt),
  S("s1030_bytes",  "S1030", << >>, Stmt),
  S("s1033",     "S1033", <<I(IntS)>>, Stmt),
  S("s1034",     "S1034", << >>, Stmt),
  S("s1036_inc", "S1036", <<I(IntS), I(IntS)>>, Stmt),
  S("s1039",     "S1039", << >>, Stmt),
  S("qf1001_and2", "QF1001", <<B(BoolE), B(BoolE)>>, BoolCtx),
  S("qf1001_or2",  "QF1001", <<B(BoolE), B(BoolE)>>, BoolCtx),
  S("qf1001_and3", "QF1001", <<B(Bool3), B(Bool3), B(Bool3)>>, BoolCtx),
  S("qf1002",    "QF1002", <<I(IntS), I(IntS)>>, Stmt),
  S("qf1003",    "QF1003", <<I(IntS), I(IntS)>>, Stmt),
  S("qf1004",    "QF1004", <<T(VC), T(VC), T(VC)>>, Stmt),
  S("qf1005_sq",   "QF1005", <<F({"var", "call", "add"})>>, {"stmt", "div", "neg"}),
  S("qf1005_cube", "QF1005", <<F({"var", "call", "add"})>>, {"stmt", "div", "neg"}),
  S("qf1006",    "QF1006", <<B(BoolE)>>, Stmt),
  S("qf1007",    "QF1007", <<B(BoolE)>>, Stmt),
  S("qf1008",    "QF1008", << >>, Stmt),
  S("qf1011",    "QF1011", <<I(IntS)>>, Stmt),
  S("qf1012",    "QF1012", <<W(VC), I(IntE)>>, Stmt)
}
=============================================================================
