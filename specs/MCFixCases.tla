----------------------------- MODULE MCFixCases -----------------------------
(***************************************************************************)
(* The shape table of FixCases: one entry per trigger shape of an S*/QF*   *)
(* check whose fix claims to be an equivalent rewrite.  The harness        *)
(* (checks/C16_behaviour.py) holds one Go template per shape id and        *)
(* refuses to run if the two tables differ.                                 *)
(* Effects:  var   a local variable              lit   a literal            *)
(*           call  emit-function call (observable evaluation)               *)
(*           pcall emit-function call that panics for some inputs           *)
(*           or/and/not/cmp   compound boolean operands                     *)
(*           add/cat          compound int / string operands                *)
(* Contexts for boolean-valued shapes E:  if E | b && E | b || E | !E |     *)
(*           E == b ; "stmt" for statement shapes; div/neg for QF1005.      *)
(* Repeated metavariables (SR / R): name, kind, number of occurrences that  *)
(* can carry the near-equal variant, the operand slot that instantiates    *)
(* the metavariable in the base cases (0: none, the template has a fixed   *)
(* expression), and the applicable variations (FixCases!VarsOf(kind)).     *)
(*   qf1002*/qf1003*  tag : every `tag == v` of the switch / if-else chain *)
(*                    (across conditions and inside one || chain)          *)
(*   s1033            m, key : `_, ok := m[key]` / `delete(m, key)`        *)
(*   s1036_inc        m, key (indexexpr, 3x), value (+= value / = value)   *)
(*   s1010            x : x[lo:len(x)]                                      *)
(*   s1011            lhs : lhs = append(lhs, v) ; val                      *)
(*   s1011_idx        x : range x / x[i] ; lhs                              *)
(*   s1001            key, value ; s1001_idx  src : range src / src[i], key *)
(*   s1018            slice, initvar ; s1016  v : T{A: v.A, B: v.B}         *)
(*   s1021 x ; s1034 x ; qf1007 x   (types.Object identity)                *)
(* The other shapes have no repeated metavariable.                          *)
(***************************************************************************)
EXTENDS FixCases

BoolE  == {"var", "call", "pcall", "or", "and", "not", "cmp"}
Bool3  == {"var", "call", "or"}
IntE   == {"var", "lit", "call", "add"}
IntS   == {"var", "lit", "call"}
StrS   == {"var", "lit", "call"}
VC     == {"var", "call"}
BoolCtx == {"if", "andR", "orR", "bang", "eqL"}
Stmt    == {"stmt"}
\* an if/else-if chain whose branches jump: inside a switch case without a loop around it (an unlabeled break
\* leaves the enclosing switch - after a rewrite into a tagged switch it would leave the new one), inside a loop
\* (break / continue aim at the loop); statements follow the chain in the same clause / loop body
StmtJ   == {"stmt", "swcase_break", "loop_break", "loop_continue"}

SR(id, check, slots, ctxs, reps) == [id |-> id, check |-> check, slots |-> slots, ctxs |-> ctxs, reps |-> reps]
S(id, check, slots, ctxs) == SR(id, check, slots, ctxs, << >>)
R(mv, kind, n, slot, vars) == [mv |-> mv, kind |-> kind, n |-> n, slot |-> slot, vars |-> vars]
PlainS == {"var", "lit"}
LhsVars == SlVars \ {"elt"}        \* a composite literal is not assignable
B(a) == [kind |-> "bool", allow |-> a]
I(a) == [kind |-> "int", allow |-> a]
T(a) == [kind |-> "str", allow |-> a]
F(a) == [kind |-> "flt", allow |-> a]
L(a) == [kind |-> "sl", allow |-> a]
Y(a) == [kind |-> "bs", allow |-> a]
W(a) == [kind |-> "w", allow |-> a]

MCShapes == {
  S("s1002_eqT", "S1002", <<B(BoolE)>>, BoolCtx),
  S("s1002_neT", "S1002", <<B(BoolE)>>, BoolCtx),
  S("s1002_eqF", "S1002", <<B(BoolE)>>, BoolCtx),
  S("s1002_neF", "S1002", <<B(BoolE)>>, BoolCtx),
  S("s1002_Teq", "S1002", <<B(BoolE)>>, BoolCtx),
  S("s1003_ne",  "S1003", <<T(StrS), T(StrS)>>, {"if", "bang"}),
  S("s1003_eq",  "S1003", <<T(StrS), T(StrS)>>, {"if", "bang"}),
  S("s1003_ge",  "S1003", <<T(StrS), T(StrS)>>, {"if", "bang"}),
  S("s1003_lt",  "S1003", <<T(StrS), T(StrS)>>, {"if", "bang"}),
  S("s1003_gt",  "S1003", <<T(StrS), T(StrS)>>, {"if", "bang"}),
  S("s1003_any", "S1003", <<T(StrS), T(StrS)>>, {"if", "bang"}),
  S("s1004_eq",  "S1004", <<Y(VC), Y(VC)>>, {"if", "bang", "andR"}),
  S("s1004_ne",  "S1004", <<Y(VC), Y(VC)>>, {"if", "bang", "andR"}),
  S("s1005_rangeiblank", "S1005", <<L(VC)>>, Stmt),
  S("s1005_rangeblank",  "S1005", <<L(VC)>>, Stmt),
  SR("s1010",    "S1010", <<I(IntS)>>, Stmt, <<R("x", "sl", 2, 0, SlVars)>>),
  SR("s1011",    "S1011", <<L(VC)>>, Stmt, <<R("lhs", "sl", 2, 0, LhsVars), R("val", "id", 1, 0, {"paren"})>>),
  SR("s1011_idx", "S1011", <<L(VC)>>, Stmt, <<R("x", "sl", 2, 1, SlVars), R("lhs", "sl", 2, 0, LhsVars)>>),
  SR("s1001",    "S1001", <<L(VC)>>, Stmt, <<R("key", "id", 1, 0, {"paren"}), R("value", "id", 1, 0, {"paren"})>>),
  SR("s1001_idx", "S1001", <<L(VC)>>, Stmt, <<R("src", "sl", 2, 1, SlVars), R("key", "id", 2, 0, {"paren"})>>),
  SR("s1016",    "S1016", << >>, Stmt, <<R("v", "id", 2, 0, IdVars)>>),
  SR("s1018",    "S1018", <<I({"var", "lit"}), I({"var", "lit"})>>, Stmt,
     <<R("slice", "sl", 2, 0, {"paren", "ident"}), R("initvar", "id", 2, 0, {"paren"})>>),
  SR("s1021",    "S1021", <<I(IntE)>>, Stmt, <<R("x", "id", 1, 0, IdVars)>>),
  S("s1025_str", "S1025", <<T({"var", "call", "cat"})>>, Stmt),
  S("s1025_stringer", "S1025", << >>, Stmt),
  S("s1028",     "S1028", <<I(IntE)>>, Stmt),
  S("s1030_string", "S1030", << >>, Stmt),
  S("s1030_bytes",  "S1030", << >>, Stmt),
  SR("s1033",    "S1033", <<I(IntS)>>, Stmt, <<R("m", "map", 2, 0, MapVars), R("key", "int", 2, 1, IntVars)>>),
  SR("s1034",    "S1034", << >>, Stmt, <<R("x", "id", 2, 0, IdVars)>>),
  SR("s1036_inc", "S1036", <<I(IntS), I(IntS)>>, Stmt,
     <<R("m", "map", 3, 0, MapVars), R("key", "int", 3, 1, IntVars), R("value", "int", 2, 2, IntVars)>>),
  S("s1039",     "S1039", << >>, Stmt),
  S("qf1001_and2", "QF1001", <<B(BoolE), B(BoolE)>>, BoolCtx),
  S("qf1001_or2",  "QF1001", <<B(BoolE), B(BoolE)>>, BoolCtx),
  S("qf1001_and3", "QF1001", <<B(Bool3), B(Bool3), B(Bool3)>>, BoolCtx),
  SR("qf1002",      "QF1002", <<I(IntS), I(IntS)>>, Stmt, <<R("tag", "int", 3, 0, IntVars)>>),
  SR("qf1003",      "QF1003", <<I(IntS), I(IntS)>>, StmtJ, <<R("tag", "int", 4, 0, IntVars)>>),
  SR("qf1002_str",  "QF1002", <<T(PlainS), T(PlainS)>>, Stmt, <<R("tag", "str", 3, 0, StrVars)>>),
  SR("qf1003_str",  "QF1003", <<T(PlainS), T(PlainS)>>, StmtJ, <<R("tag", "str", 4, 0, StrVars)>>),
  SR("qf1002_bool", "QF1002", <<B({"var"}), B({"var"})>>, Stmt, <<R("tag", "bool", 3, 0, BoolVars)>>),
  SR("qf1003_bool", "QF1003", <<B({"var"}), B({"var"})>>, StmtJ, <<R("tag", "bool", 4, 0, BoolVars)>>),
  S("qf1004",    "QF1004", <<T(VC), T(VC), T(VC)>>, Stmt),
  S("qf1005_sq",   "QF1005", <<F({"var", "call", "add"})>>, {"stmt", "div", "neg"}),
  S("qf1005_cube", "QF1005", <<F({"var", "call", "add"})>>, {"stmt", "div", "neg"}),
  S("qf1006",    "QF1006", <<B(BoolE)>>, Stmt),
  SR("qf1007",   "QF1007", <<B(BoolE)>>, Stmt, <<R("x", "id", 1, 0, IdVars)>>),
  S("qf1008",    "QF1008", << >>, Stmt),
  S("qf1011",    "QF1011", <<I(IntS)>>, Stmt),
  S("qf1012",    "QF1012", <<W(VC), I(IntE)>>, Stmt)
}
=============================================================================
