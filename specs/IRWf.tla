------------------------------- MODULE IRWf -------------------------------
(***************************************************************************)
(* Well-formedness of one go/ir function body (property C02).              *)
(*                                                                         *)
(* This module is a *definition*: what it means for an exported function   *)
(* F (DESIGN.md 8.3; written by harness/cmd/h-irexport through the         *)
(* exported go/ir API) over a table T of interned type terms to be         *)
(* well-formed, strictly dominated, consistently typed SSA.  It shares     *)
(* nothing with go/ir/sanity.go.  Dominance is defined by paths, not by    *)
(* the dominator tree the code under test computed.                        *)
(*                                                                         *)
(* Wf(T,F) is the conjunction of *named conjuncts*.  Every conjunct C has  *)
(* an operator Bad_C(T,F) returning the set of witnesses (instruction      *)
(* positions <<block, index>>, block numbers, ...) that falsify it; the    *)
(* conjunct holds iff the set is empty.  MCIRWf.tla binds F to the         *)
(* recorded artefact, one function per TLC state, and exposes every        *)
(* conjunct as a separately named invariant.                               *)
(*                                                                         *)
(* Shape rules: the C02 statement.  Typing rules: the doc comments of the  *)
(* instruction types in go/ir/ssa.go (DESIGN.md section 10); what the      *)
(* comments leave open is not asserted.  "Identical" = same interned id.   *)
(***************************************************************************)
EXTENDS Integers, Sequences, FiniteSets

-----------------------------------------------------------------------------
(* Generic helpers                                                         *)
Range(s)      == { s[k] : k \in 1..Len(s) }
Count(s, x)   == Cardinality({ k \in 1..Len(s) : s[k] = x })
Max2(a, b)    == IF a > b THEN a ELSE b

-----------------------------------------------------------------------------
(* The type language.  T is the per-package table; 0 is "no type".         *)
K(T, t)       == IF t = 0 THEN "none" ELSE T[t].k
Under(T, t)   == IF t = 0 THEN 0 ELSE T[t].under
Core(T, t)    == IF t = 0 THEN 0 ELSE T[t].core
CK(T, t)      == K(T, Core(T, t))                \* kind of the core type
Elem(T, t)    == IF t = 0 THEN 0 ELSE T[t].elem
HasTP(T, t)   == t # 0 /\ T[t].tp
IsTParam(T,t) == K(T, t) = "tparam"
\* an interface type that is not a type parameter
IsIface(T, t) == K(T, t) # "tparam" /\ K(T, Under(T, t)) = "iface"
\* predicates on the core type being a basic type of some class
BasicCore(T,t) == CK(T, t) = "basic"
IsInteger(T,t) == BasicCore(T, t) /\ T[Core(T, t)].int
IsBoolean(T,t) == BasicCore(T, t) /\ T[Core(T, t)].bool
IsString(T, t) == BasicCore(T, t) /\ T[Core(T, t)].str
IsNumeric(T,t) == BasicCore(T, t) /\ T[Core(T, t)].num
IsComplex(T,t) == BasicCore(T, t) /\ T[Core(T, t)].cplx
IsUPtr(T, t)   == BasicCore(T, t) /\ T[Core(T, t)].uptr
IsInvalid(T,t) == K(T, t) = "basic" /\ T[t].name = "invalid type"
BasicNamed(T, t, n) == K(T, Under(T, t)) = "basic" /\ T[Under(T, t)].name = n
IsByteOrRuneSlice(T, t) ==
  /\ CK(T, t) = "slice"
  /\ LET e == Elem(T, Core(T, t)) IN BasicNamed(T, e, "uint8") \/ BasicNamed(T, e, "int32")
\* a 2-tuple (v, bool)
IsPairWithBool(T, t, v) ==
  /\ K(T, t) = "tuple" /\ Len(T[t].elems) = 2
  /\ T[t].elems[1] = v /\ IsBoolean(T, T[t].elems[2])
\* the element type "indexing" a core type yields: slice / array / pointer to array / string
ElemOfIndexable(T, c) ==
  CASE K(T, c) = "slice" -> Elem(T, c)
    [] K(T, c) = "array" -> Elem(T, c)
    [] K(T, c) = "ptr" /\ CK(T, Elem(T, c)) = "array" -> Elem(T, Core(T, Elem(T, c)))
    [] OTHER -> 0
MethodsOf(T, t) == IF t = 0 THEN <<>> ELSE T[t].methods
\* every method of interface type i occurs, with the identical signature, in the method list ms
Provides(T, ms, i) ==
  \A m \in Range(MethodsOf(T, i)) : \E m2 \in Range(ms) : m2.n = m.n /\ m2.t = m.t

-----------------------------------------------------------------------------
(* Positions, instructions, operands.  A position is the integer           *)
(* block * 1000 + index (both 1-based; the exporter skips functions with   *)
(* more than 600 instructions); 0 stands for "not an instruction of this   *)
(* function".                                                              *)
NB(F)         == Len(F.blocks)
BlockIds(F)   == 1..NB(F)
Instrs(F, b)  == F.blocks[b].instrs
PB(p)         == p \div 1000                      \* block of a position
PI(p)         == p % 1000                         \* index within the block
Positions(F)  == UNION { { b * 1000 + i : i \in 1..Len(Instrs(F, b)) } : b \in BlockIds(F) }
Valid(F, p)   == PB(p) \in BlockIds(F) /\ PI(p) \in 1..Len(Instrs(F, PB(p)))
At(F, p)      == F.blocks[PB(p)].instrs[PI(p)]
OpsAt(F, op)  == { p \in Positions(F) : At(F, p).op = op }
Terminators   == {"Jump", "If", "Return", "Panic", "Unreachable", "ConstantSwitch"}
IsLocalRef(a) == a.k \in {"i", "p", "fv"}       \* operands whose Referrers are tracked
Arg(F, p, j)  == At(F, p).args[j]
NArgs(F, p)   == Len(At(F, p).args)
\* an operand reference resolved to a valid position of this function
Resolves(F, a) == a.k = "i" => Valid(F, a.p)

-----------------------------------------------------------------------------
(* Path-based dominance.  The entry block is Blocks[0] (= 1 here); Recover  *)
(* is a second entry to which control transfers after a recovered panic,   *)
(* i.e. after the entry block started executing: it is modelled as an edge *)
(* entry -> Recover.  a dominates b iff every path from the entry to b     *)
(* contains a.                                                             *)
SuccSet(F, u) ==
  { s \in Range(F.blocks[u].succs) : s \in BlockIds(F) }
    \cup (IF u = 1 /\ F.recover \in BlockIds(F) THEN {F.recover} ELSE {})

RECURSIVE ReachFrom(_, _, _, _)
ReachFrom(F, frontier, seen, avoid) ==
  IF frontier = {} THEN seen
  ELSE LET nxt == (UNION { SuccSet(F, u) : u \in frontier }) \ (seen \cup {avoid})
       IN  ReachFrom(F, nxt, seen \cup nxt, avoid)
\* blocks reachable from the entry without passing through `avoid` (0 = avoid nothing)
Reach(F, avoid) == IF avoid = 1 \/ NB(F) = 0 THEN {} ELSE ReachFrom(F, {1}, {1}, avoid)
\* DomBy[a] = set of blocks dominated by a (reflexive); unreachable blocks are dominated by all
DomBy(F) == LET all == Reach(F, 0)
            IN  [ a \in BlockIds(F) |-> {a} \cup (BlockIds(F) \ (all \cap Reach(F, a))) ]

-----------------------------------------------------------------------------
(* SHAPE                                                                   *)

\* Blocks[i].Index = i, every edge end / Recover is a block of this function
Bad_BlockIndex(T, F) ==
  { b \in BlockIds(F) :
      \/ F.blocks[b].index # b
      \/ \E x \in Range(F.blocks[b].preds) \cup Range(F.blocks[b].succs) : x \notin BlockIds(F) }
  \cup (IF F.recover \in 0..NB(F) THEN {} ELSE {0})

\* no nil instruction, no instruction listed twice, Block() is the containing block
Bad_InstrBlock(T, F) ==
  { p \in Positions(F) : At(F, p).op = "nil" \/ At(F, p).blk # PB(p) }
  \cup (IF F.dup THEN {0} ELSE {})

\* b occurs in Succs(a) exactly as often as a occurs in Preds(b)
Bad_SuccPredInverse(T, F) ==
  { <<a, b>> \in BlockIds(F) \X BlockIds(F) :
      Count(F.blocks[a].succs, b) # Count(F.blocks[b].preds, a) }

\* every block ends in exactly one terminator, which is its last instruction
Bad_Terminator(T, F) ==
  { b \in BlockIds(F) : LET n == Len(Instrs(F, b)) IN
      \/ n = 0
      \/ Instrs(F, b)[n].op \notin Terminators
      \/ \E i \in 1..(n-1) : Instrs(F, b)[i].op \in Terminators }

\* the terminator's arity is the length of the successor list
Bad_TerminatorArity(T, F) ==
  { b \in BlockIds(F) : LET n == Len(Instrs(F, b)) IN
      n > 0 /\ LET t == Instrs(F, b)[n]
                   ns == Len(F.blocks[b].succs) IN
      CASE t.op = "Jump" -> ns # 1
        [] t.op = "If" -> ns # 2
        [] t.op \in {"Return", "Panic", "Unreachable"} -> ns # 0
        [] t.op = "ConstantSwitch" -> ns # t.n \/ Len(t.args) # t.n + 1
        [] OTHER -> FALSE }

\* phis lead their block
Bad_PhiLead(T, F) ==
  { p \in OpsAt(F, "Phi") : \E j \in 1..(PI(p) - 1) : Instrs(F, PB(p))[j].op # "Phi" }

\* exactly one phi operand per predecessor, none of them missing
Bad_PhiArity(T, F) ==
  { p \in OpsAt(F, "Phi") :
      \/ NArgs(F, p) # Len(F.blocks[PB(p)].preds)
      \/ \E j \in 1..NArgs(F, p) : Arg(F, p, j).k = "none" }

\* instruction IDs are unique within the function
Bad_UniqueIDs(T, F) ==
  IF Cardinality({ At(F, p).id : p \in Positions(F) }) = Cardinality(Positions(F)) THEN {}
  ELSE { p \in Positions(F) : \E q \in Positions(F) : q # p /\ At(F, q).id = At(F, p).id }

\* a non-heap Alloc is listed in Function.Locals
Bad_Locals(T, F) ==
  { p \in OpsAt(F, "Alloc") : ~At(F, p).flag /\ p \notin Range(F.locals) }

-----------------------------------------------------------------------------
(* DEF-USE: Operands and Referrers are mutually inverse                    *)

\* operands that are instructions / parameters / free variables belong to this function,
\* and an instruction operand defines a value
Bad_OperandsLocal(T, F) ==
  { p \in Positions(F) : \E a \in Range(At(F, p).args) :
      \/ a.k = "other"
      \/ a.k = "i" /\ ~(Valid(F, a.p) /\ At(F, a.p).v > 0)
      \/ a.k \in {"p", "fv"} /\ a.p = 0 }

\* a definition is a pair <<kind, p>>: <<"i", position>>, <<"p", parameter index>>,
\* <<"fv", free variable index>>; its referrer list:
RefsOf(F, d) ==
  CASE d[1] = "i"  -> At(F, d[2]).refs
    [] d[1] = "p"  -> F.params[d[2]].refs
    [] d[1] = "fv" -> F.freevars[d[2]].refs
    [] OTHER -> <<>>

\* all definitions of the function
Defs(F) ==
  { <<"i", p>> : p \in { q \in Positions(F) : At(F, q).v > 0 } }
  \cup { <<"p", j>> : j \in 1..Len(F.params) }
  \cup { <<"fv", j>> : j \in 1..Len(F.freevars) }

\* the two relations as sets of <<def kind, def, user position>>
UsePairs(F) ==
  UNION { { <<a.k, a.p, p>> : a \in { x \in Range(At(F, p).args) : IsLocalRef(x) } } : p \in Positions(F) }
RefPairs(F) ==
  UNION { { <<d[1], d[2], r>> : r \in Range(RefsOf(F, d)) } : d \in Defs(F) }

\* v in Operands(i)  =>  i in Referrers(v)   (function-local v; anonymous functions too:
\* for an operand that is an anonymous function, a.p counts the user in its Referrers)
Bad_OperandRefersBack(T, F) ==
  (UsePairs(F) \ RefPairs(F))
  \cup { <<"fn", 0, p>> : p \in { q \in Positions(F) :
            \E a \in Range(At(F, q).args) : a.k = "fn" /\ a.p = 0 } }

\* i in Referrers(v)  =>  i is an instruction of this function and v in Operands(i)
Bad_ReferrerIsUser(T, F) == RefPairs(F) \ UsePairs(F)

\* "may contain duplicates if an instruction has a repeated operand": a referrer is listed
\* at most as often as it uses the value
UseCount(F, d, r) ==
  IF ~Valid(F, r) THEN 0
  ELSE Cardinality({ j \in 1..Len(At(F, r).args) :
         LET a == At(F, r).args[j] IN a.k = d[1] /\ a.p = d[2] })
Bad_ReferrerMultiplicity(T, F) ==
  { d \in Defs(F) : LET rs == RefsOf(F, d) IN
      /\ Cardinality(Range(rs)) # Len(rs)         \* some referrer is listed more than once
      /\ \E r \in Range(rs) : UseCount(F, d, r) > 0 /\ Count(rs, r) > UseCount(F, d, r) }

\* Referrers is defined for every function-local value
Bad_HasReferrers(T, F) ==
  { d \in Defs(F) :
      CASE d[1] = "i"  -> At(F, d[2]).v # 1
        [] d[1] = "p"  -> ~F.params[d[2]].hasr
        [] d[1] = "fv" -> ~F.freevars[d[2]].hasr }

-----------------------------------------------------------------------------
(* DOMINANCE                                                               *)

\* non-phi uses: the definition precedes the use in the same block, or its block strictly
\* dominates the block of the use
Bad_DefDominatesUse(T, F) ==
  LET dom == DomBy(F) IN
  { p \in Positions(F) :
      /\ At(F, p).op # "Phi"
      /\ \E a \in Range(At(F, p).args) :
           /\ a.k = "i" /\ Valid(F, a.p)
           /\ ~( \/ PB(a.p) = PB(p) /\ PI(a.p) < PI(p)
                 \/ PB(a.p) # PB(p) /\ PB(p) \in dom[PB(a.p)] ) }

\* phi operand j is defined in a block that dominates (or is) Preds[j]
Bad_PhiEdgeDominates(T, F) ==
  LET dom == DomBy(F) IN
  { p \in OpsAt(F, "Phi") :
      /\ NArgs(F, p) = Len(F.blocks[PB(p)].preds)
      /\ \E j \in 1..NArgs(F, p) : LET a == Arg(F, p, j)
                                       pr == F.blocks[PB(p)].preds[j] IN
           a.k = "i" /\ Valid(F, a.p) /\ pr \in BlockIds(F) /\ pr \notin dom[PB(a.p)] }

-----------------------------------------------------------------------------
(* TYPING (ssa.go doc comments)                                            *)
\* operand shorthand: type of the j-th operand (0 for a missing operand)
AT(x, j)    == IF j <= Len(x.args) THEN x.args[j].t ELSE 0
AK(x, j)    == IF j <= Len(x.args) THEN x.args[j].k ELSE "none"
NoneOrInteger(T, x, j) == AK(x, j) = "none" \/ IsInteger(T, AT(x, j))

\* Alloc values are addresses: Type().Underlying() is a pointer
R_Alloc(T, x) == K(T, Under(T, x.t)) = "ptr"
\* Phi: every edge has the phi's type
R_Phi(T, x)   == \A j \in 1..Len(x.args) : x.args[j].k = "none" \/ x.args[j].t = x.t
\* Load <T> X: X is a pointer to T
R_Load(T, x)  == CK(T, AT(x, 1)) = "ptr" /\ Elem(T, Core(T, AT(x, 1))) = x.t
\* *Addr = Val
R_Store(T, x) == CK(T, AT(x, 1)) = "ptr" /\ Elem(T, Core(T, AT(x, 1))) = AT(x, 2)

Arith   == {"+", "-", "*", "/", "%", "&", "|", "^", "&^"}
Shifts  == {"<<", ">>"}
Compare == {"==", "!=", "<", "<=", ">", ">="}
R_BinOp(T, x) ==
  CASE x.sub \in Arith   -> AT(x, 1) = x.t /\ AT(x, 2) = x.t
    [] x.sub \in Shifts  -> AT(x, 1) = x.t /\ (IsInteger(T, AT(x, 2)) \/ IsTParam(T, AT(x, 2)))
    [] x.sub \in Compare -> IsBoolean(T, x.t)
    [] OTHER -> FALSE
R_UnOp(T, x) ==
  /\ x.sub \in {"!", "-", "^"}
  /\ AT(x, 1) = x.t
  /\ x.sub = "!" => IsBoolean(T, x.t)

\* ChangeType: value-preserving changes listed in the doc comment.  x.types carries the
\* tag-insensitive ids of the two underlying types and of the two pointer base types.
R_ChangeType(T, x) ==
  LET a == AT(x, 1)
      ua == Under(T, a)
      ut == Under(T, x.t) IN
  \/ HasTP(T, a) \/ HasTP(T, x.t)                              \* to/from a type parameter, instance <-> generic
  \/ Len(x.types) = 4 /\ x.types[1] = x.types[2]               \* named <-> underlying, named <-> named
  \/ /\ K(T, ua) = "ptr" /\ K(T, ut) = "ptr"                    \* pointers to identical base types
     /\ Len(x.types) = 4 /\ x.types[3] # 0 /\ x.types[3] = x.types[4]
  \/ /\ K(T, ua) = "chan" /\ K(T, ut) = "chan"                  \* bidirectional -> directional channel
     /\ Elem(T, ua) = Elem(T, ut)
     /\ T[ua].dir \in {0, T[ut].dir}

\* Convert: one side basic; the listed conversions
R_Convert(T, x) ==
  LET a == AT(x, 1) IN
  \/ HasTP(T, a) \/ HasTP(T, x.t)
  \/ /\ BasicCore(T, a) \/ BasicCore(T, x.t)
     /\ \/ IsNumeric(T, a) /\ IsNumeric(T, x.t) /\ (IsComplex(T, a) <=> IsComplex(T, x.t))
        \/ IsString(T, a) /\ IsByteOrRuneSlice(T, x.t)
        \/ IsByteOrRuneSlice(T, a) /\ IsString(T, x.t)
        \/ CK(T, a) = "ptr" /\ IsUPtr(T, x.t)
        \/ IsUPtr(T, a) /\ CK(T, x.t) = "ptr"
        \/ IsUPtr(T, a) /\ IsInteger(T, x.t)
        \/ IsInteger(T, a) /\ IsUPtr(T, x.t)
        \/ IsInteger(T, a) /\ IsString(T, x.t)

\* MultiConvert: either side is a type parameter
R_MultiConvert(T, x) == IsTParam(T, AT(x, 1)) \/ IsTParam(T, x.t)

\* ChangeInterface: interface to interface, known to be assignable
R_ChangeInterface(T, x) ==
  /\ IsIface(T, AT(x, 1)) /\ IsIface(T, x.t)
  /\ Provides(T, MethodsOf(T, AT(x, 1)), x.t)

R_SliceToArrayPointer(T, x) ==
  LET a == AT(x, 1) IN
  \/ Core(T, a) = 0 \/ Core(T, x.t) = 0
  \/ /\ CK(T, a) = "slice" /\ CK(T, x.t) = "ptr"
     /\ CK(T, Elem(T, Core(T, x.t))) = "array"
     /\ Elem(T, Core(T, Elem(T, Core(T, x.t)))) = Elem(T, Core(T, a))
R_SliceToArray(T, x) ==
  LET a == AT(x, 1) IN
  \/ Core(T, a) = 0 \/ Core(T, x.t) = 0
  \/ CK(T, a) = "slice" /\ CK(T, x.t) = "array" /\ Elem(T, Core(T, x.t)) = Elem(T, Core(T, a))

\* MakeInterface: an interface value from a value of a concrete type that implements it
R_MakeInterface(T, x) ==
  LET a == AT(x, 1) IN
  /\ IsIface(T, x.t)
  /\ ~IsIface(T, a)
  /\ a # 0 /\ T[a].hasmset /\ Provides(T, T[a].mset, x.t)

\* MakeClosure: Fn is a Function, one binding per free variable with its type,
\* Type() is a (possibly named) signature: Fn's
R_MakeClosure(T, x) ==
  /\ AK(x, 1) = "fn" /\ x.flag
  /\ Len(x.args) = Len(x.types) + 1
  /\ \A j \in 1..Len(x.types) : AT(x, j + 1) = x.types[j]
  /\ K(T, Under(T, x.t)) = "sig"
  /\ HasTP(T, x.t) \/ HasTP(T, x.at) \/ Under(T, x.t) = x.at

R_MakeMap(T, x)   == CK(T, x.t) = "map" /\ NoneOrInteger(T, x, 1)
R_MakeChan(T, x)  == CK(T, x.t) = "chan" /\ IsInteger(T, AT(x, 1))
R_MakeSlice(T, x) == CK(T, x.t) = "slice" /\ IsInteger(T, AT(x, 1)) /\ IsInteger(T, AT(x, 2))

\* Slice: X string, slice or *array; optional integer bounds; string stays string,
\* otherwise a slice with the element type of X
R_Slice(T, x) ==
  LET a == AT(x, 1)
      c == Core(T, a) IN
  \/ c = 0
  \/ /\ NoneOrInteger(T, x, 2) /\ NoneOrInteger(T, x, 3) /\ NoneOrInteger(T, x, 4)
     /\ \/ IsString(T, a) /\ IsString(T, x.t)
        \/ /\ K(T, c) = "slice" \/ (K(T, c) = "ptr" /\ CK(T, Elem(T, c)) = "array")
           /\ CK(T, x.t) = "slice"
           /\ Elem(T, Core(T, x.t)) = ElemOfIndexable(T, c)

\* FieldAddr: X is a pointer to a struct; the result points to field #Field
R_FieldAddr(T, x) ==
  LET c == Core(T, AT(x, 1))
      s == Core(T, Elem(T, c)) IN
  /\ K(T, c) = "ptr" /\ K(T, s) = "struct"
  /\ x.n >= 0 /\ x.n < Len(T[s].fields)
  /\ K(T, Under(T, x.t)) = "ptr" /\ Elem(T, Under(T, x.t)) = T[s].fields[x.n + 1].t
R_Field(T, x) ==
  LET s == Core(T, AT(x, 1)) IN
  /\ K(T, s) = "struct"
  /\ x.n >= 0 /\ x.n < Len(T[s].fields)
  /\ x.t = T[s].fields[x.n + 1].t

\* IndexAddr: X *array or slice (array / *array / slice through a type parameter), integer
\* index, result a pointer to the element type
R_IndexAddr(T, x) ==
  LET a == AT(x, 1)
      c == Core(T, a) IN
  \/ c = 0
  \/ /\ \/ K(T, c) = "slice"
        \/ K(T, c) = "ptr" /\ CK(T, Elem(T, c)) = "array"
        \/ IsTParam(T, a) /\ K(T, c) = "array"
     /\ IsInteger(T, AT(x, 2)) \/ IsTParam(T, AT(x, 2))
     /\ K(T, Under(T, x.t)) = "ptr" /\ Elem(T, Under(T, x.t)) = ElemOfIndexable(T, c)
\* Index: array or string (more through a type parameter), integer index, the element
R_Index(T, x) ==
  LET a == AT(x, 1)
      c == Core(T, a) IN
  \/ c = 0
  \/ /\ IsInteger(T, AT(x, 2)) \/ IsTParam(T, AT(x, 2))
     /\ \/ K(T, c) = "array" /\ x.t = Elem(T, c)
        \/ IsString(T, a) /\ BasicNamed(T, x.t, "uint8")
        \/ IsTParam(T, a) /\ ElemOfIndexable(T, c) # 0 /\ x.t = ElemOfIndexable(T, c)

R_MapLookup(T, x) ==
  LET c == Core(T, AT(x, 1)) IN
  \/ c = 0
  \/ /\ K(T, c) = "map"
     /\ AT(x, 2) = T[c].key
     /\ IF x.flag THEN IsPairWithBool(T, x.t, Elem(T, c)) ELSE x.t = Elem(T, c)
R_StringLookup(T, x) ==
  /\ IsString(T, AT(x, 1))
  /\ IsInteger(T, AT(x, 2)) \/ IsTParam(T, AT(x, 2))
  /\ BasicNamed(T, x.t, "uint8")

R_Range(T, x) == LET c == Core(T, AT(x, 1)) IN c = 0 \/ IsString(T, AT(x, 1)) \/ K(T, c) = "map"

\* TypeAssert: X is an interface; the result is AssertedType or (AssertedType, bool)
R_TypeAssert(T, x) ==
  /\ IsIface(T, AT(x, 1))
  /\ IF x.flag THEN IsPairWithBool(T, x.t, x.at) ELSE x.t = x.at

\* Extract: component Index of Tuple
R_Extract(T, x) ==
  LET tt == AT(x, 1) IN
  /\ K(T, tt) = "tuple"
  /\ x.n >= 0 /\ x.n < Len(T[tt].elems)
  /\ x.t = T[tt].elems[x.n + 1]

R_If(T, x)    == IsBoolean(T, AT(x, 1))
\* Panic: X is an interface{}
R_Panic(T, x) == IsIface(T, AT(x, 1)) /\ Len(MethodsOf(T, AT(x, 1))) = 0
R_Send(T, x)  == LET c == Core(T, AT(x, 1)) IN c = 0 \/ (K(T, c) = "chan" /\ AT(x, 2) = Elem(T, c))
R_Recv(T, x)  ==
  LET c == Core(T, AT(x, 1)) IN
  \/ c = 0
  \/ /\ K(T, c) = "chan"
     /\ IF x.flag THEN IsPairWithBool(T, x.t, Elem(T, c)) ELSE x.t = Elem(T, c)
R_MapUpdate(T, x) ==
  LET c == Core(T, AT(x, 1)) IN
  \/ c = 0
  \/ K(T, c) = "map" /\ AT(x, 2) = T[c].key /\ AT(x, 3) = Elem(T, c)

\* Select: (index int, recvOk bool, r_0 T_0 ... r_n-1 T_n-1) over the receive states; a send
\* state sends a value of the channel's element type
RecvStates(x) == { s \in 1..Len(x.types) : x.types[s] = 2 }
R_Select(T, x) ==
  /\ Len(x.args) = 2 * Len(x.types)
  /\ K(T, x.t) = "tuple"
  /\ Len(T[x.t].elems) = 2 + Cardinality(RecvStates(x))
  /\ IsInteger(T, T[x.t].elems[1]) /\ IsBoolean(T, T[x.t].elems[2])
  /\ \A s \in 1..Len(x.types) :
       LET c == Core(T, AT(x, 2 * s - 1)) IN
       \/ c = 0
       \/ /\ K(T, c) = "chan"
          /\ x.types[s] = 1 => AT(x, 2 * s) = Elem(T, c)
          /\ x.types[s] = 2 =>
               T[x.t].elems[2 + Cardinality({ r \in RecvStates(x) : r <= s })] = Elem(T, c)

-----------------------------------------------------------------------------
(* Calls.  args = <<Value, Args..., (Defer: DeferStack)>>; x.n = |Args|.    *)
CallSigOf(T, x) == IF x.sub = "invoke" THEN x.at ELSE Core(T, AT(x, 1))
ExpectedArgs(T, x) ==
  LET s == CallSigOf(T, x) IN
  (IF x.sub = "call" /\ x.recv # 0 THEN <<x.recv>> ELSE <<>>) \o T[s].params
\* mode and callee
R_CallMode(T, x) ==
  /\ x.sub \in {"call", "builtin", "invoke"}
  /\ Len(x.args) >= x.n + 1
  /\ K(T, CallSigOf(T, x)) = "sig"
  /\ x.sub = "invoke" =>
       /\ IsIface(T, AT(x, 1)) \/ IsTParam(T, AT(x, 1))
       /\ \E m \in Range(MethodsOf(T, AT(x, 1))) : m.n = x.name
  /\ x.sub = "builtin" <=> AK(x, 1) = "bi"
\* actual parameters: one per (receiver and) parameter, of exactly the parameter's type
R_CallArgs(T, x) ==
  K(T, CallSigOf(T, x)) = "sig" =>
    LET exp == ExpectedArgs(T, x) IN
    /\ x.n = Len(exp)
    /\ \A j \in 1..x.n : HasTP(T, exp[j]) \/ HasTP(T, AT(x, j + 1)) \/ AT(x, j + 1) = exp[j]
\* the result: the single result, or the tuple of results
R_CallResult(T, x) ==
  K(T, CallSigOf(T, x)) = "sig" =>
    LET rs == T[CallSigOf(T, x)].results IN
    \/ HasTP(T, x.t) \/ \E j \in 1..Len(rs) : HasTP(T, rs[j])
    \/ IF Len(rs) = 1 THEN x.t = rs[1]
       ELSE K(T, x.t) = "tuple" /\ T[x.t].elems = rs
CallOps == {"Call", "Go", "Defer"}
CallViol(F, R(_)) == { p \in Positions(F) : At(F, p).op \in CallOps /\ ~R(At(F, p)) }

\* Return: one result per signature result, of its type
R_Return(T, F, x) ==
  /\ Len(x.args) = Len(F.results)
  /\ \A j \in 1..Len(x.args) : AT(x, j) = F.results[j]

\* Next: Iter is a Range; (ok bool, k, v) with k/v the key/element (or invalid if unused)
R_Next(T, F, x) ==
  /\ AK(x, 1) = "i" /\ Valid(F, x.args[1].p) /\ At(F, x.args[1].p).op = "Range"
  /\ K(T, x.t) = "tuple" /\ Len(T[x.t].elems) = 3 /\ IsBoolean(T, T[x.t].elems[1])
  /\ LET r  == At(F, x.args[1].p)
         c  == Core(T, AT(r, 1))
         k  == T[x.t].elems[2]
         v  == T[x.t].elems[3] IN
     \/ c = 0
     \/ /\ x.flag <=> IsString(T, AT(r, 1))
        /\ IF x.flag
           THEN (IsInvalid(T, k) \/ BasicNamed(T, k, "int")) /\ (IsInvalid(T, v) \/ BasicNamed(T, v, "int32"))
           ELSE K(T, c) = "map" /\ (IsInvalid(T, k) \/ k = T[c].key) /\ (IsInvalid(T, v) \/ v = Elem(T, c))

\* TypeSwitch (undocumented; only what Extract/ConstantSwitch rely on): an interface tag and a
\* tuple whose first component is the integer case index
R_TypeSwitch(T, x) ==
  /\ IsIface(T, AT(x, 1))
  /\ K(T, x.t) = "tuple" /\ Len(T[x.t].elems) = Len(x.types) + 2
  /\ IsInteger(T, T[x.t].elems[1])

\* parameters agree with the signature
Bad_T_Params(T, F) ==
  LET exp == (IF F.recvt # 0 THEN <<F.recvt>> ELSE <<>>) \o F.sigparams IN
  IF Len(F.params) # Len(exp) THEN {0}
  ELSE { j \in 1..Len(exp) : F.params[j].t # exp[j] }

\* The typing rule of an instruction, dispatched on its kind (calls are split in three
\* conjuncts below).  Kinds without a documented typing rule are well-typed.
WellTyped(T, F, x) ==
  CASE x.op = "Alloc" -> R_Alloc(T, x)
    [] x.op = "Phi" -> R_Phi(T, x)
    [] x.op = "Load" -> R_Load(T, x)
    [] x.op = "Store" -> R_Store(T, x)
    [] x.op = "BinOp" -> R_BinOp(T, x)
    [] x.op = "UnOp" -> R_UnOp(T, x)
    [] x.op = "ChangeType" -> R_ChangeType(T, x)
    [] x.op = "Convert" -> R_Convert(T, x)
    [] x.op = "MultiConvert" -> R_MultiConvert(T, x)
    [] x.op = "ChangeInterface" -> R_ChangeInterface(T, x)
    [] x.op = "SliceToArrayPointer" -> R_SliceToArrayPointer(T, x)
    [] x.op = "SliceToArray" -> R_SliceToArray(T, x)
    [] x.op = "MakeInterface" -> R_MakeInterface(T, x)
    [] x.op = "MakeClosure" -> R_MakeClosure(T, x)
    [] x.op = "MakeMap" -> R_MakeMap(T, x)
    [] x.op = "MakeChan" -> R_MakeChan(T, x)
    [] x.op = "MakeSlice" -> R_MakeSlice(T, x)
    [] x.op = "Slice" -> R_Slice(T, x)
    [] x.op = "FieldAddr" -> R_FieldAddr(T, x)
    [] x.op = "Field" -> R_Field(T, x)
    [] x.op = "IndexAddr" -> R_IndexAddr(T, x)
    [] x.op = "Index" -> R_Index(T, x)
    [] x.op = "MapLookup" -> R_MapLookup(T, x)
    [] x.op = "StringLookup" -> R_StringLookup(T, x)
    [] x.op = "Range" -> R_Range(T, x)
    [] x.op = "Next" -> R_Next(T, F, x)
    [] x.op = "TypeAssert" -> R_TypeAssert(T, x)
    [] x.op = "Extract" -> R_Extract(T, x)
    [] x.op = "If" -> R_If(T, x)
    [] x.op = "Return" -> R_Return(T, F, x)
    [] x.op = "Panic" -> R_Panic(T, x)
    [] x.op = "Send" -> R_Send(T, x)
    [] x.op = "Recv" -> R_Recv(T, x)
    [] x.op = "MapUpdate" -> R_MapUpdate(T, x)
    [] x.op = "Select" -> R_Select(T, x)
    [] x.op = "TypeSwitch" -> R_TypeSwitch(T, x)
    [] OTHER -> TRUE
\* positions of the instructions that violate their typing rule (one pass over the function)
IllTyped(T, F) == { p \in Positions(F) : ~WellTyped(T, F, At(F, p)) }
\* ... split by instruction kind: one named conjunct per kind (group)
OfKinds(F, ps, ops) == { p \in ps : At(F, p).op \in ops }
Bad_T_Alloc(T, F) == OfKinds(F, IllTyped(T, F), {"Alloc"})
Bad_T_Phi(T, F) == OfKinds(F, IllTyped(T, F), {"Phi"})
Bad_T_Load(T, F) == OfKinds(F, IllTyped(T, F), {"Load"})
Bad_T_Store(T, F) == OfKinds(F, IllTyped(T, F), {"Store"})
Bad_T_BinOp(T, F) == OfKinds(F, IllTyped(T, F), {"BinOp"})
Bad_T_UnOp(T, F) == OfKinds(F, IllTyped(T, F), {"UnOp"})
Bad_T_ChangeType(T, F) == OfKinds(F, IllTyped(T, F), {"ChangeType"})
Bad_T_Convert(T, F) == OfKinds(F, IllTyped(T, F), {"Convert"})
Bad_T_MultiConvert(T, F) == OfKinds(F, IllTyped(T, F), {"MultiConvert"})
Bad_T_ChangeInterface(T, F) == OfKinds(F, IllTyped(T, F), {"ChangeInterface"})
Bad_T_SliceToArray(T, F) == OfKinds(F, IllTyped(T, F), {"SliceToArrayPointer", "SliceToArray"})
Bad_T_MakeInterface(T, F) == OfKinds(F, IllTyped(T, F), {"MakeInterface"})
Bad_T_MakeClosure(T, F) == OfKinds(F, IllTyped(T, F), {"MakeClosure"})
Bad_T_Make(T, F) == OfKinds(F, IllTyped(T, F), {"MakeMap", "MakeChan", "MakeSlice"})
Bad_T_Slice(T, F) == OfKinds(F, IllTyped(T, F), {"Slice"})
Bad_T_FieldAddr(T, F) == OfKinds(F, IllTyped(T, F), {"FieldAddr"})
Bad_T_Field(T, F) == OfKinds(F, IllTyped(T, F), {"Field"})
Bad_T_IndexAddr(T, F) == OfKinds(F, IllTyped(T, F), {"IndexAddr"})
Bad_T_Index(T, F) == OfKinds(F, IllTyped(T, F), {"Index"})
Bad_T_MapLookup(T, F) == OfKinds(F, IllTyped(T, F), {"MapLookup"})
Bad_T_StringLookup(T, F) == OfKinds(F, IllTyped(T, F), {"StringLookup"})
Bad_T_RangeNext(T, F) == OfKinds(F, IllTyped(T, F), {"Range", "Next"})
Bad_T_TypeAssert(T, F) == OfKinds(F, IllTyped(T, F), {"TypeAssert"})
Bad_T_Extract(T, F) == OfKinds(F, IllTyped(T, F), {"Extract"})
Bad_T_If(T, F) == OfKinds(F, IllTyped(T, F), {"If"})
Bad_T_Return(T, F) == OfKinds(F, IllTyped(T, F), {"Return"})
Bad_T_Panic(T, F) == OfKinds(F, IllTyped(T, F), {"Panic"})
Bad_T_SendRecv(T, F) == OfKinds(F, IllTyped(T, F), {"Send", "Recv"})
Bad_T_MapUpdate(T, F) == OfKinds(F, IllTyped(T, F), {"MapUpdate"})
Bad_T_Select(T, F) == OfKinds(F, IllTyped(T, F), {"Select"})
Bad_T_TypeSwitch(T, F) == OfKinds(F, IllTyped(T, F), {"TypeSwitch"})
Bad_T_CallMode(T, F)   == CallViol(F, LAMBDA x : R_CallMode(T, x))
Bad_T_CallArgs(T, F)   == CallViol(F, LAMBDA x : R_CallArgs(T, x))
Bad_T_CallResult(T, F) == { p \in OpsAt(F, "Call") : ~R_CallResult(T, At(F, p)) }

-----------------------------------------------------------------------------
(* The definition.  Shape first: the later conjuncts are only meaningful   *)
(* (and only evaluated by Failed) on a function whose references resolve.  *)
ShapeOK(T, F) ==
  /\ Bad_BlockIndex(T, F) = {} /\ Bad_InstrBlock(T, F) = {} /\ Bad_OperandsLocal(T, F) = {}

Conjuncts(T, F) ==
  LET s1  == Bad_BlockIndex(T, F)
      s2  == Bad_InstrBlock(T, F)
      s3  == Bad_OperandsLocal(T, F)
      ok  == s1 = {} /\ s2 = {} /\ s3 = {}
      ill == IllTyped(T, F) IN          \* evaluated (once) only if ok
  << <<"BlockIndex", s1>>, <<"InstrBlock", s2>>, <<"OperandsLocal", s3>> >>
  \o (IF ~ok THEN <<>> ELSE
  << <<"SuccPredInverse", Bad_SuccPredInverse(T, F)>>,
     <<"Terminator", Bad_Terminator(T, F)>>,
     <<"TerminatorArity", Bad_TerminatorArity(T, F)>>,
     <<"PhiLead", Bad_PhiLead(T, F)>>,
     <<"PhiArity", Bad_PhiArity(T, F)>>,
     <<"UniqueIDs", Bad_UniqueIDs(T, F)>>,
     <<"Locals", Bad_Locals(T, F)>>,
     <<"OperandRefersBack", Bad_OperandRefersBack(T, F)>>,
     <<"ReferrerIsUser", Bad_ReferrerIsUser(T, F)>>,
     <<"ReferrerMultiplicity", Bad_ReferrerMultiplicity(T, F)>>,
     <<"HasReferrers", Bad_HasReferrers(T, F)>>,
     <<"DefDominatesUse", Bad_DefDominatesUse(T, F)>>,
     <<"PhiEdgeDominates", Bad_PhiEdgeDominates(T, F)>>,
     <<"T_Params", Bad_T_Params(T, F)>>,
     <<"T_Alloc", OfKinds(F, ill, {"Alloc"})>>,
     <<"T_Phi", OfKinds(F, ill, {"Phi"})>>,
     <<"T_Load", OfKinds(F, ill, {"Load"})>>,
     <<"T_Store", OfKinds(F, ill, {"Store"})>>,
     <<"T_BinOp", OfKinds(F, ill, {"BinOp"})>>,
     <<"T_UnOp", OfKinds(F, ill, {"UnOp"})>>,
     <<"T_ChangeType", OfKinds(F, ill, {"ChangeType"})>>,
     <<"T_Convert", OfKinds(F, ill, {"Convert"})>>,
     <<"T_MultiConvert", OfKinds(F, ill, {"MultiConvert"})>>,
     <<"T_ChangeInterface", OfKinds(F, ill, {"ChangeInterface"})>>,
     <<"T_SliceToArray", OfKinds(F, ill, {"SliceToArrayPointer", "SliceToArray"})>>,
     <<"T_MakeInterface", OfKinds(F, ill, {"MakeInterface"})>>,
     <<"T_MakeClosure", OfKinds(F, ill, {"MakeClosure"})>>,
     <<"T_Make", OfKinds(F, ill, {"MakeMap", "MakeChan", "MakeSlice"})>>,
     <<"T_Slice", OfKinds(F, ill, {"Slice"})>>,
     <<"T_FieldAddr", OfKinds(F, ill, {"FieldAddr"})>>,
     <<"T_Field", OfKinds(F, ill, {"Field"})>>,
     <<"T_IndexAddr", OfKinds(F, ill, {"IndexAddr"})>>,
     <<"T_Index", OfKinds(F, ill, {"Index"})>>,
     <<"T_MapLookup", OfKinds(F, ill, {"MapLookup"})>>,
     <<"T_StringLookup", OfKinds(F, ill, {"StringLookup"})>>,
     <<"T_RangeNext", OfKinds(F, ill, {"Range", "Next"})>>,
     <<"T_TypeAssert", OfKinds(F, ill, {"TypeAssert"})>>,
     <<"T_Extract", OfKinds(F, ill, {"Extract"})>>,
     <<"T_CallMode", Bad_T_CallMode(T, F)>>,
     <<"T_CallArgs", Bad_T_CallArgs(T, F)>>,
     <<"T_CallResult", Bad_T_CallResult(T, F)>>,
     <<"T_If", OfKinds(F, ill, {"If"})>>,
     <<"T_Return", OfKinds(F, ill, {"Return"})>>,
     <<"T_Panic", OfKinds(F, ill, {"Panic"})>>,
     <<"T_SendRecv", OfKinds(F, ill, {"Send", "Recv"})>>,
     <<"T_MapUpdate", OfKinds(F, ill, {"MapUpdate"})>>,
     <<"T_Select", OfKinds(F, ill, {"Select"})>>,
     <<"T_TypeSwitch", OfKinds(F, ill, {"TypeSwitch"})>> >>)

\* the failed conjuncts with their witnesses
Failed(T, F) == LET cs == Conjuncts(T, F) IN
                { k \in 1..Len(cs) : cs[k][2] # {} }
Wf(T, F)     == Failed(T, F) = {}
=============================================================================
