------------------------------ MODULE MCFixes ------------------------------
(***************************************************************************)
(* Small abstract universe for the laws of Fixes.tla: every file of        *)
(* <= MaxLines lines x <= MaxCols columns (all that matters to the splice  *)
(* is its size; byte i has value i so that every byte is identifiable),    *)
(* every well-formed fix of <= MaxEdits edits over it -- including         *)
(* insertions at the same point, empty replacements (deletions), touching  *)
(* edits, insertions at either end of a replacement -- with new texts of   *)
(* length 0, 1 and 2 that identify the edit.  The splice depends on the    *)
(* file's size only: two-edit fixes are taken over sizes <= MaxSize2,      *)
(* three-edit fixes over sizes <= MaxSize3 (7 bytes already realise every  *)
(* zero/non-zero pattern of the 7 gaps around 3 edits).  TLC explores      *)
(* every application order.                                                *)
(***************************************************************************)
EXTENDS Fixes

CONSTANTS MaxLines, MaxCols, MaxEdits, MaxSize2, MaxSize3, Texts3

LineTables == UNION { [1..n -> 0..MaxCols] : n \in 1..MaxLines }
Sizes      == { Size(lt) : lt \in LineTables }

ASSUME LineLaws == \A lt \in LineTables : PosBijection(lt)

Ident(n)    == [ i \in 1..n |-> i ]
\* new texts identify their edit; 3-edit fixes use Texts3 (<= 3) of the 3 shapes
NewTexts(i) == { <<>>, << 0 - i >>, << 0 - i, 0 - (10 + i) >> }
NT(i, k)    == IF k <= 2 THEN NewTexts(i) ELSE { t \in NewTexts(i) : Len(t) < Texts3 }
\* every in-bounds edit over a file of size n
E(n, i, k)  == UNION { { [s |-> a, e |-> b, new |-> nt] : b \in a..n, nt \in NT(i, k) } : a \in 0..n }

SizeBound(k) == IF k <= 1 THEN MaxLines * (MaxCols + 1) ELSE IF k = 2 THEN MaxSize2 ELSE MaxSize3

Init ==
  \E n \in Sizes : \E k \in 0..MaxEdits :
     /\ n <= SizeBound(k)
     /\ CASE k = 0 -> Load(Ident(n), << >>)
          [] k = 1 -> \E a \in E(n, 1, k) : Load(Ident(n), <<a>>)
          [] k = 2 -> \E a \in E(n, 1, k) : \E b \in E(n, 2, k) :
                        Disjoint(a, b) /\ Load(Ident(n), <<a, b>>)
          [] k = 3 -> \E a \in E(n, 1, k) : \E b \in E(n, 2, k) :
                        /\ Disjoint(a, b)
                        /\ \E c \in E(n, 3, k) :
                              Disjoint(a, c) /\ Disjoint(b, c) /\ Load(Ident(n), <<a, b, c>>)

\* every initial state is a well-formed fix (the antecedent of the laws is never vacuous)
InitWellFormed == WellFormed(Len(orig), edits)

Next == Apply

Spec == Init /\ [][Next]_fvars
=============================================================================
