\* quick: every rooted ordered digraph with <= 4 nodes, out-degree <= 2, with and without a recover leaf (recover only for <= 3 nodes);
\* definition self-check + LT transcription + CASE emission
SPECIFICATION Spec
CONSTANTS
  MaxNodes = 4
  Degs = {0, 1, 2}
  MaxSwitch = 0
  RecDegs = {0}
  RecMax = 3
  MaxRecNodes = 1
  EmitCases = TRUE
  DesignMax = 3
INVARIANTS DefinitionOK LTCorrect LawsDiscriminate Emit
CHECK_DEADLOCK FALSE
