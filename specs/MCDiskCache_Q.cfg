\* exhaustive (quick tier): 2 processes, 2+1 operations, 1 key, two 2-byte values, one environment fault + crashes
SPECIFICATION Spec
CONSTANTS
  NP <- A_NP
  NK <- A_NK
  VB <- A_VB
  MaxOps <- Q_MaxOps
  Roles <- A_Roles
  Faults <- A_Faults
  MaxFaults <- Q_MaxFaults
  TrimOrder <- A_Trim
  CrashCosts = FALSE
  Record = FALSE
INVARIANTS TypeOK LookupSoundBytes LookupSoundFileModTrimRace HitThenReadableModTrimRace SizeImpliesComplete IndexSound NoLeak
VIEW View
CHECK_DEADLOCK TRUE
