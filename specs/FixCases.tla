------------------------------ MODULE FixCases ------------------------------
(***************************************************************************)
(* Behaviour clause of C16: "for checks whose fix is an equivalent rewrite *)
(* (simplification and quick-fix categories), applying it does not change  *)
(* the results, panics or visible effects of the affected function".        *)
(*                                                                         *)
(* The space of programs is not enumerable by TLC at the level of Go       *)
(* source.  What this module fixes is one level up:                        *)
(*  (a) the abstract case space  shape x operand effects x context         *)
(*      (Cases), enumerated exhaustively by TLC; the harness instantiates  *)
(*      every case as an executable Go function (templates keyed by the    *)
(*      shape id) whose operands are built from the effect names:          *)
(*      a "call"/"pcall" operand calls an emit-function, so the number and *)
(*      order of its evaluations is observable; "or"/"and"/"cmp"/"add"/... *)
(*      are compound operands that expose precedence loss when a rewritten *)
(*      expression is spliced into a context;                               *)
(*  (b) the relation that must hold between the observation tables of the  *)
(*      original and of the fixed function (Equiv / Preserved), and a      *)
(*      classification of a failure (Classify) that keys the finding.      *)
(* An observation is what one execution on one input vector shows:         *)
(*   [ret |-> rendered results + final state, pan |-> "" or panic class,   *)
(*    emits |-> sequence of operand ids in evaluation order].              *)
(***************************************************************************)
EXTENDS Integers, Sequences, FiniteSets, TLC, Json

CONSTANTS
  Shapes,      \* set of [id, check, slots : Seq([kind, allow : set of effect names])], ctxs : set of STRING]
  MaxCases     \* sanity bound on the number of cases per shape

VARIABLE cs

EffVectors(s) ==
  LET n == Len(s.slots)
  IN  { ev \in [1..n -> UNION { s.slots[i].allow : i \in 1..n }] :
          \A i \in 1..n : ev[i] \in s.slots[i].allow }

CasesOf(s) == { [shape |-> s.id, check |-> s.check, effects |-> ev, ctx |-> c] :
                  ev \in EffVectors(s), c \in s.ctxs }
Cases == UNION { CasesOf(s) : s \in Shapes }

ASSUME Sane == \A s \in Shapes : Cardinality(CasesOf(s)) \in 1..MaxCases

Init == cs \in Cases
Next == UNCHANGED cs
Spec == Init /\ [][Next]_cs

EmitCase == PrintT("CASE " \o ToJson(cs))

-----------------------------------------------------------------------------
(* The relation.                                                            *)
Equiv(a, b) == a.ret = b.ret /\ a.pan = b.pan /\ a.emits = b.emits

Preserved(orig, fixed) ==
  /\ Len(orig) = Len(fixed)
  /\ \A v \in 1..Len(orig) : Equiv(orig[v], fixed[v])

Count(seq, k) == Cardinality({ i \in 1..Len(seq) : seq[i] = k })
Ids(seq)      == { seq[i] : i \in 1..Len(seq) }

\* why two observations differ -- the most specific reason first
Classify(a, b) ==
  IF Equiv(a, b) THEN "ok"
  ELSE IF \E k \in Ids(a.emits) \cup Ids(b.emits) : Count(b.emits, k) > Count(a.emits, k)
       THEN "operand evaluated more often"
  ELSE IF \E k \in Ids(a.emits) : Count(b.emits, k) < Count(a.emits, k)
       THEN "operand evaluated less often"
  ELSE IF a.emits # b.emits THEN "evaluation order changed"
  ELSE IF a.pan # b.pan THEN (IF a.pan = "" THEN "panic introduced" ELSE IF b.pan = "" THEN "panic removed" ELSE "panic changed")
  ELSE "result changed"

FirstDiff(orig, fixed) ==
  IF Len(orig) # Len(fixed) THEN 0
  ELSE IF \A v \in 1..Len(orig) : Equiv(orig[v], fixed[v]) THEN 0
  ELSE CHOOSE v \in 1..Len(orig) : ~Equiv(orig[v], fixed[v]) /\ \A w \in 1..(v - 1) : Equiv(orig[w], fixed[w])
=============================================================================
