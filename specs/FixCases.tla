------------------------------ MODULE FixCases ------------------------------
(***************************************************************************)
(* Behaviour clause of C16: "for checks whose fix is an equivalent rewrite *)
(* (simplification and quick-fix categories), applying it does not change  *)
(* the results, panics or visible effects of the affected function".        *)
(*                                                                         *)
(* The space of programs is not enumerable by TLC at the level of Go       *)
(* source.  What this module fixes is one level up:                        *)
(*  (a) the abstract case space                                            *)
(*        shape x operand effects x context x occurrence variation         *)
(*      (Cases), enumerated exhaustively by TLC; the harness instantiates  *)
(*      every case as an executable Go function (templates keyed by the    *)
(*      shape id) whose operands are built from the effect names:          *)
(*      a "call"/"pcall" operand calls an emit-function, so the number and *)
(*      order of its evaluations is observable; "or"/"and"/"cmp"/"add"/... *)
(*      are compound operands that expose precedence loss when a rewritten *)
(*      expression is spliced into a context;                               *)
(*  (b) the relation that must hold between the observation tables of the  *)
(*      original and of the fixed function (Equiv / Preserved), and a      *)
(*      classification of a failure (Classify) that keys the finding.      *)
(* An observation is what one execution on one input vector shows:         *)
(*   [ret |-> rendered results + final state, pan |-> "" or panic class,   *)
(*    emits |-> sequence of operand ids in evaluation order].              *)
(*                                                                         *)
(* Occurrence variation.  Many trigger shapes require several              *)
(* sub-expressions to be "the same" (a repeated metavariable: the tag of   *)
(* every condition of an if/else-if chain, map and key of a guarded        *)
(* delete, the slice that is ranged over and indexed, ...).  The checks    *)
(* decide "the same" syntactically (astutil.Equal, the pattern matcher's   *)
(* recall of a binding, types.Object identity), so the *matching           *)
(* condition* is part of what makes the rewrite equivalent.  A case        *)
(* therefore also says how the occurrences of one repeated metavariable    *)
(* are instantiated:                                                        *)
(*   occ = [mv |-> "", var |-> "same", at |-> 0]   all occurrences of all  *)
(*         metavariables are the identical expression (the base cases);    *)
(*   occ = [mv |-> m, var |-> v, at |-> a]   the a-th variable occurrence  *)
(*         of metavariable m carries the *near-equal variant* v of the     *)
(*         expression that all its other occurrences carry: syntactically  *)
(*         different, looks alike (swapped operands of + - * & | ^ == !=,  *)
(*         redundant parentheses, another spelling of a literal, x / x+0,  *)
(*         another index / field / base / element, another identifier).    *)
(* The expectation does not depend on occ: whatever fix the analyzer       *)
(* offers for the instantiated function must be Preserved.  (If the check  *)
(* does not fire on a variant there is nothing to judge.)                  *)
(***************************************************************************)
EXTENDS Integers, Sequences, FiniteSets, TLC, Json

CONSTANTS
  Shapes,      \* set of [id, check, slots : Seq([kind, allow : set of effect names]), ctxs : set of STRING,
               \*         reps : Seq([mv, kind, n, slot, vars])]
  MaxCases     \* sanity bound on the number of cases per shape

VARIABLE cs

-----------------------------------------------------------------------------
(* Near-equal variants, by the kind of the repeated metavariable.           *)
(*   paren      e          / (e)                                            *)
(*   swapAdd..  a OP b     / b OP a      OP in + - * & | ^  (ints),         *)
(*   swapCat    a + b      / b + a       strings: + is not commutative      *)
(*   swapEq/Ne  (a == b)   / (b == a)    bool-valued metavariable           *)
(*   swapCall   f() OP g() / g() OP f()  order of evaluation is observable  *)
(*   lit        e OP 1     / e OP 0x1    ("a" / "\x61"): same value         *)
(*   plus0      e          / e + 0       (e + "")                           *)
(*   index      a[0]       / a[1]        different index of the same base   *)
(*   field      p.A        / p.B         different field of the same base   *)
(*   base       p.A        / q.A         same field of a different base     *)
(*   elt        T{e, 1}[1] / T{e, 2}[1]  composite literals, one element    *)
(*   ident      x          / y           another variable of the same type  *)
IntVars  == {"paren", "swapAdd", "swapSub", "swapMul", "swapAnd", "swapOr", "swapXor", "swapCall",
             "lit", "plus0", "index", "field", "base", "elt"}
StrVars  == {"paren", "swapCat", "swapCall", "lit", "plus0", "index", "field", "base", "elt"}
BoolVars == {"paren", "swapEq", "swapNe", "swapCall", "index", "field", "base"}
MapVars  == {"paren", "index", "lit", "field", "base"}
SlVars   == {"paren", "index", "lit", "field", "base", "elt"}
IdVars   == {"paren", "ident"}

VarsOf(kind) ==
  CASE kind = "int"  -> IntVars
    [] kind = "str"  -> StrVars
    [] kind = "bool" -> BoolVars
    [] kind = "map"  -> MapVars
    [] kind = "sl"   -> SlVars \cup {"ident"}
    [] kind = "id"   -> IdVars

Variations == UNION { VarsOf(k) : k \in {"int", "str", "bool", "map", "sl", "id"} }

Same == [mv |-> "", var |-> "same", at |-> 0]

-----------------------------------------------------------------------------
EffVectors(s) ==
  LET n == Len(s.slots)
  IN  { ev \in [1..n -> UNION { s.slots[i].allow : i \in 1..n }] :
          \A i \in 1..n : ev[i] \in s.slots[i].allow }

BaseCasesOf(s) == { [shape |-> s.id, check |-> s.check, effects |-> ev, ctx |-> c, occ |-> Same] :
                      ev \in EffVectors(s), c \in s.ctxs }

(* Operand effects of a variation case.  A metavariable that is one of the  *)
(* shape's operand slots (r.slot > 0) is instantiated by the variation, not *)
(* by an effect: its slot is pinned to "var".  The other slots range over   *)
(* their side-effect free effects (a call operand only makes the checks     *)
(* refuse; that is covered by the base cases).                              *)
Plain == {"var", "lit"}
OccAllow(s, r, i) ==
  IF i = r.slot THEN {"var"}
  ELSE IF s.slots[i].allow \cap Plain # {} THEN s.slots[i].allow \cap Plain
  ELSE s.slots[i].allow

OccVectors(s, r) ==
  LET n == Len(s.slots)
  IN  { ev \in [1..n -> UNION { s.slots[i].allow : i \in 1..n }] :
          \A i \in 1..n : ev[i] \in OccAllow(s, r, i) }

\* occurrence variations are explored in the plain statement context when the shape has one (the
\* contexts with jumps vary the surroundings of the chain, not its operands)
OccCtxs(s) == IF "stmt" \in s.ctxs THEN {"stmt"} ELSE s.ctxs

OccCasesOfRep(s, r) ==
  { [shape |-> s.id, check |-> s.check, effects |-> ev, ctx |-> c,
     occ |-> [mv |-> r.mv, var |-> v, at |-> a]] :
      v \in r.vars, a \in 1..r.n, ev \in OccVectors(s, r), c \in OccCtxs(s) }

OccCasesOf(s) == UNION { OccCasesOfRep(s, s.reps[j]) : j \in 1..Len(s.reps) }

CasesOf(s) == BaseCasesOf(s) \cup OccCasesOf(s)
Cases == UNION { CasesOf(s) : s \in Shapes }

RepOK(s, r) ==
  /\ r.n >= 1
  /\ r.slot \in 0..Len(s.slots)
  /\ r.slot > 0 => "var" \in s.slots[r.slot].allow
  /\ r.vars # {} /\ r.vars \subseteq VarsOf(r.kind)

ASSUME Sane ==
  \A s \in Shapes :
    /\ Cardinality(CasesOf(s)) \in 1..MaxCases
    /\ \A j \in 1..Len(s.reps) : RepOK(s, s.reps[j])
    /\ \A i, j \in 1..Len(s.reps) : s.reps[i].mv = s.reps[j].mv => i = j

Init == cs \in Cases
Next == UNCHANGED cs
Spec == Init /\ [][Next]_cs

EmitCase == PrintT("CASE " \o ToJson(cs))

\* a case is either a base case or names one variant occurrence of one repeated metavariable of its shape
OccOK ==
  \/ cs.occ = Same
  \/ /\ cs.occ.var \in Variations /\ cs.occ.at >= 1
     /\ \E s \in Shapes : s.id = cs.shape /\ \E j \in 1..Len(s.reps) :
          s.reps[j].mv = cs.occ.mv /\ cs.occ.var \in s.reps[j].vars /\ cs.occ.at <= s.reps[j].n

-----------------------------------------------------------------------------
(* The relation.                                                            *)
Equiv(a, b) == a.ret = b.ret /\ a.pan = b.pan /\ a.emits = b.emits

Preserved(orig, fixed) ==
  /\ Len(orig) = Len(fixed)
  /\ \A v \in 1..Len(orig) : Equiv(orig[v], fixed[v])

Count(seq, k) == Cardinality({ i \in 1..Len(seq) : seq[i] = k })
Ids(seq)      == { seq[i] : i \in 1..Len(seq) }

\* why two observations differ -- the most specific reason first
Classify(a, b) ==
  IF Equiv(a, b) THEN "ok"
  ELSE IF \E k \in Ids(a.emits) \cup Ids(b.emits) : Count(b.emits, k) > Count(a.emits, k)
       THEN "operand evaluated more often"
  ELSE IF \E k \in Ids(a.emits) : Count(b.emits, k) < Count(a.emits, k)
       THEN "operand evaluated less often"
  ELSE IF a.emits # b.emits THEN "evaluation order changed"
  ELSE IF a.pan # b.pan THEN (IF a.pan = "" THEN "panic introduced" ELSE IF b.pan = "" THEN "panic removed" ELSE "panic changed")
  ELSE "result changed"

FirstDiff(orig, fixed) ==
  IF Len(orig) # Len(fixed) THEN 0
  ELSE IF \A v \in 1..Len(orig) : Equiv(orig[v], fixed[v]) THEN 0
  ELSE CHOOSE v \in 1..Len(orig) : ~Equiv(orig[v], fixed[v]) /\ \A w \in 1..(v - 1) : Equiv(orig[w], fixed[w])
=============================================================================
