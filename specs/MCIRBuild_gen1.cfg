\* generation (R): 2 package builders x 1 shared function (with and without self-reference):
\* every complete behaviour is printed (history kept, no VIEW)
SPECIFICATION MCSpec
CONSTANTS
  Builders = {1, 2}
  PkgBuilders = {1, 2}
  Shared = {1}
  Callers = {}
  RelaxedReads = FALSE
  FnMode = "sorted"
  RootMode = "nonemptysorted"
  GenMode = TRUE
INVARIANTS BuiltAtReturn Emit
CHECK_DEADLOCK FALSE
