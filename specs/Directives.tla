----------------------------- MODULE Directives -----------------------------
(***************************************************************************)
(* Linter directives (property C10).                                       *)
(*                                                                         *)
(* Oracle of website/content/docs/configuration/_index.md ("Ignoring       *)
(* problems with linter directives") and of the property text:             *)
(*   - //lint:ignore C1[,C2...] reason  suppresses exactly the problems    *)
(*     whose check matches one of the (glob, case-insensitive) names and   *)
(*     that are reported on the line of the code the comment is attached   *)
(*     to, in the same file;                                               *)
(*   - //lint:file-ignore does the same for its whole file;                *)
(*   - everything else is reported unchanged, U1000 aside: an object whose *)
(*     declaration is ignored counts as used, and so does everything that  *)
(*     is reachable only through it;                                       *)
(*   - a line directive that suppresses nothing is itself reported unless  *)
(*     it only names disabled checks or U1000; file directives never are;  *)
(*   - a directive without a reason is an error and suppresses nothing.    *)
(*                                                                         *)
(* Implementation counterparts: analysis/lint.ParseDirectives (attachment, *)
(* taken from go/ast.CommentMap and given here as the constant Attach),    *)
(* lintcmd/directives.go parseDirectives, lintcmd/lint.go filterIgnored /  *)
(* lineIgnore.match / fileIgnore.match / couldHaveMatched, and the ignore  *)
(* handling inside unused/unused.go.                                       *)
(*                                                                         *)
(* State machine: a source file with fixed problem sites and comment slots *)
(* receives directives one at a time (<= MaxDirs).  Every reachable state  *)
(* is one file; the laws are invariants / action properties over all of    *)
(* them and Emit prints each file with the report the property prescribes. *)
(***************************************************************************)
EXTENDS Integers, Sequences, FiniteSets, TLC, Json

CONSTANTS
  Universe,     \* all check names known to the linter (character sequences, upper case)
  Confs,        \* set of configuration names
  Enabled,      \* conf -> subset of Universe
  U1000,        \* the name of the unused-code check
  Slots,        \* comment slots of the fixture file
  Attach,       \* slot -> line of the node the comment is attached to (go/ast.CommentMap)
  OwnLine,      \* slot -> line of the comment itself
  Problems,     \* set of [line, check] : the problems of one fixture file when every check is enabled
  Objects,      \* set of [line, uses : set of lines] : unused objects and the unused objects they use
  First,        \* set of directives that may be placed first
  Second,       \* set of directives that may be placed second
  MaxDirs

VARIABLES conf, dirs
vars == <<conf, dirs>>

\* a directive: [slot, kind \in {"ignore","file-ignore","unknown"}, names : Seq(name), reason : BOOLEAN]

-----------------------------------------------------------------------------
(* Characters, case folding, shell-style globs *)
UpperSeq == <<"A","B","C","D","E","F","G","H","I","J","K","L","M",
              "N","O","P","Q","R","S","T","U","V","W","X","Y","Z">>
LowerSeq == <<"a","b","c","d","e","f","g","h","i","j","k","l","m",
              "n","o","p","q","r","s","t","u","v","w","x","y","z">>
Chars == { UpperSeq[i] : i \in 1..26 } \cup { LowerSeq[i] : i \in 1..26 }
           \cup {"0","1","2","3","4","5","6","7","8","9","*"}
LowerF == [c \in Chars |-> IF \E i \in 1..26 : UpperSeq[i] = c
                           THEN LowerSeq[CHOOSE i \in 1..26 : UpperSeq[i] = c] ELSE c]
Fold(s) == [i \in 1..Len(s) |-> LowerF[s[i]]]
Str(s) == LET f[k \in 0..Len(s)] == IF k = 0 THEN "" ELSE f[k-1] \o s[k] IN f[Len(s)]

\* p matches s, where "*" in p stands for any (possibly empty) sequence of characters
GlobDef(p, s) ==
  LET m[i \in 1..(Len(p)+1), j \in 1..(Len(s)+1)] ==
        IF i > Len(p) THEN j > Len(s)
        ELSE IF p[i] = "*" THEN m[i+1, j] \/ (j <= Len(s) /\ m[i, j+1])
        ELSE j <= Len(s) /\ p[i] = s[j] /\ m[i+1, j+1]
  IN m[1, 1]

AllDirectives == First \cup Second
NameUniverse == UNION { { d.names[i] : i \in 1..Len(d.names) } : d \in AllDirectives }
FoldedNames  == NameUniverse \cup { Fold(n) : n \in NameUniverse }
\* tabulated once: which checks a name denotes (case-insensitively)
Denotes == [ n \in FoldedNames |-> { c \in Universe : GlobDef(Fold(n), Fold(c)) } ]
NameMatches(n, c) == c \in Denotes[n]
NamesMatch(ns, c) == \E i \in 1..Len(ns) : NameMatches(ns[i], c)

-----------------------------------------------------------------------------
(* State machine *)
SlotsOf(ds) == { ds[i].slot : i \in 1..Len(ds) }

Init == conf \in Confs /\ dirs = <<>>

Place(d) ==
  /\ Len(dirs) < MaxDirs
  /\ d.slot \notin SlotsOf(dirs)
  /\ IF Len(dirs) = 0 THEN d \in First ELSE d \in Second
  /\ dirs' = Append(dirs, d)
  /\ UNCHANGED conf

Next == \E d \in AllDirectives : Place(d)
Spec == Init /\ [][Next]_vars

-----------------------------------------------------------------------------
(* The oracle, parametrised by the directive list so that laws can be stated *)
WellFormed(d) == d.kind \in {"ignore", "file-ignore"} /\ d.reason
Malformed(d)  == d.kind \in {"ignore", "file-ignore"} /\ ~d.reason

En(cf) == Enabled[cf]
Present(cf) == { p \in Problems : p.check \in En(cf) }

\* directive d covers problem p of its own file
Covers(d, p) ==
  /\ WellFormed(d)
  /\ NamesMatch(d.names, p.check)
  /\ d.kind = "file-ignore" \/ p.line = Attach[d.slot]

\* U1000: objects whose declaration is covered count as used; use propagates
IgnoredObjs(ds) ==
  { o \in Objects : \E i \in 1..Len(ds) : Covers(ds[i], [line |-> o.line, check |-> U1000]) }
UsedObjs(ds) ==
  LET step(S) == S \cup { o \in Objects : \E u \in S : o.line \in u.uses }
      f[k \in 0..Cardinality(Objects)] == IF k = 0 THEN IgnoredObjs(ds) ELSE step(f[k-1])
  IN f[Cardinality(Objects)]
\* U1000 problems that are not reported at all (not even as ignored)
Vanished(cf, ds) ==
  { p \in Present(cf) : p.check = U1000 /\ \E o \in UsedObjs(ds) : o.line = p.line }

\* problems shown only with -show-ignored, with severity "ignored"
Suppressed(cf, ds) ==
  { p \in Present(cf) : p.check # U1000 /\ \E i \in 1..Len(ds) : Covers(ds[i], p) }
\* problems reported as usual
Remaining(cf, ds) == (Present(cf) \ Suppressed(cf, ds)) \ Vanished(cf, ds)

\* "unless it only names disabled checks or U1000"
NamesEnabledCheck(cf, d) ==
  \E i \in 1..Len(d.names) : \E c \in En(cf) : c # U1000 /\ NameMatches(d.names[i], c)

\* "yes": must be reported as not matching anything; "no": must not; "either": the property
\* does not decide (the directive's only effect is on U1000, whose matching is not local)
Unmatched(cf, ds, d) ==
  IF d.kind # "ignore" \/ ~WellFormed(d) THEN "no"
  ELSE IF \E p \in Present(cf) : p.check # U1000 /\ Covers(d, p) THEN "no"
  ELSE IF ~NamesEnabledCheck(cf, d) THEN "no"
  ELSE IF \E p \in Present(cf) : p.check = U1000 /\ Covers(d, p) THEN "either"
  ELSE "yes"

Extras(cf, ds) ==
  { [cat |-> "compile", line |-> Attach[ds[i].slot], own |-> OwnLine[ds[i].slot], must |-> "yes"] :
       i \in { j \in 1..Len(ds) : Malformed(ds[j]) } }
  \cup
  { [cat |-> "staticcheck", line |-> OwnLine[ds[i].slot], own |-> OwnLine[ds[i].slot], must |-> Unmatched(cf, ds, ds[i])] :
       i \in { j \in 1..Len(ds) : Unmatched(cf, ds, ds[j]) # "no" } }

-----------------------------------------------------------------------------
(* Laws *)

\* exactly what is named and attached is suppressed; everything else is reported unchanged
LawFrame ==
  /\ Suppressed(conf, dirs) \cup Remaining(conf, dirs) \cup Vanished(conf, dirs) = Present(conf)
  /\ Suppressed(conf, dirs) \cap Remaining(conf, dirs) = {}
  /\ \A p \in Present(conf) : p.check # U1000 =>
        ( p \in Remaining(conf, dirs) <=>
            ~\E i \in 1..Len(dirs) :
                 /\ dirs[i].kind \in {"ignore", "file-ignore"} /\ dirs[i].reason
                 /\ \E k \in 1..Len(dirs[i].names) : GlobDef(Fold(dirs[i].names[k]), Fold(p.check))
                 /\ (dirs[i].kind = "ignore" => Attach[dirs[i].slot] = p.line) )

\* a directive without reason or with an unknown command changes nothing but the extra diagnostics
Inert(d) == ~WellFormed(d)
DropInert(ds) == SelectSeq(ds, LAMBDA d : ~Inert(d))
LawMalformedInert ==
  /\ Suppressed(conf, DropInert(dirs)) = Suppressed(conf, dirs)
  /\ Remaining(conf, DropInert(dirs)) = Remaining(conf, dirs)
  /\ \A i \in 1..Len(dirs) : Malformed(dirs[i]) =>
        \E e \in Extras(conf, dirs) : e.cat = "compile" /\ e.own = OwnLine[dirs[i].slot]

\* the order of the names in a directive and their case are irrelevant
Reverse(s) == [i \in 1..Len(s) |-> s[Len(s) + 1 - i]]
MapNames(ds, F(_)) == [i \in 1..Len(ds) |-> [ds[i] EXCEPT !.names = F(@)]]
FoldAll(ns) == [i \in 1..Len(ns) |-> Fold(ns[i])]
Report(cf, ds) == <<Suppressed(cf, ds), Remaining(cf, ds), Extras(cf, ds)>>
LawNameOrderIrrelevant == Report(conf, MapNames(dirs, Reverse)) = Report(conf, dirs)
LawCaseIrrelevant      == Report(conf, MapNames(dirs, FoldAll)) = Report(conf, dirs)

\* the order in which the directives were added is irrelevant
LawDirectiveOrderIrrelevant ==
  Len(dirs) = 2 => Report(conf, <<dirs[2], dirs[1]>>) = Report(conf, dirs)

\* file directives are never reported; directives naming only disabled checks or U1000 neither
LawNeverReported ==
  \A i \in 1..Len(dirs) :
     (dirs[i].kind = "file-ignore" \/ ~NamesEnabledCheck(conf, dirs[i])) => Unmatched(conf, dirs, dirs[i]) = "no"

\* U1000: ignoring an object makes what it uses used as well, and nothing else
LawUnusedClosure ==
  \A o \in Objects :
     o \in UsedObjs(dirs) <=>
        \/ o \in IgnoredObjs(dirs)
        \/ \E u \in UsedObjs(dirs) : o.line \in u.uses

\* adding a directive never brings a problem back and never adds a check problem
Monotone ==
  [][ /\ Suppressed(conf, dirs) \subseteq Suppressed(conf', dirs')
      /\ Remaining(conf', dirs') \subseteq Remaining(conf, dirs) ]_vars

-----------------------------------------------------------------------------
(* Emission *)
NamesStr(ns) == [i \in 1..Len(ns) |-> Str(ns[i])]
ProbOut(S) == { [line |-> p.line, check |-> Str(p.check)] : p \in S }
Emit ==
  PrintT("CASE " \o ToJson(
    [ conf |-> conf,
      dirs |-> IF Len(dirs) = 0 THEN <<>> ELSE
               [ i \in 1..Len(dirs) |-> [ slot |-> dirs[i].slot, kind |-> dirs[i].kind,
                                          names |-> NamesStr(dirs[i].names), reason |-> dirs[i].reason ] ],
      remaining |-> ProbOut(Remaining(conf, dirs)),
      ignored   |-> ProbOut(Suppressed(conf, dirs)),
      vanished  |-> ProbOut(Vanished(conf, dirs)),
      extras    |-> Extras(conf, dirs) ]))
=============================================================================
