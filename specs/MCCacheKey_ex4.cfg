\* as ex3 with <= 4 actions
SPECIFICATION Spec
CONSTANTS
  MaxLen = 4
  RunPatterns <- MCRunPatterns
  EditPkgs <- MCEditPkgs
  TouchPkgs <- MCTouchPkgs
  ConfLevels <- MCConfLevels
  FlagNames <- MCFlagNames
  EmitRuns = TRUE
  EmitKeys = FALSE
  StaticCheck = FALSE
  KeyMode = "full"
VIEW View
INVARIANTS TypeOK Transparent HitOnlyIfSameInputs CacheKeyFunctional
CHECK_DEADLOCK FALSE
