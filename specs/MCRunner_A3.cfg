\* exhaustive: every package DAG on family A3 (safety + deadlock)
SPECIFICATION Spec
CONSTANTS
  GraphAt <- MCGraphAt
  NGraphs <- MCNGraphs
  Family = "A3"
  InlineAnytime = FALSE
  SemGuard = TRUE
  TrackResults = TRUE
INVARIANTS TypeOK ExecAfterDeps ExactlyOnce SemBound NoSpuriousFailure FailurePropagates
  ResultIsFunctionOfGraph NoSendOnClosed SendNeverBlocks InlineUnderPackageToken
CHECK_DEADLOCK TRUE
