------------------------------ MODULE Lattices ------------------------------
(***************************************************************************)
(* Finite join-semilattices used by the dataflow solvers (property C13),   *)
(* their laws, the monotone functions over them, and the pointwise map /   *)
(* dense-map liftings of analysis/dfa/lattice.go.                          *)
(*                                                                         *)
(* Every lattice is coded over 0..(size-1) with 0 the identity of Merge    *)
(* (dfa.Semilattice.Ident) and Merge given as a table, so that all facts   *)
(* are integers of one kind:                                               *)
(*   chain2   0 < 1                          Merge = max                   *)
(*   chain3   0 < 1 < 2                      Merge = max                   *)
(*   pow2     subsets of {a,b} as bit sets   Merge = bitwise or            *)
(*   nil5     the nilness lattice of analysis/facts/nilness: 0 = no        *)
(*            information, 1 NeverNil, 2 AlwaysNil, 3 MaybeNilGlobal,      *)
(*            4 MaybeNil (the table below is the SPEC's; the table dumped  *)
(*            from the real code is compared with it and put through the   *)
(*            same laws by LatticeObs).                                    *)
(***************************************************************************)
EXTENDS Integers, Sequences, FiniteSets, TLC

Max(a, b) == IF a >= b THEN a ELSE b

Nil5Table ==
  << <<0, 1, 2, 3, 4>>,     \* 0  (identity)
     <<1, 1, 4, 3, 4>>,     \* 1  NeverNil
     <<2, 4, 2, 4, 4>>,     \* 2  AlwaysNil
     <<3, 3, 4, 3, 4>>,     \* 3  MaybeNilGlobal
     <<4, 4, 4, 4, 4>> >>   \* 4  MaybeNil

Pow2Table ==
  << <<0, 1, 2, 3>>, <<1, 1, 3, 3>>, <<2, 3, 2, 3>>, <<3, 3, 3, 3>> >>

\* flat7: the constant-propagation lattice of the sparse binding: 0 bottom, 1..5 constants, 6 top
LatNames == {"chain2", "chain3", "pow2", "nil5", "flat7"}
Size(l) == CASE l = "chain2" -> 2 [] l = "chain3" -> 3 [] l = "pow2" -> 4 [] l = "nil5" -> 5 [] l = "flat7" -> 7
Elems(l) == 0..(Size(l) - 1)
Bot == 0
Join(l, a, b) ==
  CASE l = "chain2" -> Max(a, b)
    [] l = "chain3" -> Max(a, b)
    [] l = "pow2"   -> Pow2Table[a + 1][b + 1]
    [] l = "nil5"   -> Nil5Table[a + 1][b + 1]
    [] l = "flat7"  -> IF a = 0 THEN b ELSE IF b = 0 THEN a ELSE IF a = b THEN a ELSE 6
Leq(l, a, b) == Join(l, a, b) = b

\* the laws of dfa.Semilattice over an arbitrary carrier / merge / identity
Assoc(E, M(_, _))        == \A x, y, z \in E : M(x, M(y, z)) = M(M(x, y), z)
Comm(E, M(_, _))         == \A x, y \in E : M(x, y) = M(y, x)
Idem(E, M(_, _))         == \A x \in E : M(x, x) = x
Identity(E, M(_, _), id) == \A x \in E : M(x, id) = x /\ M(id, x) = x
Closed(E, M(_, _))       == \A x, y \in E : M(x, y) \in E
SemilatticeLaws(E, M(_, _), id) ==
  Closed(E, M) /\ Assoc(E, M) /\ Comm(E, M) /\ Idem(E, M) /\ Identity(E, M, id)

LatticeOK(l) == LET M(a, b) == Join(l, a, b) IN SemilatticeLaws(Elems(l), M, Bot)

-----------------------------------------------------------------------------
(* Monotone unary functions, as tables: f[x + 1] is the image of x.        *)

FnTables(l) == [ 1..Size(l) -> Elems(l) ]
IsMonotone(l, f) == \A x, y \in Elems(l) : Leq(l, x, y) => Leq(l, f[x + 1], f[y + 1])
MonoFns(l) == { f \in FnTables(l) : IsMonotone(l, f) }
Apply(f, x) == f[x + 1]
IdFn(l) == [ i \in 1..Size(l) |-> i - 1 ]
ConstFn(l, c) == [ i \in 1..Size(l) |-> c ]

\* join of a sequence of facts, in order (what repeated Merge computes)
RECURSIVE JoinSeq(_, _)
JoinSeq(l, s) == IF s = <<>> THEN Bot ELSE Join(l, Head(s), JoinSeq(l, Tail(s)))
RECURSIVE JoinSet(_, _)
JoinSet(l, S) == IF S = {} THEN Bot ELSE LET x == CHOOSE y \in S : TRUE IN Join(l, x, JoinSet(l, S \ {x}))

-----------------------------------------------------------------------------
(* dfa.MapLattice[Key, Elem, L]: finite maps; a missing key is L's         *)
(* identity and the identity never appears as a value.  Modelled as total  *)
(* functions Keys -> Elems(l) (0 = missing).                               *)

MapElems(l, Keys) == [ Keys -> Elems(l) ]
MapMerge(l, a, b) == [ k \in DOMAIN a |-> Join(l, a[k], b[k]) ]
MapIdent(Keys)    == [ k \in Keys |-> Bot ]
MapLatticeOK(l, Keys) ==
  LET M(a, b) == MapMerge(l, a, b) IN SemilatticeLaws(MapElems(l, Keys), M, MapIdent(Keys))

(* dfa.DenseMapLattice[Elem, L]: slices; the identity may appear, a        *)
(* shorter slice is implicitly padded with it.  A representation is any    *)
(* sequence of length <= MaxLen; the element it denotes is the sequence    *)
(* with trailing identities removed; Equals compares denotations.          *)

RECURSIVE Strip(_)
Strip(s) == IF s = <<>> THEN s ELSE IF s[Len(s)] = Bot THEN Strip(SubSeq(s, 1, Len(s) - 1)) ELSE s
DenseReps(l, MaxLen) == UNION { [ 1..k -> Elems(l) ] : k \in 0..MaxLen }
At(s, k) == IF k <= Len(s) THEN s[k] ELSE Bot
DenseMergeRep(l, a, b) == [ k \in 1..Max(Len(a), Len(b)) |-> Join(l, At(a, k), At(b, k)) ]
DenseEquals(a, b) == Strip(a) = Strip(b)
\* the laws hold up to Equals on every representation
DenseLatticeOK(l, MaxLen) ==
  LET R == DenseReps(l, MaxLen)
      M(a, b) == DenseMergeRep(l, a, b)
  IN  /\ \A x, y \in R : M(x, y) \in R
      /\ \A x, y, z \in R : DenseEquals(M(x, M(y, z)), M(M(x, y), z))
      /\ \A x, y \in R : DenseEquals(M(x, y), M(y, x))
      /\ \A x \in R : DenseEquals(M(x, x), x)
      /\ \A x \in R : DenseEquals(M(x, <<>>), x) /\ DenseEquals(M(<<>>, x), x)
      \* Equals is a congruence for Merge
      /\ \A x, y, z \in R : DenseEquals(x, y) => DenseEquals(M(x, z), M(y, z))
=============================================================================
