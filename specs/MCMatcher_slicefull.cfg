\* thorough tier: absent optional children -- the larger slice pattern / tree families
SPECIFICATION SpecSliceFull
CONSTANTS
  Names <- MCNames
  MergeMode = "union"
  NotMode = "frame"
  IdxMode = "name"
  PopMode = "delete"
  NilMode = "commaok"
INVARIANTS StaticWFSound OpEqualsDen VisibleIsSuccessfulPath ConsistentRecall NotLeavesNoBindings AtomicAlternatives Emit
CHECK_DEADLOCK FALSE
