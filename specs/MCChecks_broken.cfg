\* three directory levels + -checks with syntactically broken staticcheck.conf files, <= 2 atoms:
\* a broken file anywhere in the chain is a config error, whatever the other levels say
SPECIFICATION Spec
CONSTANTS
  Analyzers <- MCAnalyzers
  NonDefault <- MCNonDefault
  Atoms <- MCAtomsBroken
  CheckAtoms <- MCAtomsBroken
  FailAtoms <- NoLevels
  NLevels = 3
  GrowLevels <- AllLevels
  MaxTotal = 2
  MaxLen = 2
  MaxFail = 0
  AllowBroken = TRUE
  PkgKinds <- MCPkgKinds
  Pkg <- MCPkg
INVARIANTS LawLastWins LawAppendExact LawInheritIdentity LawOverride LawCaseInsensitive LawNormalizeNeutral LawCategoryGlob LawPrintedExact LawExit Emit
PROPERTIES FrameFail FrameChecks FrameAppend
CHECK_DEADLOCK FALSE
