\* generation: every graph of family H with its predicted result (replayed through the real runner.Run)
SPECIFICATION GenSpec
CONSTANTS
  GraphAt <- MCGraphAt
  NGraphs <- MCNGraphs
  Family = "Hq"
  InlineAnytime = FALSE
  SemGuard = TRUE
  TrackResults = TRUE
INVARIANT Emit
CHECK_DEADLOCK FALSE
