\* strict refinement of recorded runs with large graphs (real staticcheck: ~160 analyzers per package).
\* No INVARIANTS: TLC would print every state of the behaviour on a violation; the guards of the
\* actions imply them step by step and RunnerMon evaluates the property monitors on the same logs.
SPECIFICATION TSpec
CONSTANTS
  GraphAt <- TGraphAt
  NGraphs <- TNGraphs
  InlineAnytime = TRUE
  SemGuard = FALSE
  TrackResults = FALSE
CONSTRAINT HighWater
POSTCONDITION Accepted
CHECK_DEADLOCK FALSE
