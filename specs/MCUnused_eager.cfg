\* negative control: method sets processed at declaration time (order dependent) - Confluence must FAIL
SPECIFICATION Spec
CONSTANTS
  MaxObj = 6
  MaxEdge = 4
  MaxIface = 2
  KindSeq <- MCAllKinds
  RelSeq <- MCAllRels
  Build = TRUE
  SeedGraphs <- MCSeedsQuick
  ExKinds <- MCAllKindSet
  ThinFrom = 99
  ThinMod = 1
  Seed = 1
  NeedRoot = FALSE
  Eager = TRUE
INVARIANTS Confluence
CHECK_DEADLOCK FALSE
