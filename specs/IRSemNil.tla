------------------------------ MODULE IRSemNil ------------------------------
(***************************************************************************)
(* C15 — nilness facts are sound w.r.t. executions of the real IR.         *)
(*                                                                         *)
(* IRSem executes the function on every vector of the small domain         *)
(* (Doc.runs, enumerated by h-irsem nilexport: pointer-likes over {nil,    *)
(* fresh non-nil}, interfaces over {nil, typed nil pointer inside, non-nil *)
(* inside}, ints {0,1}, package-level pointer-like variables likewise).    *)
(* Runs[run].claims are the REAL analysis results (nilness.Result read by  *)
(* a probe analyzer through the real runner): per result [o, i] with       *)
(* 1 = NeverNil, 2 = AlwaysNil, 3 = MaybeNilGlobal, 4 = MaybeNil.          *)
(* Runs[run].nat is the nil-ness pattern the natively compiled function    *)
(* produced on the same vector.                                            *)
(***************************************************************************)
EXTENDS IRSem

PtrLike(v) == v.k \in {"ptr", "slice", "map", "func", "chan"}
IsNil(v) == IF v.k = "iface" THEN v.t = "" ELSE PtrLike(v) /\ v.i = 0

(* observed nil-ness of one result: o = 1 iff nil; i = 2 n/a, 1 iff the value held by a non-nil interface is nil *)
Pat(v) == [o |-> IF IsNil(v) THEN 1 ELSE 0,
           i |-> IF v.k = "iface" /\ v.t # "" THEN (IF IsNil(v.e[1]) THEN 1 ELSE 0) ELSE 2]

(* NilnessSound for one result: NeverNil => non-nil, AlwaysNil => nil, outer and (for interfaces) inner *)
Sound(claim, pat) ==
  /\ claim.o = 1 => pat.o = 0
  /\ claim.o = 2 => pat.o = 1
  /\ pat.i # 2 => /\ claim.i = 1 => pat.i = 0
                  /\ claim.i = 2 => pat.i = 1

NilnessSound ==
  st.s = "done" => \A j \in 1..Len(st.res) : Sound(Runs[run].claims[j], Pat(st.res[j]))

NilVerdict ==
  LET R == Runs[run] IN
  CASE st.s = "chk" -> "sa4023"
    [] st.s = "done" ->
         LET pats == [j \in 1..Len(st.res) |-> Pat(st.res[j])] IN
         IF ~NilnessSound THEN "unsound"
         ELSE IF R.nat.panic = 1 \/ R.nat.pat # pats THEN "natdiff"
         ELSE "ok"
    [] st.s = "panic" -> IF R.nat.panic = 1 THEN "ok" ELSE "natdiff"
    [] OTHER -> st.s

NilReport ==
  st.s = "run" \/
  PrintT("CASE " \o ToJson([run |-> run, v |-> NilVerdict, s |-> st.s, why |-> st.why, steps |-> steps,
                            pat |-> IF st.s = "done" THEN [j \in 1..Len(st.res) |-> Pat(st.res[j])] ELSE <<>>,
                            at |-> IF st.s \in {"stuck", "unsup", "chk"} /\ stk # <<>>
                                     THEN Progs[Runs[run].p].fns[stk[Len(stk)].f].name ELSE ""]))
=============================================================================
