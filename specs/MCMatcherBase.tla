--------------------------- MODULE MCMatcherBase ---------------------------
(* Constructors of abstract patterns / trees and the generation wrapper     *)
(* shared by the model modules of Matcher.tla.                              *)
EXTENDS Matcher, SequencesExt

MCNames  == {"x", "y"}
Idents   == {"a", "b"}

\* ---------------------------------------------------------------- constructors
PAny        == [k |-> "any"]
PStr(s)    == [k |-> "str", s |-> s]
Ref(n)     == [k |-> "ref", n |-> n]
Bind(n, s) == [k |-> "bind", n |-> n, sub |-> s]
PId(s)     == [k |-> "id", name |-> s]
PBinO(a, o, b) == [k |-> "bin", x |-> a, o |-> o, y |-> b]
PBin(a, b) == PBinO(a, PStr("+"), b)
PCall(f, l) == [k |-> "call", f |-> f, args |-> l]
PNil       == [k |-> "nil"]                   \* the empty-list pattern [] = (List nil nil)
PNull      == [k |-> "pnil"]                  \* the atom `nil` (pattern.Nil): matches an absent child
PSlice(a, lo, hi, mx) == [k |-> "slice", x |-> a, lo |-> lo, hi |-> hi, max |-> mx]
PCons(h, t) == [k |-> "cons", h |-> h, t |-> t]
Or2(a, b)  == [k |-> "or", alts |-> <<a, b>>]
Not(a)     == [k |-> "not", a |-> a]

TId(n)      == [k |-> "id", n |-> n]
TBinO(op, a, b) == [k |-> "bin", op |-> op, x |-> a, y |-> b]
TBin(a, b)  == TBinO("+", a, b)
TList(es)   == [k |-> "list", es |-> es]
TCall(f, es) == [k |-> "call", f |-> f, args |-> TList(es)]
\* s[lo:hi:max]; lo, hi, max are trees or Absent (s[:], s[lo:], s[:hi], ...)
TSlice(a, lo, hi, mx) == [k |-> "slice", x |-> a, lo |-> lo, hi |-> hi, max |-> mx]

\* ---------------------------------------------------------------- helpers
SeqsUpTo(S, n) == UNION { [1..m -> S] : m \in 0..n }
BinOver(S)  == { TBin(a, b) : a \in S, b \in S }
CallOver(F, S, n) == { TCall(f, es) : f \in F, es \in SeqsUpTo(S, n) }

\* names are interchangeable: keep the patterns whose first name is "x"
Canon(q) == LET b == Bindings(q) IN b = <<>> \/ b[1] = "x"
Good(S)  == { q \in S : WellFormed(q) /\ Canon(q) }

\* generation specs print the dictionary once, before the first state
GenInit(ps, ts) == AllWellFormed(ps) /\ EmitDict(ps, ts) /\ InitOver(ps)
=============================================================================
