------------------------------- MODULE Runner -------------------------------
(***************************************************************************)
(* State machine of the two-level scheduler of lintcmd/runner              *)
(* (runner.go: Runner.Run, subrunner.do/doUncached, runAnalyzers,          *)
(* genericHandle, baseAction.DecrementPending; internal/sync: Semaphore).  *)
(*                                                                         *)
(* Level 1 (packages).  Run builds the package DAG, starts a feeder         *)
(* goroutine that sends every action without dependencies on an            *)
(* UNBUFFERED channel, and loops `for item := range queue { Acquire(); go  *)
(* genericHandle(item) }`.  genericHandle(root) closes the channel.        *)
(* Level 2 (analyzers of one package).  exec of a package action           *)
(* (subrunner.do -> runAnalyzers) builds the analyzer DAG, puts the leaves *)
(* into a BUFFERED channel (capacity = number of analyzer actions) and     *)
(* loops `for item := range queue { if AcquireMaybe() { go handle } else { *)
(* handle inline under the package's own token } }`.                       *)
(* Both levels share genericHandle and ONE semaphore.                      *)
(*                                                                         *)
(* genericHandle(a):  [root: close(queue); release; return]                *)
(*   start      a.failed \/ some dependency failed  -> a.failed            *)
(*   exec       only if not failed; an error marks a failed                *)
(*   release    give the token back (goroutine case only)                  *)
(*   triggers   for t in a.triggers: if atomic-dec(t.pending) = 0 then     *)
(*              queue <- t      (blocks on the unbuffered channel)         *)
(*                                                                         *)
(* One TLA+ action per shared-state interaction (channel op, semaphore op, *)
(* atomic decrement, read of dependency state, write of own result); each  *)
(* corresponds to exactly one `verifEvent` hook in runner.go, see          *)
(* RunnerTrace.tla.                                                        *)
(*                                                                         *)
(* Deliberate abstractions (all enlarge the set of behaviours):            *)
(*  - the buffered channel is an unordered buffer (FIFO order dropped);    *)
(*  - the feeder's map-iteration order and the order of a.triggers are     *)
(*    nondeterministic;                                                    *)
(*  - InlineAnytime = TRUE lets AcquireMaybe fail spuriously (used for     *)
(*    trace validation, where the exact semaphore count at the instant of  *)
(*    a failed AcquireMaybe is not observable, and checked exhaustively as *)
(*    well); SemGuard = FALSE drops the blocking of Acquire (trace mode:   *)
(*    the bound is then checked by the monitor on the raw log).            *)
(* The graph is data: GraphAt(1..NGraphs) are graph records and the         *)
(* variable gi selects one in the initial state (never changed by Next),   *)
(* so that one TLC run covers every enumerated DAG shape.                  *)
(***************************************************************************)
EXTENDS Integers, Sequences, FiniteSets, TLC

CONSTANTS
  GraphAt(_),     \* GraphAt(i), i \in 1..NGraphs: graph records, see MCRunner.tla for the fields
  NGraphs,        \* (an operator, because TLC re-evaluates a substituted zero-arity constant at every use)
  InlineAnytime,  \* BOOLEAN
  SemGuard,       \* BOOLEAN
  TrackResults    \* BOOLEAN: compute per-action results (sets of causal predecessors)

ROOT  == "$root"
AROOT == "$aroot"

VARIABLES
  gi,       \* index into Graphs
  st,       \* [Acts -> [pc, pend, failed, trig, tok, snd, n, res]]   per action / handler
  lp,       \* [pkgs -> [pc, q, closed, inl, out]]                   analyzer loop of a package
  main,     \* [pc, item]                                            Run's receive loop
  feed,     \* leaves the feeder goroutine has still to send
  pclosed,  \* package-level queue closed
  sem,      \* tokens in use
  final     \* what Run returns (set at Finalize)

vars == <<gi, st, lp, main, feed, pclosed, sem, final>>

G == GraphAt(gi)

-----------------------------------------------------------------------------
(* Action identifiers: package level [p |-> pkg or ROOT, a |-> ""],        *)
(* analyzer level [p |-> pkg, a |-> analyzer or AROOT].                    *)
Id(p, a) == [p |-> p, a |-> a]
PId(p)   == Id(p, "")
NoId     == Id("", "")

\* (G.pacts / G.aacts are precomputed in the graph record: they are evaluated in every state)
PActs == G.pacts   \* = {PId(p) : p \in G.pkgs \cup {ROOT}}
AActs == G.aacts   \* = UNION {{Id(p, a) : a \in G.anodes[p] \cup {AROOT}} : p \in G.pkgs}
Acts  == G.acts    \* = PActs \cup AActs

IsP(x)    == x.a = ""
IsRoot(x) == (x.a = "" /\ x.p = ROOT) \/ x.a = AROOT

SeqRange(s) == {s[i] : i \in 1..Len(s)}

DepsIn(g, x) ==
  IF x.a = "" THEN (IF x.p = ROOT THEN {PId(q) : q \in g.initial}
                                   ELSE {PId(q) : q \in g.pdeps[x.p]})
  ELSE IF x.a = AROOT THEN {Id(x.p, r) : r \in SeqRange(g.aroots[x.p])}
  ELSE {Id(x.p, d) : d \in g.adeps[x.a]}
DepsOf(x) == DepsIn(G, x)

\* Requires lists may name an analyzer twice: the dependent then has two pending counts for it and
\* is decremented twice.  Triggers are therefore records [t |-> target, k |-> copy number]; g.atrig[p][a]
\* holds pairs <<dependent, k>>, g.apend[a] the length of a's Requires list.
TrigOf(x) ==
  IF x.a = "" THEN (IF x.p = ROOT THEN {} ELSE {[t |-> PId(q), k |-> 1] : q \in G.ptrig[x.p]})
  ELSE IF x.a = AROOT THEN {}
  ELSE {[t |-> Id(x.p, e[1]), k |-> e[2]] : e \in G.atrig[x.p][x.a]}

PendIn(g, x) ==
  IF x.a = "" THEN Cardinality(DepsIn(g, x))
  ELSE IF x.a = AROOT THEN Len(g.aroots[x.p])
  ELSE g.apend[x.a]

Leaves(p) == {a \in G.anodes[p] : G.adeps[a] = {}}

-----------------------------------------------------------------------------
(* Schedule-free functions of the graph (the oracle of C06 / C03).          *)

RECURSIVE WantPFailed(_)
WantPFailed(p) ==
  \/ p \in G.cfailed
  \/ \E q \in G.pdeps[p] : WantPFailed(q)
  \/ G.mode[p] = "fail"

\* an analyzer action fails iff it returns an error or a prerequisite failed
RECURSIVE WantAFailed(_, _)
WantAFailed(p, a) == <<p, a>> \in G.afail \/ \E d \in G.adeps[a] : WantAFailed(p, d)

\* does the package action reach exec?
WantPExec(p) == ~(p \in G.cfailed) /\ ~(\E q \in G.pdeps[p] : WantPFailed(q))
WantAExec(p, a) == WantPExec(p) /\ G.mode[p] = "run" /\ a \in G.anodes[p]
                   /\ ~(\E d \in G.adeps[a] : WantAFailed(p, d))

\* what analyzer a computes on package p: the set of (package, analyzer) actions in its causal past
RECURSIVE WantRes(_, _)
WantRes(p, a) ==
  IF WantPFailed(p) \/ ~(a \in G.anodes[p]) \/ WantAFailed(p, a) THEN {}
  ELSE {Id(p, a)} \cup UNION {WantRes(p, d) : d \in G.adeps[a]}
                  \cup (IF a \in G.facts THEN UNION {WantRes(q, a) : q \in G.pdeps[p]} ELSE {})

WantOut(p) == [i \in 1..Len(G.aroots[p]) |-> [an |-> G.aroots[p][i], res |-> WantRes(p, G.aroots[p][i])]]

WantFinal ==
  [failed |-> {p \in G.pkgs : WantPFailed(p)},
   out    |-> [p \in G.pkgs |-> IF WantPFailed(p) \/ G.mode[p] # "run" THEN <<>> ELSE WantOut(p)]]

-----------------------------------------------------------------------------
\* the initial values for graph i (also used by RunnerTrace's reset action)
InitSt(i) == LET g == GraphAt(i) IN
  [x \in g.acts |->
     [pc |-> "none", pend |-> PendIn(g, x),
      failed |-> (x.a = "" /\ x.p \in g.cfailed),
      trig |-> {}, tok |-> FALSE, snd |-> NoId, n |-> 0, res |-> {}]]
InitLp(i)   == [p \in GraphAt(i).pkgs |-> [pc |-> "idle", q |-> {}, closed |-> FALSE, inl |-> "", out |-> <<>>]]
InitFeed(i) == {p \in GraphAt(i).pkgs : GraphAt(i).pdeps[p] = {}}
InitMain    == [pc |-> "recv", item |-> ""]
InitFinal   == [failed |-> {}, out |-> <<>>]

Init ==
  /\ gi \in 1..NGraphs
  /\ st = InitSt(gi)
  /\ lp = InitLp(gi)
  /\ main = InitMain
  /\ feed = InitFeed(gi)
  /\ pclosed = FALSE
  /\ sem = 0
  /\ final = InitFinal

-----------------------------------------------------------------------------
(* Purely local steps (no shared state read or written) are merged into the *)
(* preceding action: start+exec_begin(+runAnalyzers' queue initialisation),  *)
(* the return of genericHandle into its last decrement/send/release, the     *)
(* collection of diagnostics into the package's exec_end, the end of Run's   *)
(* range loop into Finalize.                                                 *)

\* the pc of a handler that has nothing left to send: back in the trigger loop or returned
Resume(trg) == IF trg = {} THEN "done" ELSE "trigger"
\* lp after handler x moved to pc npc: an inline analyzer handler that returns gives control
\* back to its package's loop
LpAfter(x, npc, lpv) ==
  IF ~IsP(x) /\ npc = "done" /\ lpv[x.p].inl = x.a THEN [lpv EXCEPT ![x.p].inl = ""] ELSE lpv

(* Level 1: Run's loop.                                                     *)

\* `for item := range queue`: rendezvous with the feeder ...
MainRecvFeed(p) ==
  /\ main.pc = "recv" /\ ~pclosed
  /\ p \in feed
  /\ feed' = feed \ {p}
  /\ main' = [pc |-> "acquire", item |-> p]
  /\ UNCHANGED <<gi, st, lp, pclosed, sem, final>>

\* ... or with a handler blocked in `queue <- t`; the sender resumes its trigger loop
MainRecvSend(x) ==
  /\ main.pc = "recv" /\ ~pclosed
  /\ IsP(x) /\ st[x].pc = "blocked"
  /\ main' = [pc |-> "acquire", item |-> st[x].snd.p]
  /\ st' = [st EXCEPT ![x].pc = Resume(st[x].trig), ![x].snd = NoId]
  /\ UNCHANGED <<gi, lp, feed, pclosed, sem, final>>

\* r.semaphore.Acquire(); go genericHandle(item, ...)
MainAcquire ==
  /\ main.pc = "acquire"
  /\ SemGuard => sem < G.cap
  /\ sem' = sem + 1
  /\ st' = [st EXCEPT ![PId(main.item)].pc = "start", ![PId(main.item)].tok = TRUE]
  /\ main' = [pc |-> "recv", item |-> ""]
  /\ UNCHANGED <<gi, lp, feed, pclosed, final>>

\* the range loop ends when the channel is closed; build []Result from every action's failed
\* flag / results
Finalize ==
  /\ main.pc = "recv" /\ pclosed
  /\ final' = [failed |-> {p \in G.pkgs : st[PId(p)].failed},
               out    |-> [p \in G.pkgs |-> lp[p].out]]
  /\ main' = [pc |-> "done", item |-> ""]
  /\ UNCHANGED <<gi, st, lp, feed, pclosed, sem>>

-----------------------------------------------------------------------------
(* genericHandle, shared by both levels.                                    *)

\* a == root: close(queue); then release (goroutine) or return (inline)
HRootClose(x) ==
  /\ IsRoot(x) /\ st[x].pc = "start"
  /\ LET npc == IF st[x].tok THEN "release" ELSE "done" IN
     /\ st' = [st EXCEPT ![x].pc = npc]
     /\ IF IsP(x) THEN pclosed' = TRUE /\ UNCHANGED lp
                  ELSE /\ lp' = LpAfter(x, npc, [lp EXCEPT ![x.p].closed = TRUE])
                       /\ UNCHANGED pclosed
  /\ UNCHANGED <<gi, main, feed, sem, final>>

\* read the dependencies' failed flags; if failed skip exec, else exec(a) begins.
\* Package: subrunner.do (hash, cache lookup, load, runAnalyzers builds the analyzer graph and
\* puts the leaves into the queue, closing it if there is nothing to run); analyzer: analyzerRunner.do
HStart(x) ==
  /\ ~IsRoot(x) /\ st[x].pc = "start"
  /\ LET f == st[x].failed \/ \E d \in DepsOf(x) : st[d].failed IN
     IF f
       THEN /\ st' = [st EXCEPT ![x].failed = TRUE, ![x].trig = TrigOf(x),
                                ![x].pc = IF st[x].tok THEN "release" ELSE "trigger"]
            /\ UNCHANGED lp
       ELSE /\ st' = [st EXCEPT ![x].pc = IF IsP(x) THEN "running" ELSE "exec", ![x].n = @ + 1]
            /\ IF IsP(x) /\ G.mode[x.p] = "run"
                 THEN lp' = [lp EXCEPT ![x.p].pc = "loop", ![x.p].q = Leaves(x.p),
                                       ![x.p].closed = (G.anodes[x.p] = {})]
                 ELSE UNCHANGED lp
  /\ UNCHANGED <<gi, main, feed, pclosed, sem, final>>

\* facts of analyzer a exported by package q (read from q's vetx file)
FactOf(q, a) ==
  IF ~(a \in G.anodes[q]) THEN {}
  ELSE IF G.mode[q] = "hit" THEN WantRes(q, a)
  ELSE st[Id(q, a)].res

\* runAnalyzers' range loop has ended
LoopOver(p) == lp[p].pc = "loop" /\ lp[p].inl = "" /\ lp[p].q = {} /\ lp[p].closed

\* exec(a) returns: the action's result / failed flag are written.  For a package the
\* diagnostics are first gathered in root.deps order.
HExecEnd(x) ==
  /\ IF IsP(x)
       THEN /\ st[x].pc = "running"
            /\ G.mode[x.p] = "run" => LoopOver(x.p)
            /\ st' = [st EXCEPT ![x].pc = IF st[x].tok THEN "release" ELSE "trigger",
                                ![x].trig = TrigOf(x),
                                ![x].failed = (G.mode[x.p] = "fail")]
            /\ IF G.mode[x.p] = "run"
                 THEN lp' = [lp EXCEPT ![x.p].pc = "collected",
                                ![x.p].out = [i \in 1..Len(G.aroots[x.p]) |->
                                   [an |-> G.aroots[x.p][i], res |-> st[Id(x.p, G.aroots[x.p][i])].res]]]
                 ELSE UNCHANGED lp
       ELSE /\ st[x].pc = "exec"
            /\ LET bad == <<x.p, x.a>> \in G.afail
                   r   == IF bad \/ ~TrackResults THEN {}
                          ELSE {x} \cup UNION {st[d].res : d \in DepsOf(x)}
                                   \cup (IF x.a \in G.facts
                                           THEN UNION {FactOf(q, x.a) : q \in G.pdeps[x.p]} ELSE {})
               IN st' = [st EXCEPT ![x].pc = IF st[x].tok THEN "release" ELSE "trigger",
                                   ![x].trig = TrigOf(x), ![x].failed = bad, ![x].res = r]
            /\ UNCHANGED lp
  /\ UNCHANGED <<gi, main, feed, pclosed, sem, final>>

\* sem.Release()
HRelease(x) ==
  /\ st[x].pc = "release"
  /\ sem' = sem - 1
  /\ st' = [st EXCEPT ![x].pc = Resume(st[x].trig), ![x].tok = FALSE]
  /\ UNCHANGED <<gi, lp, main, feed, pclosed, final>>

\* t.DecrementPending(): atomic; the one that reaches zero goes on to send t
HDec(x, tk) ==
  /\ st[x].pc = "trigger" /\ tk \in st[x].trig
  /\ LET t    == tk.t
         zero == st[t].pend = 1
         npc  == IF zero THEN "send" ELSE Resume(st[x].trig \ {tk}) IN
     /\ st' = [st EXCEPT ![t].pend = @ - 1, ![x].trig = @ \ {tk}, ![x].pc = npc,
                         ![x].snd  = IF zero THEN t ELSE NoId]
     /\ lp' = LpAfter(x, npc, lp)
  /\ UNCHANGED <<gi, main, feed, pclosed, sem, final>>

\* queue <- t.  Level 1: unbuffered, the sender blocks until Run's loop receives.
\* Level 2: buffered with capacity |analyzer actions|; blocks only if the buffer is full.
HEnqueue(x) ==
  /\ st[x].pc = "send"
  /\ IF IsP(x)
       THEN /\ st' = [st EXCEPT ![x].pc = "blocked"]
            /\ UNCHANGED lp
       ELSE /\ Cardinality(lp[x.p].q) < G.bufcap[x.p]
            /\ LET npc == Resume(st[x].trig) IN
               /\ lp' = LpAfter(x, npc, [lp EXCEPT ![x.p].q = @ \cup {st[x].snd.a}])
               /\ st' = [st EXCEPT ![x].pc = npc, ![x].snd = NoId]
  /\ UNCHANGED <<gi, main, feed, pclosed, sem, final>>

-----------------------------------------------------------------------------
(* Level 2: runAnalyzers' loop, executed by the package's handler goroutine *)
(* while the package action is "running".                                  *)

LoopReady(p, a) == lp[p].pc = "loop" /\ lp[p].inl = "" /\ a \in lp[p].q

\* item := <-queue; AcquireMaybe() = true; go genericHandle(item, ..., &sem)
ASpawn(p, a) ==
  /\ LoopReady(p, a)
  /\ SemGuard => sem < G.cap
  /\ sem' = sem + 1
  /\ lp' = [lp EXCEPT ![p].q = @ \ {a}]
  /\ st' = [st EXCEPT ![Id(p, a)].pc = "start", ![Id(p, a)].tok = TRUE]
  /\ UNCHANGED <<gi, main, feed, pclosed, final>>

\* item := <-queue; AcquireMaybe() = false; genericHandle(item, ..., nil) runs inline
AInline(p, a) ==
  /\ LoopReady(p, a)
  /\ (SemGuard /\ ~InlineAnytime) => sem >= G.cap
  /\ lp' = [lp EXCEPT ![p].q = @ \ {a}, ![p].inl = a]
  /\ st' = [st EXCEPT ![Id(p, a)].pc = "start"]
  /\ UNCHANGED <<gi, main, feed, pclosed, sem, final>>

-----------------------------------------------------------------------------
Terminated == main.pc = "done" /\ \A x \in Acts : st[x].pc \in {"none", "done"}

Step ==
  \/ \E p \in G.pkgs : MainRecvFeed(p)
  \/ \E x \in PActs : MainRecvSend(x)
  \/ MainAcquire \/ Finalize
  \/ \E x \in Acts : \/ HRootClose(x) \/ HStart(x) \/ HExecEnd(x) \/ HRelease(x) \/ HEnqueue(x)
                     \/ \E tk \in st[x].trig : HDec(x, tk)
  \/ \E p \in G.pkgs : \E a \in lp[p].q : ASpawn(p, a) \/ AInline(p, a)

Next == Step \/ (Terminated /\ UNCHANGED vars)

Spec     == Init /\ [][Next]_vars
FairSpec == Spec /\ WF_vars(Step)

-----------------------------------------------------------------------------
(* Properties.                                                              *)

Started(x)  == st[x].pc # "none"
\* past exec: result and failed flag written
Finished(x) == st[x].pc \in {"release", "trigger", "send", "blocked", "done"}

TypeOK ==
  /\ sem \in 0..64
  /\ main.pc \in {"recv", "acquire", "done"}
  /\ \A x \in Acts : /\ st[x].pc \in {"none", "start", "running", "exec", "release",
                                       "trigger", "send", "blocked", "done"}
                     /\ st[x].pend \in 0..PendIn(G, x)
                     /\ st[x].trig \subseteq TrigOf(x)

\* C06: an action starts only after every dependency has finished (results written) and exactly
\* when its pending counter reached zero
ExecAfterDeps ==
  \A x \in Acts : Started(x) => /\ st[x].pend = 0
                                /\ \A d \in DepsOf(x) : Finished(d)

\* C06: every action is handled once and executed at most once; at the end exactly those that
\* should execute did
ExactlyOnce ==
  /\ \A x \in Acts : st[x].n <= 1
  /\ main.pc = "done" =>
       /\ \A p \in G.pkgs : /\ Finished(PId(p)) /\ st[PId(p)].trig = {}
                            /\ st[PId(p)].n = (IF WantPExec(p) THEN 1 ELSE 0)
                            /\ \A a \in G.anodes[p] :
                                 st[Id(p, a)].n = (IF WantAExec(p, a) THEN 1 ELSE 0)

\* tokens in use never exceed the capacity, and are exactly the tokens owned by live handlers
SemBound ==
  /\ SemGuard => sem <= G.cap
  /\ sem = Cardinality({x \in Acts : st[x].tok})

\* C03: nothing is marked failed without a cause in the graph ...
NoSpuriousFailure ==
  \A x \in Acts : st[x].failed =>
     IF IsP(x) THEN x.p # ROOT /\ WantPFailed(x.p) ELSE x.a # AROOT /\ WantAFailed(x.p, x.a)
\* ... and every failure reaches all dependents
FailurePropagates ==
  main.pc = "done" => \A p \in G.pkgs : st[PId(p)].failed = WantPFailed(p)

\* C06: what Run returns is a schedule-free function of the graph
ResultIsFunctionOfGraph ==
  main.pc = "done" =>
     /\ final.failed = WantFinal.failed
     /\ TrackResults => final.out = WantFinal.out

\* Go would panic on a send on a closed channel: when a queue is closed nobody is sending or
\* has anything left to send
NoSendOnClosed ==
  /\ pclosed => /\ feed = {}
                /\ \A p \in G.pkgs : Finished(PId(p)) /\ st[PId(p)].trig = {}
                                      /\ st[PId(p)].pc \notin {"send", "blocked"}
  /\ \A p \in G.pkgs : lp[p].closed =>
        \A a \in G.anodes[p] : Finished(Id(p, a)) /\ st[Id(p, a)].trig = {} /\ st[Id(p, a)].pc # "send"

\* the buffered channel never blocks a sender (so an inline handler can never block its own receiver)
SendNeverBlocks ==
  \A x \in AActs : st[x].pc = "send" => Cardinality(lp[x.p].q) < G.bufcap[x.p]

\* a package can always execute an analyzer: inline handlers run only inside a running package action
InlineUnderPackageToken ==
  \A p \in G.pkgs : lp[p].inl # "" => st[PId(p)].pc = "running" /\ st[PId(p)].tok

Terminates == <>Terminated
=============================================================================
