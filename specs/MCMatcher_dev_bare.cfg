\* self-test: the deviation NotMode = "bare" must be refuted by OpEqualsDen
SPECIFICATION SpecQuickNoEmit
CONSTANTS
  Names <- MCNames
  MergeMode = "union"
  NotMode = "bare"
  IdxMode = "name"
  PopMode = "delete"
  NilMode = "commaok"
INVARIANTS StaticWFSound OpEqualsDen VisibleIsSuccessfulPath ConsistentRecall NotLeavesNoBindings AtomicAlternatives
CHECK_DEADLOCK FALSE
