\* every fixture file with <= 2 directives (first from the full alphabet, second from a reduced one),
\* both configurations: laws of C10 on the oracle + CASE emission
SPECIFICATION Spec
CONSTANTS
  Universe <- MCUniverse
  Confs <- MCConfs
  Enabled <- MCEnabled
  U1000 <- MCU1000
  Slots <- MCSlots
  Attach <- MCAttach
  OwnLine <- MCOwnLine
  Problems <- MCProblems
  Objects <- MCObjects
  First <- MCFirst
  Second <- MCSecond
  MaxDirs = 2
INVARIANTS LawFrame LawMalformedInert LawNameOrderIrrelevant LawCaseIrrelevant LawDirectiveOrderIrrelevant LawNeverReported LawUnusedClosure Emit
PROPERTY Monotone
CHECK_DEADLOCK FALSE
