\* every struct with <= 2 fields over Full: laws of C19 on the oracle + CASE emission
SPECIFICATION Spec
CONSTANTS
  FieldTypes <- Full
  MaxFields = 2
INVARIANTS ReportTiles ReportAltTiles TopTiles ReportAligned FieldsWellPlaced OptimizeLaws OptimizeRNeverGrows OptimizeAltNeverGrows Emit
PROPERTY AppendStable
CHECK_DEADLOCK FALSE
