\* generation (crash binding): one process, Put killed at every gate / completing, twice, then a lookup; emits every state in which a lookup just completed
SPECIFICATION Spec
CONSTANTS
  NP <- C_NP
  NK <- C_NK
  VB <- C_VB
  MaxOps <- C_MaxOps
  Roles <- C_Roles
  Faults <- C_Faults
  MaxFaults <- C_MaxFaults
  TrimOrder <- C_Trim
  CrashCosts = FALSE
  Record = TRUE
INVARIANTS TypeOK LookupSoundBytes LookupSoundFileModTrimRace HitThenReadableModTrimRace SizeImpliesComplete NoLeak LookupSoundFile HitThenReadable IndexSound EmitLookup
PROPERTY PutPost
VIEW View
CHECK_DEADLOCK TRUE
