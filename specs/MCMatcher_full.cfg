\* thorough tier: every pattern of depth <= 2 over the leaves, the string, list and depth-3 families, the full tree family
SPECIFICATION SpecFull
CONSTANTS
  Names <- MCNames
  MergeMode = "union"
  NotMode = "frame"
  IdxMode = "name"
  PopMode = "delete"
  NilMode = "commaok"
INVARIANTS StaticWFSound OpEqualsDen VisibleIsSuccessfulPath ConsistentRecall NotLeavesNoBindings AtomicAlternatives Emit
CHECK_DEADLOCK FALSE
