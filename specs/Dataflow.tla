------------------------------ MODULE Dataflow ------------------------------
(***************************************************************************)
(* The two dataflow solvers of analysis/dfa (property C13).                *)
(*                                                                         *)
(* DENSE  (analysis/dfa/dense/forward.go: Forward, propagate, nodeHeap):   *)
(*   per-block facts over a flow graph, priority worklist ordered by       *)
(*   reverse postorder, `dirty` flags.  One action, DenseStep, is one      *)
(*   iteration of propagate's loop; its parts are named after the code:    *)
(*   Dequeue, PredFact (dirty => Ident), NewIn, Skip (not dirty and `in`   *)
(*   unchanged), Transfer per out-edge, Enqueue (successors whose out      *)
(*   changed).                                                             *)
(* SPARSE (analysis/dfa/sparse/dfa.go: Instance.Forward): per-value        *)
(*   states over the def-use graph, the worklist is a SET (a Go map) and   *)
(*   SparsePick takes ANY member, so TLC explores every pop order.         *)
(*                                                                         *)
(* A case `cs` fixes graph, lattice, transfer tables and entry facts; it   *)
(* is chosen in the initial state and never changes.  `lfp` is the least   *)
(* fixpoint of the case's equations computed by Kleene iteration           *)
(* (recursive operator) -- the oracle.  Invariants: the solver state is    *)
(* always below lfp; at termination it equals lfp; every step is monotone; *)
(* a variant strictly decreases (termination).                             *)
(*                                                                         *)
(* cs = [ n     number of nodes, nodes are 1..n                            *)
(*        succs seq of seq: out-edges of each node in Out() order          *)
(*              (self-loops and parallel edges allowed)                    *)
(*        lat   lattice name (Lattices.tla)                                *)
(*        tf    tf[u][v] = table of the transfer function of edge u==>v    *)
(*              (one per (from,to): parallel edges share it, as the        *)
(*              signature transfer(from, to, fact) dictates)               *)
(*        entry entry[u] = -1 (absent) or the initial fact of u            *)
(*        kind  sparse only: kind[u] in {"phi","un","strict","param"} ]    *)
(***************************************************************************)
EXTENDS Lattices, Json

CONSTANTS Solver,     \* "dense" or "sparse"
          EmitCases   \* print each case with its expected least fixpoint

VARIABLES cs, lfp,
          in, out, dirty, queue,        \* dense:  blockInfo.in / .out / .dirty, nodeHeap
          mapping, worklist,            \* sparse: Instance.Mapping, worklist
          fresh                         \* TRUE in the initial state only
vars == <<cs, lfp, in, out, dirty, queue, mapping, worklist, fresh>>

Nodes == 1..cs.n
L == cs.lat
OutIdx(u) == 1..Len(cs.succs[u])
\* in-edges of b as (pred, out index) pairs, in the order Forward builds blockInfo.preds
PredEdges(c, b) == UNION { { <<p, i>> : i \in { k \in 1..Len(c.succs[p]) : c.succs[p][k] = b } } : p \in 1..c.n }
HasPreds(c, b) == \E p \in 1..c.n : \E i \in 1..Len(c.succs[p]) : c.succs[p][i] = b
EntryFact(c, u) == IF c.entry[u] = -1 THEN Bot ELSE c.entry[u]
TF(c, u, v, x) == Apply(c.tf[u][v], x)

-----------------------------------------------------------------------------
(* The equations and their least solution (DENSE).                         *)
(*   in[b]    = entry fact of b                    if b has no in-edge     *)
(*            = Merge of out[p][i] over in-edges   otherwise               *)
(*   out[p][i] = transfer(p, succs[p][i], in[p])                           *)

DenseF(c, X) ==
  [ in  |-> [ b \in 1..c.n |->
               IF ~HasPreds(c, b) THEN EntryFact(c, b)
               ELSE JoinSet(c.lat, { X.out[e[1]][e[2]] : e \in PredEdges(c, b) }) ],
    out |-> [ p \in 1..c.n |-> [ i \in 1..Len(c.succs[p]) |-> TF(c, p, c.succs[p][i], X.in[p]) ] ] ]
DenseBottom(c) ==
  [ in |-> [ b \in 1..c.n |-> Bot ], out |-> [ p \in 1..c.n |-> [ i \in 1..Len(c.succs[p]) |-> Bot ] ] ]
RECURSIVE Kleene(_, _, _)
Kleene(F(_, _), c, X) == LET Y == F(c, X) IN IF Y = X THEN X ELSE Kleene(F, c, Y)
DenseLFP(c) == Kleene(DenseF, c, DenseBottom(c))

\* "no smaller solution exists", stated declaratively (validates the Kleene oracle): every
\* assignment of in-facts that solves the equations is above the least fixpoint
DenseSolutions(c) ==
  { X \in { [ in |-> i, out |-> [ p \in 1..c.n |-> [ k \in 1..Len(c.succs[p]) |-> TF(c, p, c.succs[p][k], i[p]) ] ] ]
              : i \in [ 1..c.n -> Elems(c.lat) ] } : DenseF(c, X) = X }
DenseLeast(c, lf) ==
  /\ DenseF(c, lf) = lf
  /\ \A X \in DenseSolutions(c) : \A b \in 1..c.n : Leq(c.lat, lf.in[b], X.in[b])

-----------------------------------------------------------------------------
(* SPARSE equations: one state per value; operands of v are its            *)
(* predecessors in the def-use graph.                                      *)
(*   "param"  not an instruction: keeps its preset state (Instance.Set)    *)
(*   "phi"    Merge of the operand states (done by the framework)          *)
(*   "un"     transfer table of v applied to the Merge of the operands     *)
(*   "strict" as "un", but Ident while some operand is still Ident         *)
(*            (the shape of a constant-propagation BinOp)                  *)
Operands(c, v) == { p \in 1..c.n : \E i \in 1..Len(c.succs[p]) : c.succs[p][i] = v }
Referrers(c, v) == { c.succs[v][i] : i \in 1..Len(c.succs[v]) }
SparseEval(c, v, M) ==
  LET ops == Operands(c, v)
      j   == JoinSet(c.lat, { M[p] : p \in ops })
  IN  CASE c.kind[v] = "param"  -> EntryFact(c, v)
        [] c.kind[v] = "phi"    -> j
        [] c.kind[v] = "un"     -> TF(c, v, v, j)
        [] c.kind[v] = "strict" -> IF \E p \in ops : M[p] = Bot THEN Bot ELSE TF(c, v, v, j)
SparseF(c, M) == [ v \in 1..c.n |-> SparseEval(c, v, M) ]
SparseLFP(c) == Kleene(SparseF, c, [ v \in 1..c.n |-> Bot ])

-----------------------------------------------------------------------------
(* graph.ReversePostorder as coded (order.go): DFS from every node in      *)
(* ascending order, an edge to a node on the stack is skipped.             *)
RECURSIVE PoVisit(_, _, _), PoSuccs(_, _, _, _)
\* st = [visited, onstack, res]
PoVisit(c, u, st) ==
  IF u \in st.visited THEN st
  ELSE LET s1 == [st EXCEPT !.visited = @ \cup {u}, !.onstack = @ \cup {u}]
           s2 == PoSuccs(c, u, 1, s1)
       IN  [s2 EXCEPT !.onstack = @ \ {u}, !.res = Append(@, u)]
PoSuccs(c, u, i, st) ==
  IF i > Len(c.succs[u]) THEN st
  ELSE LET v == c.succs[u][i] IN
       IF v \in st.onstack THEN PoSuccs(c, u, i + 1, st)
       ELSE PoSuccs(c, u, i + 1, PoVisit(c, v, st))
RECURSIVE PoAll(_, _, _)
PoAll(c, u, st) == IF u > c.n THEN st ELSE PoAll(c, u + 1, PoVisit(c, u, st))
Postorder(c) == PoAll(c, 1, [visited |-> {}, onstack |-> {}, res |-> <<>>]).res
\* nodeHeap.prio: position in reverse postorder (smaller = dequeued first)
Prio(c) == LET po == Postorder(c) IN [ u \in 1..c.n |-> c.n - (CHOOSE k \in 1..c.n : po[k] = u) ]

-----------------------------------------------------------------------------
Dummy == [ x \in {1} |-> 0 ]

\* the initial state for case c (the MC modules choose c: enumerated or loaded from JSON)
InitWith(c) ==
  /\ cs = c
  /\ fresh = TRUE
  /\ IF Solver = "dense"
       THEN /\ lfp = DenseLFP(cs)
            \* Forward's initialisation loop
            /\ in = [ b \in Nodes |-> EntryFact(cs, b) ]
            /\ out = [ p \in Nodes |-> [ i \in OutIdx(p) |-> Bot ] ]
            /\ dirty = [ b \in Nodes |-> TRUE ]
            /\ queue = Nodes
            /\ mapping = Dummy /\ worklist = {}
       ELSE /\ lfp = SparseLFP(cs)
            \* Instance.Set for the parameters; every instruction on the worklist
            /\ mapping = [ v \in Nodes |-> IF cs.kind[v] = "param" THEN EntryFact(cs, v) ELSE Bot ]
            /\ worklist = { v \in Nodes : cs.kind[v] # "param" }
            /\ in = Dummy /\ out = Dummy /\ dirty = Dummy /\ queue = {}

\* ---- dense: one iteration of propagate() ----
Dequeue == LET pr == Prio(cs) IN CHOOSE b \in queue : \A o \in queue : pr[b] <= pr[o]
\* "We haven't visited this predecessor yet, so it doesn't have meaningful out facts."
PredFact(p, i) == IF dirty[p] THEN Bot ELSE out[p][i]
NewIn(b) == IF ~HasPreds(cs, b) THEN in[b]
            ELSE JoinSet(L, { PredFact(e[1], e[2]) : e \in PredEdges(cs, b) })
DenseStep ==
  /\ Solver = "dense" /\ queue # {}
  /\ LET b   == Dequeue
         nin == NewIn(b)
     IN IF ~dirty[b] /\ nin = in[b]
          THEN \* Skip: "No change to block input"
               /\ queue' = queue \ {b}
               /\ UNCHANGED <<in, out, dirty>>
          ELSE LET nout    == [ i \in OutIdx(b) |-> TF(cs, b, cs.succs[b][i], nin) ]      \* Transfer
                   changed == { i \in OutIdx(b) : dirty[b] \/ out[b][i] # nout[i] }
               IN  /\ in' = [in EXCEPT ![b] = nin]
                   /\ out' = [out EXCEPT ![b] = [ i \in OutIdx(b) |-> IF i \in changed THEN nout[i] ELSE out[b][i] ]]
                   /\ queue' = (queue \ {b}) \cup { cs.succs[b][i] : i \in changed }       \* Enqueue
                   /\ dirty' = [dirty EXCEPT ![b] = FALSE]
  /\ fresh' = FALSE
  /\ UNCHANGED <<cs, lfp, mapping, worklist>>

\* ---- sparse: one iteration of Instance.Forward's loop, any member of the worklist ----
SparsePick(v) ==
  /\ Solver = "sparse" /\ v \in worklist
  /\ LET new == SparseEval(cs, v, mapping) IN
     IF new # mapping[v]
       THEN /\ mapping' = [mapping EXCEPT ![v] = new]
            /\ worklist' = (worklist \ {v}) \cup { r \in Referrers(cs, v) : cs.kind[r] # "param" }
       ELSE /\ worklist' = worklist \ {v}
            /\ UNCHANGED mapping
  /\ fresh' = FALSE
  /\ UNCHANGED <<cs, lfp, in, out, dirty, queue>>

Next == DenseStep \/ \E v \in Nodes : SparsePick(v)

Done == IF Solver = "dense" THEN queue = {} ELSE worklist = {}

-----------------------------------------------------------------------------
(* Properties.                                                             *)

\* what the solver has established so far: a dirty block's facts do not count
EffIn(b)     == IF dirty[b] THEN Bot ELSE in[b]
EffOut(p, i) == IF dirty[p] THEN Bot ELSE out[p][i]

TypeOK ==
  IF Solver = "dense"
    THEN /\ \A b \in Nodes : in[b] \in Elems(L) /\ dirty[b] \in BOOLEAN
         /\ \A p \in Nodes : \A i \in OutIdx(p) : out[p][i] \in Elems(L)
         /\ queue \subseteq Nodes
    ELSE /\ \A v \in Nodes : mapping[v] \in Elems(L)
         /\ worklist \subseteq Nodes

\* the solver never overshoots the least fixpoint
BelowLFP ==
  IF Solver = "dense"
    THEN /\ \A b \in Nodes : Leq(L, EffIn(b), lfp.in[b])
         /\ \A p \in Nodes : \A i \in OutIdx(p) : Leq(L, EffOut(p, i), lfp.out[p][i])
    ELSE \A v \in Nodes : Leq(L, mapping[v], lfp[v])

\* C13: at termination every input and every edge fact is the least fixpoint
AtTerminationLFP ==
  Done => IF Solver = "dense"
            THEN /\ \A b \in Nodes : ~dirty[b]
                 /\ in = lfp.in /\ out = lfp.out
            ELSE mapping = lfp

\* a block that is not on the queue is consistent with its predecessors' current facts
\* (the worklist invariant that makes the terminal state a solution)
QueueSound ==
  Solver = "dense" =>
    \A b \in Nodes \ queue : ~dirty[b] /\ in[b] = NewIn(b)
                             /\ \A i \in OutIdx(b) : out[b][i] = TF(cs, b, cs.succs[b][i], in[b])
WorklistSound ==
  Solver = "sparse" => \A v \in Nodes \ worklist : mapping[v] = SparseEval(cs, v, mapping)

\* the oracle itself: Kleene's result is a solution and below every other solution
OracleLeast ==
  (Solver = "dense" /\ fresh /\ Size(L) <= 3 /\ cs.n <= 3) => DenseLeast(cs, lfp)

\* every step is monotone (action property)
StepMonotone ==
  [][ IF Solver = "dense"
        THEN /\ \A b \in Nodes : Leq(L, EffIn(b), IF dirty'[b] THEN Bot ELSE in'[b])
             /\ \A p \in Nodes : \A i \in OutIdx(p) : Leq(L, EffOut(p, i), IF dirty'[p] THEN Bot ELSE out'[p][i])
        ELSE \A v \in Nodes : Leq(L, mapping[v], mapping'[v]) ]_vars

\* termination: a variant that strictly decreases with every step.
\* Down(x) = number of elements below x is strictly monotone in x.
Down(x) == Cardinality({ y \in Elems(L) : Leq(L, y, x) })
RECURSIVE SumE(_, _, _), SumN(_, _, _, _), SumV(_, _)
SumE(o, p, k) == IF k > Len(cs.succs[p]) THEN 0 ELSE Down(o[p][k]) + SumE(o, p, k + 1)
SumN(i, o, d, b) == IF b > cs.n THEN 0
                    ELSE (IF d[b] THEN 0 ELSE 1 + Down(i[b]) + SumE(o, b, 1)) + SumN(i, o, d, b + 1)
SumV(M, v) == IF v > cs.n THEN 0 ELSE Down(M[v]) + SumV(M, v + 1)
DenseMeasure(i, o, d) == SumN(i, o, d, 1)
SparseMeasure(M) == SumV(M, 1)
VariantDecreases ==
  [][ IF Solver = "dense"
        THEN \/ DenseMeasure(in', out', dirty') > DenseMeasure(in, out, dirty)
             \/ /\ DenseMeasure(in', out', dirty') = DenseMeasure(in, out, dirty)
                /\ Cardinality(queue') < Cardinality(queue)
        ELSE \/ SparseMeasure(mapping') > SparseMeasure(mapping)
             \/ /\ SparseMeasure(mapping') = SparseMeasure(mapping)
                /\ Cardinality(worklist') < Cardinality(worklist) ]_vars

\* the transfer tables of the case are monotone (precondition of the property)
CaseMonotone ==
  \A u, v \in Nodes : IsMonotone(L, cs.tf[u][v])

-----------------------------------------------------------------------------
(* Case emission for replay through the real dense.Forward.                *)
Emit ==
  (EmitCases /\ fresh) =>
     PrintT("CASE " \o ToJson([ n |-> cs.n, succs |-> cs.succs, lat |-> cs.lat, tf |-> cs.tf, entry |-> cs.entry,
                                 kind |-> cs.kind, lfp |-> lfp ]))
=============================================================================
