-------------------------------- MODULE Dom --------------------------------
(***************************************************************************)
(* Dominance on control-flow graphs with up to two roots (property C14).   *)
(*                                                                         *)
(* Subject: go/ir/dom.go (buildDomTree, numberDomTree, Dominates, Idom,    *)
(* Dominees, DomPreorder, DomPostorder).  This module is the DEFINITION    *)
(* and the LAWS; it has no variables.  It is used three ways:              *)
(*   - DomObs.tla  loads CFGs + dominance answers recorded from the real   *)
(*                 go/ir builder and evaluates the laws on them (O);       *)
(*   - DomGen.tla  enumerates all small rooted digraphs, emits them for    *)
(*                 realisation as Go source, and checks the laws on        *)
(*   - DomLT.tla   a transcription of buildDomTree (design-level result).  *)
(*                                                                         *)
(* A graph-with-answers is a record F:                                     *)
(*   n         number of blocks, blocks are 1..n, block 1 is the entry     *)
(*   succs     sequence (length n) of sequences of block numbers           *)
(*   recover   0, or the block control resumes at after a recovered panic *)
(*   dom       sequence of pairs <<a,b>>: Dominates(a,b) answered true     *)
(*   idom      sequence (length n): Idom(b), 0 = none                      *)
(*   dominees  sequence (length n) of sequences: Dominees(a)               *)
(*   preorder, postorder   DomPreorder / DomPostorder as block sequences   *)
(***************************************************************************)
EXTENDS Integers, Sequences, FiniteSets, TLC

Nodes(F) == 1..F.n
SeqSet(s) == { s[i] : i \in 1..Len(s) }
SuccSet(F, u) == SeqSet(F.succs[u])

-----------------------------------------------------------------------------
(* The definition.  A control-flow path is a path along succs edges.       *)

\* nodes reachable from `frontier` (already in `seen`) without entering `avoid`
RECURSIVE Grow(_, _, _, _)
Grow(F, frontier, seen, avoid) ==
  IF frontier = {} THEN seen
  ELSE LET nxt == (UNION { SuccSet(F, u) : u \in frontier }) \ (seen \cup {avoid})
       IN  Grow(F, nxt, seen \cup nxt, avoid)

\* nodes reachable from root r by paths that do not touch `avoid` (0 = avoid nothing)
ReachAvoid(F, r, avoid) ==
  IF r = 0 \/ r = avoid THEN {} ELSE Grow(F, {r}, {r}, avoid)

EntryRegion(F)   == ReachAvoid(F, 1, 0)
\* "blocks reachable only after a recovered panic"
RecoverRegion(F) == ReachAvoid(F, F.recover, 0) \ EntryRegion(F)

\* the root from which dominance of b is judged
RootOf(F, b) == IF b \in EntryRegion(F) THEN 1
                ELSE IF b \in RecoverRegion(F) THEN F.recover ELSE 0

\* every control-flow path from RootOf(b) to b passes through a
PathDom(F, a, b) ==
  \/ a = b
  \/ /\ RootOf(F, b) # 0
     /\ b \notin ReachAvoid(F, RootOf(F, b), a)

\* the set of blocks dominated by a, computed with one removal per root
PathDomSet(F, a, er, rr) ==
  {a} \cup (er \ ReachAvoid(F, 1, a)) \cup (rr \ ReachAvoid(F, F.recover, a))

\* the whole relation as a set of pairs
PathDomRel(F) ==
  LET er == TLCEval(EntryRegion(F))
      rr == TLCEval(RecoverRegion(F))
  IN  UNION { { <<a, b>> : b \in PathDomSet(F, a, er, rr) } : a \in Nodes(F) }

\* precondition of buildDomTree ("all blocks are reachable"): not a law of C14
AllReachable(F) == EntryRegion(F) \cup RecoverRegion(F) = Nodes(F)

\* the export is structurally usable (indices in range, one entry per block)
WellFormed(F) ==
  /\ F.n >= 1 /\ Len(F.succs) = F.n /\ Len(F.idom) = F.n /\ Len(F.dominees) = F.n
  /\ F.recover \in 0..F.n
  /\ \A u \in Nodes(F) : SuccSet(F, u) \subseteq Nodes(F)
  /\ \A i \in 1..Len(F.dom) : F.dom[i][1] \in Nodes(F) /\ F.dom[i][2] \in Nodes(F)

-----------------------------------------------------------------------------
(* The laws.  Each returns the set of witnesses that contradict it, so a   *)
(* failing check can say what is wrong; the law holds iff the set is {}.   *)

Claimed(F) == { <<F.dom[i][1], F.dom[i][2]>> : i \in 1..Len(F.dom) }

\* C14: Dominates(a,b) is reported exactly when PathDom(a,b), all ordered pairs
BadDominates(F, pd) ==
  { [law |-> "Dominates", a |-> p[1], b |-> p[2], claimed |-> TRUE]  : p \in Claimed(F) \ pd } \cup
  { [law |-> "Dominates", a |-> p[1], b |-> p[2], claimed |-> FALSE] : p \in pd \ Claimed(F) }

\* tables computed once per graph: sd[b] = strict dominators of b; cl[b] = the strict dominators
\* of b that every strict dominator of b dominates (the closest ones)
StrictDomTable(F, pd) == TLCEval([ b \in Nodes(F) |-> { a \in Nodes(F) : a # b /\ <<a, b>> \in pd } ])
ClosestTable(F, pd, sd) ==
  TLCEval([ b \in Nodes(F) |-> { d \in sd[b] : \A a \in sd[b] : <<a, d>> \in pd } ])

\* C14: Idom(b) is the unique closest strict dominator; none iff b has no strict dominator
BadIdom(F, sd, cl) ==
  { [law |-> "Idom", a |-> F.idom[b], b |-> b, claimed |-> TRUE] :
      b \in { c \in Nodes(F) :
                ~ ( /\ Cardinality(cl[c]) <= 1
                    /\ (sd[c] # {}) => (Cardinality(cl[c]) = 1)
                    /\ IF cl[c] = {} THEN F.idom[c] = 0 ELSE F.idom[c] \in cl[c] ) } }

\* C14: Dominees(a) lists exactly the blocks whose immediate dominator is a, once each
BadDominees(F, cl) ==
  { [law |-> "Dominees", a |-> a, b |-> 0, claimed |-> TRUE] :
      a \in { c \in Nodes(F) :
                LET want == { b \in Nodes(F) : cl[b] = {c} } IN
                ~ ( /\ SeqSet(F.dominees[c]) = want
                    /\ Len(F.dominees[c]) = Cardinality(want) ) } }

IsPerm(F, s) == Len(s) = F.n /\ SeqSet(s) = Nodes(F)
Pos(s, x) == CHOOSE i \in 1..Len(s) : s[i] = x

\* C14: DomPreorder is a preorder listing of the dominator forest: a permutation in which
\* the blocks dominated by a occupy the contiguous positions starting at a's.
BadPreorder(F, pd) ==
  IF ~IsPerm(F, F.preorder) THEN { [law |-> "DomPreorder", a |-> 0, b |-> 0, claimed |-> TRUE] }
  ELSE LET pos == TLCEval([ x \in Nodes(F) |-> Pos(F.preorder, x) ]) IN
       { [law |-> "DomPreorder", a |-> a, b |-> 0, claimed |-> TRUE] :
           a \in { c \in Nodes(F) :
                     LET sub == { b \in Nodes(F) : <<c, b>> \in pd }
                     IN  { pos[b] : b \in sub } # pos[c] .. (pos[c] + Cardinality(sub) - 1) } }

\* C14: DomPostorder likewise: the dominated blocks occupy the positions ending at a's.
BadPostorder(F, pd) ==
  IF ~IsPerm(F, F.postorder) THEN { [law |-> "DomPostorder", a |-> 0, b |-> 0, claimed |-> TRUE] }
  ELSE LET pos == TLCEval([ x \in Nodes(F) |-> Pos(F.postorder, x) ]) IN
       { [law |-> "DomPostorder", a |-> a, b |-> 0, claimed |-> TRUE] :
           a \in { c \in Nodes(F) :
                     LET sub == { b \in Nodes(F) : <<c, b>> \in pd }
                     IN  { pos[b] : b \in sub } # (pos[c] - Cardinality(sub) + 1) .. pos[c] } }

AllBad(F) ==
  LET pd == TLCEval(PathDomRel(F))
      sd == StrictDomTable(F, pd)
      cl == ClosestTable(F, pd, sd)
  IN  BadDominates(F, pd) \cup BadIdom(F, sd, cl) \cup BadDominees(F, cl)
        \cup BadPreorder(F, pd) \cup BadPostorder(F, pd)

DominatesExact(F)   == BadDominates(F, PathDomRel(F)) = {}
IdomExact(F)        == LET pd == TLCEval(PathDomRel(F))
                           sd == StrictDomTable(F, pd)
                       IN  BadIdom(F, sd, ClosestTable(F, pd, sd)) = {}
DomineesInverse(F)  == LET pd == TLCEval(PathDomRel(F))
                           sd == StrictDomTable(F, pd)
                       IN  BadDominees(F, ClosestTable(F, pd, sd)) = {}
OrdersConsistent(F) == LET pd == TLCEval(PathDomRel(F)) IN BadPreorder(F, pd) = {} /\ BadPostorder(F, pd) = {}

-----------------------------------------------------------------------------
(* Facts about the definition itself (checked by DomGen on every           *)
(* enumerated graph; they validate the oracle, not the code).              *)

\* PathDomRel agrees with the pairwise definition
RelMatchesDef(F) ==
  LET pd == TLCEval(PathDomRel(F)) IN \A a, b \in Nodes(F) : (<<a, b>> \in pd) <=> PathDom(F, a, b)

\* dominance is a partial order whose strict dominators of one block form a chain (a forest)
IsForestOrder(F) ==
  LET pd == TLCEval(PathDomRel(F)) IN
  /\ \A a \in Nodes(F) : <<a, a>> \in pd
  /\ \A a, b \in Nodes(F) : (<<a, b>> \in pd /\ <<b, a>> \in pd) => a = b
  /\ \A a, b, c \in Nodes(F) : (<<a, b>> \in pd /\ <<b, c>> \in pd) => <<a, c>> \in pd
  /\ \A a, b, c \in Nodes(F) : (<<a, c>> \in pd /\ <<b, c>> \in pd) => (<<a, b>> \in pd \/ <<b, a>> \in pd)

\* the independent textbook characterisation: the greatest solution of
\*   D(root) = {root},  D(b) = {b} \cup  INTERSECTION of D(p) over predecessors p
\* (Kildall iteration, what go/ir's sanityCheckDomTree computes) gives the same relation.
\* Paths from RootOf(b) never leave the region of that root, so only predecessors judged
\* from the same root take part.
RECURSIVE Kildall(_, _, _)
Kildall(F, preds, D) ==
  LET step == TLCEval([ b \in Nodes(F) |->
                 IF preds[b].isroot THEN {b}
                 ELSE {b} \cup { a \in Nodes(F) : \A p \in preds[b].ps : a \in D[p] } ])
  IN  IF step = D THEN D ELSE Kildall(F, preds, step)
KildallAgrees(F) ==
  LET root  == TLCEval([ b \in Nodes(F) |-> RootOf(F, b) ])
      preds == TLCEval([ b \in Nodes(F) |->
                 [ isroot |-> root[b] = b,
                   ps     |-> { p \in Nodes(F) : b \in SuccSet(F, p) /\ root[p] = root[b] } ] ])
      D  == Kildall(F, preds, TLCEval([ b \in Nodes(F) |-> Nodes(F) ]))
      pd == TLCEval(PathDomRel(F))
  IN  \A a, b \in Nodes(F) : (root[b] # 0) => ((<<a, b>> \in pd) <=> (a \in D[b]))
=============================================================================
