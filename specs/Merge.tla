------------------------------- MODULE Merge -------------------------------
(***************************************************************************)
(* Functional/transition model of `staticcheck -merge` and `-matrix`       *)
(* (lintcmd/cmd.go: decodeGob, runFromLintResult, mergeRuns,               *)
(* printDiagnostics; lintcmd/lint.go: diagnostic.equal/descriptor).        *)
(*                                                                         *)
(* A run is what one `-f binary` stream element carries: a build name, the *)
(* set of files it checked and the set of problems it reported.  The state *)
(* is the sequence of runs handed to the merge so far; `AddRun` is one     *)
(* decoded gob value.  `Merged` is the documented result (property C12):   *)
(*   - a problem of an `any` check is kept iff some run reported it,       *)
(*   - a problem of an `all` check is kept iff it was reported and every   *)
(*     run that checked its file reported it,                              *)
(*   - a kept problem is annotated with exactly the build names of the     *)
(*     runs that reported it.                                              *)
(* The laws (order independence, idempotence under repetition, exact       *)
(* annotation) are invariants over every reachable sequence of runs.       *)
(***************************************************************************)
EXTENDS Integers, Sequences, FiniteSets, TLC, Json

CONSTANTS
  Files,      \* set of file names
  D,          \* set of problem descriptors: [id, file, line, endcol, cat, msg, all]
  NameSeq,    \* sequence of build names, used in restricted-growth order
  MaxRuns,
  Foreign     \* TRUE: a run may also report problems in files it did not check

VARIABLES runs

vars == <<runs>>

Bodies == { [checked |-> c, diags |-> ds] :
              c \in (SUBSET Files) \ {{}}, ds \in SUBSET D }
\* Usually a run only reports problems in files it checked.  It need not: a //line directive moves a
\* problem into a file the run never saw (a generated file pointing at its OS-specific source), and
\* the input of -merge is arbitrary.  The property quantifies over arbitrary checked-file sets and
\* problem sets, so the configurations with Foreign = TRUE drop the restriction: a run that reports a
\* problem of a file it did not check says nothing about whether it "checked the file and stayed
\* silent" - only runs that checked the file can veto an `all` problem.
Realistic(rb) == \A d \in rb.diags : d.file \in rb.checked
RBodies == IF Foreign THEN Bodies ELSE { rb \in Bodies : Realistic(rb) }

UsedNames(rs) == { rs[i].name : i \in 1..Len(rs) }
\* restricted growth: the next run may reuse a name or take the first unused one
NextNames(rs) == UsedNames(rs) \cup
                 ( LET k == Cardinality(UsedNames(rs)) IN
                   IF k < Len(NameSeq) THEN {NameSeq[k+1]} ELSE {} )

Init == runs = <<>>

AddRun(rb, nm) ==
  /\ Len(runs) < MaxRuns
  /\ runs' = Append(runs, [name |-> nm, checked |-> rb.checked, diags |-> rb.diags])

Next == \E rb \in RBodies : \E nm \in NextNames(runs) : AddRun(rb, nm)

Spec == Init /\ [][Next]_vars

-----------------------------------------------------------------------------
(* The oracle, parametrised by the sequence so that laws can be stated.    *)
Has(rs, i, d)  == d \in rs[i].diags
Kept(rs, d) ==
  /\ \E i \in 1..Len(rs) : Has(rs, i, d)
  /\ d.all => \A i \in 1..Len(rs) : d.file \in rs[i].checked => Has(rs, i, d)
Names(rs, d)  == { rs[i].name : i \in { j \in 1..Len(rs) : Has(rs, j, d) } }
Merged(rs)    == { [id |-> d.id, names |-> Names(rs, d)] : d \in { e \in D : Kept(rs, e) } }

Permute(rs, p) == [ i \in 1..Len(rs) |-> rs[p[i]] ]

\* C12: "The result does not depend on the order of the runs"
OrderIndependent ==
  \A p \in Permutations(1..Len(runs)) : Merged(Permute(runs, p)) = Merged(runs)

\* C12: "is unchanged by repeating a run"
RepeatIdempotent ==
  \A i \in 1..Len(runs) : Merged(Append(runs, runs[i])) = Merged(runs)

\* C12: "annotates each problem with exactly the build names under which it occurred"
AnnotationExact ==
  \A m \in Merged(runs) :
     /\ m.names # {}
     /\ \A nm \in UsedNames(runs) :
          nm \in m.names <=> \E i \in 1..Len(runs) : runs[i].name = nm /\ \E d \in runs[i].diags : d.id = m.id

\* C12: any/all semantics, stated independently of Kept
AnySemantics ==
  \A d \in D : ~d.all => ( (\E m \in Merged(runs) : m.id = d.id) <=> \E i \in 1..Len(runs) : Has(runs, i, d) )
AllSemantics ==
  \A d \in D : d.all =>
     ( (\E m \in Merged(runs) : m.id = d.id) <=>
         /\ \E i \in 1..Len(runs) : Has(runs, i, d)
         /\ ~\E i \in 1..Len(runs) : d.file \in runs[i].checked /\ ~Has(runs, i, d) )

\* adding a run can only remove `all` problems or add problems; it never removes an `any` problem
AnyMonotone ==
  [][ \A d \in D : (~d.all /\ Kept(runs, d)) => Kept(runs', d) ]_vars

-----------------------------------------------------------------------------
(* Case emission for replay (generation config only).                      *)
Emit ==
  IF Len(runs) = 0 THEN TRUE ELSE
  PrintT("CASE " \o ToJson(
     [ runs   |-> [ i \in 1..Len(runs) |->
                     [ name |-> runs[i].name, checked |-> runs[i].checked,
                       diags |-> { d.id : d \in runs[i].diags } ] ],
       merged |-> Merged(runs) ]))
=============================================================================
