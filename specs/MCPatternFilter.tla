-------------------------- MODULE MCPatternFilter --------------------------
(* Model constants for PatternFilter.tla: symbol table, node family, pattern families. *)
EXTENDS PatternFilter, SequencesExt

\* parser.go: allTypes (41 node types)
MCAllTypes == {"RangeStmt", "AssignStmt", "IndexExpr", "Ident", "ValueSpec", "GenDecl", "BinaryExpr", "ForStmt",
  "ArrayType", "DeferStmt", "MapType", "ReturnStmt", "SliceExpr", "StarExpr", "UnaryExpr", "SendStmt", "SelectStmt",
  "ImportSpec", "IfStmt", "GoStmt", "Field", "SelectorExpr", "StructType", "KeyValueExpr", "FuncType", "FuncLit",
  "FuncDecl", "ChanType", "CallExpr", "CaseClause", "CommClause", "CompositeLit", "EmptyStmt", "SwitchStmt",
  "TypeSwitchStmt", "TypeAssertExpr", "TypeSpec", "InterfaceType", "BranchStmt", "IncDecStmt", "BasicLit"}

\* number of fields of each node pattern (pattern.go), for the generic family (N _ ... _)
Arity == [RangeStmt |-> 5, AssignStmt |-> 3, IndexExpr |-> 2, Ident |-> 1, ValueSpec |-> 3, GenDecl |-> 2, BinaryExpr |-> 3,
  ForStmt |-> 4, ArrayType |-> 2, DeferStmt |-> 1, MapType |-> 2, ReturnStmt |-> 1, SliceExpr |-> 4, StarExpr |-> 1,
  UnaryExpr |-> 2, SendStmt |-> 2, SelectStmt |-> 1, ImportSpec |-> 2, IfStmt |-> 4, GoStmt |-> 1, Field |-> 3,
  SelectorExpr |-> 2, StructType |-> 1, KeyValueExpr |-> 2, FuncType |-> 2, FuncLit |-> 2, FuncDecl |-> 4, ChanType |-> 2,
  CallExpr |-> 2, CaseClause |-> 2, CommClause |-> 2, CompositeLit |-> 2, EmptyStmt |-> 0, SwitchStmt |-> 3,
  TypeSwitchStmt |-> 3, TypeAssertExpr |-> 2, TypeSpec |-> 2, InterfaceType |-> 1, BranchStmt |-> 2, IncDecStmt |-> 2,
  BasicLit |-> 2]

\* the symbols of the generated fixture library ex.test/cf/lib (checks/C08.py writes it)
LibPath == "ex.test/cf/lib"
MCSymTab == [F  |-> [path |-> LibPath, type |-> "",  ident |-> "F",  kind |-> "func"],
             G  |-> [path |-> LibPath, type |-> "",  ident |-> "G",  kind |-> "func"],
             M  |-> [path |-> LibPath, type |-> "T", ident |-> "M",  kind |-> "method"],
             T  |-> [path |-> LibPath, type |-> "",  ident |-> "T",  kind |-> "type"],
             TA |-> [path |-> LibPath, type |-> "",  ident |-> "TA", kind |-> "type"],
             V  |-> [path |-> LibPath, type |-> "",  ident |-> "V",  kind |-> "var"]]
MCAliasOf == [TA |-> "T"]

\* ---------------------------------------------------------------- values
Tok(s)   == [k |-> "tok", s |-> s]
NilV     == [k |-> "nilv"]
Lst(es)  == [k |-> "list", es |-> es]
Nd(ty, fs) == [k |-> "node", ty |-> ty, fs |-> fs]
Id(n, s) == [k |-> "node", ty |-> "Ident", fs |-> <<Str(n)>>, sym |-> s]
Sel(x, i) == Nd("SelectorExpr", <<x, i>>)
Call(f, as) == Nd("CallExpr", <<f, Lst(as)>>)
Paren(x) == Nd("ParenExpr", <<x>>)
Stmt(x)  == Nd("ExprStmt", <<x>>)
Block(ss) == Nd("BlockStmt", <<Lst(ss)>>)
Index(x, i) == Nd("IndexExpr", <<x, i>>)
Bin(x, o, y) == Nd("BinaryExpr", <<x, Tok(o), y>>)
Un(o, x) == Nd("UnaryExpr", <<Tok(o), x>>)
Lit(kd, v) == Nd("BasicLit", <<Tok(kd), Str(v)>>)
Assign(l, o, r) == Nd("AssignStmt", <<Lst(<<l>>), Tok(o), Lst(<<r>>)>>)
If(c, b, e) == Nd("IfStmt", <<NilV, c, b, e>>)
Ret(rs) == Nd("ReturnStmt", <<Lst(rs)>>)

x    == Id("x", "none")
lib  == Id("lib", "none")
int  == Id("int", "universe")
len  == Id("len", "universe")
one  == Lit("INT", "1")
\* the call forms of the property: qualified, dot import, parenthesised callee, method, generic
\* instantiation, conversion, alias conversion, unrelated callee
Callees == { Sel(lib, Id("F", "F")), Id("F", "F"), Paren(Sel(lib, Id("F", "F"))), Sel(x, Id("M", "M")),
             Index(Sel(lib, Id("G", "G")), int), Sel(lib, Id("G", "G")), Sel(lib, Id("T", "T")), Sel(lib, Id("TA", "TA")),
             Id("TA", "TA"), x, len }
Calls == { Call(f, as) : f \in Callees, as \in {<<>>, <<x>>, <<one, x>>} }
SomeCall == Call(Sel(lib, Id("F", "F")), <<x>>)
ConvCall == Call(Sel(lib, Id("TA", "TA")), <<x>>)
Roots == Calls
  \cup { Paren(SomeCall), Stmt(SomeCall), Stmt(Paren(ConvCall)), Block(<<Stmt(SomeCall)>>), Block(<<Stmt(SomeCall), Stmt(ConvCall)>>),
         Block(<<>>), Bin(Sel(lib, Id("V", "V")), "+", one), Bin(x, "%", one), Un("-", one), Un("-", Un("+", one)), Un("!", x),
         Assign(x, "=", SomeCall), Assign(x, ":=", Sel(lib, Id("V", "V"))), If(x, Block(<<Stmt(SomeCall)>>), NilV),
         If(Bin(x, "==", x), Block(<<>>), Block(<<Stmt(ConvCall)>>)), Ret(<<SomeCall>>), Ret(<<>>),
         Index(x, one), Call(Sel(Call(Sel(lib, Id("F", "F")), <<>>), Id("M", "M")), <<x>>) }

\* a package is the set of all nodes below its roots
RECURSIVE Below(_)
Below(v) ==
  IF v.k = "list" THEN UNION { Below(v.es[i]) : i \in 1..Len(v.es) }
  ELSE IF v.k # "node" THEN {}
  ELSE {v} \cup UNION { Below(v.fs[i]) : i \in 1..Len(v.fs) }
NodeSet == UNION { Below(r) : r \in Roots }

\* ---------------------------------------------------------------- patterns
PAny       == [k |-> "any"]
PStr(s)    == [k |-> "str", s |-> s]
SN(s)      == [k |-> "symname", s |-> s]
PNilAtom   == [k |-> "pnil"]
Ref(n)     == [k |-> "ref", n |-> n]
Bind(n, s) == [k |-> "bind", n |-> n, sub |-> s]
OrS(as)    == [k |-> "or", alts |-> as]
Or2(a, b)  == OrS(<<a, b>>)
Not(a)     == [k |-> "not", a |-> a]
PNil       == [k |-> "nil"]
PCons(h, t) == [k |-> "cons", h |-> h, t |-> t]
PN(ty, fs) == [k |-> "node", ty |-> ty, fs |-> fs]
Sym(nm)    == [k |-> "sym", name |-> nm]
Builtin(nm) == [k |-> "builtin", name |-> nm]
Obj(nm)    == [k |-> "obj", name |-> nm]
IntLit(nm) == [k |-> "intlit", name |-> nm]

\* names under a Symbol
NameP == { SN(s) : s \in {"F", "G", "M", "T", "V"} }
           \cup { Or2(SN("F"), SN("M")), Or2(SN("T"), SN("G")), OrS(<<SN("F"), SN("G"), SN("V")>>),
                  Bind("n", SN("F")), Bind("n", Or2(SN("F"), SN("T"))), PAny, Ref("n"), Not(SN("F")),
                  Or2(SN("F"), PAny), Or2(SN("M"), Ref("n")), Or2(SN("F"), Bind("n", SN("M"))) }
SymP  == { Sym(nm) : nm \in NameP }
\* what stands in the Fun position of a call pattern
FunP  == SymP \cup { Bind("f", sp) : sp \in { Sym(SN("F")), Sym(Or2(SN("F"), SN("M"))), Sym(PAny) } }
           \cup { Or2(Sym(SN("F")), Sym(SN("M"))), Or2(Sym(SN("T")), Sym(Or2(SN("F"), SN("G")))),
                  Or2(Sym(SN("F")), PN("Ident", <<PStr("x")>>)), Or2(Sym(SN("F")), Sym(PAny)),
                  Bind("f", Or2(Sym(SN("M")), Sym(SN("G")))), Not(Sym(SN("F"))),
                  PAny, Ref("f"), PN("Ident", <<PStr("x")>>), PN("SelectorExpr", <<PAny, Sym(SN("M"))>>),
                  PN("SelectorExpr", <<PAny, PN("Ident", <<PStr("F")>>)>>), PN("IndexExpr", <<Sym(SN("G")), PAny>>),
                  Builtin(PStr("len")), Builtin(Or2(PStr("len"), PStr("cap"))), Obj(PAny) }
ArgsP == { PAny, PNil, PCons(PAny, PNil), PCons(PAny, PAny), Ref("a"), PN("Ident", <<PStr("x")>>),
           PCons(IntLit(PAny), PAny), PCons(Sym(SN("V")), PNil), PN("CallExpr", <<Sym(SN("F")), PAny>>) }
CallP == { PN("CallExpr", <<f, a>>) : f \in FunP, a \in ArgsP }
SomeCallP == { PN("CallExpr", <<f, PAny>>) : f \in { Sym(SN("F")), Sym(SN("T")), Sym(Or2(SN("F"), SN("M"))), PAny, Not(Sym(SN("F"))) } }

\* every node type the language can name: (N _ ... _)
Generic == { PN(ty, [i \in 1..Arity[ty] |-> PAny]) : ty \in MCAllTypes }

OtherRoots ==
  { PAny, Ref("r"), PNilAtom, PNil, PCons(PAny, PAny), PCons(PN("CallExpr", <<Sym(SN("F")), PAny>>), PAny),
    PCons(PAny, PNil), IntLit(PAny), IntLit(PStr("1")), Builtin(PStr("len")), Obj(PStr("x")),
    PN("BinaryExpr", <<Sym(SN("V")), PAny, PAny>>), PN("BinaryExpr", <<PAny, PStr("%"), IntLit(PStr("1"))>>),
    PN("BinaryExpr", <<PAny, Or2(PStr("=="), PStr("!=")), PAny>>), PN("UnaryExpr", <<PStr("-"), IntLit(PAny)>>),
    PN("AssignStmt", <<PAny, PStr("="), PN("CallExpr", <<Sym(SN("F")), PAny>>)>>),
    PN("AssignStmt", <<Ref("l"), PAny, Sym(SN("V"))>>),
    PN("IfStmt", <<PNilAtom, PAny, PCons(PN("CallExpr", <<Sym(SN("F")), PAny>>), PNil), PAny>>),
    PN("IfStmt", <<PAny, PAny, PAny, Not(PNilAtom)>>),
    PN("ReturnStmt", <<PCons(PN("CallExpr", <<Sym(Or2(SN("F"), SN("G"))), PAny>>), PNil)>>),
    PN("SelectorExpr", <<PAny, Sym(SN("M"))>>), PN("SelectorExpr", <<PN("CallExpr", <<Sym(SN("F")), PAny>>), PAny>>),
    PN("IndexExpr", <<Sym(SN("G")), PAny>>), PN("IndexExpr", <<PAny, IntLit(PAny)>>) }

Wrapped(S) == S \cup { Bind("b", q) : q \in S } \cup { Not(q) : q \in S }
                \cup { Or2(q, PN("BinaryExpr", <<PAny, PAny, PAny>>)) : q \in S }
                \cup { Or2(Not(q), PN("Ident", <<PStr("x")>>)) : q \in S }

\* (a bare `nil` cannot be written as a complete pattern: the root has to be a node)
PatSet  == (CallP \cup Wrapped(SomeCallP \cup SymP \cup OtherRoots) \cup Generic
            \cup { Or2(a, b) : a \in SomeCallP, b \in SomeCallP }) \ {PNilAtom}
Pats    == SetToSeq(PatSet)
Nodes   == SetToSeq(NodeSet)

SpecMC  == InitOver(Pats) /\ [][Search(Pats, Nodes)]_vars
SpecGen == (EmitPats(Pats) /\ InitOver(Pats)) /\ [][Search(Pats, Nodes)]_vars
=============================================================================
