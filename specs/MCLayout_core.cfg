\* every struct with <= 4 fields over Core: laws of C19 on the oracle + CASE emission
SPECIFICATION Spec
CONSTANTS
  FieldTypes <- Core
  MaxFields = 4
INVARIANTS ReportTiles ReportAltTiles TopTiles ReportAligned FieldsWellPlaced OptimizeLaws OptimizeRNeverGrows OptimizeAltNeverGrows Emit
PROPERTY AppendStable
CHECK_DEADLOCK FALSE
