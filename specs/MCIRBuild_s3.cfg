\* thorough: 3 shared functions, every reference relation among them without self-reference
\* (64), each builder looks up exactly one of them (27 combinations); safety + deadlock-freedom
SPECIFICATION MCSpec
CONSTANTS
  Builders = {1, 2, 3}
  PkgBuilders = {1, 2}
  Shared = {1, 2, 3}
  Callers = {}
  RelaxedReads = FALSE
  FnMode = "sortednoself"
  RootMode = "single"
  GenMode = FALSE
INVARIANTS TypeOK CreatedOnce BuiltAtReturn CallerSeesBuilt NoDeadlock ProgramOK
PROPERTIES CreatedOnceStep NoEdgeAfterDone Idempotent
VIEW View
CHECK_DEADLOCK FALSE
