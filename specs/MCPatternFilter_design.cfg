\* the design: FilterComplete and the per-stage laws over every (pattern, node); emits the collectors per pattern
SPECIFICATION SpecGen
CONSTANTS
  AllTypes <- MCAllTypes
  SymTab <- MCSymTab
  AliasOf <- MCAliasOf
  NotEntry = "all"
  AnyEntry = "lists"
  SymEntry = "index"
  UseMode = "alias"
  CalleeMode = "any"
INVARIANTS FilterComplete EntrySound SymsSound RootCallsSound
CHECK_DEADLOCK FALSE
