\* generation by -simulate (thorough tier): three processes x 2 operations, two keys, three values; emits complete behaviours
SPECIFICATION SpecGen
CONSTANTS
  NP <- S_NP
  NK <- S_NK
  VB <- S_VB
  MaxOps <- S_MaxOps
  Roles <- S_Roles
  Faults <- S_Faults
  MaxFaults <- S_MaxFaults
  TrimOrder <- S_Trim
  CrashCosts = TRUE
  Record = TRUE
INVARIANTS TypeOK LookupSoundBytes LookupSoundFileModTrimRace HitThenReadableModTrimRace SizeImpliesComplete NoLeak IndexSound EmitAllDone
CHECK_DEADLOCK FALSE
