----------------------------- MODULE MCDataflow -----------------------------
(***************************************************************************)
(* Case spaces for Dataflow.tla.                                           *)
(*   InitEnum   for every lattice in MCLats: every edge relation over      *)
(*              <= MCN nodes (self-loops, unreachable and multi-entry      *)
(*              regions included) x every assignment of a function of the  *)
(*              family MCFam to each edge x every entry fact (absent,      *)
(*              least non-bottom, top) on the nodes without in-edges       *)
(*   InitPar    as InitEnum over <= MCParN nodes with every edge single or *)
(*              doubled (parallel edges), lattice chain2                   *)
(*   InitSparse every def-use relation over <= MCN values x kinds x tables *)
(*   InitJson   the cases listed in dataflow_cases.json (seeded samples    *)
(*              with larger graphs, all monotone tables; written by the    *)
(*              check)                                                     *)
(***************************************************************************)
EXTENDS Dataflow

CONSTANTS MCN, MCLats, MCFam, MCParN, UseJson

Pairs(n) == (1..n) \X (1..n)
RECURSIVE SortedSeq(_)
SortedSeq(S) == IF S = {} THEN <<>>
                ELSE LET mn == CHOOSE x \in S : \A y \in S : x <= y IN <<mn>> \o SortedSeq(S \ {mn})
RECURSIVE Dup(_, _)
\* sequence s with the members of D doubled
Dup(s, D) == IF s = <<>> THEN <<>>
             ELSE (IF Head(s) \in D THEN <<Head(s), Head(s)>> ELSE <<Head(s)>>) \o Dup(Tail(s), D)
SuccsOf(n, E) == [ u \in 1..n |-> SortedSeq({ v \in 1..n : <<u, v>> \in E }) ]
SuccsPar(n, E, P) == [ u \in 1..n |-> Dup(SortedSeq({ v \in 1..n : <<u, v>> \in E }), { v \in 1..n : <<u, v>> \in P }) ]

\* "idgenkill": identity, constant top (gen), constant bottom (kill), and a function that only
\* becomes non-bottom downstream of a non-bottom input (bottom -> bottom, everything else -> top)
Fam(l) ==
  CASE MCFam = "all"       -> MonoFns(l)
    [] MCFam = "idgen"     -> { IdFn(l), ConstFn(l, Size(l) - 1) }
    [] MCFam = "idgenkill" -> { IdFn(l), ConstFn(l, Size(l) - 1), ConstFn(l, 0),
                                [ i \in 1..Size(l) |-> IF i = 1 THEN 0 ELSE Size(l) - 1 ] }
TfOf(n, l, E, t) == [ u \in 1..n |-> [ v \in 1..n |-> IF <<u, v>> \in E THEN t[<<u, v>>] ELSE IdFn(l) ] ]
NoPred(n, E) == { u \in 1..n : ~\E p \in 1..n : <<p, u>> \in E }
EntryVals(l) == {1, Size(l) - 1}
EntryChoices(n, E, l) ==
  { e \in [ 1..n -> {-1} \cup EntryVals(l) ] : \A u \in 1..n : u \notin NoPred(n, E) => e[u] = -1 }
Kinds(n, k) == [ u \in 1..n |-> k ]

InitEnum ==
  \E l \in MCLats : \E n \in 1..MCN : \E E \in SUBSET Pairs(n) : \E t \in [ E -> Fam(l) ] : \E e \in EntryChoices(n, E, l) :
     InitWith([ n |-> n, succs |-> SuccsOf(n, E), lat |-> l, tf |-> TfOf(n, l, E, t), entry |-> e,
                kind |-> Kinds(n, "un") ])

InitPar ==
  \E n \in 1..MCParN : \E E \in SUBSET Pairs(n) : \E P \in (SUBSET E) \ {{}} : \E t \in [ E -> Fam("chain2") ] :
  \E e \in EntryChoices(n, E, "chain2") :
     InitWith([ n |-> n, succs |-> SuccsPar(n, E, P), lat |-> "chain2", tf |-> TfOf(n, "chain2", E, t), entry |-> e,
                kind |-> Kinds(n, "un") ])

\* sparse: node functions live on the diagonal tf[v][v]; params are nodes without operands
InitSparse ==
  \E l \in MCLats : \E n \in 1..MCN : \E E \in SUBSET Pairs(n) :
  \E k \in [ 1..n -> {"phi", "un", "strict", "param"} ] :
  \E t \in [ { <<v, v>> : v \in { u \in 1..n : k[u] \in {"un", "strict"} } } -> Fam(l) ] :
  \E e \in [ 1..n -> {-1} \cup EntryVals(l) ] :
     /\ \A u \in 1..n : (k[u] = "param") => (u \in NoPred(n, E))
     /\ \A u \in 1..n : (k[u] # "param") => (e[u] = -1)
     /\ InitWith([ n |-> n, succs |-> SuccsOf(n, E), lat |-> l,
                   tf |-> [ u \in 1..n |-> [ v \in 1..n |-> IF <<u, v>> \in DOMAIN t THEN t[<<u, v>>] ELSE IdFn(l) ] ],
                   entry |-> e, kind |-> k ])

JsonCases == IF UseJson THEN JsonDeserialize("dataflow_cases.json").cases ELSE <<>>
InitJson ==
  \E i \in 1..Len(JsonCases) :
     LET c == JsonCases[i] IN
     InitWith([ n |-> c.n, succs |-> c.succs, lat |-> c.lat, tf |-> c.tf, entry |-> c.entry, kind |-> c.kind ])

InitDense  == InitEnum \/ InitPar \/ InitJson
InitSparseAll == InitSparse \/ InitJson
=============================================================================
