SPECIFICATION OSpec
CONSTANTS
  Shapes = {}
  MaxCases = 1
  StrictBeh = TRUE
INVARIANTS BehaviourPreserved
CHECK_DEADLOCK FALSE
