--------------------------- MODULE PatternFilter ---------------------------
(***************************************************************************)
(* Pre-filtering of pattern searches -- property C08.                      *)
(*                                                                         *)
(* pattern/parser.go computes three over-approximations when a pattern is  *)
(* parsed, and analysis/code/visit.go (Matches, CouldMatchAny) uses them   *)
(* to restrict the search:                                                 *)
(*   Entry(p)      node types at which a match can start (collectEntryNodes*)
(*                 + nodeToASTTypes)           -> inspector.Nodes(types)   *)
(*   Syms(p)       an And/Or/Any formula over index symbols that every     *)
(*                 package containing a match must reference               *)
(*                 (collectSymbols)            -> CouldMatchAny            *)
(*   RootCalls(p)  if non-empty: every match is a call of one of these     *)
(*                 symbols (collectRootCallSymbols) -> typeindex.Calls     *)
(* This module transcribes the three collectors rule by rule, gives the    *)
(* match relation M(p, v) of the pattern language over abstract syntax     *)
(* (including automatic unnesting of ParenExpr / ExprStmt / one-element    *)
(* lists and the symbol-aware nodes), and states the property as           *)
(* FilterComplete: whenever p matches a node n of a package, the filtered  *)
(* search tries some node of n's unwrap chain that matches as well.        *)
(*                                                                         *)
(* The constants name the design and the deviations that are plausible for *)
(* (or were found in) the code:                                            *)
(*   NotEntry  "all"      a Not can start anywhere                         *)
(*             "operand"  Entry(Not p) = Entry(p)                          *)
(*   SymEntry  "index"    Symbol also starts at IndexExpr (f[T])           *)
(*             "plain"    only Ident / SelectorExpr                        *)
(*   AnyEntry  "lists"    a catch-all (Any, name, nil, Not, ...) can also   *)
(*                        start at the list carriers BlockStmt / FieldList *)
(*             "named"    only at the node types a pattern can name        *)
(*   UseMode   "alias"    a use of an alias counts as a use of its target  *)
(*             "direct"   only the named object itself                     *)
(*   CalleeMode "any"     a conversion T(x) is a call site of T            *)
(*              "func"    only functions/methods/variables have call sites *)
(***************************************************************************)
EXTENDS Integers, Sequences, FiniteSets, TLC, Json

CONSTANTS
  AllTypes,    \* the node types a pattern can name (parser.go: allTypes)
  SymTab,      \* symbol id -> [path, type, ident, kind]   kind \in {"func","method","type","var"}
  AliasOf,     \* alias symbol id -> target symbol id (function with a possibly empty domain)
  NotEntry, SymEntry, AnyEntry, UseMode, CalleeMode

VARIABLES pi, ni, res
vars == <<pi, ni, res>>

SymIds == DOMAIN SymTab

-----------------------------------------------------------------------------
(* Abstract syntax.                                                        *)
(* values : [k:"node",ty,fs(,sym)] | [k:"list",es] | [k:"str",s] |         *)
(*          [k:"tok",s] | [k:"nilv"]      (an Ident carries the id of the  *)
(*          symbol it resolves to, "none", or "universe")                  *)
(* patterns: any | str(s) | symname(s) | pnil | ref(n) | bind(n,sub) |     *)
(*   or(alts) | not(a) | nil | cons(h,t) | node(ty,fs) | sym(name) |       *)
(*   builtin(name) | obj(name) | intlit(name)                              *)
(***************************************************************************)
Str(s) == [k |-> "str", s |-> s]
Wrappers == {"ParenExpr", "ExprStmt"}
IsNode(v) == v.k = "node"

\* match(): the right-hand side is unwrapped first
RECURSIVE Unwrap(_)
Unwrap(v) ==
  IF IsNode(v) /\ v.ty \in Wrappers THEN Unwrap(v.fs[1])
  ELSE IF IsNode(v) /\ v.ty = "BlockStmt" THEN v.fs[1]          \* BlockStmt -> its statement list
  ELSE v

\* a node pattern meeting a one-element list matches the element
RECURSIVE Solo(_)
Solo(v) == LET u == Unwrap(v) IN
           IF u.k = "list" /\ Len(u.es) = 1 THEN Solo(u.es[1]) ELSE u

ListTail(v) == [k |-> "list", es |-> Tail(v.es)]

\* the name under which Symbol.Match knows a resolved identifier: its own, and (aliases) its target's
NamesOfSym(s) == IF s \in DOMAIN AliasOf THEN {s, AliasOf[s]} ELSE {s}

RECURSIVE M(_, _), MOr(_, _, _), MFields(_, _, _), SymOf(_)
\* the symbol an expression in function/operand position refers to ("none" if it is no such expression)
SymOf(v) ==
  LET w == Solo(v) IN
  IF ~IsNode(w) THEN "none"
  ELSE IF w.ty = "Ident" THEN w.sym
  ELSE IF w.ty = "SelectorExpr" THEN Solo(w.fs[2]).sym
  ELSE "none"

M(p, v) ==
  CASE p.k = "any"  -> TRUE
    [] p.k = "ref"  -> TRUE                      \* bindings never make a match fail that the filters must keep
    [] p.k = "bind" -> M(p.sub, v)
    [] p.k = "str"  -> LET u == Unwrap(v) IN u.k \in {"str", "tok"} /\ u.s = p.s
    [] p.k = "symname" -> LET u == Unwrap(v) IN u.k = "str" /\ u.s = p.s
    [] p.k = "pnil" -> Unwrap(v).k = "nilv"
    [] p.k = "nil"  -> LET u == Unwrap(v) IN u.k = "list" /\ Len(u.es) = 0
    [] p.k = "cons" -> LET u == Unwrap(v) IN
                       u.k = "list" /\ Len(u.es) > 0 /\ M(p.h, u.es[1]) /\ M(p.t, ListTail(u))
    [] p.k = "or"   -> MOr(p.alts, 1, v)
    [] p.k = "not"  -> ~M(p.a, v)
    [] p.k = "node" -> LET w == Solo(v) IN
                       IsNode(w) /\ w.ty = p.ty /\ Len(w.fs) = Len(p.fs) /\ MFields(p.fs, w.fs, 1)
    [] p.k = "sym"  ->                           \* Symbol.Match: Ident | SelectorExpr | IndexExpr over those
         LET w == Solo(v)
             f == IF IsNode(w) /\ w.ty = "IndexExpr" THEN w.fs[1] ELSE w
             s == SymOf(f) IN
         s \in SymIds /\ \E nm \in NamesOfSym(s) : M(p.name, Str(nm))
    [] p.k = "builtin" -> LET w == Solo(v) IN
         IsNode(w) /\ w.ty = "Ident" /\ w.sym = "universe" /\ M(p.name, w.fs[1])
    [] p.k = "obj"  -> LET w == Solo(v) IN IsNode(w) /\ w.ty = "Ident" /\ M(p.name, w.fs[1])
    [] p.k = "intlit" ->                         \* (Or (BasicLit "INT" _) (UnaryExpr (Or "+" "-") (IntegerLiteral _)))
         LET w == Solo(v) IN
         IsNode(w) /\ ( (w.ty = "BasicLit" /\ w.fs[1].s = "INT")
                        \/ (w.ty = "UnaryExpr" /\ w.fs[1].s \in {"+", "-"} /\ M(p, w.fs[2])) )
MOr(alts, i, v) == IF i > Len(alts) THEN FALSE ELSE M(alts[i], v) \/ MOr(alts, i + 1, v)
MFields(ps, vs, i) == IF i > Len(ps) THEN TRUE ELSE M(ps[i], vs[i]) /\ MFields(ps, vs, i + 1)

-----------------------------------------------------------------------------
(* collectEntryNodes + nodeToASTTypes                                      *)
(***************************************************************************)
ListCarriers == {"BlockStmt", "FieldList"}
\* a node type that no pattern can name but that a Symbol, and therefore every catch-all pattern, can start at:
\* an instantiation with several type arguments, f[int, string]
Unnamed == {"IndexListExpr"}
CatchAll == IF AnyEntry = "lists" THEN AllTypes \cup ListCarriers \cup Unnamed ELSE AllTypes
RECURSIVE Entry(_)
Entry(p) ==
  CASE p.k = "or"   -> UNION { Entry(p.alts[i]) : i \in 1..Len(p.alts) }
    [] p.k = "not"  -> IF NotEntry = "all" THEN CatchAll ELSE Entry(p.a)
    [] p.k = "bind" -> Entry(p.sub)
    [] p.k \in {"ref", "pnil", "any"} -> CatchAll
    [] p.k \in {"str", "symname"} -> {}
    [] p.k \in {"nil", "cons"} -> ListCarriers
    [] p.k \in {"builtin", "obj"} -> {"Ident"}
    [] p.k = "sym"  -> IF SymEntry = "index" THEN {"Ident", "SelectorExpr", "IndexExpr", "IndexListExpr"} ELSE {"Ident", "SelectorExpr"}
    [] p.k = "intlit" -> {"BasicLit", "UnaryExpr"}
    [] p.k = "node" -> {p.ty}

-----------------------------------------------------------------------------
(* collectSymbols: formulas  [k:"fany"] | [k:"fnil"] | [k:"isym",s] |      *)
(* [k:"fand",fs] | [k:"for",fs]                                            *)
(***************************************************************************)
FAny == [k |-> "fany"]
FNil == [k |-> "fnil"]
ISym(s) == [k |-> "isym", s |-> s]

RECURSIVE Syms(_, _), OrKids(_, _, _, _), AndKids(_, _, _, _)
\* the `and` closure of collectSymbols: nested Ands are spliced, Any and nil are dropped
AndAdd(c, acc) == IF c.k = "fand" THEN acc \o c.fs ELSE IF c.k \in {"fany", "fnil"} THEN acc ELSE Append(acc, c)
AndResult(acc) == IF Len(acc) = 0 THEN FAny ELSE IF Len(acc) = 1 THEN acc[1] ELSE [k |-> "fand", fs |-> acc]
AndKids(ps, i, inSym, acc) ==
  IF i > Len(ps) THEN AndResult(acc) ELSE AndKids(ps, i + 1, inSym, AndAdd(Syms(ps[i], inSym), acc))
\* the Or case: nested Ors are spliced, an Any child makes the whole Or Any, nil children are dropped
OrKids(ps, i, inSym, acc) ==
  IF i > Len(ps)
  THEN IF Len(acc) = 0 THEN FNil ELSE IF Len(acc) = 1 THEN acc[1] ELSE [k |-> "for", fs |-> acc]
  ELSE LET c == Syms(ps[i], inSym) IN
       IF c.k = "fany" THEN FAny
       ELSE IF c.k = "for" THEN OrKids(ps, i + 1, inSym, acc \o c.fs)
       ELSE IF c.k = "fnil" THEN OrKids(ps, i + 1, inSym, acc)
       ELSE OrKids(ps, i + 1, inSym, Append(acc, c))
Syms(p, inSym) ==
  CASE p.k = "or"   -> OrKids(p.alts, 1, inSym, <<>>)
    [] p.k \in {"not", "ref", "any"} -> FAny                 \* Not, Token, nil (a bare name has Node = nil), Any
    [] p.k = "sym"  -> Syms(p.name, TRUE)
    [] p.k = "str"  -> FAny                                     \* a string that names no symbol of SymTab
    [] p.k = "symname" -> IF inSym THEN ISym(p.s) ELSE FAny
    [] p.k = "bind" -> Syms(p.sub, inSym)
    [] p.k = "nil"  -> FAny
    [] p.k = "cons" -> AndKids(<<p.h, p.t>>, 1, inSym, <<>>)
    [] p.k = "node" -> AndKids(p.fs, 1, inSym, <<>>)
    [] p.k \in {"builtin", "obj", "intlit"} -> AndKids(<<p.name>>, 1, inSym, <<>>)
    [] p.k = "pnil" -> FAny
\* Parser.Parse: collectSymbols(root, root is a Symbol)
SymsOf(p) == Syms(p, p.k = "sym")

\* CouldMatchAny's evaluation against the set of symbols the package's index knows as used
RECURSIVE Sat(_, _)
Sat(f, U) ==
  CASE f.k = "fany" -> TRUE
    [] f.k = "isym" -> f.s \in U
    [] f.k = "fand" -> \A i \in 1..Len(f.fs) : Sat(f.fs[i], U)
    [] f.k = "for"  -> \E i \in 1..Len(f.fs) : Sat(f.fs[i], U)
    [] f.k = "fnil" -> FALSE        \* (the code panics on a nil formula: only an empty Or produces it)

-----------------------------------------------------------------------------
(* collectRootCallSymbols                                                  *)
(***************************************************************************)
NoRoot == [ok |-> FALSE, s |-> {}]
RECURSIVE SymNames(_), RootFun(_)
\* handleSymName: a string, an Or of strings, or a binding around one of those
SymNames(nm) ==
  CASE nm.k = "symname" -> [ok |-> TRUE, s |-> {nm.s}]
    [] nm.k = "or" -> IF \A i \in 1..Len(nm.alts) : nm.alts[i].k = "symname"
                      THEN [ok |-> TRUE, s |-> { nm.alts[i].s : i \in 1..Len(nm.alts) }] ELSE NoRoot
    [] nm.k = "bind" -> SymNames(nm.sub)
    [] OTHER -> NoRoot
\* handleRootFun: a Symbol, an Or of Symbols, or a binding around one of those
RootFun(f) ==
  CASE f.k = "bind" -> RootFun(f.sub)
    [] f.k = "sym"  -> SymNames(f.name)
    [] f.k = "or"   -> IF \A i \in 1..Len(f.alts) : f.alts[i].k = "sym" /\ SymNames(f.alts[i].name).ok
                       THEN [ok |-> TRUE, s |-> UNION { SymNames(f.alts[i].name).s : i \in 1..Len(f.alts) }] ELSE NoRoot
    [] OTHER -> NoRoot
RootCalls(p) ==
  IF p.k = "node" /\ p.ty = "CallExpr" THEN (LET r == RootFun(p.fs[1]) IN IF r.ok THEN r.s ELSE {}) ELSE {}

-----------------------------------------------------------------------------
(* The package side: which symbols the index reports as used, which calls  *)
(* it reports for a symbol.                                                *)
(***************************************************************************)
RECURSIVE UsesIn(_)
UsesIn(v) ==
  IF v.k = "list" THEN UNION { UsesIn(v.es[i]) : i \in 1..Len(v.es) }
  ELSE IF ~IsNode(v) THEN {}
  ELSE LET own == IF v.ty = "Ident" /\ v.sym \in SymIds
                  THEN (IF UseMode = "alias" THEN NamesOfSym(v.sym) ELSE {v.sym}) ELSE {}
       IN own \cup UNION { UsesIn(v.fs[i]) : i \in 1..Len(v.fs) }

\* typeindex.Calls(obj): call expressions whose callee (through parens, selectors, f[T]) is obj
CalleeOf(c) ==
  LET f0 == Solo(c.fs[1])
      f  == IF IsNode(f0) /\ f0.ty = "IndexExpr" THEN f0.fs[1] ELSE f0
      s  == SymOf(f) IN
  IF s \notin SymIds THEN {}
  ELSE IF CalleeMode = "func" /\ SymTab[s].kind = "type" THEN {}
  ELSE IF UseMode = "alias" THEN NamesOfSym(s) ELSE {s}

\* the nodes pattern.Match looks through before it compares: n, what n wraps, ...
RECURSIVE Chain(_)
Chain(v) ==
  IF IsNode(v) /\ v.ty \in Wrappers THEN {v} \cup Chain(v.fs[1])
  ELSE IF IsNode(v) /\ v.ty = "BlockStmt" /\ Len(v.fs[1].es) = 1 THEN {v} \cup Chain(v.fs[1].es[1])
  ELSE {v}

\* would code.Matches try (and therefore report) node c of a package whose used symbols are U?
Tried(p, c, U) ==
  /\ Sat(SymsOf(p), U)
  /\ IF RootCalls(p) # {}
     THEN IsNode(c) /\ c.ty = "CallExpr" /\ CalleeOf(c) \cap RootCalls(p) # {}
     ELSE IsNode(c) /\ c.ty \in Entry(p)

-----------------------------------------------------------------------------
NoRes == [done |-> FALSE]

InitOver(ps) == pi \in 1..Len(ps) /\ ni = 0 /\ res = NoRes

\* one search: pattern ps[pi] against node ns[j] of a package that uses exactly the symbols of that node's tree
Search(ps, ns) ==
  /\ res = NoRes
  /\ \E j \in 1..Len(ns) :
       LET p == ps[pi]  n == ns[j]  U == UsesIn(n) IN
       /\ ni' = j
       /\ res' = [done |-> TRUE, m |-> M(p, n),
                  tried |-> \E c \in Chain(n) : Tried(p, c, U) /\ M(p, c),
                  entry |-> \E c \in Chain(n) : IsNode(c) /\ c.ty \in Entry(p),
                  syms  |-> Sat(SymsOf(p), U),
                  root  |-> RootCalls(p) = {} \/ \E c \in Chain(n) : IsNode(c) /\ c.ty = "CallExpr" /\ CalleeOf(c) \cap RootCalls(p) # {}]
  /\ UNCHANGED pi

\* C08: restricting the search never drops a match
FilterComplete == (res.done /\ res.m) => res.tried
\* ... and per stage
EntrySound     == (res.done /\ res.m) => res.entry
SymsSound      == (res.done /\ res.m) => res.syms
RootCallsSound == (res.done /\ res.m) => res.root

-----------------------------------------------------------------------------
(* Emission: the collectors' results per pattern (compared with the real   *)
(* Parser's output) and the patterns themselves (rendered and searched for *)
(* in real packages by the probe analyzer).                                *)
(***************************************************************************)
EmitPats(ps) ==
  /\ PrintT("CASE " \o ToJson([d |-> "symtab", v |-> SymTab]))
  /\ \A i \in 1..Len(ps) :
     PrintT("CASE " \o ToJson([d |-> "pat", i |-> i, v |-> ps[i], entry |-> Entry(ps[i]),
                               syms |-> SymsOf(ps[i]), root |-> RootCalls(ps[i])]))
=============================================================================
