\* property monitors on raw logs; run with -workers 1
SPECIFICATION MSpec
CONSTANTS
  GraphAt <- TGraphAt
  NGraphs <- TNGraphs
  InlineAnytime = TRUE
  SemGuard = FALSE
  TrackResults = FALSE
POSTCONDITION MonClean
CHECK_DEADLOCK FALSE
