\* exhaustive + generation: every sequence of <= 2 runs whose problems may lie in files the run did not check
SPECIFICATION Spec
CONSTANTS
  Files <- MCFiles
  D <- MCD
  NameSeq <- MCNames
  MaxRuns = 2
  Foreign = TRUE
INVARIANTS OrderIndependent RepeatIdempotent AnnotationExact AnySemantics AllSemantics Emit
PROPERTY AnyMonotone
CHECK_DEADLOCK FALSE
