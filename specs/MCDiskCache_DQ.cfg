\* generation (damage binding, quick tier): one process, two keys, two values, truncation / deletion / foreign entry at rest, then a lookup
SPECIFICATION Spec
CONSTANTS
  NP <- DQ_NP
  NK <- DQ_NK
  VB <- DQ_VB
  MaxOps <- DQ_MaxOps
  Roles <- DQ_Roles
  Faults <- DQ_Faults
  MaxFaults <- DQ_MaxFaults
  TrimOrder <- DQ_Trim
  CrashCosts = FALSE
  Record = TRUE
INVARIANTS TypeOK LookupSoundBytes LookupSoundFileModTrimRace HitThenReadableModTrimRace SizeImpliesComplete NoLeak LookupSoundFile HitThenReadable EmitLookup
PROPERTY PutPost
VIEW ViewFaults
CHECK_DEADLOCK TRUE
