------------------------------ MODULE CacheKey ------------------------------
(***************************************************************************)
(* State machine of the staticcheck result cache as seen over a HISTORY of *)
(* runs, source edits, configuration edits and flag changes (property C04: *)
(* cache transparency).                                                    *)
(*                                                                         *)
(* Code modelled: lintcmd/runner/runner.go  subrunner.do  (action hash =   *)
(* salt + pkg path + merged config minus Checks + package hash + analyzer  *)
(* names + -go + GODEBUG + (dep path, hash of dep's vetx file) per direct  *)
(* dependency; sub-keys "vetx" and "results"; a package is served from the *)
(* cache only if ALL sub-keys it needs are present, otherwise it is        *)
(* re-analysed and all its artefacts are Put again), go/loader/hash.go     *)
(* computeHash (package hash = GOOS/GOARCH + action-id half of the build   *)
(* id of the package's export file + full build ids of the direct          *)
(* imports), config/config.go (Load/Merge: per directory level, "inherit") *)
(* and lintcmd/lint.go (check selection is applied AFTER loading cached    *)
(* results, hence Checks is not part of the key).                          *)
(*                                                                         *)
(* World (fixture ex.test/t4, see checks/C04.py):                          *)
(*   a -> {b, w},  b -> d,  c -> w;   a has a_test.go, c has c_t.go (tag t)*)
(*   src[p] in {1,2} for p in a,b,c,d and "m" (= go.mod: go 1.22 / go 1.3) *)
(*   b v1: Get returns a typed nil (nilness fact => SA4023 in a)           *)
(*   b v2: Get is deprecated (=> SA1019 in a)                              *)
(*   d v1: method T.M deprecated (a calls it through b.V => SA1019 in a);  *)
(*   d v2: not deprecated.  The edit of d changes neither d's export data  *)
(*         nor any position, so b's build id and a's package hash stay the *)
(*         same: a's key changes ONLY through the hash of b's vetx file.   *)
(*   conf[level] in {none, opt, chk} for level root (whole module) and a   *)
(*   flags -go {module, old=1.3}, -tags {none, t}, -tests, -checks         *)
(*                                                                         *)
(* Deliberate deviations, named:                                           *)
(*  - the ~95 standard-library packages behind a's test main are one unit  *)
(*    "std" (key depends on -go only; always analysed for facts only);     *)
(*  - salt, analyzer names, GODEBUG, GOOS/GOARCH are constants of one      *)
(*    history (they change only with the binary / environment);            *)
(*  - a vetx artefact is identified with the SET of facts it holds. The    *)
(*    real file is a gob stream in map-iteration order, so two analyses of *)
(*    identical inputs may produce different bytes; real keys therefore    *)
(*    REFINE model keys (model miss => real miss, not conversely).         *)
(***************************************************************************)
EXTENDS Integers, Sequences, FiniteSets, TLC, Json

CONSTANTS
  MaxLen,        \* bound on the history length
  RunPatterns,   \* set of pattern sets, each a subset of {"a","b","c","all"}
  EditPkgs,      \* packages that may be edited  (subset of {"a","b","c","d","m"})
  TouchPkgs,     \* packages that may be touched (subset of {"a","b","c","d"})
  ConfLevels,    \* subset of {"root","a"}
  FlagNames,     \* subset of {"go","tags","tests","checks"}
  EmitRuns,      \* TRUE: every Run transition prints its history as a CASE line
  EmitKeys,      \* TRUE: CASE lines carry the key components of every unit
  StaticCheck,   \* TRUE: KeyCoversDeps ranges over all worlds (evaluated once, at start-up)
  KeyMode        \* "full" | "nocfg" | "nogo" | "novet" | "nofiles" (model mutants, negative tests)

VARIABLES src, conf, flags, cache, out, hist

vars == <<src, conf, flags, cache, out, hist>>
\* the history is hidden, its length is not: with the depth bound MaxLen this keeps the set of
\* explored states exact (and deterministic) whatever order the workers reach them in
View == <<src, conf, flags, cache, out, Len(hist)>>

-----------------------------------------------------------------------------
(* The static world.                                                       *)
Pkgs     == {"a", "b", "c", "d", "m"}
Levels   == {"root", "a"}
FlagVals == [go |-> {"module", "old"}, tags |-> {"none", "t"},
             tests |-> {"off", "on"}, checks |-> {"dflt", "alt"}]

InitSrc   == [p \in Pkgs |-> 1]
InitConf  == [l \in Levels |-> "none"]
InitFlags == [go |-> "module", tags |-> "none", tests |-> "off", checks |-> "dflt"]

\* analysis units = go/packages IDs; "at" = a [a.test], "am" = a.test, "std" = closure of testing
Units == {"w", "d", "std", "b", "c", "a", "at", "am"}
Order == <<"w", "d", "std", "b", "c", "a", "at", "am">>      \* a topological order
Deps  == [w |-> {}, d |-> {}, std |-> {}, b |-> {"d"}, c |-> {"w"},
          a |-> {"b", "w"}, at |-> {"b", "w"}, am |-> {"at", "std"}]
\* directory that decides which staticcheck.conf files apply ("out" = outside the module)
Dir   == [w |-> "w", d |-> "d", std |-> "out", b |-> "b", c |-> "c", a |-> "a", at |-> "a", am |-> "out"]

World == [src |-> src, conf |-> conf, flags |-> flags]

-----------------------------------------------------------------------------
(* What the go command / loader derive from the world.                     *)
Files(u, w) ==
  CASE u = "a"   -> {<<"a.go", w.src["a"]>>}
    [] u = "at"  -> {<<"a.go", w.src["a"]>>, <<"a_test.go", 1>>}
    [] u = "am"  -> {<<"_testmain.go", 1>>}
    [] u = "b"   -> {<<"b.go", w.src["b"]>>}
    [] u = "c"   -> {<<"c.go", w.src["c"]>>} \cup (IF w.flags.tags = "t" THEN {<<"c_t.go", 1>>} ELSE {})
    [] u = "d"   -> {<<"d.go", w.src["d"]>>}
    [] u = "w"   -> {<<"w.go", 1>>}
    [] OTHER     -> {<<"std", 1>>}

\* -lang passed to the compiler: the module's go directive (std has its own)
Lang(u, w) == IF u = "std" THEN 0 ELSE w.src["m"]

\* the part of a package's source that is visible in its export data
\* (d's two versions have identical export data by construction)
Sig(u, w) ==
  CASE u \in {"a", "at"} -> w.src["a"]
    [] u = "b" -> w.src["b"]
    [] u = "c" -> w.src["c"]
    [] OTHER   -> 0

ExportID(u, w) == [sig |-> Sig(u, w), lang |-> Lang(u, w)]
\* go build action id: own files, -lang, content ids of the direct imports' export data
ActionID(u, w) == [files |-> IF KeyMode = "nofiles" THEN {} ELSE Files(u, w),
                   lang  |-> Lang(u, w),
                   imps  |-> {<<x, ExportID(x, w)>> : x \in Deps[u]}]
BuildID(u, w)  == [act |-> ActionID(u, w), exp |-> ExportID(u, w)]
\* go/loader/hash.go computeHash
PkgHash(u, w)  == [act |-> ActionID(u, w), imps |-> {<<x, BuildID(x, w)>> : x \in Deps[u]}]

\* config.Load(dir) merged, minus Checks: "dflt" = default whitelist, "inh" = default + w
\* (root file says ["inherit", w]), "own" = [w] (a's file has no "inherit")
CfgOpt(u, w) ==
  IF Dir[u] = "out" THEN "dflt"
  ELSE IF Dir[u] = "a" /\ w.conf["a"] = "opt" THEN "own"
  ELSE IF w.conf["root"] = "opt" THEN "inh"
  ELSE "dflt"

\* subrunner.do: the action hash. vx[x] = content of x's vetx artefact as obtained in this run
Key(u, w, vx) ==
  [path |-> u,
   cfg  |-> IF KeyMode = "nocfg" THEN "-" ELSE CfgOpt(u, w),
   pkg  |-> PkgHash(u, w),
   go   |-> IF KeyMode = "nogo" THEN "-" ELSE w.flags.go,
   vet  |-> IF KeyMode = "novet" THEN {} ELSE {<<x, vx[x]>> : x \in Deps[u]}]

-----------------------------------------------------------------------------
(* What the analysis of one unit READS (its footprint) and what it yields. *)
(* Analyse/FactsOf take only the footprint, so "the result depends on      *)
(* component X" is syntactic: X is a field of Footprint.                   *)
\* language version the type checker / the analyses see.  doUncached (since 68d8d5d): -go applies
\* only to the packages being checked; a package analysed for its facts only (role "f") is loaded
\* with the version of its own module.  Role "i" = named on the command line.
GoEff(u, w, role) ==
  IF role = "i" /\ w.flags.go = "old" THEN "1.3"
  ELSE IF u = "std" THEN "tip"
  ELSE IF w.src["m"] = 1 THEN "1.22" ELSE "1.3"

Whitelisted(u, w) == CfgOpt(u, w) # "dflt"

\* what the FACT analyzers read (the vetx artefact).  In this world no fact depends on the
\* language version or on a configuration option -- an assumption of the model, and of the code:
\* the key does not record the role, so a vetx produced in role "i" under -go 1.3 is served to
\* role "f" (which would load the package with the module's version) and vice versa.
FootprintF(u, w, vx) ==
  [unit  |-> u,
   files |-> Files(u, w),
   types |-> {<<x, Sig(x, w)>> : x \in Deps[u]},
   facts |-> UNION {vx[x] : x \in Deps[u]}]

\* what the full analysis of a package named on the command line reads (the results artefact)
FootprintR(u, w, vx) ==
  [f     |-> FootprintF(u, w, vx),
   wl    |-> Whitelisted(u, w),
   goeff |-> GoEff(u, w, "i")]

OwnFacts(fp) ==
  CASE fp.unit = "b" -> IF <<"b.go", 1>> \in fp.files THEN {"b.nonnil"} ELSE {"b.depr"}
    [] fp.unit = "d" -> IF <<"d.go", 1>> \in fp.files THEN {"d.depr"} ELSE {}
    [] OTHER -> {}
\* a vetx file holds the facts of the whole transitive closure
FactsOf(fp) == OwnFacts(fp) \cup fp.facts

\* unfiltered problems (the "results" artefact; check selection happens later)
Analyse(fr) ==
  LET fp == fr.f IN
  CASE fp.unit \in {"a", "at"} ->
         (IF fr.wl THEN {} ELSE {"a.st1001"})
         \cup (IF "b.nonnil" \in fp.facts THEN {"a.sa4023"} ELSE {})
         \cup (IF "b.depr" \in fp.facts THEN {"a.sa1019b"} ELSE {})
         \cup (IF "d.depr" \in fp.facts THEN {"a.sa1019d"} ELSE {})
         \cup (IF <<"a.go", 2>> \in fp.files THEN {"a.own"} ELSE {})
         \cup (IF <<"a_test.go", 1>> \in fp.files THEN {"a.test"} ELSE {})
    [] fp.unit = "b" -> {"b.own"}
    [] fp.unit = "c" ->
         (IF fr.wl THEN {} ELSE {"c.st1001"})
         \cup (IF fr.goeff = "1.3" THEN {} ELSE {"c.s1005"})
         \cup (IF <<"c.go", 2>> \in fp.files THEN {"c.own"} ELSE {})
         \cup (IF <<"c_t.go", 1>> \in fp.files THEN {"c.tag"} ELSE {})
    [] OTHER -> {}

Cat == [x \in {"a.st1001", "c.st1001"} |-> "ST1001"] @@ [x \in {"a.sa4023"} |-> "SA4023"]
       @@ [x \in {"a.sa1019b", "a.sa1019d"} |-> "SA1019"]
       @@ [x \in {"a.own", "a.test", "b.own", "c.own", "c.tag"} |-> "SA4000"]
       @@ [x \in {"c.s1005"} |-> "S1005"]

\* lint.go: filterAnalyzerNames over (defaults <- root conf <- a conf <- -checks flag)
Enabled(p, u, w) ==
  IF w.flags.checks = "alt" THEN Cat[p] \in {"SA4023", "SA1019", "S1005"}   \* -checks without "inherit"
  ELSE IF Dir[u] = "out" THEN TRUE
  ELSE /\ ~(w.conf["root"] = "chk" /\ Cat[p] \in {"S1005", "SA4023"})
       /\ ~(Dir[u] = "a" /\ w.conf["a"] = "chk" /\ Cat[p] = "SA1019")

-----------------------------------------------------------------------------
(* One run.                                                                *)
Expand(pats)     == UNION { IF p = "all" THEN {"a", "b", "c", "d", "w"} ELSE {p} : p \in pats }
InitialOf(pats, w) == Expand(pats) \cup
                      (IF w.flags.tests = "on" /\ "a" \in Expand(pats) THEN {"at", "am"} ELSE {})
RECURSIVE Closure(_)
Closure(S) == LET T == S \cup UNION {Deps[u] : u \in S} IN IF T = S THEN S ELSE Closure(T)

\* key components as emitted for the binding (only their equality pattern matters there)
KeyStr(k) == [cfg |-> k.cfg, go |-> k.go, pkg |-> k.pkg, vet |-> k.vet]

Acc0(c) == [cache |-> c,
            vx |-> [u \in Units |-> {}], raw |-> [u \in Units |-> {}],
            log |-> [u \in Units |-> "-"], keys |-> <<>>,
            sound |-> TRUE, new |-> 0, newstd |-> 0]

\* subrunner.do for one unit; deps have been processed (vx holds their vetx)
StepUnit(acc, u, w, init) ==
  LET k    == Key(u, w, acc.vx)
      ff   == FootprintF(u, w, acc.vx)
      fr   == FootprintR(u, w, acc.vx)
      need == IF u \in init THEN {"vetx", "res"} ELSE {"vetx"}
      have == {e \in acc.cache : e.k = k}
      hit  == \A kd \in need : \E e \in have : e.kind = kd
      a1   == [acc EXCEPT !.keys = IF EmitKeys THEN Append(@, [u |-> u, k |-> KeyStr(k)]) ELSE @]
  IN IF hit
     THEN [a1 EXCEPT !.vx[u]  = (CHOOSE e \in have : e.kind = "vetx").facts,
                     !.raw[u] = IF u \in init THEN (CHOOSE e \in have : e.kind = "res").probs ELSE {},
                     !.sound  = @ /\ \A e \in have : e.kind \in need =>
                                       IF e.kind = "vetx" THEN e.fp.f = ff ELSE e.fp = fr,
                     !.log[u] = "hit"]
     ELSE
       LET facts == FactsOf(ff)
           probs == Analyse(fr)
           \* ghost field fp: what the producer read (for a vetx only the fact footprint counts)
           newE  == {[k |-> k, kind |-> "vetx", facts |-> facts, probs |-> {},
                      fp |-> [f |-> ff, wl |-> FALSE, goeff |-> "-"]]}
                    \cup (IF u \in init
                          THEN {[k |-> k, kind |-> "res", facts |-> {}, probs |-> probs, fp |-> fr]}
                          ELSE {})
           kinds == {e.kind : e \in newE}
           kept  == {e \in acc.cache : ~(e.k = k /\ e.kind \in kinds)}      \* Put overwrites the index entry
           fresh == Cardinality(kinds \ {e.kind : e \in have})
       IN [a1 EXCEPT !.cache  = kept \cup newE,
                     !.vx[u]  = facts,
                     !.raw[u] = probs,
                     !.log[u] = IF have # {} THEN "upgrade" ELSE "miss",
                     !.new    = IF u = "std" THEN @ ELSE @ + fresh,
                     !.newstd = IF u = "std" THEN @ + fresh ELSE @]

RECURSIVE Fold(_, _, _, _, _)
Fold(i, acc, w, req, init) ==
  IF i > Len(Order) THEN acc
  ELSE IF Order[i] \notin req THEN Fold(i + 1, acc, w, req, init)
  ELSE Fold(i + 1, StepUnit(acc, Order[i], w, init), w, req, init)

DoRun(c, w, pats) ==
  LET init == InitialOf(pats, w)
      req  == Closure(init)
      acc  == Fold(1, Acc0(c), w, req, init)
      shown == UNION { {p \in acc.raw[u] : Enabled(p, u, w)} : u \in init }
  IN [acc |-> acc, probs |-> shown]

Cold(w, pats) == DoRun({}, w, pats).probs

-----------------------------------------------------------------------------
(* Actions.                                                                *)
NoOut  == [valid |-> FALSE, pats |-> {}, probs |-> {}, sound |-> TRUE]
\* history records (never compared with each other, so the two shapes may differ)
Rec(act, p, v) == [act |-> act, p |-> p, v |-> v]

Init ==
  /\ src = InitSrc /\ conf = InitConf /\ flags = InitFlags
  /\ cache = {} /\ out = NoOut /\ hist = <<>>

Mutate(rec) == /\ Len(hist) < MaxLen
               /\ hist' = Append(hist, rec)
               /\ out' = NoOut
               /\ cache' = cache

Edit(p) ==          \* change the content of p's source file (or of go.mod for "m")
  /\ src' = [src EXCEPT ![p] = 3 - @]
  /\ Mutate(Rec("Edit", p, ToString(3 - src[p])))
  /\ UNCHANGED <<conf, flags>>

Revert ==           \* git checkout: all sources back to the initial version
  /\ src # InitSrc
  /\ src' = InitSrc
  /\ Mutate(Rec("Revert", "", ""))
  /\ UNCHANGED <<conf, flags>>

Touch(p) ==         \* rewrite the same bytes with a new mtime
  /\ Mutate(Rec("Touch", p, ""))
  /\ UNCHANGED <<src, conf, flags>>

SetConf(l, ct) ==
  /\ conf[l] # ct
  /\ conf' = [conf EXCEPT ![l] = ct]
  /\ Mutate(Rec("SetConf", l, ct))
  /\ UNCHANGED <<src, flags>>

RmConf(l) ==
  /\ conf[l] # "none"
  /\ conf' = [conf EXCEPT ![l] = "none"]
  /\ Mutate(Rec("RmConf", l, ""))
  /\ UNCHANGED <<src, flags>>

SetFlag(f, v) ==
  /\ flags[f] # v
  /\ flags' = [flags EXCEPT ![f] = v]
  /\ Mutate(Rec("SetFlag", f, v))
  /\ UNCHANGED <<src, conf>>

Run(pats) ==
  /\ Len(hist) < MaxLen
  /\ LET r == DoRun(cache, World, pats)
         pred == [probs |-> r.probs, new |-> r.acc.new, newstd |-> r.acc.newstd,
                  log |-> r.acc.log, keys |-> r.acc.keys]
     IN /\ cache' = r.acc.cache
        /\ out'   = [valid |-> TRUE, pats |-> pats, probs |-> r.probs, sound |-> r.acc.sound]
        /\ hist'  = Append(hist, [act |-> "Run", pats |-> pats, pred |-> pred])
        /\ (EmitRuns => PrintT("CASE " \o ToJson(hist')))
  /\ UNCHANGED <<src, conf, flags>>

Next ==
  \/ \E p \in EditPkgs : Edit(p)
  \/ Revert
  \/ \E p \in TouchPkgs : Touch(p)
  \/ \E l \in ConfLevels : \E ct \in {"opt", "chk"} : SetConf(l, ct)
  \/ \E l \in ConfLevels : RmConf(l)
  \/ \E f \in FlagNames : \E v \in FlagVals[f] : SetFlag(f, v)
  \/ \E pats \in RunPatterns : Run(pats)

Spec == Init /\ [][Next]_vars

-----------------------------------------------------------------------------
(* Properties.                                                             *)

\* C04: what a run that reuses the cache reports = what a run from an empty cache reports
Transparent == out.valid => out.probs = Cold(World, out.pats)

\* a cache entry is only ever served to an analysis that reads exactly what its producer read
HitOnlyIfSameInputs == out.sound

\* same key => same footprint, for the entries that are in the cache together
CacheKeyFunctional == \A e1, e2 \in cache : e1.k = e2.k => e1.fp.f = e2.fp.f /\ (e1.kind = e2.kind => e1.fp = e2.fp)

\* STATIC: over ALL worlds, every component the analysis reads is determined by the key.
\* (tests/checks flags cannot influence a key or a footprint: fixed to on/dflt to visit every unit)
KeyWorlds == IF ~StaticCheck THEN {} ELSE
             { [src |-> s, conf |-> cf, flags |-> [go |-> g, tags |-> t, tests |-> "on", checks |-> "dflt"]] :
                 s \in [Pkgs -> {1, 2}], cf \in [Levels -> {"none", "opt", "chk"}],
                 g \in FlagVals.go, t \in FlagVals.tags }
\* with tests on and ./... every unit but std is a root, so both artefacts of every unit are produced
KeyFp(w) == LET acc == DoRun({}, w, {"all"}).acc
                init == InitialOf({"all"}, w)
            IN { <<Key(u, w, acc.vx), "vetx", [f |-> FootprintF(u, w, acc.vx), wl |-> FALSE, goeff |-> "-"]>> : u \in Units }
               \cup { <<Key(u, w, acc.vx), "res", FootprintR(u, w, acc.vx)>> : u \in init }
KeyFpAll == UNION { KeyFp(w) : w \in KeyWorlds }
KeyCoversDeps == \A x, y \in KeyFpAll : (x[1] = y[1] /\ x[2] = y[2]) => x[3] = y[3]

TypeOK ==
  /\ src \in [Pkgs -> {1, 2}]
  /\ conf \in [Levels -> {"none", "opt", "chk"}]
  /\ \A f \in DOMAIN FlagVals : flags[f] \in FlagVals[f]
  /\ Len(hist) <= MaxLen
=============================================================================
