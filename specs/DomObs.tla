------------------------------- MODULE DomObs -------------------------------
(***************************************************************************)
(* Observation validation for C14.                                         *)
(*                                                                         *)
(* dom_obs.json holds control-flow graphs the REAL go/ir builder produced  *)
(* together with every dominance answer of its public API (exported by     *)
(* harness/cmd/h-irexport-dom).  One TLC state per recorded function: the  *)
(* invariant evaluates the path-based definition of Dom.tla on the         *)
(* recorded graph and compares it with the recorded answers, so a failing  *)
(* invariant names the function (state variable i, and a CASE line with    *)
(* the witnesses).  TLC is run with -continue: every bad function is       *)
(* reported, not only the first.                                           *)
(*                                                                         *)
(* The state graph is a two-level fan-out (root -> chunk -> function) so   *)
(* that several workers evaluate functions in parallel.                    *)
(***************************************************************************)
EXTENDS Dom, Json

CONSTANT ChunkSize

Obs == JsonDeserialize("dom_obs.json").fns
NObs == Len(Obs)
NChunks == (NObs + ChunkSize - 1) \div ChunkSize

VARIABLES c, i
vars == <<c, i>>

Init == c = 0 /\ i = 0
Next ==
  \/ /\ c = 0 /\ i = 0
     /\ c' \in 1..NChunks /\ i' = 0
  \/ /\ c > 0 /\ i = 0
     /\ i' \in { k \in ((c - 1) * ChunkSize + 1)..(c * ChunkSize) : k <= NObs }
     /\ c' = c
Spec == Init /\ [][Next]_vars

Report(kind, witnesses) ==
  PrintT("CASE " \o ToJson([ idx |-> i, name |-> Obs[i].name, kind |-> kind, bad |-> witnesses ]))

\* the record is structurally usable and meets buildDomTree's precondition
\* (a failure here is an export / builder-contract problem, reported separately from C14's laws)
ExportUsable ==
  i > 0 => ( (WellFormed(Obs[i]) /\ AllReachable(Obs[i])) \/ (Report("unusable", {}) /\ FALSE) )

\* C14 on the recorded function: Dominates == PathDom on all ordered pairs, Idom is the unique
\* closest strict dominator, Dominees is its inverse, DomPreorder/DomPostorder are pre/post-order
\* listings of the dominator forest
DominanceExact ==
  (i > 0 /\ WellFormed(Obs[i])) =>
     LET bad == AllBad(Obs[i]) IN bad = {} \/ (Report("law", bad) /\ FALSE)
=============================================================================
