\* deviation CalleeMode = "func": FilterComplete must be refuted (self-test; the counterexample is a prediction replayed on the code)
SPECIFICATION SpecMC
CONSTANTS
  AllTypes <- MCAllTypes
  SymTab <- MCSymTab
  AliasOf <- MCAliasOf
  NotEntry = "all"
  AnyEntry = "lists"
  SymEntry = "index"
  UseMode = "alias"
  CalleeMode = "func"
INVARIANTS FilterComplete EntrySound SymsSound RootCallsSound
CHECK_DEADLOCK FALSE
