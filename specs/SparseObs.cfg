INIT Init
NEXT Next
CONSTANT ChunkSize = 20
INVARIANTS ExportUsable ResultIsLFP
CHECK_DEADLOCK FALSE
