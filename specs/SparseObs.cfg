INIT Init
NEXT Next
CONSTANT ChunkSize = 20
INVARIANTS TablesMonotone ExportUsable ResultIsLFP
CHECK_DEADLOCK FALSE
