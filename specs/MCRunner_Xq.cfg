\* exhaustive: every package DAG on family X (safety + deadlock)
SPECIFICATION Spec
CONSTANTS
  GraphAt <- MCGraphAt
  NGraphs <- MCNGraphs
  Family = "Xq"
  InlineAnytime = FALSE
  SemGuard = TRUE
  TrackResults = TRUE
INVARIANTS TypeOK ExecAfterDeps ExactlyOnce SemBound NoSpuriousFailure FailurePropagates
  ResultIsFunctionOfGraph NoSendOnClosed SendNeverBlocks InlineUnderPackageToken
CHECK_DEADLOCK TRUE
