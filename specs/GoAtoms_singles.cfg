\* every atom alone in every context
SPECIFICATION Spec
CONSTANTS
  SingleContexts = {"func", "method", "closure", "generic", "init", "pkgvar"}
  PairContexts = {}
INVARIANTS WellFormed Emit
CHECK_DEADLOCK FALSE
