\* every atom alone in every context
SPECIFICATION Spec
CONSTANTS
  SingleContexts = {"func", "method", "closure", "generic", "init", "pkgvar"}
  PairContexts = {}
  CheckObs = FALSE
INVARIANTS WellFormed Emit
CHECK_DEADLOCK FALSE
