\* every ordered pair of atoms in a named function and in a generic function
SPECIFICATION Spec
CONSTANTS
  SingleContexts = {}
  PairContexts = {"func", "generic"}
  CheckObs = FALSE
INVARIANTS WellFormed Emit
CHECK_DEADLOCK FALSE
