\* enumerate every abstract behaviour case (shape x operand effects x context)
SPECIFICATION Spec
CONSTANTS
  Shapes <- MCShapes
  MaxCases = 400
INVARIANTS EmitCase
CHECK_DEADLOCK FALSE
