\* enumerate every abstract behaviour case (shape x operand effects x context x occurrence variation)
SPECIFICATION Spec
CONSTANTS
  Shapes <- MCShapes
  MaxCases = 800
INVARIANTS EmitCase OccOK
CHECK_DEADLOCK FALSE
