\* negative test: a key that forgets the external package's own configuration violates Transparent
SPECIFICATION Spec
CONSTANTS
  MaxLen = 4
  KeyMode = "noxconf"
  EmitRuns = FALSE
INVARIANTS Transparent
VIEW View
CHECK_DEADLOCK FALSE
