\* three directory levels + -checks, reduced alphabet (9 atoms), <= 3 atoms in total:
\* exhaustive for merging order, inherit splicing, override, unset levels
SPECIFICATION Spec
CONSTANTS
  Analyzers <- MCAnalyzers
  NonDefault <- MCNonDefault
  Atoms <- MCAtomsTree
  CheckAtoms <- MCAtomsTree
  FailAtoms <- NoLevels
  NLevels = 3
  GrowLevels <- AllLevels
  MaxTotal = 3
  MaxLen = 3
  MaxFail = 0
  AllowBroken = FALSE
  PkgKinds <- MCPkgKinds
  Pkg <- MCPkg
INVARIANTS LawLastWins LawAppendExact LawInheritIdentity LawOverride LawCaseInsensitive LawNormalizeNeutral LawCategoryGlob LawPrintedExact LawExit Emit
PROPERTIES FrameFail FrameChecks FrameAppend
CHECK_DEADLOCK FALSE
