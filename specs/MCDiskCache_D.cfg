\* generation (damage binding): one process, two keys, truncation / deletion / foreign entry at rest, then a lookup
SPECIFICATION Spec
CONSTANTS
  NP <- D_NP
  NK <- D_NK
  VB <- D_VB
  MaxOps <- D_MaxOps
  Roles <- D_Roles
  Faults <- D_Faults
  MaxFaults <- D_MaxFaults
  TrimOrder <- D_Trim
  CrashCosts = FALSE
  Record = TRUE
INVARIANTS TypeOK LookupSoundBytes LookupSoundFileModTrimRace HitThenReadableModTrimRace SizeImpliesComplete NoLeak LookupSoundFile HitThenReadable EmitLookup
PROPERTY PutPost
VIEW ViewFaults
CHECK_DEADLOCK TRUE
