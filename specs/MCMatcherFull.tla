--------------------------- MODULE MCMatcherFull ---------------------------
(* Thorough-tier families for Matcher.tla (kept out of MCMatcher so that   *)
(* TLC does not evaluate them at start-up of the quick configuration).     *)
EXTENDS MCMatcher

\* sub-expressions used below the root in the full tree family
SubF == SubQ \cup { TBin(TId("b"), TId("b")), TCall(TId("b"), <<>>) }
TreesFull == E1 \cup BinOver(SubF) \cup CallOver(E0, SubF, 2) \cup MinusQ

\* family A: every pattern of depth <= 2 over the leaves (the design's exhaustive family)
FamA == Good(Grow(A1))

A1r   == Leaf \cup { Bind(n, s) : n \in MCNames, s \in Leaf } \cup { Not(s) : s \in Leaf }
           \cup { Or2(a, b) : a \in Leaf, b \in Leaf }
TailF == {PAny, PNil} \cup { Ref(n) : n \in MCNames }
           \cup { PCons(h, t) : h \in HeadQ, t \in {PAny, PNil, Ref("x"), Ref("y")} }
ConsF == { PCons(h, t) : h \in A1r, t \in TailF }
FamL  == Good(CallL(ConsF \cup {PAny, PNil, Ref("x")} \cup A1r)
               \cup { Or2(c, s) : c \in CallL(ConsQ), s \in Leaf \cup { Bind("x", PAny), PBin(Ref("x"), Ref("y")) } }
               \cup { Not(c) : c \in CallL(ConsF) })

FullPats  == SetToSeq(FamA \cup FamS \cup FamT \cup FamLq \cup FamL \cup FamD \cup FamO)
FullTrees == SetToSeq(TreesFull)
SpecFull == GenInit(FullPats, FullTrees) /\ [][MatchCall(FullPats, FullTrees)]_vars
=============================================================================
