\* 64 names: wide Ors, every bit index
SPECIFICATION SpecWide
CONSTANTS
  Names <- WideNames
  MergeMode = "union"
  NotMode = "frame"
  IdxMode = "name"
  PopMode = "delete"
  NilMode = "commaok"
INVARIANTS StaticWFSound OpEqualsDen VisibleIsSuccessfulPath ConsistentRecall NotLeavesNoBindings AtomicAlternatives Emit
CHECK_DEADLOCK FALSE
