\* deviation NotEntry = "operand": FilterComplete must be refuted (self-test; the counterexample is a prediction replayed on the code)
SPECIFICATION SpecMC
CONSTANTS
  AllTypes <- MCAllTypes
  SymTab <- MCSymTab
  AliasOf <- MCAliasOf
  NotEntry = "operand"
  AnyEntry = "lists"
  SymEntry = "index"
  UseMode = "alias"
  CalleeMode = "any"
INVARIANTS FilterComplete EntrySound SymsSound RootCallsSound
CHECK_DEADLOCK FALSE
