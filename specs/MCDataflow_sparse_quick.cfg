INIT InitSparseAll
NEXT Next
CONSTANTS
  Solver = "sparse"
  MCN = 2
  MCLats = {"chain2"}
  MCFam = "idgenkill"
  MCParN = 0
  UseJson = TRUE
  EmitCases = FALSE
INVARIANTS TypeOK CaseMonotone BelowLFP AtTerminationLFP QueueSound WorklistSound OracleLeast Emit
PROPERTIES StepMonotone VariantDecreases
CHECK_DEADLOCK FALSE
