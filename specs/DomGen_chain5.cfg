\* exhaustive: every rooted ordered digraph with <= 5 nodes (out-degree <= 2); only graphs on which step 4 of the
\* dominator computation resolves a chain of deferred vertices are emitted (the order of that step is observable)
SPECIFICATION Spec
CONSTANTS
  MaxNodes = 5
  Degs = {0, 1, 2}
  MaxSwitch = 0
  RecDegs = {0}
  RecMax = 0
  MaxRecNodes = 0
  EmitCases = TRUE
  DesignMax = 0
INVARIANTS EmitChains
CHECK_DEADLOCK FALSE
