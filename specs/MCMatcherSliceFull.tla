------------------------ MODULE MCMatcherSliceFull -------------------------
(* Thorough-tier version of family N (absent optional children): all four   *)
(* children of the slice pattern over a larger set of child patterns, more   *)
(* wrappers, the larger tree family.                                         *)
EXTENDS MCMatcherSlice

\* ---------------------------------------------------------------- trees
OptTF   == {Absent, Ta, Tb, Tab}
SliceTF == { TSlice(a, lo, hi, mx) : a \in {Ta, Tb}, lo \in OptTF, hi \in OptTF, mx \in {Absent, Ta, Tb} }   \* 96
NestTF  == { TSlice(s, lo, hi, Absent) : s \in InnerTQ \cup { TSlice(Ta, Absent, Absent, Absent), TSlice(Tb, Tb, Tb, Absent) },
                                         lo \in {Absent, Ta, Tb}, hi \in {Absent, Tb} }                       \* 24
PairTF  == LET S6 == { TSlice(Ta, lo, hi, Absent) : lo \in {Absent, Tb}, hi \in {Absent, Ta, Tb} } IN
           { TBin(s1, s2) : s1 \in S6, s2 \in S6 }                                                           \* 36
SliceTreeSetF == SliceTreeSetQ \cup SliceTF \cup NestTF \cup PairTF

\* ---------------------------------------------------------------- patterns
OptPF == OptPQ \cup { Pb, Bind("y", Pa), Bind("y", Or2(PNull, PAny)), Not(Ref("y")), Not(Not(Ref("x"))),
                      Or2(Bind("x", Pa), PNull), PSlice(PAny, Ref("x"), Ref("x"), PAny) }
N1f == { PSlice(a, lo, hi, mx) : a \in {PAny, Ref("x"), Ref("y")}, lo \in OptPF, hi \in OptPF, mx \in {PAny, PNull, Ref("x"), Ref("y")} }
CoreF == { PSlice(PAny, lo, hi, mx) : lo \in {Ref("x"), Bind("x", PAny), Or2(PNull, Ref("x")), PNull, Bind("x", Or2(PNull, Pa))},
                                      hi \in {Ref("x"), Ref("y"), PAny, Pa, PNull, Not(Ref("x"))},
                                      mx \in {PAny, Ref("x")} }
LastF == {PAny, Ref("x"), Ref("y"), Bind("x", PAny), PSlice(PAny, Ref("y"), Ref("x"), PAny), PSlice(PAny, PAny, Ref("x"), Ref("x")),
          PSlice(Ref("x"), Ref("x"), PAny, PAny)}
N3f == UNION { { Or2(s, l) : l \in LastF } \cup { Or2(Or2(s, PSlice(PAny, Ref("y"), Pa, PAny)), l) : l \in LastF }
               \cup { Not(s), Not(Not(s)), Bind("y", s), PBin(s, Ref("x")), PBin(s, Ref("y")), PBin(Not(s), Ref("x")),
                      Or2(Not(s), Ref("x")) } : s \in CoreF }
CrossF == {PAny, Ref("x"), Ref("y"), PNull, Bind("y", PAny)}
N4f == { PBin(PSlice(PAny, f, g, PAny), PSlice(PAny, f2, g2, PAny)) : f \in CrossF, g \in CrossF, f2 \in CrossF, g2 \in CrossF }
N5f == { PSlice(PSlice(PAny, f, g, PAny), f2, g2, PAny) : f \in CrossF, g \in CrossF, f2 \in CrossF, g2 \in CrossF }
FamNf == Good(N1f \cup N2q \cup N3f \cup N4f \cup N5f \cup N6q) \cup FamNq

SliceFullPats  == SetToSeq(FamNf)
SliceFullTrees == SetToSeq(SliceTreeSetF)
SpecSliceFull == GenInit(SliceFullPats, SliceFullTrees) /\ [][MatchCall(SliceFullPats, SliceFullTrees)]_vars
=============================================================================
