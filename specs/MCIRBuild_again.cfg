\* sync.Once layer: 1 package builder + 1 on-demand builder, 2 shared functions, 2 goroutines
\* calling Package.Build (first / again / concurrently); all programs of the "sorted" family
SPECIFICATION MCSpec
CONSTANTS
  Builders = {1, 2}
  PkgBuilders = {1}
  Shared = {1, 2}
  Callers = {1, 2}
  RelaxedReads = FALSE
  FnMode = "sorted"
  RootMode = "sorted"
  GenMode = FALSE
INVARIANTS TypeOK CreatedOnce BuiltAtReturn CallerSeesBuilt NoDeadlock ProgramOK
PROPERTIES CreatedOnceStep NoEdgeAfterDone Idempotent Termination
VIEW View
CHECK_DEADLOCK FALSE
