\* observation validation: evaluate DeletionSafe / VariantReported on recorded artefacts (obs.ndjson)
SPECIFICATION ObsSpec
CONSTANTS
  MaxObj = 0
  MaxEdge = 0
  MaxIface = 0
  KindSeq <- ObsKinds
  RelSeq <- ObsRels
  Build = FALSE
  SeedGraphs <- ObsSeeds
  Eager = FALSE
  ExKinds <- ObsSeeds
  ThinFrom = 99
  ThinMod = 1
  Seed = 1
  NeedRoot = FALSE
INVARIANTS ObsEmit
CHECK_DEADLOCK FALSE
