\* only the invariants about the recorded real-code observations (used by the negative self-test)
INIT Init
NEXT Next
INVARIANTS RealNilLaws RealNilIsSpec RealNilComponents RealDenseMapAgrees RealMapAgrees RealDirectLaws
CHECK_DEADLOCK FALSE
