--------------------------- MODULE MCMatcherRand ---------------------------
(* Seeded deeper patterns: checks/C09.py overwrites this module in its      *)
(* scratch copy with VERIF_SEED-generated RandRaw / RandTreeSet (patterns   *)
(* of depth 3-5 over all constructors, trees of depth <= 3); TLC keeps the  *)
(* statically well-formed ones, checks the laws and computes Den for the    *)
(* replay.  The definitions below are a fixed stand-in so that the module   *)
(* is checkable on its own.                                                 *)
EXTENDS MCMatcherBase

RandRaw == { Or2(PBin(Or2(Bind("x", PId(PStr("a"))), PAny), PId(PStr("zz"))), Bind("x", PAny)),
             Not(Not(Ref("x"))),
             PCall(Ref("x"), PCons(Bind("y", PAny), Ref("x"))) }
RandTreeSet == { TBin(TId("a"), TId("b")), TId("a"), TCall(TId("a"), <<TId("b"), TId("a")>>) }

RandPats  == SetToSeq({ q \in RandRaw : WellFormed(q) })
RandTrees == SetToSeq(RandTreeSet)
SpecRand  == GenInit(RandPats, RandTrees) /\ [][MatchCall(RandPats, RandTrees)]_vars
=============================================================================
