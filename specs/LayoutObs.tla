----------------------------- MODULE LayoutObs -----------------------------
(***************************************************************************)
(* Observation validation for C19: layouts printed by the real             *)
(* `structlayout-optimize -json` (with and without -r) are loaded as TLA+  *)
(* values and judged by Layout.tla's definitions.  One artefact per step.  *)
(*                                                                         *)
(* An artefact: [idx, mode, entries, innames, inshapes, origsize] where    *)
(* entries is the printed layout ([name, start, end, size, align, pad]),   *)
(* innames / inshapes the input fields with their true (size, alignment)   *)
(* as the specification computes them, origsize the original struct's size.*)
(***************************************************************************)
EXTENDS Layout

VARIABLE i

Obs == JsonDeserialize("layout_obs.json")

NonPad(es) == SelectSeq(es, LAMBDA e : ~e.pad)

Verdict(o) ==
  LET np     == NonPad(o.entries)
      names  == [j \in 1..Len(np) |-> np[j].name]
      perm   == /\ Len(np) = Len(o.innames)
                /\ \A k \in 1..Len(o.innames) : Count(names, o.innames[k]) = 1
      IdxOf(nm) == CHOOSE k \in 1..Len(o.innames) : o.innames[k] = nm
      sh     == [j \in 1..Len(np) |-> o.inshapes[IdxOf(np[j].name)]]
      plain  == ShapeReport(sh, names, FALSE)
      alt    == ShapeReport(sh, names, TRUE)
      valid  == perm /\ (o.entries = plain \/ o.entries = alt)
      total  == IF Len(o.entries) = 0 THEN 0 ELSE o.entries[Len(o.entries)].end
  IN [ idx |-> o.idx, mode |-> o.mode, perm |-> perm, valid |-> valid,
       notlarger |-> total <= o.origsize, total |-> total,
       expect |-> IF perm THEN plain ELSE <<>> ]

ObsInit == s = <<>> /\ i = 0
ObsNext == i < Len(Obs) /\ i' = i + 1 /\ UNCHANGED s
ObsSpec == ObsInit /\ [][ObsNext]_<<s, i>>

EmitVerdict == i = 0 \/ PrintT("CASE " \o ToJson(Verdict(Obs[i])))
=============================================================================
