\* generation: writer / reader / trimmer; emits every state in which a GetFile hit turned into ENOENT or foreign bytes
SPECIFICATION Spec
CONSTANTS
  NP <- T_NP
  NK <- T_NK
  VB <- T_VB
  MaxOps <- T_MaxOps
  Roles <- T_Roles
  Faults <- T_Faults
  MaxFaults <- T_MaxFaults
  TrimOrder <- T_Trim
  CrashCosts = FALSE
  Record = TRUE
INVARIANTS TypeOK LookupSoundFileModTrimRace HitThenReadableModTrimRace SizeImpliesComplete EmitRace
VIEW View
CHECK_DEADLOCK TRUE
