----------------------------- MODULE MCLayout -----------------------------
EXTENDS Layout

\* scalars
Bool == Sc("bool", "bool")          I16 == Sc("int16", "int16")
U8   == Sc("uint8", "uint8")        U32 == Sc("uint32", "uint32")
F32  == Sc("float32", "float32")    F64 == Sc("float64", "float64")
C128 == Sc("complex128", "complex128")
Str  == Sc("string", "string")      Ptr == Sc("pointer", "*int8")
Sl   == Sc("slice", "[]int16")      If0 == Sc("iface", "any")
IfM  == Sc("iface", "interface{ M() }")
Up   == Sc("uintptr", "uintptr")    IntT == Sc("int", "int")
Fn   == Sc("func", "func()")        Mp  == Sc("map", "map[int8]int8")
Ch   == Sc("chan", "chan int8")
\* zero-size
Z64  == Arr(0, I64)                 Z8  == Arr(0, I8)
\* arrays
A3I8 == Arr(3, I8)                  A2I16 == Arr(2, I16)
A3C64 == Arr(3, C64)                A2Str == Arr(2, Str)
A2N  == Arr(2, St(<<I32, I8>>))     \* array of padded structs
A0N  == Arr(0, St(<<I64, I8>>))
A3E  == Arr(3, E0)                  \* array of zero-size elements
\* nested structs
N1 == St(<<I8, I64>>)               \* internal padding
N2 == St(<<I32, I8>>)               \* trailing padding
N3 == St(<<I8, E0>>)                \* tail byte inside a nested struct
N4 == St(<<E0>>)                    \* non-empty nested struct of size 0
N5 == St(<<Z64>>)                   \* size 0, alignment 8
N6 == St(<<I16>>)
N7 == St(<<C64, I8>>)
N8 == St(<<I8, St(<<I64, I8>>)>>)   \* depth 2
N9 == St(<<I64, Z8>>)               \* tail byte + padding inside a nested struct
\* named / aliased field types
NI32 == Named("NI32", I32)          AC64 == Alias("AC64", C64)
NS   == Named("NS", N1)             AS   == Alias("AS", N2)
NZ   == Named("NZ", E0)             NA   == Named("NA", A3I8)

Full == { Bool, I8, U8, I16, I32, U32, I64, F32, F64, C64, C128, Str, Ptr, Sl, If0, IfM, Up, IntT, Fn, Mp, Ch,
          E0, Z64, Z8, A3I8, A2I16, A3C64, A2Str, A2N, A0N, A3E,
          N1, N2, N3, N4, N5, N6, N7, N8, N9, NI32, AC64, NS, AS, NZ, NA }

\* one representative per layout behaviour (size, alignment, zero-size, nesting shape)
Core == { I8, I16, I32, I64, C64, Str, E0, Z64, A3I8, N2, N3, NS }
CoreBig == Core \cup { Sl, N4 }
=============================================================================
