---------------------------- MODULE MCDirectives ----------------------------
(* Constants for Directives.tla: the fixture file checks/C10.py realises.    *)
(* Attach / OwnLine are verified against go/ast.CommentMap, Problems against *)
(* a real baseline run, at the start of every check run.                     *)
EXTENDS Directives

SA4000 == <<"S","A","4","0","0","0">>
S1002  == <<"S","1","0","0","2">>
ST1017 == <<"S","T","1","0","1","7">>
ST1005 == <<"S","T","1","0","0","5">>
SA9004 == <<"S","A","9","0","0","4">>
MCU1000 == <<"U","1","0","0","0">>

MCUniverse == {SA4000, S1002, ST1017, ST1005, SA9004, MCU1000}
MCConfs == {"all", "noST"}
\* "noST": the package's staticcheck.conf says checks = ["inherit", "-ST1*"]
MCEnabled == [ c \in MCConfs |-> IF c = "all" THEN MCUniverse ELSE MCUniverse \ {ST1017, ST1005} ]

MCSlots == {"top", "funcdoc", "aboveA", "trailA", "aboveB", "trailB", "belowB", "aboveC", "trailC",
            "aboveM", "aboveN", "trailN", "aboveD", "trailD", "aboveH"}
MCAttach == [ s \in MCSlots |->
  CASE s = "top" -> 2 [] s = "funcdoc" -> 5 [] s = "aboveA" -> 7 [] s = "trailA" -> 8
    [] s = "aboveB" -> 12 [] s = "trailB" -> 12 [] s = "belowB" -> 12
    [] s = "aboveC" -> 17 [] s = "trailC" -> 18 [] s = "aboveM" -> 21
    [] s = "aboveN" -> 26 [] s = "trailN" -> 26 [] s = "aboveD" -> 33 [] s = "trailD" -> 33
    [] s = "aboveH" -> 36 ]
\* the comments in aboveB, aboveC and aboveN open a comment group of two lines (the directive, then a
\* continuation line); the directive is the first line of the group
MCOwnLine == [ s \in MCSlots |->
  CASE s = "top" -> 1 [] s = "funcdoc" -> 4 [] s = "aboveA" -> 6 [] s = "trailA" -> 7
    [] s = "aboveB" -> 10 [] s = "trailB" -> 12 [] s = "belowB" -> 13
    [] s = "aboveC" -> 15 [] s = "trailC" -> 17 [] s = "aboveM" -> 20
    [] s = "aboveN" -> 24 [] s = "trailN" -> 26 [] s = "aboveD" -> 32 [] s = "trailD" -> 33
    [] s = "aboveH" -> 35 ]

Pr(l, c) == [line |-> l, check |-> c]
MCProblems == { Pr(7, S1002), Pr(7, SA4000), Pr(12, SA4000), Pr(17, ST1017), Pr(22, SA4000),
                Pr(33, MCU1000), Pr(36, MCU1000) }
\* func unused (line 33) calls func helper (line 36); nothing else uses either
MCObjects == { [line |-> 33, uses |-> {36}], [line |-> 36, uses |-> {}] }

\* name lists: exact, wrong case, globs, other enabled check, disabled check, U1000, mixtures in both orders
Lower4000 == <<"s","a","4","0","0","0">>
LowerU    == <<"u","1","0","0","0">>
GSA4 == <<"S","A","4","*">>
GSA  == <<"s","a","*">>
GAll == <<"*">>
GST1 == <<"S","T","1","*">>
GU1  == <<"U","1","*">>
Singles == { <<SA4000>>, <<Lower4000>>, <<S1002>>, <<ST1017>>, <<MCU1000>>, <<LowerU>>, <<SA9004>>,
             <<GSA4>>, <<GSA>>, <<GAll>>, <<GST1>>, <<GU1>> }
PairNames == { SA4000, S1002, MCU1000, ST1017, SA9004, GSA4 }
Pairs == { <<a, b>> : a \in PairNames, b \in PairNames } \ { <<a, a>> : a \in PairNames }
NameLists == Singles \cup Pairs

D(s, k, ns, r) == [slot |-> s, kind |-> k, names |-> ns, reason |-> r]
FileSlots == {"top", "funcdoc", "aboveB", "trailN"}
MCFirst ==
  { D(s, "ignore", ns, r) : s \in MCSlots, ns \in NameLists, r \in BOOLEAN }
  \cup { D(s, "file-ignore", ns, r) : s \in FileSlots, ns \in NameLists, r \in BOOLEAN }
  \cup { D(s, "unknown", ns, TRUE) : s \in {"aboveA", "aboveD"}, ns \in { <<SA4000>>, <<MCU1000>> } }

MCSecond ==
  { D(s, "ignore", ns, TRUE) : s \in {"aboveA", "trailB", "aboveD", "top"}, ns \in { <<SA4000>>, <<S1002>>, <<MCU1000>>, <<GAll>> } }
  \cup { D("top", "file-ignore", ns, TRUE) : ns \in { <<SA4000>>, <<MCU1000>>, <<ST1017>> } }
  \cup { D("aboveB", "ignore", <<SA4000>>, FALSE) }
=============================================================================
