---------------------------- MODULE MCDirectives ----------------------------
(* Constants for Directives.tla: the fixture file checks/C10.py realises.    *)
(* Attach / OwnLine are verified against go/ast.CommentMap, Problems against *)
(* a real baseline run, at the start of every check run.                     *)
EXTENDS Directives

SA4000 == <<"S","A","4","0","0","0">>
S1002  == <<"S","1","0","0","2">>
ST1017 == <<"S","T","1","0","1","7">>
ST1005 == <<"S","T","1","0","0","5">>
SA9004 == <<"S","A","9","0","0","4">>
MCU1000 == <<"U","1","0","0","0">>

MCUniverse == {SA4000, S1002, ST1017, ST1005, SA9004, MCU1000}
MCConfs == {"all", "noST"}
\* "noST": the package's staticcheck.conf says checks = ["inherit", "-ST1*"]
MCEnabled == [ c \in MCConfs |-> IF c = "all" THEN MCUniverse ELSE MCUniverse \ {ST1017, ST1005} ]

MCSlots == {"top", "funcdoc", "aboveA", "trailA", "aboveB", "trailB", "belowB", "aboveC", "trailC",
            "aboveM", "aboveN", "trailN", "aboveD", "trailD", "aboveH"}
MCAttach == [ s \in MCSlots |->
  CASE s = "top" -> 2 [] s = "funcdoc" -> 5 [] s = "aboveA" -> 7 [] s = "trailA" -> 8
    [] s = "aboveB" -> 11 [] s = "trailB" -> 11 [] s = "belowB" -> 11
    [] s = "aboveC" -> 15 [] s = "trailC" -> 16 [] s = "aboveM" -> 19
    [] s = "aboveN" -> 23 [] s = "trailN" -> 23 [] s = "aboveD" -> 30 [] s = "trailD" -> 30
    [] s = "aboveH" -> 33 ]
MCOwnLine == [ s \in MCSlots |->
  CASE s = "top" -> 1 [] s = "funcdoc" -> 4 [] s = "aboveA" -> 6 [] s = "trailA" -> 7
    [] s = "aboveB" -> 10 [] s = "trailB" -> 11 [] s = "belowB" -> 12
    [] s = "aboveC" -> 14 [] s = "trailC" -> 15 [] s = "aboveM" -> 18
    [] s = "aboveN" -> 22 [] s = "trailN" -> 23 [] s = "aboveD" -> 29 [] s = "trailD" -> 30
    [] s = "aboveH" -> 32 ]

Pr(l, c) == [line |-> l, check |-> c]
MCProblems == { Pr(7, S1002), Pr(7, SA4000), Pr(11, SA4000), Pr(15, ST1017), Pr(20, SA4000),
                Pr(30, MCU1000), Pr(33, MCU1000) }
\* func unused (line 30) calls func helper (line 33); nothing else uses either
MCObjects == { [line |-> 30, uses |-> {33}], [line |-> 33, uses |-> {}] }

\* name lists: exact, wrong case, globs, other enabled check, disabled check, U1000, mixtures in both orders
Lower4000 == <<"s","a","4","0","0","0">>
LowerU    == <<"u","1","0","0","0">>
GSA4 == <<"S","A","4","*">>
GSA  == <<"s","a","*">>
GAll == <<"*">>
GST1 == <<"S","T","1","*">>
GU1  == <<"U","1","*">>
Singles == { <<SA4000>>, <<Lower4000>>, <<S1002>>, <<ST1017>>, <<MCU1000>>, <<LowerU>>, <<SA9004>>,
             <<GSA4>>, <<GSA>>, <<GAll>>, <<GST1>>, <<GU1>> }
PairNames == { SA4000, S1002, MCU1000, ST1017, SA9004, GSA4 }
Pairs == { <<a, b>> : a \in PairNames, b \in PairNames } \ { <<a, a>> : a \in PairNames }
NameLists == Singles \cup Pairs

D(s, k, ns, r) == [slot |-> s, kind |-> k, names |-> ns, reason |-> r]
FileSlots == {"top", "funcdoc", "aboveB", "trailN"}
MCFirst ==
  { D(s, "ignore", ns, r) : s \in MCSlots, ns \in NameLists, r \in BOOLEAN }
  \cup { D(s, "file-ignore", ns, r) : s \in FileSlots, ns \in NameLists, r \in BOOLEAN }
  \cup { D(s, "unknown", ns, TRUE) : s \in {"aboveA", "aboveD"}, ns \in { <<SA4000>>, <<MCU1000>> } }

MCSecond ==
  { D(s, "ignore", ns, TRUE) : s \in {"aboveA", "trailB", "aboveD", "top"}, ns \in { <<SA4000>>, <<S1002>>, <<MCU1000>>, <<GAll>> } }
  \cup { D("top", "file-ignore", ns, TRUE) : ns \in { <<SA4000>>, <<MCU1000>>, <<ST1017>> } }
  \cup { D("aboveB", "ignore", <<SA4000>>, FALSE) }
=============================================================================
