INIT InitDense
NEXT Next
CONSTANTS
  Solver = "dense"
  MCN = 2
  MCLats = {"chain2", "chain3", "pow2", "nil5"}
  MCFam = "idgenkill"
  MCParN = 2
  UseJson = TRUE
  EmitCases = TRUE
INVARIANTS TypeOK CaseMonotone BelowLFP AtTerminationLFP QueueSound WorklistSound OracleLeast Emit
PROPERTIES StepMonotone VariantDecreases
CHECK_DEADLOCK FALSE
