INIT InitDense
NEXT Next
CONSTANTS
  Solver = "dense"
  MCN = 2
  MCLats = {"chain3"}
  MCFam = "all"
  MCParN = 0
  UseJson = TRUE
  EmitCases = TRUE
INVARIANTS TypeOK CaseMonotone BelowLFP AtTerminationLFP QueueSound WorklistSound OracleLeast Emit
PROPERTIES StepMonotone VariantDecreases
CHECK_DEADLOCK FALSE
