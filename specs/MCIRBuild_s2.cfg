\* exhaustive: 2 package builders + 1 on-demand builder, 2 shared functions, every reference
\* relation (all lookup orders, self-reference and mutual reference included); no sync.Once layer
SPECIFICATION MCSpec
CONSTANTS
  Builders = {1, 2, 3}
  PkgBuilders = {1, 2}
  Shared = {1, 2}
  Callers = {}
  RelaxedReads = FALSE
  FnMode = "allseq"
  RootMode = "allseq"
  GenMode = FALSE
INVARIANTS TypeOK CreatedOnce BuiltAtReturn CallerSeesBuilt NoDeadlock ProgramOK
PROPERTIES CreatedOnceStep NoEdgeAfterDone Idempotent Termination
VIEW View
CHECK_DEADLOCK FALSE
