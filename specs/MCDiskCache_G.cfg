\* generation (concurrency binding): two processes, state cover of lookup completions with one behaviour each
SPECIFICATION Spec
CONSTANTS
  NP <- G_NP
  NK <- G_NK
  VB <- G_VB
  MaxOps <- G_MaxOps
  Roles <- G_Roles
  Faults <- G_Faults
  MaxFaults <- G_MaxFaults
  TrimOrder <- G_Trim
  CrashCosts = FALSE
  Record = TRUE
INVARIANTS TypeOK LookupSoundBytes LookupSoundFileModTrimRace HitThenReadableModTrimRace SizeImpliesComplete NoLeak IndexSound EmitLookup
VIEW ViewGen
CHECK_DEADLOCK TRUE
