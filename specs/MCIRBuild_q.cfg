\* quick exhaustive config: 2 package builders + 1 on-demand builder, 2 shared functions;
\* package builders look up a non-empty subset (ascending), shared functions reference the other
\* one or nothing (mutual reference = cyclic waits included): 72 programs, all interleavings
SPECIFICATION MCSpec
CONSTANTS
  Builders = {1, 2, 3}
  PkgBuilders = {1, 2}
  Shared = {1, 2}
  Callers = {}
  RelaxedReads = FALSE
  FnMode = "sortednoself"
  RootMode = "nonemptysorted"
  GenMode = FALSE
INVARIANTS TypeOK CreatedOnce BuiltAtReturn CallerSeesBuilt NoDeadlock ProgramOK
PROPERTIES CreatedOnceStep NoEdgeAfterDone Idempotent Termination
VIEW View
CHECK_DEADLOCK FALSE
