SPECIFICATION Spec
INVARIANT Report
CONSTANTS
  MaxSteps = 4000
  InputFile = "irsem_in.json"
CHECK_DEADLOCK FALSE
