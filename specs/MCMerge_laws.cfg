\* exhaustive: every sequence of <= 3 runs over 2 files / 5 descriptors; the laws of C12 on the oracle
SPECIFICATION Spec
CONSTANTS
  Files <- MCFiles
  D <- MCD
  NameSeq <- MCNames
  MaxRuns = 3
  Foreign = FALSE
INVARIANTS OrderIndependent RepeatIdempotent AnnotationExact AnySemantics AllSemantics
PROPERTY AnyMonotone
CHECK_DEADLOCK FALSE
