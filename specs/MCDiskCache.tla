---------------------------- MODULE MCDiskCache ----------------------------
(* Constants, emission predicates and configurations for DiskCache.tla.     *)
(* Realisation (checks/C05.py): byte symbol s is the real byte chr(96+s);   *)
(* the first byte of sha256(content) decides the subdirectory and therefore *)
(* the order in which Trim visits the files.  MCValByte/MCKeyByte record    *)
(* those first bytes; C05.py verifies the table against hashlib on each run.*)
EXTENDS DiskCache

MCValByte(b) == CASE b = <<>> -> 227        \* sha256("")    = e3...
                  [] b = <<1>> -> 202       \* sha256("a")   = ca...
                  [] b = <<1, 2>> -> 251    \* sha256("ab")  = fb...
                  [] b = <<3, 4>> -> 33     \* sha256("cd")  = 21...
                  [] b = <<1, 2, 3>> -> 186 \* sha256("abc") = ba...
                  [] b = <<4, 5, 6>> -> 203 \* sha256("def") = cb...
MCKeyByte(k) == IF k = 1 THEN 64 ELSE 144   \* action ids start with 0x40 / 0x90

FilesOf(vb, nk) == {[t |-> "d", i |-> v] : v \in 1..Len(vb)} \cup {[t |-> "a", i |-> k] : k \in 1..nk}
FirstByte(vb, f) == IF f.t = "d" THEN MCValByte(vb[f.i]) ELSE MCKeyByte(f.i)
RECURSIVE SortFiles(_, _)
SortFiles(vb, S) == IF S = {} THEN <<>>
                    ELSE LET f == CHOOSE x \in S : \A y \in S : FirstByte(vb, x) <= FirstByte(vb, y)
                         IN <<f>> \o SortFiles(vb, S \ {f})
OrderOf(vb, nk) == SortFiles(vb, FilesOf(vb, nk))

AllKinds == {"put", "getfile", "getbytes", "trim"}
PropFaults == {"crash", "trunc", "delete", "age"}     \* the property's fault list

\* ---- value tables
VB_2x2   == << <<1, 2>>, <<3, 4>> >>
VB_e2    == << <<>>, <<1, 2>> >>
VB_e12   == << <<>>, <<1>>, <<1, 2>> >>
VB_e23   == << <<>>, <<1, 2>>, <<1, 2, 3>> >>
VB_2     == << <<1, 2>> >>
VB_3     == << <<1, 2, 3>> >>

\* ---- A: 2 processes x 2 operations, 1 key, two 2-byte values, every fault of the property
A_NP == 2  A_NK == 1  A_VB == VB_2x2  A_MaxOps == <<2, 2>>  A_Roles == <<AllKinds, AllKinds>>
A_Faults == PropFaults  A_MaxFaults == 2  A_Trim == OrderOf(A_VB, A_NK)

\* ---- Q: the quick-tier variant of A (3 operations, 1 environment fault)
Q_MaxOps == <<2, 1>>  Q_MaxFaults == 1

\* ---- T: writer / reader / trimmer, the Trim stat->remove window against GetFile's name-then-open
T_NP == 3  T_NK == 1  T_VB == VB_2  T_MaxOps == <<2, 1, 1>>  T_Roles == <<{"put"}, {"getfile"}, {"trim"}>>
T_Faults == {"age"}  T_MaxFaults == 1  T_Trim == OrderOf(T_VB, T_NK)

\* ---- C: crash points. One process: Put (killed anywhere or completing), again, then a lookup
VB_e123 == << <<>>, <<1>>, <<1, 2>>, <<1, 2, 3>> >>
C_NP == 1  C_NK == 1  C_VB == VB_e123  C_MaxOps == <<3>>  C_Roles == <<{"put", "getfile", "getbytes"}>>
C_Faults == {"crash"}  C_MaxFaults == 0  C_Trim == OrderOf(C_VB, C_NK)

\* ---- D: damage at rest. One process, two keys: stores, then truncations / deletions / a foreign entry, then a lookup
D_NP == 1  D_NK == 2  D_VB == VB_e23  D_MaxOps == <<3>>  D_Roles == <<{"put", "getfile", "getbytes"}>>
D_Faults == {"trunc", "delete", "foreign"}  D_MaxFaults == 2  D_Trim == OrderOf(D_VB, D_NK)

\* ---- DQ: the quick-tier variant of D (two values)
DQ_NP == 1  DQ_NK == 2  DQ_VB == VB_e2  DQ_MaxOps == <<3>>  DQ_Roles == <<{"put", "getfile", "getbytes"}>>
DQ_Faults == {"trunc", "delete", "foreign"}  DQ_MaxFaults == 2  DQ_Trim == OrderOf(DQ_VB, DQ_NK)

\* ---- S: simulation. Three processes x 2 operations, two keys, three values, every fault of the property
S_NP == 3  S_NK == 2  S_VB == VB_e23  S_MaxOps == <<2, 2, 2>>  S_Roles == <<AllKinds, AllKinds, AllKinds>>
S_Faults == PropFaults  S_MaxFaults == 3  S_Trim == OrderOf(S_VB, S_NK)

\* ---- G: concurrency. Two processes (2 + 1 operations), one key, two 2-byte values, crashes and ageing
G_NP == 2  G_NK == 1  G_VB == VB_2x2  G_MaxOps == <<2, 1>>  G_Roles == <<AllKinds, AllKinds>>
G_Faults == {"crash", "age"}  G_MaxFaults == 1  G_Trim == OrderOf(G_VB, G_NK)

\* ---- emission
LastH == hist[Len(hist)]
LookupJustDone == Record /\ Len(hist) > 0 /\ LastH.a \notin {"start", "crash"} /\ LastH.r.kind \in {"miss", "bytes", "enoent"}
             /\ LastH.p # 0 /\ pr[LastH.p].pc = "idle"
\* Generation views: one behaviour per distinct state *and* per value of a few order-sensitive facts about the
\* history, so that interleavings a careless change is sensitive to are represented among the emitted behaviours.
\* OverlapOpen: a process opened a data file for writing while another process was in the middle of writing it.
OverlapOpen == \E j \in 1..Len(hist) :
                 /\ hist[j].a = "c_open"
                 /\ \E i \in 1..(j - 1) :
                      /\ hist[i].a = "c_write" /\ hist[i].p # hist[j].p /\ hist[i].v = hist[j].v
                      /\ ~\E m \in (i + 1)..(j - 1) : hist[m].p = hist[i].p /\ hist[m].a \in {"c_last", "crash"}
\* ReadDuringWrite: a lookup read the index while a Put under the same key was between its data file and its index entry
ReadDuringWrite == \E j \in 1..Len(hist) :
                     /\ hist[j].a = "g_read"
                     /\ \E i \in 1..(j - 1) :
                          /\ hist[i].a \in {"c_open", "c_write", "c_last", "c_chtimes", "i_open"} /\ hist[i].p # hist[j].p /\ hist[i].k = hist[j].k
                          /\ ~\E m \in (i + 1)..(j - 1) : hist[m].p = hist[i].p
ViewGen == <<View, OverlapOpen, ReadDuringWrite>>

EmitLookup == LookupJustDone => PrintT("CASE " \o ToJson(hist))
\* witnesses of the model-level finding: a GetFile hit whose client read yields ENOENT or foreign bytes
RaceWitness == \E p \in Procs : pr[p].op.kind = "getfile" /\ pr[p].pc = "idle"
                 /\ (pr[p].res.kind = "enoent" \/ (pr[p].res.kind = "bytes" /\ pr[p].res.b \notin StoredBytes(pr[p].op.k)))
EmitRace == (Record /\ Len(hist) > 0 /\ LastH.p # 0 /\ LastH.a = "cl_read" /\ RaceWitness) => PrintT("CASE " \o ToJson(hist))
EmitAllDone == (Record /\ AllDone /\ Len(hist) > 0) => PrintT("CASE " \o ToJson(hist))
=============================================================================
