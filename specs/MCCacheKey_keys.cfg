\* as ex3, CASE lines also carry the key components of every unit (key-tuple layer of the binding)
SPECIFICATION Spec
CONSTANTS
  MaxLen = 3
  RunPatterns <- MCRunPatterns
  EditPkgs <- MCEditPkgs
  TouchPkgs <- MCTouchPkgs
  ConfLevels <- MCConfLevels
  FlagNames <- MCFlagNames
  EmitRuns = TRUE
  EmitKeys = TRUE
  StaticCheck = FALSE
  KeyMode = "full"
VIEW View
INVARIANTS TypeOK Transparent HitOnlyIfSameInputs CacheKeyFunctional
CHECK_DEADLOCK FALSE
