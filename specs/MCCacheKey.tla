---------------------------- MODULE MCCacheKey ----------------------------
EXTENDS CacheKey

\* run patterns: each is what is put on the command line ("all" = ./...)
MCRunPatterns  == { {"a"}, {"b"}, {"c"}, {"a", "c"}, {"all"} }
MCRunSmall     == { {"a"}, {"b"}, {"all"} }
MCEditPkgs     == {"a", "b", "c", "d", "m"}
MCTouchPkgs    == {"a", "b"}
MCTouchNone    == {}
MCConfLevels   == {"root", "a"}
MCFlagNames    == {"go", "tags", "tests", "checks"}
=============================================================================
