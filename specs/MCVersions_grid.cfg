\* exhaustive + generation: every configuration of the grid, every edit between them;
\* laws of C20 on the oracle; CASE emission
SPECIFICATION Spec
CONSTANTS
  ModVers <- GridMods
  Tags <- GridTags
  GoFlags <- GridFlags
  Thresholds <- GridThresh
INVARIANTS TypeOK HalfLines MinMaxComplement Monotone PlainModule GoFlagOverrides TagFixesLanguage NewSemanticsStdlib OldSemanticsStdlib Emit
PROPERTY RaiseNeverLowers
CHECK_DEADLOCK FALSE
