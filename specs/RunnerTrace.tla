---------------------------- MODULE RunnerTrace ----------------------------
(***************************************************************************)
(* Trace validation (T) for Runner.tla: the NDJSON event logs written by    *)
(* the `verif` hooks of lintcmd/runner (VERIF_TRACE_RUNNER) must be         *)
(* behaviours of the specification.  One TLC run validates many logs: the   *)
(* logs are concatenated, separated by "reset" events that name the graph   *)
(* of the next log (graphs.ndjson, reconstructed by checks/runnertrace.py   *)
(* from the run_begin/node/anode/abegin events and the error events of the  *)
(* log itself).  Every logged event is bound to exactly one action of       *)
(* Runner.tla (no silent steps); acceptance = the high-water mark of the    *)
(* log position reaches the end (TLCSet/TLCGet register 1, -workers 1).     *)
(* Runner's invariants are evaluated in every state along the way.          *)
(*                                                                         *)
(* Events (uniform records [ev, p, a, tp, ta, flag, n]); p/a = actor        *)
(* (package id or $root / analyzer name, "" at package level, or $aroot),   *)
(* tp/ta = target:                                                         *)
(*   recv p            Run's loop received p                -> MainRecv*    *)
(*   acquire p         Acquire() returned, handler spawned  -> MainAcquire  *)
(*   rootclose         close(queue)                         -> HRootClose   *)
(*   start (flag = failed at entry, n = 1 iff own token)    -> HStart       *)
(*   exec_end (flag = failed)                               -> HExecEnd     *)
(*   release                                                -> HRelease     *)
(*   dec -> target                                          -> HDec         *)
(*   enqueue -> target                                      -> HEnqueue     *)
(*   acquire_maybe (flag = result)                   -> ASpawn / AInline    *)
(*   finalize                                               -> Finalize     *)
(* The semaphore is not a guard here (SemGuard = FALSE, InlineAnytime =     *)
(* TRUE): its bound is checked on the raw log by RunnerMon.tla.             *)
(***************************************************************************)
EXTENDS Runner, Json

ToSet(s)  == {s[i] : i \in 1..Len(s)}
MapSet(r) == [k \in DOMAIN r |-> ToSet(r[k])]

\* JSON arrays are sequences; the specification wants sets
Conv(g) ==
  [ pkgs    |-> ToSet(g.pkgs),
    pdeps   |-> MapSet(g.pdeps),
    ptrig   |-> MapSet(g.ptrig),
    initial |-> ToSet(g.initial),
    cfailed |-> ToSet(g.cfailed),
    mode    |-> g.mode,
    anodes  |-> MapSet(g.anodes),
    adeps   |-> MapSet(g.adeps),
    atrig   |-> [p \in DOMAIN g.atrig |-> [a \in DOMAIN g.atrig[p] |-> {<<e[1], e[2]>> : e \in ToSet(g.atrig[p][a])}]],
    apend   |-> g.apend,
    aroots  |-> g.aroots,
    afail   |-> {<<x[1], x[2]>> : x \in ToSet(g.afail)},
    facts   |-> ToSet(g.facts),
    cap     |-> g.cap,
    bufcap  |-> g.bufcap,
    pacts   |-> ToSet(g.pacts), aacts |-> ToSet(g.aacts), acts |-> ToSet(g.pacts) \cup ToSet(g.aacts) ]

RawGraphs == ndJsonDeserialize("graphs.ndjson")
TGraphs   == [i \in 1..Len(RawGraphs) |-> Conv(RawGraphs[i])]
TGraphAt(i) == TGraphs[i]
TNGraphs  == Len(RawGraphs)

Log == ndJsonDeserialize("trace.ndjson")

VARIABLE l
tvars == <<vars, l>>

E == Log[l]
X == Id(E.p, E.a)
T == Id(E.tp, E.ta)

IsEvent(e) == l <= Len(Log) /\ E.ev = e /\ l' = l + 1

\* the log starts with a reset event naming the first graph
TInit ==
  /\ TLCSet(1, 0)
  /\ Log[1].ev = "reset"
  /\ gi = Log[1].n
  /\ Init
  /\ l = 2

\* (every action first checks that the logged actor exists in the graph: an unknown actor is a rejected
\* event, not an evaluation error)
TRecv ==
  /\ IsEvent("recv")
  /\ PId(E.p) \in Acts
  /\ \/ MainRecvFeed(E.p)
     \/ \E x \in PActs : st[x].snd = PId(E.p) /\ MainRecvSend(x)

TAcquire   == IsEvent("acquire") /\ PId(E.p) \in Acts /\ main.item = E.p /\ MainAcquire
TRootClose == IsEvent("rootclose") /\ X \in Acts /\ st[X].tok = (E.n = 1) /\ HRootClose(X)
TStart     == IsEvent("start") /\ X \in Acts /\ st[X].tok = (E.n = 1) /\ st[X].failed = E.flag /\ HStart(X)
\* a handler that skipped exec (failed) logs exec_end as well; the model went on at HStart
TExecEnd ==
  /\ IsEvent("exec_end")
  /\ X \in Acts
  /\ IF st[X].pc \in {"exec", "running"}
       THEN HExecEnd(X) /\ st'[X].failed = E.flag
       ELSE /\ st[X].pc \in {"release", "trigger"} /\ st[X].failed /\ E.flag /\ st[X].n = 0
            /\ UNCHANGED vars
TRelease   == IsEvent("release") /\ X \in Acts /\ HRelease(X)
TDec       == IsEvent("dec") /\ X \in Acts /\ \E tk \in st[X].trig : tk.t = T /\ HDec(X, tk)
TEnqueue   == IsEvent("enqueue") /\ X \in Acts /\ st[X].snd = T /\ HEnqueue(X)
TAcqMaybe  == IsEvent("acquire_maybe") /\ X \in Acts /\ IF E.flag THEN ASpawn(E.p, E.a) ELSE AInline(E.p, E.a)
TFinalize  == IsEvent("finalize") /\ Finalize

\* end of one log: everything has terminated; load the next graph
TReset ==
  /\ IsEvent("reset")
  /\ Terminated
  /\ gi' = E.n
  /\ st' = InitSt(E.n) /\ lp' = InitLp(E.n) /\ feed' = InitFeed(E.n)
  /\ main' = InitMain /\ final' = InitFinal /\ pclosed' = FALSE /\ sem' = 0

TNext == TRecv \/ TAcquire \/ TRootClose \/ TStart \/ TExecEnd \/ TRelease \/ TDec \/ TEnqueue
         \/ TAcqMaybe \/ TFinalize \/ TReset
TSpec == TInit /\ [][TNext]_tvars

HighWater == TLCSet(1, IF TLCGet(1) < l THEN l ELSE TLCGet(1))
\* every log ends with a reset (which demands Terminated), so acceptance = the whole file was consumed;
\* the mark is printed so that the check can locate the first rejected event
Accepted  == /\ PrintT(<<"HIGHWATER", TLCGet(1), Len(Log)>>)
             /\ TLCGet(1) = Len(Log) + 1
=============================================================================
