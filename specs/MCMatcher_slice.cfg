\* quick tier: absent optional children -- slice patterns x slice trees (exhaustive laws + case emission)
SPECIFICATION SpecSlice
CONSTANTS
  Names <- MCNames
  MergeMode = "union"
  NotMode = "frame"
  IdxMode = "name"
  PopMode = "delete"
  NilMode = "commaok"
INVARIANTS StaticWFSound OpEqualsDen VisibleIsSuccessfulPath ConsistentRecall NotLeavesNoBindings AtomicAlternatives Emit
CHECK_DEADLOCK FALSE
