SPECIFICATION OSpec
CONSTANTS
  Shapes = {}
  MaxCases = 1
  StrictBeh = FALSE
INVARIANTS EmitVerdict BehaviourPreserved
CHECK_DEADLOCK FALSE
