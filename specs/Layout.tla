------------------------------- MODULE Layout -------------------------------
(***************************************************************************)
(* Property C19: structlayout reports the field offsets, sizes, alignments *)
(* and padding that the Go compiler uses (amd64), covering the struct's    *)
(* full size without gaps or overlaps; structlayout-optimize outputs a     *)
(* permutation of the input fields that is itself a valid layout and whose *)
(* padded size is never larger than the original's.                        *)
(*                                                                         *)
(* Model of go/gcsizes/sizes.go (Sizeof, Alignof, Offsetsof),              *)
(* cmd/structlayout/main.go (sizes: flattening of nested structs, padding  *)
(* reconstruction) and cmd/structlayout-optimize/main.go (optimize, pad).  *)
(* The rules are the gc compiler's (cmd/compile/internal/types/size.go,    *)
(* go/types gcsizes.go); the check validates them against the real         *)
(* compiler (unsafe.Sizeof / Alignof / Offsetof) on every run.             *)
(*                                                                         *)
(* A type term is a record [k, name, n, elems]:                            *)
(*   scalar kinds  k = the kind, name = Go spelling                        *)
(*   "array"       n = length, elems = <<element>>                         *)
(*   "struct"      elems = field types (field names are positional)        *)
(*   "named"/"alias"  name = declared name, elems = <<underlying>>         *)
(* The state is the struct under construction (a sequence of field types); *)
(* AddField appends one field, so that every struct with <= MaxFields      *)
(* fields over FieldTypes is a reachable state and the laws are checked in *)
(* each.                                                                   *)
(***************************************************************************)
EXTENDS Integers, Sequences, FiniteSets, TLC, Json

CONSTANTS
  FieldTypes,   \* set of type terms allowed as field types
  MaxFields

VARIABLES s     \* sequence of field types: the struct `struct{ f1 s[1]; ...; fn s[n] }`

vars == <<s>>

W        == 8   \* word size (amd64)
MaxAlign == 8

Min(a, b) == IF a <= b THEN a ELSE b
Max(a, b) == IF a >= b THEN a ELSE b
AlignUp(x, a) == ((x + a - 1) \div a) * a

\* term constructors (used by the MC modules)
Sc(kind, name)  == [k |-> kind, name |-> name, n |-> 0, elems |-> <<>>]
Arr(n, t)       == [k |-> "array", name |-> "", n |-> n, elems |-> <<t>>]
St(ts)          == [k |-> "struct", name |-> "", n |-> 0, elems |-> ts]
Named(nm, t)    == [k |-> "named", name |-> nm, n |-> 0, elems |-> <<t>>]
Alias(nm, t)    == [k |-> "alias", name |-> nm, n |-> 0, elems |-> <<t>>]

-----------------------------------------------------------------------------
(* gc's size and alignment rules.                                          *)

ScalarSize(k) ==
  CASE k \in {"bool", "int8", "uint8"}                          -> 1
    [] k \in {"int16", "uint16"}                                -> 2
    [] k \in {"int32", "uint32", "float32"}                     -> 4
    [] k \in {"int64", "uint64", "float64", "complex64"}        -> 8
    [] k = "complex128"                                         -> 16
    [] k \in {"string", "iface"}                                -> 2 * W
    [] k = "slice"                                              -> 3 * W
    [] OTHER                                                    -> W   \* int, uint, uintptr, pointer, func, map, chan

\* multiword values are aligned like their words, complex numbers like their halves
ScalarAlign(k) ==
  CASE k \in {"string", "iface", "slice"}     -> W
    [] k \in {"complex64", "complex128"}      -> Min(ScalarSize(k) \div 2, MaxAlign)
    [] OTHER                                  -> Min(ScalarSize(k), MaxAlign)

\* Layout of a sequence of shapes [sz, al] (what a field contributes).
RECURSIVE OffAt(_, _), EndAt(_, _)
EndAt(sh, i) == IF i = 0 THEN 0 ELSE OffAt(sh, i) + sh[i].sz
OffAt(sh, i) == AlignUp(EndAt(sh, i - 1), sh[i].al)

RECURSIVE MaxAl(_, _)
MaxAl(sh, i) == IF i = 0 THEN 1 ELSE Max(sh[i].al, MaxAl(sh, i - 1))
ShAlign(sh) == MaxAl(sh, Len(sh))

\* "The last field of a non-zero-sized struct is not allowed to have size 0": one pad byte
HasTailByte(sh) == Len(sh) > 0 /\ sh[Len(sh)].sz = 0 /\ OffAt(sh, Len(sh)) > 0
ShSize(sh) ==
  IF Len(sh) = 0 THEN 0
  ELSE AlignUp(EndAt(sh, Len(sh)) + (IF HasTailByte(sh) THEN 1 ELSE 0), ShAlign(sh))

RECURSIVE SizeOf(_), AlignOf(_), Underlying(_)
Shapes(ts) == [i \in 1..Len(ts) |-> [sz |-> SizeOf(ts[i]), al |-> AlignOf(ts[i])]]

SizeOf(t) ==
  CASE t.k = "struct"              -> ShSize(Shapes(t.elems))
    [] t.k = "array"               -> t.n * SizeOf(t.elems[1])
    [] t.k \in {"named", "alias"}  -> SizeOf(t.elems[1])
    [] OTHER                       -> ScalarSize(t.k)

AlignOf(t) ==
  CASE t.k = "struct"              -> ShAlign(Shapes(t.elems))
    [] t.k = "array"               -> AlignOf(t.elems[1])
    [] t.k \in {"named", "alias"}  -> AlignOf(t.elems[1])
    [] OTHER                       -> ScalarAlign(t.k)

Underlying(t) == IF t.k \in {"named", "alias"} THEN Underlying(t.elems[1]) ELSE t

-----------------------------------------------------------------------------
(* What structlayout prints: the fields in order, nested non-empty structs *)
(* flattened, with explicit padding entries.  `alt` selects the tolerated  *)
(* attribution of a struct's tail byte to its trailing zero-size field.    *)

FieldName(depth, i) == <<"f", "g", "h", "j">>[depth] \o ToString(i)
PadEntry(a, b) == [name |-> "", start |-> a, end |-> b, size |-> b - a, align |-> 0, pad |-> TRUE]

RECURSIVE Flat(_, _, _, _, _, _), FlatFrom(_, _, _, _, _, _, _, _)
FlatFrom(ts, sh, prefix, depth, base, alt, deep, i) ==
  IF i > Len(ts) THEN <<>>
  ELSE LET off == base + OffAt(sh, i)
           pos == base + EndAt(sh, i - 1)
           gap == IF off > pos THEN <<PadEntry(pos, off)>> ELSE <<>>
           u   == Underlying(ts[i])
           nm  == prefix \o "." \o FieldName(depth, i)
           me  == IF deep /\ u.k = "struct" /\ Len(u.elems) > 0
                  THEN Flat(u.elems, nm, depth + 1, off, alt, deep)
                  ELSE << [name |-> nm, start |-> off, end |-> off + sh[i].sz, size |-> sh[i].sz,
                           align |-> sh[i].al, pad |-> FALSE] >>
       IN gap \o me \o FlatFrom(ts, sh, prefix, depth, base, alt, deep, i + 1)

Flat(ts, prefix, depth, base, alt, deep) ==
  LET sh     == Shapes(ts)
      body   == FlatFrom(ts, sh, prefix, depth, base, alt, deep, 1)
      n      == Len(body)
      bump   == alt /\ HasTailByte(sh)
      body2  == IF bump THEN [body EXCEPT ![n] = [@ EXCEPT !.size = 1, !.end = @ + 1]] ELSE body
      pos    == base + EndAt(sh, Len(ts)) + (IF bump THEN 1 ELSE 0)
      total  == base + ShSize(sh)
  IN IF total > pos THEN Append(body2, PadEntry(pos, total)) ELSE body2

Report(ts)    == Flat(ts, "T", 1, 0, FALSE, TRUE)
ReportAlt(ts) == Flat(ts, "T", 1, 0, TRUE, TRUE)
\* the same without flattening: what structlayout-optimize (without -r) works on and prints
Top(ts)       == Flat(ts, "T", 1, 0, FALSE, FALSE)
TopAlt(ts)    == Flat(ts, "T", 1, 0, TRUE, FALSE)

\* The same report computed from shapes and names alone (no nesting): the layout a sequence of
\* (size, alignment) pairs gets in that order.  Used to judge layouts printed by
\* structlayout-optimize (LayoutObs.tla); TopIsShapeReport ties it to Top/TopAlt.
RECURSIVE ShapeFrom(_, _, _)
ShapeFrom(sh, names, i) ==
  IF i > Len(sh) THEN <<>>
  ELSE LET off == OffAt(sh, i)
           pos == EndAt(sh, i - 1)
           gap == IF off > pos THEN <<PadEntry(pos, off)>> ELSE <<>>
       IN gap \o << [name |-> names[i], start |-> off, end |-> off + sh[i].sz, size |-> sh[i].sz,
                     align |-> sh[i].al, pad |-> FALSE] >> \o ShapeFrom(sh, names, i + 1)
ShapeReport(sh, names, alt) ==
  LET body  == ShapeFrom(sh, names, 1)
      n     == Len(body)
      bump  == alt /\ HasTailByte(sh)
      body2 == IF bump THEN [body EXCEPT ![n] = [@ EXCEPT !.size = 1, !.end = @ + 1]] ELSE body
      pos   == EndAt(sh, Len(sh)) + (IF bump THEN 1 ELSE 0)
      total == ShSize(sh)
  IN IF total > pos THEN Append(body2, PadEntry(pos, total)) ELSE body2

-----------------------------------------------------------------------------
(* structlayout-optimize: zero-size first, then alignment descending, then *)
(* size descending (byAlignAndSize.Less); stable insertion sort here, the  *)
(* implementation's sort.Sort may order ties differently.                  *)

Less(a, b) ==
  IF a.sz = 0 /\ b.sz # 0 THEN TRUE
  ELSE IF b.sz = 0 /\ a.sz # 0 THEN FALSE
  ELSE IF a.al # b.al THEN a.al > b.al
  ELSE a.sz > b.sz

RECURSIVE InsertSorted(_, _), SortShapes(_)
InsertSorted(x, sorted) ==
  IF sorted = <<>> THEN <<x>>
  ELSE IF Less(x, Head(sorted)) THEN <<x>> \o sorted
  ELSE <<Head(sorted)>> \o InsertSorted(x, Tail(sorted))
SortShapes(sh) == IF sh = <<>> THEN <<>> ELSE InsertSorted(sh[Len(sh)], SortShapes(SubSeq(sh, 1, Len(sh) - 1)))

Optimize(sh) == SortShapes(sh)

\* the leaves that `structlayout-optimize -r` reorders freely
Leaves(ts) == LET np == SelectSeq(Report(ts), LAMBDA e : ~e.pad)
              IN [j \in 1..Len(np) |-> [sz |-> np[j].size, al |-> np[j].align]]

-----------------------------------------------------------------------------
Init == s = <<>>
AddField(t) == Len(s) < MaxFields /\ s' = Append(s, t)
Next == \E t \in FieldTypes : AddField(t)
Spec == Init /\ [][Next]_vars

-----------------------------------------------------------------------------
(* Laws (checked in every reachable state).                                *)

\* entries are consistent, start at 0, are contiguous and end at the struct's size
Tiles(rep, size) ==
  /\ \A i \in 1..Len(rep) : rep[i].end = rep[i].start + rep[i].size /\ rep[i].size >= 0
  /\ \A i \in 1..Len(rep) : rep[i].pad => rep[i].size > 0
  /\ IF Len(rep) = 0 THEN size = 0
     ELSE /\ rep[1].start = 0
          /\ \A i \in 1..(Len(rep) - 1) : rep[i + 1].start = rep[i].end
          /\ rep[Len(rep)].end = size
ReportTiles    == LET sh == Shapes(s) IN Tiles(Report(s), ShSize(sh))
ReportAltTiles == LET sh == Shapes(s) IN Tiles(ReportAlt(s), ShSize(sh))
TopNames       == [i \in 1..Len(s) |-> "T." \o FieldName(1, i)]
TopTiles ==
  LET sh == Shapes(s) top == Top(s) topalt == TopAlt(s) IN
  /\ Tiles(top, ShSize(sh)) /\ Tiles(topalt, ShSize(sh))
  /\ top = ShapeReport(sh, TopNames, FALSE) /\ topalt = ShapeReport(sh, TopNames, TRUE)

\* every reported field sits at a multiple of its alignment; the top-level offsets are visible
\* in the flattened report
ReportAligned ==
  LET sh == Shapes(s) rep == Report(s) IN
  /\ \A i \in 1..Len(rep) : ~rep[i].pad => (rep[i].start % rep[i].align = 0 /\ rep[i].align >= 1)
  /\ \A i \in 1..Len(s) :
       sh[i].sz > 0 => \E j \in 1..Len(rep) : ~rep[j].pad /\ rep[j].start = OffAt(sh, i)

\* top-level fields: aligned, in order, inside the struct; size is a multiple of the alignment
FieldsWellPlaced ==
  LET sh == Shapes(s) size == ShSize(sh) IN
  /\ \A i \in 1..Len(s) : OffAt(sh, i) % sh[i].al = 0 /\ OffAt(sh, i) + sh[i].sz <= size
  /\ \A i \in 1..(Len(s) - 1) : EndAt(sh, i) <= OffAt(sh, i + 1)
  /\ size % ShAlign(sh) = 0
  /\ \A i \in 1..Len(s) : sh[i].sz % sh[i].al = 0 /\ sh[i].al \in {1, 2, 4, 8}

Count(seq, x) == Cardinality({i \in 1..Len(seq) : seq[i] = x})
\* structlayout-optimize: a permutation, sorted, never larger (with and without -r); the
\* optimized order never needs the tail byte and has no padding between fields
OptimizeLaws ==
  LET sh == Shapes(s) o == Optimize(sh) size == ShSize(sh) IN
  /\ Len(o) = Len(sh)
  /\ \A i \in 1..Len(sh) : Count(o, sh[i]) = Count(sh, sh[i])
  /\ \A i \in 1..(Len(sh) - 1) : ~Less(o[i + 1], o[i])
  /\ ShSize(o) <= size
  /\ ~HasTailByte(o) \/ ShSize(o) = 0
  /\ \A i \in 1..(Len(o) - 1) : OffAt(o, i + 1) = EndAt(o, i)
OptimizeRNeverGrows ==
  LET sh == Shapes(s) IN ShSize(Optimize(Leaves(s))) <= ShSize(sh)
\* ... nor when a struct's tail byte travels with its trailing zero-size field (tolerated attribution)
OptimizeAltNeverGrows ==
  LET sh == Shapes(s)
      ta == SelectSeq(TopAlt(s), LAMBDA e : ~e.pad)
      la == SelectSeq(ReportAlt(s), LAMBDA e : ~e.pad)
  IN /\ ShSize(Optimize([i \in 1..Len(ta) |-> [sz |-> ta[i].size, al |-> ta[i].align]])) <= ShSize(sh)
     /\ ShSize(Optimize([i \in 1..Len(la) |-> [sz |-> la[i].size, al |-> la[i].align]])) <= ShSize(sh)

\* appending a field never moves an existing field and never shrinks the struct
AppendStable ==
  [][ LET sh == Shapes(s) sh2 == Shapes(s') IN
      /\ \A i \in 1..Len(s) : OffAt(sh2, i) = OffAt(sh, i)
      /\ ShSize(sh2) >= ShSize(sh) ]_vars

-----------------------------------------------------------------------------
(* Worked examples (validated at start-up): documented facts about gc.     *)
I8  == Sc("int8", "int8")      I64 == Sc("int64", "int64")   I32 == Sc("int32", "int32")
C64 == Sc("complex64", "complex64")   E0 == St(<<>>)
Examples ==
  /\ SizeOf(St(<<I8, I64>>)) = 16 /\ SizeOf(St(<<I64, I8>>)) = 16
  /\ SizeOf(St(<<I8, C64>>)) = 12 /\ AlignOf(C64) = 4          \* complex64 aligns like [2]float32
  /\ SizeOf(St(<<I64, E0>>)) = 16                               \* tail byte, then padding
  /\ SizeOf(St(<<E0, I64>>)) = 8
  /\ SizeOf(St(<<E0>>)) = 0 /\ SizeOf(St(<<Arr(0, I64)>>)) = 0  \* zero-sized structs get no tail byte
  /\ AlignOf(St(<<Arr(0, I64)>>)) = 8
  /\ SizeOf(Arr(3, St(<<I32, I8>>))) = 24
ASSUME Examples

-----------------------------------------------------------------------------
(* Case emission: the struct with everything the implementation is         *)
(* compared against.                                                       *)
Emit ==
  LET sh == Shapes(s) o == Optimize(sh) IN
  PrintT("CASE " \o ToJson(
    [ fields  |-> s,
      size    |-> ShSize(sh),
      align   |-> ShAlign(sh),
      offs    |-> [i \in 1..Len(s) |-> OffAt(sh, i)],
      fsz     |-> [i \in 1..Len(s) |-> sh[i].sz],
      fal     |-> [i \in 1..Len(s) |-> sh[i].al],
      report  |-> Report(s),
      alt     |-> ReportAlt(s),
      altfsz  |-> LET ta == SelectSeq(TopAlt(s), LAMBDA e : ~e.pad) IN [i \in 1..Len(s) |-> ta[i].size],
      optsize |-> ShSize(o),
      roptsize |-> ShSize(Optimize(Leaves(s))),
      \* the same for the shapes structlayout hands to optimize under the tolerated attribution
      altoptsize  |-> LET ta == SelectSeq(TopAlt(s), LAMBDA e : ~e.pad)
                      IN ShSize(Optimize([i \in 1..Len(ta) |-> [sz |-> ta[i].size, al |-> ta[i].align]])),
      altroptsize |-> LET la == SelectSeq(ReportAlt(s), LAMBDA e : ~e.pad)
                      IN ShSize(Optimize([i \in 1..Len(la) |-> [sz |-> la[i].size, al |-> la[i].align]])) ]))
=============================================================================
