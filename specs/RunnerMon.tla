----------------------------- MODULE RunnerMon -----------------------------
(***************************************************************************)
(* Property monitors evaluated on the RAW event log (sorted by the hooks'   *)
(* sequence numbers, nothing reordered, nothing dropped).  Unlike           *)
(* RunnerTrace, which demands that the log is a behaviour of Runner.tla     *)
(* step by step (refinement; a mismatch there is drift), the monitor        *)
(* accepts every log and only evaluates the invariants of Runner.tla that   *)
(* encode C06 / C03, re-stated over what the log shows:                     *)
(*                                                                         *)
(*   ExecAfterDeps      `start x` is logged after `exec_end d` of every     *)
(*                      dependency d (hook placement guarantees that two    *)
(*                      events ordered by the scheduler's synchronisation   *)
(*                      are logged in that order, so a logged inversion is   *)
(*                      an action scheduled without waiting for d)          *)
(*   ExactlyOnce        every action is started / executed / enqueued at    *)
(*                      most once, and exactly once at the end of the run   *)
(*   NoSpuriousFailure  a failed flag has a logged cause (error event,      *)
(*                      failed dependency, construction-time error)         *)
(*   FailurePropagates  an action with a cause is failed, is not executed,  *)
(*                      and Run reports exactly the failed packages         *)
(*   ResultOrder        diagnostics are gathered in root.deps order         *)
(*   SemBound           tokens in use stay within 0..capacity               *)
(*                                                                         *)
(* `bad` keeps the name of the first monitor that failed in the current log *)
(* and the index of the event.                                             *)
(***************************************************************************)
EXTENDS RunnerTrace

RawLog == ndJsonDeserialize("raw.ndjson")

VARIABLE m     \* monitor state
mvars == <<vars, l, m>>

Fresh == [started |-> {}, begun |-> {}, ended |-> {}, failedset |-> {}, errored |-> {}, depf |-> {},
          enq |-> {}, semc |-> 0, bad |-> "", at |-> 0, fin |-> FALSE]

\* actions that must have been handled when the run is over
Expected(g) == (g.pacts \ {PId(ROOT)})
               \cup {x \in g.aacts : x.a # AROOT /\ g.mode[x.p] = "run" /\ ~(x.p \in g.cfailed)}

Flag(mm, name, cond, i) == IF mm.bad = "" /\ cond THEN [mm EXCEPT !.bad = name, !.at = i] ELSE mm

Upd(mm, e, g, i) ==
  LET x == Id(e.p, e.a)
      t == Id(e.tp, e.ta)
      known == x \in g.acts
  IN
  CASE e.ev = "start" ->
         LET m1 == Flag(mm, "ExactlyOnce", x \in mm.started, i)
             m2 == Flag(m1, "ExecAfterDeps", known /\ \E d \in DepsIn(g, x) : ~(d \in mm.ended), i)
             m3 == Flag(m2, "NoSpuriousFailure", e.flag /\ ~(IsP(x) /\ x.p \in g.cfailed), i)
         IN [m3 EXCEPT !.started = @ \cup {x}]
    [] e.ev = "rootclose" ->
         LET m1 == Flag(mm, "ExactlyOnce", x \in mm.started, i)
             m2 == Flag(m1, "ExecAfterDeps", known /\ \E d \in DepsIn(g, x) : ~(d \in mm.ended), i)
         IN [m2 EXCEPT !.started = @ \cup {x}]
    [] e.ev = "depfailed" ->
         LET m1 == Flag(mm, "NoSpuriousFailure", ~(t \in mm.failedset) /\ ~(IsP(t) /\ t.p \in g.cfailed), i)
         IN [m1 EXCEPT !.depf = @ \cup {x}]
    [] e.ev = "exec_begin" ->
         LET m1 == Flag(mm, "ExactlyOnce", x \in mm.begun, i)
             m2 == Flag(m1, "FailurePropagates",
                        known /\ ((\E d \in DepsIn(g, x) : d \in mm.failedset) \/ (IsP(x) /\ x.p \in g.cfailed)), i)
         IN [m2 EXCEPT !.begun = @ \cup {x}]
    [] e.ev \in {"exec_err", "loadfail"} -> [mm EXCEPT !.errored = @ \cup {x}]
    [] e.ev = "exec_end" ->
         LET cause == x \in mm.errored \/ x \in mm.depf \/ (IsP(x) /\ x.p \in g.cfailed)
             m1 == Flag(mm, "ExactlyOnce", x \in mm.ended, i)
             m2 == Flag(m1, "NoSpuriousFailure", e.flag /\ ~cause, i)
             m3 == Flag(m2, "FailurePropagates", ~e.flag /\ cause, i)
         IN [m3 EXCEPT !.ended = @ \cup {x}, !.failedset = IF e.flag THEN @ \cup {x} ELSE @]
    [] e.ev = "acquire" \/ (e.ev = "acquire_maybe" /\ e.flag) ->
         LET m1 == [mm EXCEPT !.semc = @ + 1] IN Flag(m1, "SemBound", m1.semc > g.cap, i)
    [] e.ev = "release" ->
         LET m1 == [mm EXCEPT !.semc = @ - 1] IN Flag(m1, "SemBound", m1.semc < 0, i)
    [] e.ev = "enqueue" ->
         LET m1 == Flag(mm, "ExactlyOnce", t \in mm.enq, i) IN [m1 EXCEPT !.enq = @ \cup {t}]
    [] e.ev = "collect" -> Flag(mm, "ResultOrder", e.l # e.l2, i)
    [] e.ev = "finalize" ->
         LET want == {p \in g.pkgs : PId(p) \in mm.failedset}
             m1 == Flag(mm, "FailurePropagates", ToSet(e.l) # want, i)
             m2 == Flag(m1, "ExactlyOnce", mm.started \cap g.acts # Expected(g) \cup {PId(ROOT)}
                                            \cup {x2 \in g.aacts : x2.a = AROOT /\ Id(x2.p, AROOT) \in mm.started}, i)
         IN [m2 EXCEPT !.fin = TRUE]
    [] OTHER -> mm

MInit ==
  /\ TLCSet(2, <<>>)
  /\ RawLog[1].ev = "reset"
  /\ gi = RawLog[1].n
  /\ st = <<>> /\ lp = <<>> /\ main = InitMain /\ feed = {} /\ pclosed = FALSE /\ sem = 0 /\ final = InitFinal
  /\ l = 2
  /\ m = Fresh

\* At the reset that ends a log its verdict is appended to TLC register 2 as <<reset index, monitor, event index>>
\* (a violated INVARIANT would make TLC print the whole behaviour, which is huge for real logs).
Verdict(i) ==
  IF m.bad # "" THEN TLCSet(2, Append(TLCGet(2), <<i, m.bad, m.at>>))
  ELSE IF ~m.fin THEN TLCSet(2, Append(TLCGet(2), <<i, "Incomplete", i>>))
  ELSE TRUE

MStep ==
  /\ l <= Len(RawLog)
  /\ l' = l + 1
  /\ IF RawLog[l].ev = "reset"
       THEN /\ Verdict(l)
            /\ gi' = RawLog[l].n
            /\ m' = Fresh
       ELSE /\ m' = Upd(m, RawLog[l], GraphAt(gi), l)
            /\ UNCHANGED gi
  /\ UNCHANGED <<st, lp, main, feed, pclosed, sem, final>>

MSpec == MInit /\ [][MStep]_mvars

\* evaluated once at the end: every log consumed, no monitor fired
MonClean == /\ PrintT(<<"MONRESULT", TLCGet(2)>>)
            /\ TLCGet(2) = <<>>
=============================================================================
