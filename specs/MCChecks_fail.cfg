\* -fail lists of <= 2 atoms over the full alphabet x a few -checks lists (default conf tree):
\* exhaustive for severity / exit status
SPECIFICATION Spec
CONSTANTS
  Analyzers <- MCAnalyzers
  NonDefault <- MCNonDefault
  Atoms <- NoLevels
  CheckAtoms <- MCChecksFew
  FailAtoms <- MCFailAtoms
  NLevels = 3
  GrowLevels <- NoLevels
  MaxTotal = 1
  MaxLen = 1
  MaxFail = 2
  AllowBroken = FALSE
  PkgKinds <- MCPkgKinds
  Pkg <- MCPkg
INVARIANTS LawLastWins LawAppendExact LawInheritIdentity LawOverride LawCaseInsensitive LawNormalizeNeutral LawCategoryGlob LawPrintedExact LawExit Emit
PROPERTIES FrameFail FrameChecks FrameAppend
CHECK_DEADLOCK FALSE
