\* judge recorded structlayout-optimize outputs (layout_obs.json) with Layout.tla's definitions
SPECIFICATION ObsSpec
CONSTANTS
  FieldTypes = {}
  MaxFields = 0
INVARIANT EmitVerdict
CHECK_DEADLOCK FALSE
