\* self-test: the deviation IdxMode = "zero" must be refuted by OpEqualsDen
SPECIFICATION SpecQuickNoEmit
CONSTANTS
  Names <- MCNames
  MergeMode = "union"
  NotMode = "frame"
  IdxMode = "zero"
  PopMode = "delete"
  NilMode = "commaok"
INVARIANTS StaticWFSound OpEqualsDen VisibleIsSuccessfulPath ConsistentRecall NotLeavesNoBindings AtomicAlternatives
CHECK_DEADLOCK FALSE
