SPECIFICATION Spec
INVARIANT NilReport
CONSTANTS
  MaxSteps = 20000
  InputFile = "irsem_in.json"
CHECK_DEADLOCK FALSE
