\* exhaustive: 2 processes x 2 operations, 1 key, two 2-byte values, crash/trunc/delete/age
SPECIFICATION Spec
CONSTANTS
  NP <- A_NP
  NK <- A_NK
  VB <- A_VB
  MaxOps <- A_MaxOps
  Roles <- A_Roles
  Faults <- A_Faults
  MaxFaults <- A_MaxFaults
  TrimOrder <- A_Trim
  CrashCosts = FALSE
  Record = FALSE
INVARIANTS TypeOK LookupSoundBytes LookupSoundFileModTrimRace HitThenReadableModTrimRace SizeImpliesComplete IndexSound NoLeak
VIEW View
CHECK_DEADLOCK TRUE
