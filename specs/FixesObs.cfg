\* observation validation of recorded diagnostics + fixes (obs.json); verdicts printed
SPECIFICATION Spec
CONSTANTS
  NaiveRank = FALSE
  MaxOrderEdits = 4
  Strict = FALSE
INVARIANTS Emit OrderIndependent PartialCanonical GeometryHolds
CHECK_DEADLOCK FALSE
