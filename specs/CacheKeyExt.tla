---------------------------- MODULE CacheKeyExt ----------------------------
(***************************************************************************)
(* Cache transparency (property C04) for a lint target that lives OUTSIDE  *)
(* the main module: package x of module ex.test/xmod, reached through a    *)
(* `replace ex.test/xmod => ../xmod` directive and named on the command    *)
(* line by its import path.  Its directory has a staticcheck.conf of its   *)
(* own (initialisms), which config.Load reads for every package whatever   *)
(* module it belongs to; the main module has one too.                      *)
(*                                                                         *)
(* Small world next to CacheKey.tla (whose packages all live in the main   *)
(* module): two source versions of x, x's configuration, the main module's *)
(* configuration (which must NOT influence x: it is not above x's          *)
(* directory), and runs of {x}, {main}, {x, main} sharing one cache.       *)
(* The key of a unit is modelled as in subrunner.do: package path + merged *)
(* configuration (minus Checks) + package hash + dependency facts; the     *)
(* invariant is Transparent: every run prints what a cold run prints.      *)
(* KeyMode = "noxconf" is the model of a key that forgets x's own          *)
(* configuration (negative test: TLC must refute Transparent).             *)
(***************************************************************************)
EXTENDS Integers, Sequences, FiniteSets, TLC, Json

CONSTANTS MaxLen, KeyMode, EmitRuns

VARIABLES xsrc, xconf, mconf, cache, out, hist
vars == <<xsrc, xconf, mconf, cache, out, hist>>
View == <<xsrc, xconf, mconf, cache, out, Len(hist)>>

Units == {"x", "m"}                       \* m imports x
Targets == { {"x"}, {"m"}, {"x", "m"} }

\* what a cold analysis of a unit reports in world w (problem ids)
\*   x.st1003  func MakeFoo should be MakeFOO      iff x's configuration adds the initialism FOO
\*   x.sa4000  identical expressions               iff source version 2
\*   m.st1003  func UseFoo should be UseFOO        iff the main module's configuration adds FOO
\*   m.sa1019  use of x.Old, deprecated in version 2 of x (a fact that crosses the module boundary)
Cold(u, w) ==
  IF u = "x"
  THEN (IF w.xconf = "opt" THEN {"x.st1003"} ELSE {}) \cup (IF w.xsrc = 2 THEN {"x.sa4000"} ELSE {})
  ELSE (IF w.mconf = "opt" THEN {"m.st1003"} ELSE {}) \cup (IF w.xsrc = 2 THEN {"m.sa1019"} ELSE {})

World == [xsrc |-> xsrc, xconf |-> xconf, mconf |-> mconf]

\* the cache key of a unit: everything its result depends on
Key(u, w) ==
  IF u = "x"
  THEN [u |-> "x", src |-> w.xsrc, conf |-> IF KeyMode = "noxconf" THEN "dflt" ELSE w.xconf, dep |-> 0]
  ELSE [u |-> "m", src |-> 1, conf |-> w.mconf, dep |-> w.xsrc]     \* x's facts are hashed into m's key

Init ==
  /\ xsrc = 1 /\ xconf = "none" /\ mconf = "none"
  /\ cache = {} /\ out = {} /\ hist = <<>>

Step(a) == hist' = Append(hist, a)

EditX ==
  /\ xsrc' = 3 - xsrc /\ Step([act |-> "EditX", v |-> 3 - xsrc, t |-> {}, want |-> {}])
  /\ UNCHANGED <<xconf, mconf, cache, out>>
SetXConf(v) ==
  /\ xconf # v /\ xconf' = v /\ Step([act |-> "SetXConf", v |-> v, t |-> {}, want |-> {}])
  /\ UNCHANGED <<xsrc, mconf, cache, out>>
SetMConf(v) ==
  /\ mconf # v /\ mconf' = v /\ Step([act |-> "SetMConf", v |-> v, t |-> {}, want |-> {}])
  /\ UNCHANGED <<xsrc, xconf, cache, out>>

\* a run: m's analysis needs x's facts, so x is a unit of every run; only targets are printed
RunUnits(t) == IF "m" \in t THEN {"x", "m"} ELSE {"x"}
Lookup(u, w) == IF \E e \in cache : e.key = Key(u, w)
                THEN (CHOOSE e \in cache : e.key = Key(u, w)).res ELSE Cold(u, w)
Run(t) ==
  LET w == World
      res == [ u \in RunUnits(t) |-> Lookup(u, w) ]
      printed == UNION { res[u] : u \in t }
  IN /\ cache' = cache \cup { [key |-> Key(u, w), res |-> res[u]] : u \in RunUnits(t) }
     /\ out' = printed
     /\ Step([act |-> "Run", v |-> 0, t |-> t, want |-> UNION { Cold(u, w) : u \in t }])
     /\ UNCHANGED <<xsrc, xconf, mconf>>

Next ==
  /\ Len(hist) < MaxLen
  /\ \/ EditX
     \/ \E v \in {"none", "opt"} : SetXConf(v) \/ SetMConf(v)
     \/ \E t \in Targets : Run(t)

Spec == Init /\ [][Next]_vars

LastIsRun == hist # <<>> /\ hist[Len(hist)].act = "Run"

\* C04: a run through the cache prints what a cold run prints
Transparent == LastIsRun => out = hist[Len(hist)].want

\* the main module's configuration never influences x
FrameMConf == [][ \A v \in {"none", "opt"} : SetMConf(v) => Cold("x", World)' = Cold("x", World) ]_vars

Emit == (EmitRuns /\ LastIsRun) => PrintT("CASE " \o ToJson(hist))
=============================================================================
