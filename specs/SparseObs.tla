------------------------------ MODULE SparseObs ------------------------------
(***************************************************************************)
(* Observation validation of the REAL sparse solver (sparse.Forward /      *)
(* Instance.Forward, property C13).                                        *)
(*                                                                         *)
(* sparse_obs.json (written by `h-dfa sparse`) holds, per function built   *)
(* by go/ir: the def-use equations of a toy constant propagation over the  *)
(* flat lattice flat7 -- every value is a node that is                     *)
(*   "preset"  a constant / parameter / other non-instruction operand      *)
(*             whose state was fixed with Instance.Set before the run,     *)
(*   "phi"     the Merge of its edges' states (done by the framework),     *)
(*   "table"   an instruction whose transfer function was tabulated over   *)
(*             all states of its (<= 2) operands --                        *)
(* and the mappings the real solver ended with in each of several runs     *)
(* (its worklist is a Go map, so every run pops in another order).         *)
(* One TLC state per function: TLC computes the least fixpoint of the      *)
(* equations by Kleene iteration and compares every observed mapping.      *)
(***************************************************************************)
EXTENDS Lattices, Json

CONSTANT ChunkSize
Obs == JsonDeserialize("sparse_obs.json").fns
NObs == Len(Obs)
NChunks == (NObs + ChunkSize - 1) \div ChunkSize

VARIABLES c, i
Init == c = 0 /\ i = 0
Next ==
  \/ /\ c = 0 /\ i = 0 /\ c' \in 1..NChunks /\ i' = 0
  \/ /\ c > 0 /\ i = 0 /\ c' = c
     /\ i' \in { k \in ((c - 1) * ChunkSize + 1)..(c * ChunkSize) : k <= NObs }

LName == "flat7"
RECURSIVE Pow7(_)
Pow7(k) == IF k = 0 THEN 1 ELSE 7 * Pow7(k - 1)
RECURSIVE TabIndex(_, _, _)
TabIndex(ops, M, j) == IF j > Len(ops) THEN 0 ELSE M[ops[j]] * Pow7(j - 1) + TabIndex(ops, M, j + 1)

Eval(F, v, M) ==
  LET nd == F.nodes[v] IN
  CASE nd.kind = "preset" -> nd.preset
    [] nd.kind = "phi"    -> JoinSeq(LName, [ j \in 1..Len(nd.ops) |-> M[nd.ops[j]] ])
    [] nd.kind = "table"  -> nd.table[1 + TabIndex(nd.ops, M, 1)]
Step(F, M) == [ v \in 1..F.n |-> Eval(F, v, M) ]
RECURSIVE Iterate(_, _)
Iterate(F, M) == LET Y == Step(F, M) IN IF Y = M THEN M ELSE Iterate(F, Y)
LFP(F) == Iterate(F, [ v \in 1..F.n |-> Bot ])

\* precondition (harness code, not the code under test): the tabulated transfer functions are
\* monotone.  The distinct tables are listed once in the export and checked once, in the root state.
Tables == JsonDeserialize("sparse_obs.json").tables
TableMonotone(k, tb) ==
  /\ Len(tb) = Pow7(k)
  /\ \A x, y \in 0..(Len(tb) - 1) :
       (\A j \in 1..k : Leq(LName, (x \div Pow7(j - 1)) % 7, (y \div Pow7(j - 1)) % 7))
         => Leq(LName, tb[x + 1], tb[y + 1])
TablesMonotone == (c = 0 /\ i = 0) => \A t \in 1..Len(Tables) : TableMonotone(Tables[t].k, Tables[t].table)
KnownTables == { <<Tables[t].k, Tables[t].table>> : t \in 1..Len(Tables) }

Report(kind, what) == PrintT("CASE " \o ToJson([ idx |-> i, name |-> Obs[i].name, kind |-> kind, what |-> what ]))

ExportUsable ==
  i > 0 => ( ( /\ Len(Obs[i].nodes) = Obs[i].n
               /\ \A v \in 1..Obs[i].n :
                    LET nd == Obs[i].nodes[v] IN
                    nd.kind = "table" => <<Len(nd.ops), nd.table>> \in KnownTables )
             \/ (Report("unusable", <<>>) /\ FALSE) )

\* C13 (per-value solver): every run of the real solver ended with the least fixpoint
ResultIsLFP ==
  i > 0 =>
    LET F == Obs[i]
        lf == LFP(F)
        bad == { r \in 1..Len(F.observed) : F.observed[r] # lf }
    IN  (Len(F.observed) >= 1 /\ bad = {})
          \/ (Report("notlfp", [ lfp |-> lf, observed |-> F.observed ]) /\ FALSE)
=============================================================================
