------------------------------ MODULE MCRunner ------------------------------
(***************************************************************************)
(* Graph families for the exhaustive runs of Runner.tla.  A DAG on n nodes *)
(* is a function d with d[i] \subseteq 1..i-1 (node i depends on lower     *)
(* nodes): every DAG shape on n nodes occurs (several times, up to          *)
(* relabelling).  Node i of the package level is "p<i>", of the analyzer   *)
(* level "a<i>".                                                           *)
(***************************************************************************)
EXTENDS Runner, SequencesExt, Json

CONSTANT Family   \* which graph family this configuration explores (a .cfg cannot hold the graphs)

PName(i) == "p" \o ToString(i)
AName(i) == "a" \o ToString(i)

DagsOn(n) == {d \in [1..n -> SUBSET (1..n)] : \A i \in 1..n : d[i] \subseteq 1..(i-1)}

RECURSIVE Down(_, _)      \* downward closure (dependencies)
Down(d, S) == LET N == S \cup UNION {d[i] : i \in S} IN IF N = S THEN S ELSE Down(d, N)
RECURSIVE Up(_, _, _)     \* upward closure (dependents)
Up(n, d, S) == LET N == S \cup {i \in 1..n : d[i] \cap S # {}} IN IF N = S THEN S ELSE Up(n, d, N)

\* sets of named nodes from which everything is reachable (root.deps)
RootSets(n, d) == {I \in SUBSET (1..n) : I # {} /\ Down(d, I) = 1..n}

AscSeq(S) == SortSeq(SetToSeq(S), <)

(* One graph record.                                                        *)
(*   n, d, I      package DAG and initial (named) packages                  *)
(*   B            packages broken at construction (errors from `go list`)   *)
(*   md           [1..n -> {"run","hit","fail"}]: exec runs the analyzers / *)
(*                is served by the cache / fails (load error, exec error)   *)
(*   m, ad, R     analyzer DAG and the requested analyzers (root.deps of    *)
(*                an initial package, ascending); F = analyzers with facts  *)
(*                (root.deps of a non-initial package are those in F)       *)
(*   AF           set of <<i, j>>: analyzer j returns an error on package i *)
(*   DU           set of <<j, i>>: analyzer j lists its prerequisite i twice *)
MkGraph(n, d, I, B, md, m, ad, R, F, AF, DU, c) ==
  LET pkgs   == {PName(i) : i \in 1..n}
      idx(p) == CHOOSE i \in 1..n : PName(i) = p
      aidx(a) == CHOOSE j \in 1..m : AName(j) = a
      ans    == {AName(j) : j \in 1..m}
      rootsOf(i) == IF i \in I THEN AscSeq(R) ELSE AscSeq(R \cap F)
      nodesOf(i) == Down(ad, SeqRange(rootsOf(i)))
      anodes == [p \in pkgs |-> {AName(j) : j \in nodesOf(idx(p))}]
      pacts  == {PId(p) : p \in pkgs \cup {ROOT}}
      aacts  == UNION {{Id(p, a) : a \in anodes[p] \cup {AROOT}} : p \in pkgs}
  IN [ pkgs    |-> pkgs,
       pdeps   |-> [p \in pkgs |-> {PName(j) : j \in d[idx(p)]}],
       ptrig   |-> [p \in pkgs |-> {PName(j) : j \in {k \in 1..n : idx(p) \in d[k]}}
                                   \cup (IF idx(p) \in I THEN {ROOT} ELSE {})],
       initial |-> {PName(i) : i \in I},
       cfailed |-> {PName(i) : i \in Up(n, d, B)},
       mode    |-> [p \in pkgs |-> md[idx(p)]],
       anodes  |-> anodes,
       adeps   |-> [a \in ans |-> {AName(j) : j \in ad[aidx(a)]}],
       atrig   |-> [p \in pkgs |-> [a \in anodes[p] |->
                      {<<AName(j), 1>> : j \in {k \in nodesOf(idx(p)) : aidx(a) \in ad[k]}}
                      \cup {<<AName(j), 2>> : j \in {k \in nodesOf(idx(p)) : <<k, aidx(a)>> \in DU}}
                      \cup (IF aidx(a) \in SeqRange(rootsOf(idx(p))) THEN {<<AROOT, 1>>} ELSE {})]],
       apend   |-> [a \in ans |-> Cardinality(ad[aidx(a)]) + Cardinality({e \in DU : e[1] = aidx(a)})],
       aroots  |-> [p \in pkgs |-> [k \in 1..Len(rootsOf(idx(p))) |-> AName(rootsOf(idx(p))[k])]],
       afail   |-> {<<PName(x[1]), AName(x[2])>> : x \in AF},
       facts   |-> {AName(j) : j \in F},
       cap     |-> c,
       bufcap  |-> [p \in pkgs |-> Cardinality(anodes[p])],
       pacts   |-> pacts, aacts |-> aacts, acts |-> pacts \cup aacts ]

AllRun(n) == [i \in 1..n |-> "run"]
Caps == 1..3
OneAna == [j \in 1..1 |-> {}]
OnePkg == [i \in 1..1 |-> {}]

\* A descriptor is the argument tuple of MkGraph; families are sets of descriptors (small values), the
\* graph records are built once from the sequence of descriptors.
Desc(n, d, I, B, md, m, ad, R, F, AF, DU, c) ==
  [n |-> n, d |-> d, I |-> I, B |-> B, md |-> md, m |-> m, ad |-> ad, R |-> R, F |-> F, AF |-> AF, DU |-> DU, c |-> c]
Build(D) == LET s == SetToSeq(D) IN
  [k \in 1..Len(s) |-> [desc |-> s[k]] @@ MkGraph(s[k].n, s[k].d, s[k].I, s[k].B, s[k].md, s[k].m, s[k].ad, s[k].R, s[k].F, s[k].AF, s[k].DU, s[k].c)]

\* failure placements for a package DAG: none / one leaf broken at construction / exec of one package fails
PFailChoices(n, d) ==
  {[B |-> {}, md |-> AllRun(n)]}
  \cup {[B |-> {l}, md |-> AllRun(n)] : l \in {i \in 1..n : d[i] = {}}}
  \cup {[B |-> {}, md |-> [AllRun(n) EXCEPT ![q] = "fail"]] : q \in 1..n}

\* ---- family P(N): every package DAG on the node counts N x root sets x failure placements x capacities.
\*      withAna: one fact-producing analyzer per package (both paths of runAnalyzers are taken);
\*      otherwise the analyzer level is abstracted (exec is one step, as for a cache hit), which keeps the
\*      4-node family enumerable: the two levels together are covered by the families P(<=3), X and X4.
PFam(N, caps, withAna) ==
  UNION {UNION {UNION {UNION {
    { Desc(n, d, I, f.B, IF withAna THEN f.md ELSE [i \in 1..n |-> IF f.md[i] = "run" THEN "hit" ELSE f.md[i]],
           1, OneAna, {1}, {1}, {}, {}, c) : c \in caps }
    : f \in PFailChoices(n, d)} : I \in RootSets(n, d)} : d \in DagsOn(n)} : n \in N}

\* ---- family A(M): one package; every analyzer DAG on <= M nodes x requested sets x (nothing special / one
\*      failing analyzer / one prerequisite listed twice) x capacities
AFam(M, caps, withDup) ==
  UNION {UNION {UNION {UNION {
    { Desc(1, OnePkg, {1}, {}, AllRun(1), m, ad, R, {}, x.af, x.du, c) : c \in caps }
    : x \in {[af |-> {}, du |-> {}]} \cup {[af |-> {<<1, j>>}, du |-> {}] : j \in 1..m}
             \cup (IF withDup THEN {[af |-> {}, du |-> {e}] : e \in {e2 \in (1..m) \X (1..m) : e2[2] \in ad[e2[1]]}}
                              ELSE {})} : R \in RootSets(m, ad)} : ad \in DagsOn(m)} : m \in M}

\* ---- family X: two levels at once.  Package shapes: chain, fan-in, fan-out, triangle, diamond, two
\*      independent (some dependencies only reachable, i.e. analysed for facts only); analyzer shapes:
\*      single, producer -> consumer, shared prerequisite, independent pair; with cache hits and failures.
Fn2(a, b)       == [i \in 1..2 |-> IF i = 1 THEN a ELSE b]
Fn3(a, b, c)    == [i \in 1..3 |-> IF i = 1 THEN a ELSE IF i = 2 THEN b ELSE c]
Fn4(a, b, c, e) == [i \in 1..4 |-> IF i = 1 THEN a ELSE IF i = 2 THEN b ELSE IF i = 3 THEN c ELSE e]

XPkgShapes ==
  { [n |-> 2, d |-> Fn2({}, {1}),              I |-> {2}],        \* chain, dependency facts-only
    [n |-> 2, d |-> Fn2({}, {1}),              I |-> {1, 2}],
    [n |-> 2, d |-> Fn2({}, {}),               I |-> {1, 2}],     \* independent
    [n |-> 3, d |-> Fn3({}, {}, {1, 2}),       I |-> {3}],        \* fan-in
    [n |-> 3, d |-> Fn3({}, {1}, {1}),         I |-> {2, 3}],     \* fan-out
    [n |-> 3, d |-> Fn3({}, {1}, {1, 2}),      I |-> {1, 3}] }    \* triangle
XPkgShapes4 ==
  { [n |-> 4, d |-> Fn4({}, {1}, {1}, {2, 3}), I |-> {4}],        \* diamond
    [n |-> 4, d |-> Fn4({}, {1}, {1}, {2, 3}), I |-> {1, 2, 3, 4}] }
XAnaShapes ==
  { [m |-> 1, ad |-> OneAna,                   R |-> {1},       F |-> {1}],
    [m |-> 2, ad |-> Fn2({}, {1}),             R |-> {1, 2},    F |-> {1}],   \* fact producer -> consumer
    [m |-> 2, ad |-> Fn2({}, {1}),             R |-> {2},       F |-> {2}],   \* prerequisite not requested
    [m |-> 2, ad |-> Fn2({}, {}),              R |-> {1, 2},    F |-> {2}],   \* independent pair
    [m |-> 3, ad |-> Fn3({}, {1}, {1}),        R |-> {1, 2, 3}, F |-> {1, 3}] } \* shared prerequisite

XModes(n) == {AllRun(n), [AllRun(n) EXCEPT ![1] = "hit"], [AllRun(n) EXCEPT ![1] = "fail"]}

XFamOf(shapes, ashapes, caps) ==
  UNION {UNION {UNION {UNION {
    { Desc(s.n, s.d, s.I, {}, md, a.m, a.ad, a.R, a.F, af, {}, c) : c \in caps }
    : af \in {{}, {<<1, 1>>}, {<<s.n, a.m>>}}} : md \in XModes(s.n)} : a \in ashapes} : s \in shapes}

\* ---- family H: the cases that checks/C06.py realises as Go modules + synthetic analyzers and runs
\*      through the real runner.Run (harness/cmd/h-runner).  Run() closes the analyzer list under
\*      Requires, so every analyzer is requested (R = all).
HPkgShapes == XPkgShapes \cup XPkgShapes4 \cup
  { [n |-> 1, d |-> OnePkg,                          I |-> {1}],
    [n |-> 4, d |-> Fn4({}, {1}, {2}, {3}),          I |-> {4}],           \* chain
    [n |-> 4, d |-> Fn4({}, {}, {}, {1, 2, 3}),      I |-> {3, 4}],        \* fan-in, one dependency named
    [n |-> 4, d |-> Fn4({}, {1}, {}, {2, 3}),        I |-> {2, 4}] }
HAnaShapes ==
  { [m |-> 1, ad |-> OneAna,                         F |-> {1}],
    [m |-> 2, ad |-> Fn2({}, {1}),                   F |-> {1}],
    [m |-> 2, ad |-> Fn2({}, {1}),                   F |-> {1, 2}],
    [m |-> 2, ad |-> Fn2({}, {}),                    F |-> {2}],
    [m |-> 3, ad |-> Fn3({}, {1}, {1}),              F |-> {1, 3}],
    [m |-> 4, ad |-> Fn4({}, {1}, {1}, {2, 3}),      F |-> {1, 4}] }
HFamOf(pshapes, ashapes) ==
  UNION {UNION {UNION {UNION {UNION {
    { Desc(s.n, s.d, s.I, v.B, v.md, a.m, a.ad, 1..a.m, a.F, af, du, c) : c \in Caps }
    : du \in {{}} \cup (IF a.m = 2 /\ a.ad[2] = {1} THEN {{<<2, 1>>}} ELSE {})}
    : af \in {{}, {<<1, 1>>}, {<<s.n, a.m>>}}}
    : v \in {[B |-> {}, md |-> AllRun(s.n)], [B |-> {}, md |-> [AllRun(s.n) EXCEPT ![1] = "hit"]],
             [B |-> {1}, md |-> AllRun(s.n)]}}
    : a \in ashapes} : s \in pshapes}
HFam  == HFamOf(HPkgShapes, HAnaShapes)
\* quick tier: packages on 2..3 nodes + the diamond, analyzer shapes on <= 3 nodes
HFamQ == HFamOf({s \in HPkgShapes : s.n \in {2, 3} \/ (s.n = 4 /\ s.I = {4} /\ s.d[4] = {2, 3})},
                {a \in HAnaShapes : a.m \in {2, 3} /\ a.F # {2}})

FamilyDescs ==
  CASE Family = "P2" -> PFam(1..2, Caps, TRUE)
    [] Family = "P3" -> PFam(1..3, Caps, TRUE)
    [] Family = "P4" -> PFam({4}, Caps, FALSE)
    [] Family = "A3" -> AFam(1..3, Caps, TRUE)
    [] Family = "A4" -> AFam({4}, Caps, FALSE)
    [] Family = "X"  -> XFamOf(XPkgShapes, XAnaShapes, Caps)
    [] Family = "X4" -> XFamOf(XPkgShapes4, {a \in XAnaShapes : a.m <= 2}, Caps)
    \* quick tier: the two-level family with capacities 1..2 and analyzer shapes on <= 2 nodes
    [] Family = "Xq" -> XFamOf({s \in XPkgShapes : s.n = 2 \/ s.I = {3}}, {a \in XAnaShapes : a.m <= 2}, {1, 2})
    \* liveness (no state constraint; smaller so that TLC's SCC search stays cheap)
    [] Family = "Live" -> PFam(1..3, 1..2, TRUE) \cup AFam(1..3, 1..2, FALSE)
                          \cup XFamOf(XPkgShapes, {a \in XAnaShapes : a.m <= 2}, {1, 2})
    [] Family = "LiveQ" -> PFam(1..2, 1..2, TRUE) \cup AFam(1..3, 1..2, FALSE)
                          \cup XFamOf({s \in XPkgShapes : s.n = 2}, {a \in XAnaShapes : a.m <= 2}, {1, 2})
    [] Family = "H" -> HFam
    [] Family = "Hq" -> HFamQ

MCGraphs == Build(FamilyDescs)
MCGraphAt(i) == MCGraphs[i]
MCNGraphs == Len(MCGraphs)

\* ---- generation (family H): one state per graph, each printed with the result the specification
\*      predicts for it (schedule-free: WantFinal)
GenSpec == Init /\ [][FALSE]_vars
Label(S) == {x.p \o "/" \o x.a : x \in S}
Emit ==
  PrintT("CASE " \o ToJson(
    [ desc   |-> G.desc,
      failed |-> WantFinal.failed,
      out    |-> [p \in G.initial \ WantFinal.failed |->
                    [i \in 1..Len(G.aroots[p]) |-> [an |-> G.aroots[p][i], res |-> Label(WantRes(p, G.aroots[p][i]))]]] ]))
=============================================================================
