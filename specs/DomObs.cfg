SPECIFICATION Spec
CONSTANT ChunkSize = 50
INVARIANTS ExportUsable DominanceExact
CHECK_DEADLOCK FALSE
