\* the same with the geometry clauses as a hard invariant (negative self-test: a corrupted
\* recorded edit must make TLC report GeometryHolds violated)
SPECIFICATION Spec
CONSTANTS
  NaiveRank = FALSE
  MaxOrderEdits = 4
  Strict = TRUE
INVARIANTS OrderIndependent GeometryHolds
CHECK_DEADLOCK FALSE
