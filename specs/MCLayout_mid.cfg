\* every struct with <= 3 fields over Full: laws of C19 on the oracle + CASE emission
SPECIFICATION Spec
CONSTANTS
  FieldTypes <- Full
  MaxFields = 3
INVARIANTS ReportTiles ReportAltTiles TopTiles ReportAligned FieldsWellPlaced OptimizeLaws OptimizeRNeverGrows OptimizeAltNeverGrows Emit
PROPERTY AppendStable
CHECK_DEADLOCK FALSE
