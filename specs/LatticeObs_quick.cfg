\* quick: as LatticeObs.cfg with the spec's dense-map laws over shorter representations
INIT Init
NEXT Next
INVARIANTS SpecLatticesOK SpecMapLatticesOK SpecDenseLatticesSmall RealNilLaws RealNilIsSpec RealNilComponents RealDenseMapAgrees RealMapAgrees RealDirectLaws
CHECK_DEADLOCK FALSE
