INIT InitDense
NEXT Next
CONSTANTS
  Solver = "dense"
  MCN = 3
  MCLats = {"chain2"}
  MCFam = "idgen"
  MCParN = 0
  UseJson = TRUE
  EmitCases = TRUE
INVARIANTS TypeOK CaseMonotone BelowLFP AtTerminationLFP QueueSound WorklistSound OracleLeast Emit
PROPERTIES StepMonotone VariantDecreases
CHECK_DEADLOCK FALSE
