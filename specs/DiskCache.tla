----------------------------- MODULE DiskCache -----------------------------
(***************************************************************************)
(* lintcmd/cache/cache.go as a step-level state machine of one cache       *)
(* directory shared by NP processes.                                       *)
(*                                                                         *)
(* One action per file-system operation of put/copyFile/putIndexEntry,     *)
(* get/used/OutputFile/GetFile (+ the client's later open of the returned  *)
(* *name*, as lintcmd/runner does) / GetBytes, Trim/trimSubdir.  Every     *)
(* process action corresponds to exactly one `verifStep` gate of the       *)
(* implementation (build tag verif), named in the comment of the action;   *)
(* the action performs the FS operation(s) between that gate and the next. *)
(*                                                                         *)
(* File system: names -> inodes.  <out>-d data files (content addressed:   *)
(* the file of value v can only ever be written with bytes of v) and <id>-a*)
(* index files live in inode tables so that a process holding a descriptor *)
(* of an unlinked file keeps reading/writing the orphan.  Inode numbers    *)
(* are allocated smallest-free and freed inodes are reset, so the numbering*)
(* is canonical and adds no states.  mtimes are abstracted to old (older   *)
(* than trimLimit+mtimeInterval) / fresh (younger than mtimeInterval).     *)
(*                                                                         *)
(* Faults: Crash(p) at every pc; and, at rest (no operation in flight, as  *)
(* the property lists them), Truncate(f, n) for every shorter n, Delete(f),*)
(* Age (days pass).  "foreign" (an index file holding another key's valid  *)
(* entry) is an extra damage class outside the property's list; it is what *)
(* the id comparison in get() defends against.                             *)
(*                                                                         *)
(* Deliberate deviations: close(2) is merged into the preceding operation  *)
(* (no observable effect); os.ReadFile / open+hash / client open+read of a *)
(* <= 3 byte file are one atomic read; renameio.WriteFile(trim.txt) is one *)
(* atomic step; the 251 subdirectories that hold no modelled file are not  *)
(* modelled (each modelled file sits alone in its subdirectory, visited in *)
(* TrimOrder); I/O errors do not occur.                                    *)
(***************************************************************************)
EXTENDS Integers, Sequences, FiniteSets, TLC, Json

CONSTANTS
  NP,         \* number of processes; process ids 1..NP
  NK,         \* number of action ids (keys) 1..NK
  VB,         \* sequence of values: VB[v] = bytes of value v (positive ints); 0 = hole byte
  MaxOps,     \* [1..NP -> Nat] operations per process
  Roles,      \* [1..NP -> SUBSET {"put","getfile","getbytes","trim"}]
  Faults,     \* SUBSET {"crash","trunc","delete","age","foreign"}
  MaxFaults,  \* bound on the number of environment faults (all but crash)
  CrashCosts, \* TRUE: a crash also counts against MaxFaults (keeps -simulate behaviours from dying young)
  TrimOrder,  \* sequence of [t |-> "d"|"a", i |-> id]: order in which Trim visits files
  Record      \* TRUE: keep the history `hist` (generation configs)

Procs == 1..NP
Keys  == 1..NK
Vals  == 1..Len(VB)
DI    == 1..(Len(VB) + NP)      \* data inodes
II    == 1..(NK + NP)           \* index inodes

DefD  == [b |-> <<>>, m |-> "fresh"]
DefI  == [st |-> "empty", id |-> 0, out |-> 0, m |-> "fresh"]
NoEnt == [ok |-> FALSE, out |-> 0]
R(kind)    == [kind |-> kind, b |-> <<>>]
RB(bytes)  == [kind |-> "bytes", b |-> bytes]
NoOp == [kind |-> "none", k |-> 0, v |-> 0]

VARIABLES
  dname,   \* [Vals -> 0 \cup DI]   <sha256(VB[v])>-d ; 0 = no such name
  dino,    \* [DI -> [b, m]]        data inode: bytes, mtime class
  iname,   \* [Keys -> 0 \cup II]   <id>-a
  iino,    \* [II -> [st, id, out, m]]  index inode: empty / torn / full entry (id, out; size = Len(VB[out]))
  stamp,   \* trim.txt: "none" | "old" | "fresh"
  pr,      \* [Procs -> record of pc and locals]
  nf,      \* environment faults so far
  stored,  \* history: [Keys -> SUBSET Vals], values whose Put under the key was ever started
  hist     \* history: sequence of steps with the observable FS state after each (only if Record)

fs   == <<dname, dino, iname, iino, stamp>>
vars == <<dname, dino, iname, iino, stamp, pr, nf, stored, hist>>

InitPr == [pc |-> "idle", op |-> NoOp, pos |-> 0, dfd |-> 0, ifd |-> 0, ent |-> NoEnt,
           need |-> FALSE, trunc |-> FALSE, tq |-> 0, res |-> R("none"), nops |-> 0, win |-> FALSE]

Init ==
  /\ dname = [v \in Vals |-> 0] /\ dino = [i \in DI |-> DefD]
  /\ iname = [k \in Keys |-> 0] /\ iino = [i \in II |-> DefI]
  /\ stamp = "none"
  /\ pr = [p \in Procs |-> InitPr]
  /\ nf = 0
  /\ stored = [k \in Keys |-> {}]
  /\ hist = <<>>

---------------------------------------------------------------------------
\* helpers

Min(S) == CHOOSE i \in S : \A j \in S : i <= j
FreeD == {i \in DI : (\A v \in Vals : dname[v] # i) /\ (\A p \in Procs : pr[p].dfd # i)}
FreeI == {i \in II : (\A k \in Keys : iname[k] # i) /\ (\A p \in Procs : pr[p].ifd # i)}

\* reset inodes that are referenced neither by a name nor by a descriptor
CleanD(dn, di, prs) == [i \in DI |-> IF (\E v \in Vals : dn[v] = i) \/ (\E p \in Procs : prs[p].dfd = i) THEN di[i] ELSE DefD]
CleanI(nm, ii, prs) == [i \in II |-> IF (\E k \in Keys : nm[k] = i) \/ (\E p \in Procs : prs[p].ifd = i) THEN ii[i] ELSE DefI]

\* write byte b at 0-based offset off; a gap becomes a hole of zeros
WriteAt(f, off, b) ==
  IF off < Len(f) THEN [f EXCEPT ![off + 1] = b]
  ELSE f \o [j \in 1..(off - Len(f)) |-> 0] \o <<b>>

Set(p, upd) == pr' = [pr EXCEPT ![p] = upd]
Goto(p, newpc) == Set(p, [pr[p] EXCEPT !.pc = newpc])
Finish(p, result) == [pr[p] EXCEPT !.pc = "idle", !.res = result, !.dfd = 0, !.ifd = 0]

AtRest == \A p \in Procs : pr[p].pc = "idle"

\* observable state of the directory (what a snapshot of the real directory is abstracted to)
Obs == [d |-> [v \in Vals |-> IF dname[v] = 0 THEN [x |-> 0, b |-> <<>>, m |-> "-"]
                              ELSE [x |-> 1, b |-> dino[dname[v]].b, m |-> dino[dname[v]].m]],
        a |-> [k \in Keys |-> IF iname[k] = 0 THEN [x |-> 0, st |-> "-", id |-> 0, out |-> 0, m |-> "-"]
                              ELSE [x |-> 1, st |-> iino[iname[k]].st,
                                    id |-> IF iino[iname[k]].st = "full" THEN iino[iname[k]].id ELSE 0,
                                    out |-> IF iino[iname[k]].st = "full" THEN iino[iname[k]].out ELSE 0,
                                    m |-> iino[iname[k]].m]],
        s |-> stamp]

---------------------------------------------------------------------------
\* starting an operation (no FS effect: the goroutine runs up to its first gate)

FirstPc(kind) == CASE kind = "put" -> "c_stat" [] kind = "trim" -> "t_stamp" [] OTHER -> "g_open"

Start(p, kind, k, v) ==
  /\ pr[p].pc = "idle" /\ pr[p].nops < MaxOps[p] /\ kind \in Roles[p]
  /\ Set(p, [InitPr EXCEPT !.pc = FirstPc(kind), !.op = [kind |-> kind, k |-> k, v |-> v],
                            !.nops = pr[p].nops + 1])
  /\ stored' = IF kind = "put" THEN [stored EXCEPT ![k] = @ \cup {v}] ELSE stored
  /\ UNCHANGED <<fs, nf>>

StartAny(p) ==
  \/ \E k \in Keys, v \in Vals : Start(p, "put", k, v)
  \/ \E k \in Keys : Start(p, "getfile", k, 0)
  \/ \E k \in Keys : Start(p, "getbytes", k, 0)
  \/ Start(p, "trim", 0, 0)

---------------------------------------------------------------------------
\* Put = put -> copyFile -> putIndexEntry

CStat(p) ==  \* gate copy.stat: os.Stat(<out>-d)
  /\ pr[p].pc = "c_stat"
  /\ LET v == pr[p].op.v
         ex == dname[v] # 0
         n == IF ex THEN Len(dino[dname[v]].b) ELSE 0
     IN IF ex /\ n = Len(VB[v])
          THEN Goto(p, "c_verify")
          ELSE Set(p, [pr[p] EXCEPT !.pc = "c_open", !.trunc = ex /\ n > Len(VB[v])])
  /\ UNCHANGED <<fs, nf, stored>>

CVerify(p) ==  \* gate copy.verify: os.Open + hash of the whole file; equal => data already present
  /\ pr[p].pc = "c_verify"
  /\ LET v == pr[p].op.v IN
     IF dname[v] # 0 /\ dino[dname[v]].b = VB[v]
       THEN Goto(p, "i_open")
       ELSE Set(p, [pr[p] EXCEPT !.pc = "c_open", !.trunc = FALSE])
  /\ UNCHANGED <<fs, nf, stored>>

CNextAfterOpen(v) == IF Len(VB[v]) = 0 THEN "i_open" ELSE IF Len(VB[v]) = 1 THEN "c_last" ELSE "c_write"

COpen(p) ==  \* gate copy.open: OpenFile(O_RDWR|O_CREATE[|O_TRUNC]); size 0 => done (close)
  /\ pr[p].pc = "c_open"
  /\ LET v == pr[p].op.v
         i == IF dname[v] # 0 THEN dname[v] ELSE Min(FreeD)
         keep == Len(VB[v]) # 0    \* descriptor stays open beyond this step
     IN /\ dname' = [dname EXCEPT ![v] = i]
        /\ dino' = IF dname[v] = 0 THEN [dino EXCEPT ![i] = DefD]
                   ELSE IF pr[p].trunc THEN [dino EXCEPT ![i] = DefD] ELSE dino
        /\ Set(p, [pr[p] EXCEPT !.pc = CNextAfterOpen(v), !.dfd = IF keep THEN i ELSE 0, !.pos = 0])
  /\ UNCHANGED <<iname, iino, stamp, nf, stored>>

CWrite(p) ==  \* gate copy.write: one write(2) per byte of io.CopyN(size-1) (the source yields one byte per Read)
  /\ pr[p].pc = "c_write"
  /\ LET v == pr[p].op.v
         i == pr[p].dfd
         off == pr[p].pos
     IN /\ dino' = [dino EXCEPT ![i] = [b |-> WriteAt(@.b, off, VB[v][off + 1]), m |-> "fresh"]]
        /\ Set(p, [pr[p] EXCEPT !.pos = off + 1, !.pc = IF off + 1 = Len(VB[v]) - 1 THEN "c_last" ELSE "c_write"])
  /\ UNCHANGED <<dname, iname, iino, stamp, nf, stored>>

CLast(p) ==  \* gate copy.last: (hash verified) write the last byte, then close
  /\ pr[p].pc = "c_last"
  /\ LET v == pr[p].op.v
         i == pr[p].dfd
         off == Len(VB[v]) - 1
         prs == [pr EXCEPT ![p] = [pr[p] EXCEPT !.pc = "c_chtimes", !.dfd = 0, !.pos = 0]]
     IN /\ pr' = prs
        /\ dino' = CleanD(dname, [dino EXCEPT ![i] = [b |-> WriteAt(@.b, off, VB[v][off + 1]), m |-> "fresh"]], prs)
  /\ UNCHANGED <<dname, iname, iino, stamp, nf, stored>>

CChtimes(p) ==  \* gate copy.chtimes: os.Chtimes(name) - by name: hits whatever file has the name now
  /\ pr[p].pc = "c_chtimes"
  /\ LET v == pr[p].op.v IN
     dino' = IF dname[v] # 0 THEN [dino EXCEPT ![dname[v]].m = "fresh"] ELSE dino
  /\ Goto(p, "i_open")
  /\ UNCHANGED <<dname, iname, iino, stamp, nf, stored>>

IOpen(p) ==  \* gate index.open: OpenFile(O_WRONLY|O_CREATE), no O_TRUNC
  /\ pr[p].pc = "i_open"
  /\ LET k == pr[p].op.k
         i == IF iname[k] # 0 THEN iname[k] ELSE Min(FreeI)
     IN /\ iname' = [iname EXCEPT ![k] = i]
        /\ iino' = IF iname[k] = 0 THEN [iino EXCEPT ![i] = DefI] ELSE iino
        /\ Set(p, [pr[p] EXCEPT !.pc = "i_write", !.ifd = i])
  /\ UNCHANGED <<dname, dino, stamp, nf, stored>>

IWrite(p) ==  \* gate index.write: one write(2) of the whole fixed-width entry at offset 0
  /\ pr[p].pc = "i_write"
  /\ iino' = [iino EXCEPT ![pr[p].ifd] = [st |-> "full", id |-> pr[p].op.k, out |-> pr[p].op.v, m |-> "fresh"]]
  /\ Goto(p, "i_trunc")
  /\ UNCHANGED <<dname, dino, iname, stamp, nf, stored>>

ITrunc(p) ==  \* gate index.truncate: ftruncate(entrySize) (no-op on a full entry), then close
  /\ pr[p].pc = "i_trunc"
  /\ LET prs == [pr EXCEPT ![p] = [pr[p] EXCEPT !.pc = "i_chtimes", !.ifd = 0]] IN
     /\ pr' = prs
     /\ iino' = CleanI(iname, iino, prs)
  /\ UNCHANGED <<dname, dino, iname, stamp, nf, stored>>

IChtimes(p) ==  \* gate index.chtimes; Put returns
  /\ pr[p].pc = "i_chtimes"
  /\ LET k == pr[p].op.k IN
     iino' = IF iname[k] # 0 THEN [iino EXCEPT ![iname[k]].m = "fresh"] ELSE iino
  /\ Set(p, Finish(p, R("putdone")))
  /\ UNCHANGED <<dname, dino, iname, stamp, nf, stored>>

---------------------------------------------------------------------------
\* get (shared by GetFile and GetBytes), used(), OutputFile

GOpen(p) ==  \* gate get.open: os.Open(<id>-a)
  /\ pr[p].pc = "g_open"
  /\ LET k == pr[p].op.k IN
     IF iname[k] = 0 THEN Set(p, Finish(p, R("miss")))
     ELSE Set(p, [pr[p] EXCEPT !.pc = "g_read", !.ifd = iname[k]])
  /\ UNCHANGED <<fs, nf, stored>>

GRead(p) ==  \* gate get.read: io.ReadFull + strict parse + id comparison, close
  /\ pr[p].pc = "g_read"
  /\ LET e == iino[pr[p].ifd]
         ok == e.st = "full" /\ e.id = pr[p].op.k
         prs == [pr EXCEPT ![p] = IF ok THEN [pr[p] EXCEPT !.pc = "gi_ustat", !.ifd = 0, !.ent = [ok |-> TRUE, out |-> e.out]]
                                  ELSE Finish(p, R("miss"))]
     IN /\ pr' = prs
        /\ iino' = CleanI(iname, iino, prs)
  /\ UNCHANGED <<dname, dino, iname, stamp, nf, stored>>

\* used(file): stat; fresh => nothing; otherwise (old, or stat failed) chtimes(now)
GiUStat(p) ==  \* gate used.stat on <id>-a
  /\ pr[p].pc = "gi_ustat"
  /\ LET k == pr[p].op.k IN
     Goto(p, IF iname[k] # 0 /\ iino[iname[k]].m = "fresh" THEN "gd_ustat" ELSE "gi_uchtimes")
  /\ UNCHANGED <<fs, nf, stored>>

GiUChtimes(p) ==  \* gate used.chtimes on <id>-a
  /\ pr[p].pc = "gi_uchtimes"
  /\ LET k == pr[p].op.k IN
     iino' = IF iname[k] # 0 THEN [iino EXCEPT ![iname[k]].m = "fresh"] ELSE iino
  /\ Goto(p, "gd_ustat")
  /\ UNCHANGED <<dname, dino, iname, stamp, nf, stored>>

GdUStat(p) ==  \* gate used.stat on <out>-d (OutputFile)
  /\ pr[p].pc = "gd_ustat"
  /\ LET v == pr[p].ent.out IN
     Goto(p, IF dname[v] # 0 /\ dino[dname[v]].m = "fresh" THEN "ret_name" ELSE "gd_uchtimes")
  /\ UNCHANGED <<fs, nf, stored>>

GdUChtimes(p) ==  \* gate used.chtimes on <out>-d
  /\ pr[p].pc = "gd_uchtimes"
  /\ LET v == pr[p].ent.out IN
     dino' = IF dname[v] # 0 THEN [dino EXCEPT ![dname[v]].m = "fresh"] ELSE dino
  /\ Goto(p, "ret_name")
  /\ UNCHANGED <<dname, iname, iino, stamp, nf, stored>>

RetName(p) ==  \* gate outputfile.return; GetFile: os.Stat + size comparison; GetBytes: os.ReadFile + checksum
  /\ pr[p].pc = "ret_name"
  /\ LET v == pr[p].ent.out
         ex == dname[v] # 0
         c == IF ex THEN dino[dname[v]].b ELSE <<>>
     IN IF pr[p].op.kind = "getfile"
          THEN IF ex /\ Len(c) = Len(VB[v]) THEN Goto(p, "cl_read") ELSE Set(p, Finish(p, R("miss")))
          ELSE Set(p, Finish(p, IF c = VB[v] THEN RB(c) ELSE R("miss")))   \* sha256(c) = out  <=>  c = VB[out]
  /\ UNCHANGED <<fs, nf, stored>>

ClRead(p) ==  \* the client (runner.loadFacts / Result.Load) opens the returned *name* and reads it, any time later
  /\ pr[p].pc = "cl_read"
  /\ LET v == pr[p].ent.out IN
     Set(p, Finish(p, IF dname[v] = 0 THEN R("enoent") ELSE RB(dino[dname[v]].b)))
  /\ UNCHANGED <<fs, nf, stored>>

---------------------------------------------------------------------------
\* Trim / trimSubdir

TAdvance(p) == IF pr[p].tq < Len(TrimOrder) THEN [pr[p] EXCEPT !.pc = "t_readdir", !.tq = @ + 1]
               ELSE [pr[p] EXCEPT !.pc = "t_wstamp"]
TFile(p) == TrimOrder[pr[p].tq]
TExists(f) == IF f.t = "d" THEN dname[f.i] # 0 ELSE iname[f.i] # 0
TOld(f) == IF f.t = "d" THEN dino[dname[f.i]].m = "old" ELSE iino[iname[f.i]].m = "old"

TStamp(p) ==  \* gate trim.readstamp: trimmed within the last day => nothing to do
  /\ pr[p].pc = "t_stamp"
  /\ IF stamp = "fresh" THEN Set(p, Finish(p, R("trimdone")))
     ELSE Set(p, TAdvance(p))
  /\ UNCHANGED <<fs, nf, stored>>

TReaddir(p) ==  \* gate trim.readdir: names of the subdirectory are read before anything is removed
  /\ pr[p].pc = "t_readdir"
  /\ IF TExists(TFile(p)) THEN Goto(p, "t_stat") ELSE Set(p, TAdvance(p))
  /\ UNCHANGED <<fs, nf, stored>>

TStat(p) ==  \* gate trim.stat
  /\ pr[p].pc = "t_stat"
  /\ IF TExists(TFile(p)) /\ TOld(TFile(p)) THEN Goto(p, "t_rm") ELSE Set(p, TAdvance(p))
  /\ UNCHANGED <<fs, nf, stored>>

\* a Trim removal of the data file a GetFile hit was reported for, before its client opened it
Windowed(prs, v) == [q \in Procs |-> IF prs[q].pc = "cl_read" /\ prs[q].ent.out = v THEN [prs[q] EXCEPT !.win = TRUE] ELSE prs[q]]

TRemove(p) ==  \* gate trim.remove: os.Remove by name, decided by the earlier stat
  /\ pr[p].pc = "t_rm"
  /\ LET f == TFile(p)
         prs == [pr EXCEPT ![p] = TAdvance(p)]
     IN IF f.t = "d"
          THEN /\ dname' = [dname EXCEPT ![f.i] = 0]
               /\ pr' = IF dname[f.i] # 0 THEN Windowed(prs, f.i) ELSE prs
               /\ dino' = CleanD(dname', dino, prs)
               /\ UNCHANGED <<iname, iino>>
          ELSE /\ iname' = [iname EXCEPT ![f.i] = 0]
               /\ pr' = prs
               /\ iino' = CleanI(iname', iino, prs)
               /\ UNCHANGED <<dname, dino>>
  /\ UNCHANGED <<stamp, nf, stored>>

TWStamp(p) ==  \* gate trim.writestamp: renameio.WriteFile(trim.txt) (atomic rename)
  /\ pr[p].pc = "t_wstamp"
  /\ stamp' = "fresh"
  /\ Set(p, Finish(p, R("trimdone")))
  /\ UNCHANGED <<dname, dino, iname, iino, nf, stored>>

---------------------------------------------------------------------------
\* faults

Crash(p) ==  \* the process dies: descriptors are closed, nothing else happens
  /\ "crash" \in Faults /\ pr[p].pc # "idle"
  /\ IF CrashCosts THEN nf < MaxFaults /\ nf' = nf + 1 ELSE nf' = nf
  /\ LET prs == [pr EXCEPT ![p] = Finish(p, R("crashed"))] IN
     /\ pr' = prs
     /\ dino' = CleanD(dname, dino, prs)
     /\ iino' = CleanI(iname, iino, prs)
  /\ UNCHANGED <<dname, iname, stamp, stored>>

Env == AtRest /\ nf < MaxFaults /\ nf' = nf + 1 /\ UNCHANGED <<pr, stored>>

TruncData(v, n) ==
  /\ "trunc" \in Faults /\ Env
  /\ dname[v] # 0 /\ n < Len(dino[dname[v]].b)
  /\ dino' = [dino EXCEPT ![dname[v]].b = SubSeq(@, 1, n)]
  /\ UNCHANGED <<dname, iname, iino, stamp>>

TruncIndex(k, st) ==   \* st = "empty" (length 0) or "torn" (0 < length < entrySize)
  /\ "trunc" \in Faults /\ Env
  /\ iname[k] # 0
  /\ \/ st = "torn" /\ iino[iname[k]].st = "full"
     \/ st = "empty" /\ iino[iname[k]].st # "empty"
  /\ iino' = [iino EXCEPT ![iname[k]] = [st |-> st, id |-> 0, out |-> 0, m |-> @.m]]
  /\ UNCHANGED <<dname, dino, iname, stamp>>

TruncStamp ==  \* a shorter decimal number (or nothing) is an older time
  /\ "trunc" \in Faults /\ Env /\ stamp = "fresh"
  /\ stamp' = "old"
  /\ UNCHANGED <<dname, dino, iname, iino>>

DeleteData(v) ==
  /\ "delete" \in Faults /\ Env /\ dname[v] # 0
  /\ dname' = [dname EXCEPT ![v] = 0]
  /\ dino' = CleanD(dname', dino, pr)
  /\ UNCHANGED <<iname, iino, stamp>>

DeleteIndex(k) ==
  /\ "delete" \in Faults /\ Env /\ iname[k] # 0
  /\ iname' = [iname EXCEPT ![k] = 0]
  /\ iino' = CleanI(iname', iino, pr)
  /\ UNCHANGED <<dname, dino, stamp>>

DeleteStamp ==
  /\ "delete" \in Faults /\ Env /\ stamp # "none"
  /\ stamp' = "none"
  /\ UNCHANGED <<dname, dino, iname, iino>>

Foreign(k, k2) ==  \* <k>-a receives a copy of <k2>-a (outside the property's fault list)
  /\ "foreign" \in Faults /\ Env /\ k # k2
  /\ iname[k] # 0 /\ iname[k2] # 0 /\ iino[iname[k2]].st = "full"
  /\ iino' = [iino EXCEPT ![iname[k]] = [iino[iname[k2]] EXCEPT !.m = iino[iname[k]].m]]
  /\ UNCHANGED <<dname, dino, iname, stamp>>

Age ==  \* six days pass while nothing runs
  /\ "age" \in Faults /\ Env
  /\ \/ \E v \in Vals : dname[v] # 0 /\ dino[dname[v]].m = "fresh"
     \/ \E k \in Keys : iname[k] # 0 /\ iino[iname[k]].m = "fresh"
     \/ stamp = "fresh"
  /\ dino' = [i \in DI |-> IF \E v \in Vals : dname[v] = i THEN [dino[i] EXCEPT !.m = "old"] ELSE dino[i]]
  /\ iino' = [i \in II |-> IF \E k \in Keys : iname[k] = i THEN [iino[i] EXCEPT !.m = "old"] ELSE iino[i]]
  /\ stamp' = IF stamp = "fresh" THEN "old" ELSE stamp
  /\ UNCHANGED <<dname, iname>>

---------------------------------------------------------------------------
\* next-state relation with history

ProcStep(p) ==
  \/ CStat(p) \/ CVerify(p) \/ COpen(p) \/ CWrite(p) \/ CLast(p) \/ CChtimes(p)
  \/ IOpen(p) \/ IWrite(p) \/ ITrunc(p) \/ IChtimes(p)
  \/ GOpen(p) \/ GRead(p) \/ GiUStat(p) \/ GiUChtimes(p) \/ GdUStat(p) \/ GdUChtimes(p) \/ RetName(p) \/ ClRead(p)
  \/ TStamp(p) \/ TReaddir(p) \/ TStat(p) \/ TRemove(p) \/ TWStamp(p)

H(p, a, o, k, v, n) ==
  hist' = IF Record
            THEN Append(hist, [p |-> p, a |-> a, o |-> o, k |-> k, v |-> v, n |-> n, obs |-> Obs',
                               r |-> IF p = 0 THEN R("none") ELSE pr'[p].res])
            ELSE hist

AllDone == AtRest /\ \A p \in Procs : pr[p].nops = MaxOps[p] \/ Roles[p] = {}

Steps ==
  \/ \E p \in Procs :
       \/ \E k \in Keys, v \in Vals : Start(p, "put", k, v) /\ H(p, "start", "put", k, v, 0)
       \/ \E k \in Keys : Start(p, "getfile", k, 0) /\ H(p, "start", "getfile", k, 0, 0)
       \/ \E k \in Keys : Start(p, "getbytes", k, 0) /\ H(p, "start", "getbytes", k, 0, 0)
       \/ Start(p, "trim", 0, 0) /\ H(p, "start", "trim", 0, 0, 0)
       \/ ProcStep(p) /\ H(p, pr[p].pc, pr[p].op.kind, pr[p].op.k, pr[p].op.v, 0)
       \/ Crash(p) /\ H(p, "crash", pr[p].op.kind, pr[p].op.k, pr[p].op.v, 0)
  \/ \E v \in Vals : \E n \in 0..Len(VB[v]) : TruncData(v, n) /\ H(0, "truncate", "d", 0, v, n)
  \/ \E k \in Keys : TruncIndex(k, "torn") /\ H(0, "truncate", "a", k, 0, 1)
  \/ \E k \in Keys : TruncIndex(k, "empty") /\ H(0, "truncate", "a", k, 0, 0)
  \/ TruncStamp /\ H(0, "truncate", "s", 0, 0, 0)
  \/ \E v \in Vals : DeleteData(v) /\ H(0, "delete", "d", 0, v, 0)
  \/ \E k \in Keys : DeleteIndex(k) /\ H(0, "delete", "a", k, 0, 0)
  \/ DeleteStamp /\ H(0, "delete", "s", 0, 0, 0)
  \/ \E k \in Keys, k2 \in Keys : Foreign(k, k2) /\ H(0, "foreign", "a", k, 0, k2)
  \/ Age /\ H(0, "age", "", 0, 0, 0)

\* terminal stuttering, so that CHECK_DEADLOCK means "no process can get stuck"
Next == Steps \/ (AllDone /\ UNCHANGED vars)

Spec == Init /\ [][Next]_vars
SpecGen == Init /\ [][Steps]_vars    \* for -simulate: a behaviour ends when every process has used up its operations

---------------------------------------------------------------------------
\* properties

TypeOK ==
  /\ \A v \in Vals : dname[v] \in 0..Len(VB) + NP
  /\ \A k \in Keys : iname[k] \in 0..NK + NP
  /\ \A v, w \in Vals : (v # w /\ dname[v] # 0) => dname[v] # dname[w]
  /\ \A i \in DI : Len(dino[i].b) <= 3 /\ dino[i].m \in {"old", "fresh"}
  /\ \A i \in II : iino[i].st \in {"empty", "torn", "full"}
  /\ stamp \in {"none", "old", "fresh"}
  /\ \A p \in Procs : pr[p].nops <= MaxOps[p]

StoredBytes(k) == {VB[v] : v \in stored[k]}

\* GetBytes never returns bytes that were not stored under the key
\* Put's postcondition, as lintcmd/runner relies on it (writeCache*: `out, _, err := c.Put(h, rs)` and then
\* `c.OutputFile(out)` is kept as the name of the stored content and read later): a Put that returns
\* without error leaves the complete content under OutputFile(out).  Claimed for a directory used by
\* one process (NP = 1: the crash and damage configurations, which is where the replay observes it).
\* With a second process TLC refutes it (config Q, 21 steps): Put finds an old complete data file and
\* keeps it (c_verify), a concurrent Trim stat()ed it as old and unlinks it before Put returns - the
\* Put-side face of the Trim window recorded as a known finding for GetFile.  An action property: it
\* is about the step in which Put returns; later damage at rest is what the lookup invariants cover.
PutPostStep ==
  NP = 1 =>
  \A p \in Procs :
    (/\ pr[p].pc # "idle" /\ pr[p].op.kind = "put"
     /\ pr'[p].pc = "idle" /\ pr'[p].res.kind = "putdone")
    => LET v == pr[p].op.v IN dname'[v] # 0 /\ dino'[dname'[v]].b = VB[v]
PutPost == [][PutPostStep]_vars

LookupSoundBytes ==
  \A p \in Procs : (pr[p].op.kind = "getbytes" /\ pr[p].res.kind = "bytes") => pr[p].res.b \in StoredBytes(pr[p].op.k)

\* GetFile + the client's open/read of the returned name never yields other bytes (full statement)
LookupSoundFile ==
  \A p \in Procs : (pr[p].op.kind = "getfile" /\ pr[p].res.kind = "bytes") => pr[p].res.b \in StoredBytes(pr[p].op.k)

\* ... the same, except for lookups whose data file a Trim unlinked between the hit and the client's open
LookupSoundFileModTrimRace ==
  \A p \in Procs : (pr[p].op.kind = "getfile" /\ pr[p].res.kind = "bytes" /\ ~pr[p].win) => pr[p].res.b \in StoredBytes(pr[p].op.k)

\* a name returned as a hit can be opened
HitThenReadable == \A p \in Procs : pr[p].res.kind # "enoent"
HitThenReadableModTrimRace == \A p \in Procs : pr[p].res.kind = "enoent" => pr[p].win

\* the mechanism copyFile relies on: a data file of the expected size has the expected content
SizeImpliesComplete ==
  \A v \in Vals : (dname[v] # 0 /\ Len(dino[dname[v]].b) = Len(VB[v])) => dino[dname[v]].b = VB[v]

\* an index entry never names an output that was not stored under its key (no foreign faults)
IndexSound ==
  \A k \in Keys : (iname[k] # 0 /\ iino[iname[k]].st = "full" /\ iino[iname[k]].id = k) => iino[iname[k]].out \in stored[k]

\* descriptors are released when an operation ends
NoLeak == \A p \in Procs : pr[p].pc = "idle" => (pr[p].dfd = 0 /\ pr[p].ifd = 0)

View == <<dname, dino, iname, iino, stamp, pr, nf, stored>>

\* View of the damage generation configs (Record = TRUE): the state plus which faults hit which file
\* after how many operations.  Two behaviours that reach the same directory through different damage
\* (truncated index vs truncated data file between two Puts) are then both represented, so the repair
\* path of Put is replayed for every kind of damage and not only for the one TLC met first.
FaultSig ==
  LET F == { j \in 1..Len(hist) : hist[j].p = 0 }
      OpsBefore(i) == Cardinality({ j \in 1..i : hist[j].a = "start" })
  IN [ i \in F |-> <<hist[i].a, hist[i].o, hist[i].k, hist[i].v, OpsBefore(i)>> ]
ViewFaults == <<View, FaultSig>>
=============================================================================
