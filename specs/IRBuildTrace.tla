---------------------------- MODULE IRBuildTrace ----------------------------
(***************************************************************************)
(* Trace validation for C18: a log of real go/ir builds (hooks of the      *)
(* `verif` build tag, normalised by checks/C18.py: builders and functions  *)
(* numbered per program, the addedge record folded into its hit record) is *)
(* accepted iff it is a behaviour of IRBuild: every record is matched by   *)
(* the IRBuild action of its critical section, with the logged arguments.  *)
(*                                                                         *)
(* Several programs per file, separated by "reset" records.  Every record  *)
(* has the same fields: ev, b, f, e, y, p, nb, body, edges.                *)
(*                                                                         *)
(* Three kinds of steps:                                                   *)
(*   strict    the IRBuild action, arguments and cheap state as logged;    *)
(*   violation the record shows real behaviour that contradicts an         *)
(*             invariant encoding the property (CreatedOnce, BuiltAtReturn,*)
(*             Idempotent, built-means-body, a lookup after markDone):     *)
(*             `viol` is set, validation of this file stops there;         *)
(*   drift     the record is not a step of the spec but no property-level  *)
(*             predicate fails (e.g. an edge the spec demands is missing): *)
(*             the real step is applied to the state (HitCore), counted,   *)
(*             and validation continues from the real state, so that the   *)
(*             invariants keep being evaluated on what really happened.    *)
(* A record that is none of these leaves the trace stuck: the high-water   *)
(* mark (TLCGet(1)) names it.  Run with -workers 1.                        *)
(***************************************************************************)
EXTENDS IRBuild, Json

Log == ndJsonDeserialize("irbuild_trace.ndjson")

(* first record: [ev |-> "meta", b |-> number of builders, f |-> number of functions] *)
TBuilders == 1..Log[1].b
TShared == 1..Log[1].f

VARIABLES l,      \* next record
          ptr,    \* [Shared -> Nat] identity of the *Function stored for the key (0 = none)
          viol,   \* "" or the name of the violated property
          drift   \* number of tolerated non-spec steps

tvars == <<vars, l, ptr, viol, drift>>

E == Log[l]
ToSet(s) == {s[i] : i \in 1..Len(s)}

TInit ==
  /\ TLCSet(1, 0) /\ TLCSet(2, <<"", 0>>) /\ TLCSet(3, 0)
  /\ Init
  /\ l = 2
  /\ ptr = [f \in Shared |-> 0]
  /\ viol = ""
  /\ drift = 0

IsEvent(e) == viol = "" /\ l <= Len(Log) /\ E.ev = e /\ l' = l + 1

Violate(name) == viol' = name /\ TLCSet(2, <<name, l>>) /\ UNCHANGED <<vars, ptr, drift>>
Drift(what) == drift' = drift + 1 /\ TLCSet(3, drift + 1) /\ PrintT(<<"DRIFT", l, what>>)
Quiet == UNCHANGED <<viol, drift>>

TStart ==
  /\ IsEvent("start")
  /\ \/ Start(E.b) /\ UNCHANGED ptr /\ Quiet
     \/ pc[E.b] # "idle" /\ Violate("Idempotent")                  \* a package is built twice

TCreate ==
  /\ IsEvent("create")
  /\ \/ Create(E.b, E.f) /\ ptr' = [ptr EXCEPT ![E.f] = E.p] /\ Quiet
     \/ memo[E.f] # 0 /\ Violate("CreatedOnce")                    \* second creation of one key
     \/ memo[E.f] = 0 /\ pc[E.b] \in {"wait", "returned"} /\ Violate("RefAfterDone")

THit ==
  /\ IsEvent("hit")
  /\ \/ Hit(E.b, E.f, E.e) /\ ptr[E.f] = E.p /\ UNCHANGED ptr /\ Quiet
     \/ memo[E.f] # 0 /\ ptr[E.f] # E.p /\ Violate("CreatedOnce") \* two functions answer for one key
     \/ memo[E.f] # 0 /\ ptr[E.f] = E.p /\ pc[E.b] \in {"wait", "returned"} /\ Violate("RefAfterDone")
     \/ /\ memo[E.f] # 0 /\ ptr[E.f] = E.p /\ pc[E.b] = "build"
        /\ ~EdgeRule(E.b, memo[E.f], E.e)
        /\ HitCore(E.b, E.f, E.e) /\ UNCHANGED <<ptr, viol>> /\ Drift("edge")

TBegin ==
  /\ IsEvent("begin")
  /\ BeginFn(E.b) /\ queue[E.b][fin[E.b] + 1] = E.f
  /\ UNCHANGED ptr /\ Quiet

TFinish ==
  /\ IsEvent("finish")
  /\ cur[E.b] = E.f
  /\ \/ (E.body = 1 => E.nb > 0) /\ FinishFn(E.b) /\ UNCHANGED ptr /\ Quiet
     \/ E.body = 1 /\ E.nb = 0 /\ Violate("BuiltMeansBody")       \* marked built without its body

TMark ==
  /\ IsEvent("markdone")
  /\ MarkDone(E.b)
  /\ UNCHANGED ptr /\ UNCHANGED viol
  /\ IF ToSet(E.edges) = edges[E.b] THEN UNCHANGED drift ELSE Drift("edges at markdone")

TSkip == IsEvent("waitskip") /\ WaitSkip(E.b, E.y) /\ UNCHANGED ptr /\ Quiet

TVisit ==
  /\ IsEvent("waitvisit")
  /\ WaitVisit(E.b, E.y)
  /\ UNCHANGED ptr /\ UNCHANGED viol
  /\ IF ToSet(E.edges) = edges[E.y] THEN UNCHANGED drift ELSE Drift("edges at waitvisit")

(* iterate returns: the property-level invariant is evaluated on the state reached.  Only the *)
(* returning builder's conjunct can change: `built` is monotone, looked[b] is frozen once b   *)
(* has returned and uses[f] only grows while f is unbuilt.                                   *)
TRet ==
  /\ IsEvent("waitreturn")
  /\ UNCHANGED <<ptr, drift>>
  /\ \E bb \in {E.b} :      \* a bound value: (E.b)' would be the builder of the NEXT record
       /\ WaitReturn(bb)
       /\ IF BuiltAtReturnOf(bb)' THEN UNCHANGED viol ELSE viol' = "BuiltAtReturn" /\ TLCSet(2, <<"BuiltAtReturn", l>>)

TEnd ==
  /\ IsEvent("end")
  /\ UNCHANGED <<ptr, drift>>
  /\ \E bb \in {E.b} :
       IF pc[bb] = "returned" THEN UNCHANGED vars /\ UNCHANGED viol
       ELSE /\ ReturnNoTask(bb)
            /\ IF BuiltAtReturnOf(bb)' THEN UNCHANGED viol ELSE viol' = "BuiltAtReturn" /\ TLCSet(2, <<"BuiltAtReturn", l>>)

(* a complete program: everything that started has returned; a new program follows *)
TReset ==
  /\ IsEvent("reset")
  /\ \A b \in Builders : pc[b] \in {"idle", "returned"}
  /\ memo' = [f \in Shared |-> 0] /\ built' = [f \in Shared |-> FALSE]
  /\ queue' = [b \in Builders |-> <<>>] /\ fin' = [b \in Builders |-> 0] /\ cur' = [b \in Builders |-> 0]
  /\ hasTask' = [b \in Builders |-> FALSE] /\ done' = [b \in Builders |-> FALSE]
  /\ edges' = [b \in Builders |-> {}] /\ trans' = [b \in Builders |-> FALSE]
  /\ pc' = [b \in Builders |-> "idle"]
  /\ todo' = [b \in Builders |-> {}] /\ seen' = [b \in Builders |-> {}]
  /\ looked' = [b \in Builders |-> {}] /\ uses' = [f \in Shared |-> {}]
  /\ UNCHANGED <<once, cstat>>
  /\ ptr' = [f \in Shared |-> 0]
  /\ Quiet

TNext == TStart \/ TCreate \/ THit \/ TBegin \/ TFinish \/ TMark \/ TSkip \/ TVisit \/ TRet \/ TEnd \/ TReset
TSpec == TInit /\ [][TNext]_tvars

HighWater == TLCSet(1, IF TLCGet(1) < l THEN l ELSE TLCGet(1))

(* the whole file was consumed, or validation stopped at a property violation *)
Accepted ==
  /\ PrintT(<<"TRACE-RESULT", TLCGet(1), Len(Log), TLCGet(2)[1], TLCGet(2)[2], TLCGet(3)>>)
  /\ TLCGet(1) = Len(Log) + 1 \/ TLCGet(2)[1] # ""
=============================================================================
