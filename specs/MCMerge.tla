------------------------------ MODULE MCMerge ------------------------------
EXTENDS Merge

MCFiles == {"a.go", "b.go"}
\* d1/d2 share position and message but differ in category (any);
\* d3/d5 differ only in their end (all); d4 lives in the other file (all).
MCD == { [id |-> 1, file |-> "a.go", line |-> 1, endcol |-> 0, cat |-> "SA4000", msg |-> "m", all |-> FALSE],
         [id |-> 2, file |-> "a.go", line |-> 1, endcol |-> 0, cat |-> "S1000",  msg |-> "m", all |-> FALSE],
         [id |-> 3, file |-> "a.go", line |-> 2, endcol |-> 0, cat |-> "U1000",  msg |-> "u", all |-> TRUE],
         [id |-> 4, file |-> "b.go", line |-> 1, endcol |-> 0, cat |-> "S1002",  msg |-> "b", all |-> TRUE],
         [id |-> 5, file |-> "a.go", line |-> 2, endcol |-> 9, cat |-> "U1000",  msg |-> "u", all |-> TRUE] }
MCDforeign == { d \in MCD : d.id \in {1, 3, 4} }
MCDsmall == { d \in MCD : d.id \in {1, 2, 3, 4} }
MCNames == <<"b1", "b2", "">>
=============================================================================
