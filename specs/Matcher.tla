------------------------------ MODULE Matcher ------------------------------
(***************************************************************************)
(* Binding discipline of the pattern language (pattern/match.go,           *)
(* pattern/parser.go, pattern/doc.go) -- property C09.                     *)
(*                                                                         *)
(* Two semantics over abstract syntax trees and abstract patterns:         *)
(*                                                                         *)
(*   Den(q, v, env)  the declarative meaning promised by doc.go: an Or is  *)
(*                   its first alternative that matches, with *that*       *)
(*                   alternative's environment; a Not succeeds with the    *)
(*                   *input* environment iff its operand fails; a bound    *)
(*                   name recalls by structural equality; `x@q` and        *)
(*                   (Binding "x" q) are one abstract constructor.         *)
(*   Op(q, v, st)    the implementation's mechanism, transcribed function  *)
(*                   by function from match.go: a State map plus a stack   *)
(*                   of per-frame bit sets (setBindings), set/push/pop/    *)
(*                   merge, bit indices assigned by the parser in order of *)
(*                   first occurrence (Parser.bindingIndex), List.Match    *)
(*                   evaluating its tail even when the head failed,        *)
(*                   matchNodeAST short-circuiting.                        *)
(*                                                                         *)
(* One API call `pattern.Match(p, t)` is one action (MatchCall).  The laws *)
(* of C09 are invariants of the result; `Emit` prints every (pattern,      *)
(* tree, expected result) for replay through the real matcher.             *)
(*                                                                         *)
(* MergeMode / NotMode / IdxMode / PopMode name the design ("union",       *)
(* "frame", "name", "delete") and the deviations that were found in or are *)
(* plausible for the code ("drop": merge forgets the frame's bits; "bare": *)
(* Not runs its operand without a frame; "zero": every binding gets bit 0; *)
(* "keep": pop forgets to delete).  TLC refutes OpEqualsDen for each       *)
(* deviation (self-test that the invariant is not vacuous).                *)
(*                                                                         *)
(* Absent optional children (the nil ast.Expr the matcher meets for the    *)
(* Low / High / Max of `s[:n]`) are the value Absent.  A name that meets   *)
(* Absent is BOUND to it (the State map holds the key with a nil value);   *)
(* NilMode names the design ("commaok": bound = the key is in the map) and *)
(* the deviation "nonnil" (bound = the map's value is not nil, so a name   *)
(* bound to an absent child looks unbound and is silently re-bound).       *)
(***************************************************************************)
EXTENDS Integers, Sequences, FiniteSets, TLC, Json

CONSTANTS
  Names,      \* binding names (at most 64: one bit each in the frame bit set)
  MergeMode, NotMode, IdxMode, PopMode, NilMode
\* The sequences of abstract patterns / trees to explore are parameters (ps, ts) of the actions
\* below; the MC modules instantiate them with their families.  (A family handed over as a cfg
\* constant is re-evaluated by TLC at every use: measured 0.1 s per access.)

ASSUME Cardinality(Names) <= 64

VARIABLES pi, ti, res
vars == <<pi, ti, res>>

-----------------------------------------------------------------------------
(* Values.  Trees:  [k:"id",n] | [k:"bin",op,x,y] | [k:"call",f,args] with *)
(* args = [k:"list",es] | [k:"slice",x,lo,hi,max] (ast.SliceExpr; lo, hi   *)
(* and max are trees or Absent); further values a pattern can meet or      *)
(* bind: [k:"str",s] (Ident.Name), [k:"tok",s] (BinaryExpr.Op),            *)
(* [k:"list",es] ([]ast.Expr) and Absent = [k:"absent"], the untyped nil   *)
(* that matchNodeAST hands to the field pattern of an optional child that  *)
(* is not there.  Absent is a value like any other: `_` matches it, a name *)
(* binds it, it is structurally equal to itself only; node, string and     *)
(* list patterns fail on it.  It is NOT Unbound (the name has no entry).   *)
(* Patterns: any | str(s) | ref(n) | bind(n,sub) | id(name) | bin(x,o,y) | *)
(*   call(f,args) | slice(x,lo,hi,max) | nil ([] = (List nil nil), the     *)
(*   empty-list pattern) | pnil (the atom `nil`, pattern.Nil) | cons(h,t)  *)
(*   | or(alts) | not(a).                                                  *)
(* The text (Binding "x" nil) is the plain reference ref(x)                *)
(* (Binding.Match: isNil(b.Node)), so bind(x, pnil) is not a pattern of    *)
(* its own (WellFormed rejects it).                                        *)
(***************************************************************************)
Unbound == [k |-> "unbound"]
Absent  == [k |-> "absent"]
Str(s)  == [k |-> "str", s |-> s]
Tok(s)  == [k |-> "tok", s |-> s]
\* String.Match: a string pattern matches an equal string, or the token it spells
StrMatches(q, v) == (v.k = "str" \/ v.k = "tok") /\ v.s = q.s
Env0    == [n \in Names |-> Unbound]

\* a node pattern meeting a one-element list matches the element (matchNodeAST, slice cases)
Solo(v) == IF v.k = "list" /\ Len(v.es) = 1 THEN v.es[1] ELSE v

\* recalling a bound value: structural equality, a one-element list being equal to its
\* element (match(): the slice blocks wrap the non-slice side)
RecallEq(s, v) == Solo(s) = Solo(v)

ListTail(v) == [k |-> "list", es |-> Tail(v.es)]

-----------------------------------------------------------------------------
(* Static well-formedness: no defining occurrence x@q can be reached while *)
(* x may already be bound ("It is an error to provide a non-nil node to a  *)
(* binding that has already been bound", doc.go).  MayBind over-           *)
(* approximates the names bound when a sub-pattern was (partly) evaluated. *)
(*                                                                         *)
(* Two restrictions on the atom `nil` keep the model honest: (Binding "x"  *)
(* nil) is the reference x, not a defining occurrence; and `nil` does not  *)
(* occur inside a list pattern or the argument list of a CallExpr, where   *)
(* it would meet a []ast.Expr: Nil.Match accepts a nil slice and rejects   *)
(* an empty non-nil one, a difference of representation the abstract       *)
(* lists do not have.                                                      *)
(***************************************************************************)
RECURSIVE NamesOf(_), MayBind(_, _), WF(_, _), HasPNil(_)
HasPNil(q) ==
  CASE q.k = "pnil" -> TRUE
    [] q.k = "bind" -> HasPNil(q.sub)
    [] q.k = "id"   -> HasPNil(q.name)
    [] q.k = "bin"  -> HasPNil(q.x) \/ HasPNil(q.o) \/ HasPNil(q.y)
    [] q.k = "call" -> HasPNil(q.f) \/ HasPNil(q.args)
    [] q.k = "slice" -> HasPNil(q.x) \/ HasPNil(q.lo) \/ HasPNil(q.hi) \/ HasPNil(q.max)
    [] q.k = "cons" -> HasPNil(q.h) \/ HasPNil(q.t)
    [] q.k = "or"   -> \E i \in 1..Len(q.alts) : HasPNil(q.alts[i])
    [] q.k = "not"  -> HasPNil(q.a)
    [] OTHER        -> FALSE

NamesOf(q) ==
  CASE q.k = "ref"  -> {q.n}
    [] q.k = "bind" -> {q.n} \cup NamesOf(q.sub)
    [] q.k = "id"   -> NamesOf(q.name)
    [] q.k = "bin"  -> NamesOf(q.x) \cup NamesOf(q.o) \cup NamesOf(q.y)
    [] q.k = "call" -> NamesOf(q.f) \cup NamesOf(q.args)
    [] q.k = "slice" -> NamesOf(q.x) \cup NamesOf(q.lo) \cup NamesOf(q.hi) \cup NamesOf(q.max)
    [] q.k = "cons" -> NamesOf(q.h) \cup NamesOf(q.t)
    [] q.k = "or"   -> UNION { NamesOf(q.alts[i]) : i \in 1..Len(q.alts) }
    [] q.k = "not"  -> NamesOf(q.a)
    [] OTHER        -> {}

MayBind(q, B) ==
  CASE q.k = "ref"  -> B \cup {q.n}
    [] q.k = "bind" -> MayBind(q.sub, B) \cup {q.n}
    [] q.k = "id"   -> MayBind(q.name, B)
    [] q.k = "bin"  -> MayBind(q.y, MayBind(q.o, MayBind(q.x, B)))
    [] q.k = "call" -> MayBind(q.args, MayBind(q.f, B))
    [] q.k = "slice" -> MayBind(q.max, MayBind(q.hi, MayBind(q.lo, MayBind(q.x, B))))
    [] q.k = "cons" -> MayBind(q.t, MayBind(q.h, B))
    [] q.k = "or"   -> B \cup UNION { MayBind(q.alts[i], B) : i \in 1..Len(q.alts) }
    [] OTHER        -> B       \* any, str, nil, pnil, not

WF(q, B) ==
  CASE q.k = "bind" -> q.n \notin B /\ q.n \notin NamesOf(q.sub) /\ q.sub.k # "pnil" /\ WF(q.sub, B)
    [] q.k = "id"   -> WF(q.name, B)
    [] q.k = "bin"  -> WF(q.x, B) /\ WF(q.o, MayBind(q.x, B)) /\ WF(q.y, MayBind(q.o, MayBind(q.x, B)))
    [] q.k = "call" -> WF(q.f, B) /\ WF(q.args, MayBind(q.f, B)) /\ ~HasPNil(q.args)
    [] q.k = "slice" -> LET B1 == MayBind(q.x, B)  B2 == MayBind(q.lo, B1)  B3 == MayBind(q.hi, B2) IN
                        WF(q.x, B) /\ WF(q.lo, B1) /\ WF(q.hi, B2) /\ WF(q.max, B3)
    [] q.k = "cons" -> WF(q.h, B) /\ WF(q.t, MayBind(q.h, B)) /\ ~HasPNil(q)
    [] q.k = "or"   -> \A i \in 1..Len(q.alts) : WF(q.alts[i], B)
    [] q.k = "not"  -> WF(q.a, B)
    [] OTHER        -> TRUE

WellFormed(q) == WF(q, {})

\* Parser.bindingIndex: names numbered in order of first occurrence in the pattern text
RECURSIVE NameOrder(_)
Dedup(s) == LET RECURSIVE D(_, _)
                D(i, acc) == IF i > Len(s) THEN acc
                             ELSE IF \E j \in 1..Len(acc) : acc[j] = s[i] THEN D(i + 1, acc)
                             ELSE D(i + 1, Append(acc, s[i]))
            IN D(1, <<>>)
RECURSIVE Concat(_, _)
Concat(ss, i) == IF i > Len(ss) THEN <<>> ELSE ss[i] \o Concat(ss, i + 1)
NameOrder(q) ==
  CASE q.k = "ref"  -> <<q.n>>
    [] q.k = "bind" -> NameOrder(q.sub) \o <<q.n>>     \* the operand is parsed before the index is taken
    [] q.k = "id"   -> NameOrder(q.name)
    [] q.k = "bin"  -> NameOrder(q.x) \o NameOrder(q.o) \o NameOrder(q.y)
    [] q.k = "call" -> NameOrder(q.f) \o NameOrder(q.args)
    [] q.k = "slice" -> NameOrder(q.x) \o NameOrder(q.lo) \o NameOrder(q.hi) \o NameOrder(q.max)
    [] q.k = "cons" -> NameOrder(q.h) \o NameOrder(q.t)
    [] q.k = "or"   -> Concat([i \in 1..Len(q.alts) |-> NameOrder(q.alts[i])], 1)
    [] q.k = "not"  -> NameOrder(q.a)
    [] OTHER        -> <<>>
Bindings(q) == Dedup(NameOrder(q))          \* Pattern.Bindings: index -> name  (1-based here)

-----------------------------------------------------------------------------
(* Declarative semantics.  Result: r \in {"ok","fail","ill"}; env; val =   *)
(* the value a surrounding binding stores; log = the (name, value) pairs   *)
(* met on the successful path.                                             *)
(***************************************************************************)
DOk(e, v, l) == [r |-> "ok", env |-> e, val |-> v, log |-> l]
DFail == [r |-> "fail", env |-> Env0, val |-> Unbound, log |-> {}]
DIll  == [r |-> "ill",  env |-> Env0, val |-> Unbound, log |-> {}]

RECURSIVE Den(_, _, _), DenOr(_, _, _, _)
Den(q, v, env) ==
  CASE q.k = "any" -> DOk(env, v, {})
    [] q.k = "str" -> IF StrMatches(q, v) THEN DOk(env, v, {}) ELSE DFail
    [] q.k = "ref" ->
         IF env[q.n] = Unbound THEN DOk([env EXCEPT ![q.n] = v], v, {<<q.n, v>>})
         ELSE IF RecallEq(env[q.n], v) THEN DOk(env, v, {<<q.n, v>>}) ELSE DFail
    [] q.k = "bind" ->
         IF env[q.n] # Unbound THEN DIll
         ELSE LET r == Den(q.sub, v, env) IN
              IF r.r # "ok" THEN r
              ELSE IF r.env[q.n] # Unbound THEN DIll
              ELSE DOk([r.env EXCEPT ![q.n] = r.val], r.val, r.log \cup {<<q.n, r.val>>})
    [] q.k = "id" ->
         LET w == Solo(v) IN
         IF w.k # "id" THEN DFail
         ELSE LET r == Den(q.name, Str(w.n), env) IN
              IF r.r # "ok" THEN r ELSE DOk(r.env, w, r.log)
    [] q.k = "bin" ->
         LET w == Solo(v) IN
         IF w.k # "bin" THEN DFail
         ELSE LET r1 == Den(q.x, w.x, env) IN
              IF r1.r # "ok" THEN r1
              ELSE LET ro == Den(q.o, Tok(w.op), r1.env) IN
                   IF ro.r # "ok" THEN ro
                   ELSE LET r2 == Den(q.y, w.y, ro.env) IN
                        IF r2.r # "ok" THEN r2 ELSE DOk(r2.env, w, r1.log \cup ro.log \cup r2.log)
    [] q.k = "call" ->
         LET w == Solo(v) IN
         IF w.k # "call" THEN DFail
         ELSE LET r1 == Den(q.f, w.f, env) IN
              IF r1.r # "ok" THEN r1
              ELSE LET r2 == Den(q.args, w.args, r1.env) IN
                   IF r2.r # "ok" THEN r2 ELSE DOk(r2.env, w, r1.log \cup r2.log)
    [] q.k = "slice" ->                                 \* the optional children are matched as they are: a tree or Absent
         LET w == Solo(v) IN
         IF w.k # "slice" THEN DFail
         ELSE LET r1 == Den(q.x, w.x, env) IN
              IF r1.r # "ok" THEN r1
              ELSE LET r2 == Den(q.lo, w.lo, r1.env) IN
                   IF r2.r # "ok" THEN r2
                   ELSE LET r3 == Den(q.hi, w.hi, r2.env) IN
                        IF r3.r # "ok" THEN r3
                        ELSE LET r4 == Den(q.max, w.max, r3.env) IN
                             IF r4.r # "ok" THEN r4
                             ELSE DOk(r4.env, w, r1.log \cup r2.log \cup r3.log \cup r4.log)
    [] q.k = "nil" -> IF v.k = "list" /\ Len(v.es) = 0 THEN DOk(env, v, {}) ELSE DFail
    \* the atom `nil` matches an absent child (lists are excluded by WellFormed, see above)
    [] q.k = "pnil" -> IF v = Absent THEN DOk(env, Absent, {}) ELSE DFail
    [] q.k = "cons" ->
         IF v.k # "list" THEN DFail
         ELSE IF Len(v.es) = 0 THEN DFail
         ELSE LET r1 == Den(q.h, v.es[1], env) IN
              IF r1.r # "ok" THEN r1
              ELSE LET r2 == Den(q.t, ListTail(v), r1.env) IN
                   IF r2.r # "ok" THEN r2 ELSE DOk(r2.env, v, r1.log \cup r2.log)
    [] q.k = "or"  -> DenOr(q.alts, 1, v, env)
    [] q.k = "not" -> LET r == Den(q.a, v, env) IN
                      IF r.r = "ill" THEN r ELSE IF r.r = "ok" THEN DFail ELSE DOk(env, v, {})
DenOr(alts, i, v, env) ==
  IF i > Len(alts) THEN DFail
  ELSE LET r == Den(alts[i], v, env) IN
       IF r.r = "fail" THEN DenOr(alts, i + 1, v, env) ELSE r

-----------------------------------------------------------------------------
(* Operational semantics: Matcher{State, setBindings}.  st = [env, fr];    *)
(* fr is the stack of frames, a frame is the set of bit indices set in it. *)
(***************************************************************************)
IndexOf(bs, n) == CHOOSE i \in 1..Len(bs) : bs[i] = n

\* Matcher.set
Set(st, bs, n, v) ==
  LET bit == IF IdxMode = "zero" THEN 1 ELSE IndexOf(bs, n) IN
  [env |-> [st.env EXCEPT ![n] = v],
   fr  |-> [st.fr EXCEPT ![Len(st.fr)] = @ \cup {bit}]]
\* Matcher.push
Push(st) == [st EXCEPT !.fr = Append(@, {})]
\* Matcher.pop: delete every name whose bit is set in the top frame, drop the frame
Pop(st, bs) ==
  LET top == st.fr[Len(st.fr)] IN
  [env |-> [n \in Names |-> IF PopMode = "delete" /\ \E i \in top : i <= Len(bs) /\ bs[i] = n
                            THEN Unbound ELSE st.env[n]],
   fr  |-> SubSeq(st.fr, 1, Len(st.fr) - 1)]
\* Matcher.merge: the frame's bindings now belong to the enclosing frame
Merge(st) ==
  LET top  == st.fr[Len(st.fr)]
      rest == SubSeq(st.fr, 1, Len(st.fr) - 1) IN
  [st EXCEPT !.fr = IF MergeMode = "union" /\ Len(rest) > 0
                    THEN [rest EXCEPT ![Len(rest)] = @ \cup top] ELSE rest]

\* "is the name bound?"  The design asks whether the State map has the key (a name bound to an
\* absent child has the key with a nil value); the deviation asks whether the value is non-nil.
IsBound(st, n) == IF NilMode = "commaok" THEN st.env[n] # Unbound
                  ELSE st.env[n] # Unbound /\ st.env[n] # Absent

ROk(st, v) == [r |-> "ok",    st |-> st, val |-> v]
RFail(st)  == [r |-> "fail",  st |-> st, val |-> Unbound]   \* partial bindings stay in st, as in the code
RPanic(st) == [r |-> "panic", st |-> st, val |-> Unbound]   \* "binding already created"

RECURSIVE Op(_, _, _, _), OpOr(_, _, _, _, _)
Op(q, v, st, bs) ==
  CASE q.k = "any" -> ROk(st, v)
    [] q.k = "str" -> IF StrMatches(q, v) THEN ROk(st, v) ELSE RFail(st)
    [] q.k = "ref" ->                                   \* Binding.Match, isNil(Node): `v, ok := State[name]; if ok`
         IF IsBound(st, q.n)
         THEN IF RecallEq(st.env[q.n], v) THEN ROk(st, v) ELSE RFail(st)
         ELSE ROk(Set(st, bs, q.n, v), v)
    [] q.k = "bind" ->                                  \* Binding.Match, Node # nil
         IF IsBound(st, q.n) THEN RPanic(st)
         ELSE LET r == Op(q.sub, v, st, bs) IN
              IF r.r # "ok" THEN r ELSE ROk(Set(r.st, bs, q.n, r.val), r.val)
    [] q.k = "id" ->                                    \* matchNodeAST
         LET w == Solo(v) IN
         IF w.k # "id" THEN RFail(st)
         ELSE LET r == Op(q.name, Str(w.n), st, bs) IN
              IF r.r # "ok" THEN r ELSE ROk(r.st, w)
    [] q.k = "bin" ->                                   \* matchNodeAST: fields in order, stop at the first failure
         LET w == Solo(v) IN
         IF w.k # "bin" THEN RFail(st)
         ELSE LET r1 == Op(q.x, w.x, st, bs) IN
              IF r1.r # "ok" THEN r1
              ELSE LET ro == Op(q.o, Tok(w.op), r1.st, bs) IN
                   IF ro.r # "ok" THEN ro
                   ELSE LET r2 == Op(q.y, w.y, ro.st, bs) IN
                        IF r2.r # "ok" THEN r2 ELSE ROk(r2.st, w)
    [] q.k = "call" ->
         LET w == Solo(v) IN
         IF w.k # "call" THEN RFail(st)
         ELSE LET r1 == Op(q.f, w.f, st, bs) IN
              IF r1.r # "ok" THEN r1
              ELSE LET r2 == Op(q.args, w.args, r1.st, bs) IN
                   IF r2.r # "ok" THEN r2 ELSE ROk(r2.st, w)
    [] q.k = "slice" ->                                 \* matchNodeAST: X, Low, High, Max; bf.Interface() of a nil
         LET w == Solo(v) IN                            \* ast.Expr field is the untyped nil = Absent
         IF w.k # "slice" THEN RFail(st)                \* (incl. `case nil: return nil, a == Nil{}` for v = Absent)
         ELSE LET r1 == Op(q.x, w.x, st, bs) IN
              IF r1.r # "ok" THEN r1
              ELSE LET r2 == Op(q.lo, w.lo, r1.st, bs) IN
                   IF r2.r # "ok" THEN r2
                   ELSE LET r3 == Op(q.hi, w.hi, r2.st, bs) IN
                        IF r3.r # "ok" THEN r3
                        ELSE LET r4 == Op(q.max, w.max, r3.st, bs) IN
                             IF r4.r # "ok" THEN r4 ELSE ROk(r4.st, w)
    [] q.k = "nil" -> IF v.k = "list" /\ Len(v.es) = 0 THEN ROk(st, v) ELSE RFail(st)   \* List.Match: nil is no slice
    [] q.k = "pnil" -> IF v = Absent THEN ROk(st, Absent) ELSE RFail(st)                \* Nil.Match: isNil(node)
    [] q.k = "cons" ->                                  \* List.Match: the tail is matched even if the head failed
         IF v.k # "list" THEN RFail(st)
         ELSE IF Len(v.es) = 0 THEN RFail(st)
         ELSE LET r1 == Op(q.h, v.es[1], st, bs) IN
              IF r1.r = "panic" THEN r1
              ELSE LET r2 == Op(q.t, ListTail(v), r1.st, bs) IN
                   IF r2.r = "panic" THEN r2
                   ELSE IF r1.r = "ok" /\ r2.r = "ok" THEN ROk(r2.st, v) ELSE RFail(r2.st)
    [] q.k = "or"  -> OpOr(q.alts, 1, v, st, bs)
    [] q.k = "not" ->
         IF NotMode = "frame"
         THEN LET r == Op(q.a, v, Push(st), bs) IN
              IF r.r = "panic" THEN r
              ELSE IF r.r = "ok" THEN RFail(Pop(r.st, bs)) ELSE ROk(Pop(r.st, bs), v)
         ELSE LET r == Op(q.a, v, st, bs) IN
              IF r.r = "panic" THEN r
              ELSE IF r.r = "ok" THEN RFail(r.st) ELSE ROk(r.st, v)
OpOr(alts, i, v, st, bs) ==                            \* Or.Match
  IF i > Len(alts) THEN RFail(st)
  ELSE LET r == Op(alts[i], v, Push(st), bs) IN
       IF r.r = "panic" THEN r
       ELSE IF r.r = "ok" THEN ROk(Merge(r.st), r.val)
       ELSE OpOr(alts, i + 1, v, Pop(r.st, bs), bs)

\* Matcher.Match: push; match; merge; the stack must be empty again
Run(q, v) ==
  LET r == Op(q, v, [env |-> Env0, fr |-> <<{}>>], Bindings(q)) IN
  IF r.r = "panic" THEN r ELSE [r EXCEPT !.st = Merge(r.st)]

-----------------------------------------------------------------------------
NoRes == [done |-> FALSE]

\* pairs whose root kinds differ fail before any binding is touched: one representative tree per
\* pattern is kept for them (the first such tree), the rest is skipped
NodeKinds == {"id", "bin", "call", "slice"}
Trivial(q, v) == q.k \in NodeKinds /\ v.k # q.k
TreesFor(q, ts) ==
  LET all  == 1..Len(ts)
      triv == { j \in all : Trivial(q, ts[j]) }
  IN (all \ triv) \cup (IF triv = {} THEN {} ELSE { CHOOSE m \in triv : \A l \in triv : m <= l })

InitOver(ps) == /\ pi \in 1..Len(ps)
                /\ ti = 0
                /\ res = NoRes

\* the API call pattern.Match(p, t)
MatchCall(ps, ts) ==
  /\ res = NoRes
  /\ LET q == ps[pi] IN
     \E j \in TreesFor(q, ts) :
       /\ ti' = j
       /\ res' = [done |-> TRUE, p |-> q, t |-> ts[j], den |-> Den(q, ts[j], Env0), op |-> Run(q, ts[j])]
  /\ UNCHANGED pi

-----------------------------------------------------------------------------
(* The laws.  All are about well-formed patterns; the MC modules only put  *)
(* statically well-formed patterns into their families (AllWellFormed).    *)
(***************************************************************************)
AllWellFormed(ps) == \A i \in 1..Len(ps) : WellFormed(ps[i])

Bound(e) == { n \in Names : e[n] # Unbound }

\* static well-formedness is sound: a well-formed pattern never redefines a bound name
StaticWFSound == res.done => res.den.r # "ill"

\* the frame-stack mechanism computes the declarative meaning
OpEqualsDen ==
  res.done =>
    /\ res.op.r = res.den.r
    /\ res.den.r = "ok" => res.op.st.env = res.den.env
    /\ res.op.r # "panic" => res.op.st.fr = <<>>

\* C09: "the visible bindings are exactly those established on the successful path"
VisibleIsSuccessfulPath ==
  (res.done /\ res.den.r = "ok") => Bound(res.den.env) = { e[1] : e \in res.den.log }

\* C09: "a name that occurs several times is bound to structurally equal subtrees"
ConsistentRecall ==
  (res.done /\ res.den.r = "ok") => \A e \in res.den.log : RecallEq(res.den.env[e[1]], e[2])

\* C09: "bindings made inside ... a Not operand that failed are not observable"
\* (a Not at the root leaves no binding at all; nested Nots are covered by the log law)
NotLeavesNoBindings ==
  (res.done /\ res.p.k = "not" /\ res.den.r = "ok") => Bound(res.den.env) = {}

\* C09: atomic alternatives, stated on the mechanism: the names visible after an Or are those of
\* the first alternative that matches on its own, with that alternative's values
RECURSIVE FirstOk(_, _, _, _)
FirstOk(alts, i, v, env) ==
  IF i > Len(alts) THEN 0 ELSE IF Den(alts[i], v, env).r = "ok" THEN i ELSE FirstOk(alts, i + 1, v, env)
AtomicAlternatives ==
  (res.done /\ res.p.k = "or") =>
     LET q == res.p  v == res.t  j == FirstOk(q.alts, 1, v, Env0) IN
     IF j = 0 THEN res.den.r = "fail" /\ res.op.r = "fail"
     ELSE /\ res.op.r = "ok"
          /\ res.op.st.env = Den(q.alts[j], v, Env0).env
          /\ Bound(res.op.st.env) \subseteq NamesOf(q.alts[j])

-----------------------------------------------------------------------------
(* Emission for replay: one line per pattern / tree (dictionary), one line *)
(* per decided pair.                                                       *)
(***************************************************************************)
EmitDict(ps, ts) ==
  /\ \A i \in 1..Len(ps) : PrintT("CASE " \o ToJson([d |-> "pat", i |-> i, v |-> ps[i], b |-> Bindings(ps[i])]))
  /\ \A i \in 1..Len(ts) : PrintT("CASE " \o ToJson([d |-> "tree", i |-> i, v |-> ts[i]]))

Emit ==
  res.done =>
    PrintT("CASE " \o ToJson([d |-> "pair", p |-> pi, t |-> ti, ok |-> (res.den.r = "ok"),
                              env |-> IF res.den.r = "ok" THEN res.den.env ELSE Env0]))
=============================================================================
