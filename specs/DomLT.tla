------------------------------- MODULE DomLT -------------------------------
(***************************************************************************)
(* Transcription of go/ir/dom.go buildDomTree + numberDomTree + Dominates  *)
(* (Lengauer-Tarjan in the simple, path-compression-free form, with the    *)
(* Georgiadis reordering that needs only one bucket slot per vertex, and   *)
(* two roots: entry and recover), statement by statement, as recursive     *)
(* operators over an explicit state record.  0 plays the role of nil.      *)
(*                                                                         *)
(* It is a DESIGN-LEVEL model: DomGen checks on every enumerated graph     *)
(* that the answers computed here satisfy the laws of Dom.tla.  It is not  *)
(* what decides C14 on the real code (that is DomObs on recorded answers). *)
(*                                                                         *)
(* Named deviations from the Go text:                                      *)
(*   - w.Preds is used as a set (step 2 takes a minimum, order-free);      *)
(*   - a nil dereference is recorded in the `crash` field, not raised;     *)
(*   - b.Index is the block number itself.                                 *)
(***************************************************************************)
EXTENDS Dom

LTPreds(G, w) == { p \in Nodes(G) : w \in SuccSet(G, p) }

\* state record:
\*   pre      block -> int   (domInfo.pre; during LT: DFS preorder number; Go zero value 0)
\*   sdom, parent, anc       block -> block or 0      (ltState)
\*   order    sequence of blocks in DFS preorder      (preorder[], 0-based in Go: order[i+1])
\*   idom     block -> block or 0                     (domInfo.idom)
\*   buckets  0..n-1 -> block                         (indexed by preorder number)
\*   crash    a nil pointer would have been dereferenced

RECURSIVE LTDfs(_, _, _), LTDfsSuccs(_, _, _, _)
\* func (lt *ltState) dfs(v, i, preorder): i is Len(st.order)
LTDfs(G, v, st) ==
  LET st1 == [st EXCEPT !.pre[v] = Len(st.order),        \* v.dom.pre = i
                        !.order = Append(st.order, v),   \* preorder[i] = v; i++
                        !.sdom[v] = v,                   \* lt.sdom[v.Index] = v
                        !.anc[v] = 0]                    \* lt.link(nil, v)
  IN  LTDfsSuccs(G, v, 1, st1)
LTDfsSuccs(G, v, j, st) ==
  IF j > Len(G.succs[v]) THEN st
  ELSE LET w == G.succs[v][j] IN
       IF st.sdom[w] = 0
         THEN LTDfsSuccs(G, v, j + 1, LTDfs(G, w, [st EXCEPT !.parent[w] = v]))
         ELSE LTDfsSuccs(G, v, j + 1, st)

\* func (lt *ltState) eval(v): no path compression
RECURSIVE LTEvalLoop(_, _, _)
LTEvalLoop(st, v, u) ==
  IF st.anc[v] = 0 THEN u
  ELSE LTEvalLoop(st, st.anc[v],
                  IF st.pre[st.sdom[v]] < st.pre[st.sdom[u]] THEN v ELSE u)
LTEval(st, v) == LTEvalLoop(st, v, v)

\* Step 3 inside the loop: for v := buckets[i]; v != w; v = buckets[v.dom.pre]
RECURSIVE LTStep3(_, _, _, _)
LTStep3(st, w, i, v) ==
  IF v = w \/ st.crash THEN st
  ELSE LET u == LTEval(st, v) IN
       IF st.sdom[u] = 0 THEN [st EXCEPT !.crash = TRUE]
       ELSE LTStep3([st EXCEPT !.idom[v] = IF st.pre[st.sdom[u]] < i THEN u ELSE w],
                    w, i, st.buckets[st.pre[v]])

\* Step 2: for _, v := range w.Preds
RECURSIVE LTStep2(_, _, _)
LTStep2(st, w, P) ==
  IF P = {} \/ st.crash THEN st
  ELSE LET v == CHOOSE x \in P : TRUE
           u == LTEval(st, v)
       IN  IF st.sdom[u] = 0 \/ st.sdom[w] = 0 THEN [st EXCEPT !.crash = TRUE]
           ELSE LTStep2(IF st.pre[st.sdom[u]] < st.pre[st.sdom[w]]
                          THEN [st EXCEPT !.sdom[w] = st.sdom[u]] ELSE st,
                        w, P \ {v})

\* for i := n-1; i > 0; i--
RECURSIVE LTLoop(_, _, _)
LTLoop(G, st, i) ==
  IF i <= 0 \/ st.crash THEN st
  ELSE
    LET w   == st.order[i + 1]
        s3  == LTStep3(st, w, i, st.buckets[i])
        s2a == [s3 EXCEPT !.sdom[w] = s3.parent[w]]
        s2  == LTStep2(s2a, w, LTPreds(G, w))
        sl  == [s2 EXCEPT !.anc[w] = s2.parent[w]]                 \* lt.link(parent, w)
        sb  == IF sl.parent[w] = sl.sdom[w]
                 THEN [sl EXCEPT !.idom[w] = sl.parent[w]]
               ELSE IF sl.sdom[w] = 0 THEN [sl EXCEPT !.crash = TRUE]
               ELSE LET k == sl.pre[sl.sdom[w]] IN
                    [sl EXCEPT !.buckets = [ @ EXCEPT ![i] = sl.buckets[k], ![k] = w ]]
    IN  LTLoop(G, sb, i - 1)

\* the final step 3: for v := buckets[0]; v != root; v = buckets[v.dom.pre] { v.idom = root }
RECURSIVE LTFinal3(_, _)
LTFinal3(st, v) ==
  IF v = 1 THEN st ELSE LTFinal3([st EXCEPT !.idom[v] = 1], st.buckets[st.pre[v]])

\* Step 4: for _, w := range preorder[1:]
RECURSIVE LTStep4(_, _, _, _)
LTStep4(G, st, ch, j) ==
  IF j > Len(st.order) \/ st.crash THEN [st |-> st, ch |-> ch]
  ELSE LET w == st.order[j] IN
       IF w = 1 \/ w = G.recover
         THEN LTStep4(G, [st EXCEPT !.idom[w] = 0], ch, j + 1)
       ELSE IF st.idom[w] = 0 THEN [st |-> [st EXCEPT !.crash = TRUE], ch |-> ch]
       ELSE LET d  == IF st.idom[w] # st.sdom[w] THEN st.idom[st.idom[w]] ELSE st.idom[w]
            IN  IF d = 0 THEN [st |-> [st EXCEPT !.crash = TRUE], ch |-> ch]
                ELSE LTStep4(G, [st EXCEPT !.idom[w] = d], [ch EXCEPT ![d] = Append(@, w)], j + 1)

\* numberDomTree(v, pre, post) over nm = [pre, post, pren, postn, ch]
RECURSIVE LTNumber(_, _), LTNumberKids(_, _, _)
LTNumber(v, nm) ==
  LET a == [nm EXCEPT !.pren[v] = nm.pre, !.pre = nm.pre + 1]
      b == LTNumberKids(v, 1, a)
  IN  [b EXCEPT !.postn[v] = b.post, !.post = b.post + 1]
LTNumberKids(v, j, nm) ==
  IF j > Len(nm.ch[v]) THEN nm ELSE LTNumberKids(v, j + 1, LTNumber(nm.ch[v][j], nm))

RECURSIVE SetToSeq(_)
SetToSeq(S) == IF S = {} THEN <<>> ELSE LET x == CHOOSE y \in S : TRUE IN <<x>> \o SetToSeq(S \ {x})

\* The vertices whose immediate dominator step 3 left implicit ("deferred": idom # sdom before step 4), and among
\* them those whose placeholder is itself deferred.  Step 4 resolves a deferred vertex by reading the idom of its
\* placeholder, so on such a chain the order in which step 4 visits the vertices matters (preorder: ancestors
\* first).  Used by the generator to aim at graphs on which that order is observable.
LTDeferralChains(G) ==
  LET N   == Nodes(G)
      z   == [ b \in N |-> 0 ]
      st0 == [ pre |-> z, sdom |-> z, parent |-> z, anc |-> z, order |-> <<>>, idom |-> z,
               buckets |-> [ k \in 0..(G.n - 1) |-> 0 ], crash |-> FALSE ]
      d1  == LTDfs(G, 1, st0)
      d2  == IF G.recover # 0 THEN LTDfs(G, G.recover, d1) ELSE d1
      d3  == [d2 EXCEPT !.buckets = [ k \in 0..(G.n - 1) |-> d2.order[k + 1] ]]
      lp  == LTLoop(G, d3, G.n - 1)
      f3  == IF lp.crash THEN lp ELSE LTFinal3(lp, lp.buckets[0])
      Def == { w \in N : w # 1 /\ w # G.recover /\ f3.idom[w] # 0 /\ f3.idom[w] # f3.sdom[w] }
  IN  IF Len(d2.order) # G.n \/ f3.crash THEN {} ELSE { w \in Def : f3.idom[w] \in Def }

\* buildDomTree(fn) followed by reading every answer through the public accessors
LTAnswers(G) ==
  LET N   == Nodes(G)
      z   == [ b \in N |-> 0 ]
      st0 == [ pre |-> z, sdom |-> z, parent |-> z, anc |-> z, order |-> <<>>, idom |-> z,
               buckets |-> [ k \in 0..(G.n - 1) |-> 0 ], crash |-> FALSE ]
      d1  == LTDfs(G, 1, st0)                                          \* Step 1
      d2  == IF G.recover # 0 THEN LTDfs(G, G.recover, d1) ELSE d1
      reachedAll == Len(d2.order) = G.n                                \* precondition
      d3  == [d2 EXCEPT !.buckets = [ k \in 0..(G.n - 1) |-> d2.order[k + 1] ]]   \* copy(buckets, preorder)
      lp  == LTLoop(G, d3, G.n - 1)
      f3  == IF lp.crash THEN lp ELSE LTFinal3(lp, lp.buckets[0])
      s4  == LTStep4(G, f3, [ b \in N |-> <<>> ], 2)
      nm0 == [ pre |-> 0, post |-> 0, pren |-> z, postn |-> z, ch |-> s4.ch ]
      nm1 == LTNumber(1, nm0)
      nm2 == IF G.recover # 0 THEN LTNumber(G.recover, nm1) ELSE nm1
      dompairs == { p \in N \X N : nm2.pren[p[1]] <= nm2.pren[p[2]] /\ nm2.postn[p[2]] <= nm2.postn[p[1]] }
  IN  IF ~reachedAll \/ s4.st.crash
        THEN [ n |-> G.n, succs |-> G.succs, recover |-> G.recover, crash |-> TRUE,
               dom |-> <<>>, idom |-> <<>>, dominees |-> <<>>, preorder |-> <<>>, postorder |-> <<>> ]
        ELSE [ n |-> G.n, succs |-> G.succs, recover |-> G.recover, crash |-> FALSE,
               dom       |-> SetToSeq(dompairs),
               idom      |-> [ b \in N |-> s4.st.idom[b] ],
               dominees  |-> [ b \in N |-> s4.ch[b] ],
               \* sort.Slice by dom.pre / dom.post (numbers are distinct when all blocks are in a tree)
               preorder  |-> [ k \in 1..G.n |-> CHOOSE b \in N : nm2.pren[b] = k - 1 ],
               postorder |-> [ k \in 1..G.n |-> CHOOSE b \in N : nm2.postn[b] = k - 1 ] ]
=============================================================================
