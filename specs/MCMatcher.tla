----------------------------- MODULE MCMatcher -----------------------------
(* Model constants for Matcher.tla: pattern and tree families (quick tier). *)
EXTENDS MCMatcherBase

\* ---------------------------------------------------------------- trees
E0 == { TId(i) : i \in Idents }

E1 == E0 \cup BinOver(E0) \cup CallOver(E0, E0, 1)                       \* 2 + 4 + 6
\* sub-expressions used below the root in the quick tree family
SubQ == E0 \cup { TBin(TId("a"), TId("b")), TCall(TId("a"), <<TId("b")>>) }
\* a few trees with the other operator (token-valued bindings)
MinusQ == { TBinO("-", a, b) : a \in E0, b \in E0 }
            \cup { TBinO(o1, TBinO(o2, TId("a"), TId("b")), TBinO(o3, TId("a"), TId("b"))) : o1 \in {"+", "-"}, o2 \in {"+", "-"}, o3 \in {"+", "-"} }
\* a few calls with three arguments (family O: lists of length three)
Call3Q == { TCall(TId("a"), <<x, y, z>>) : x \in E0, y \in E0, z \in E0 }
TreesQuick == E1 \cup BinOver(SubQ) \cup CallOver(E0, SubQ, 2) \cup MinusQ \cup Call3Q

\* ---------------------------------------------------------------- patterns

\* leaves: _, x, y, (Ident "a"), (Ident "b")
Leaf == {PAny} \cup { Ref(n) : n \in MCNames } \cup { PId(PStr(i)) : i \in Idents }
\* one more level of the binding-relevant constructors
Grow(S) == S \cup { Bind(n, s) : n \in MCNames, s \in S }
             \cup { Not(s) : s \in S }
             \cup { Or2(a, b) : a \in S, b \in S }
             \cup { PBin(a, b) : a \in S, b \in S }
A1 == Grow(Leaf)
\* quick cut of family A (all patterns of depth <= 2 over the leaves, MCMatcherFull): binary
\* constructors with one child of depth <= 1 and one leaf
FamAq == Good(A1 \cup { Bind(n, s) : n \in MCNames, s \in A1 } \cup { Not(s) : s \in A1 }
              \cup { Or2(a, b) : a \in A1, b \in Leaf } \cup { Or2(a, b) : a \in Leaf, b \in A1 }
              \cup { PBin(a, b) : a \in A1, b \in Leaf } \cup { PBin(a, b) : a \in Leaf, b \in A1 })

\* family S: names bound to strings, (Ident x) / (Ident x@(Or "a" "b")) / recall of a string
StrP == {PAny} \cup { PStr(i) : i \in Idents } \cup { Ref(n) : n \in MCNames }
          \cup { Bind(n, Or2(PStr("a"), PStr("b"))) : n \in MCNames }
          \cup { Or2(PStr("a"), Ref("x")), Or2(Ref("x"), PStr("b")), Not(PStr("a")), Not(Ref("x")) }
IdS == { PId(s) : s \in StrP }
FamS == Good(IdS \cup { PBin(a, b) : a \in IdS \cup {Ref("x")}, b \in IdS \cup {Ref("x")} }
               \cup { Or2(PBin(a, PId(PStr("b"))), b) : a \in IdS, b \in IdS }
               \cup { Not(PBin(a, b)) : a \in IdS, b \in IdS })

\* family T: names bound to tokens, (BinaryExpr _ op _) / op@(Or "+" "-") / recall of a token
OpP  == {PStr("+"), PStr("-"), PAny} \cup { Ref(n) : n \in MCNames }
          \cup { Bind(n, Or2(PStr("+"), PStr("-"))) : n \in MCNames }
          \cup { Or2(PStr("-"), Ref("x")), Not(PStr("+")), Not(Ref("x")) }
OpPo == {PStr("+"), PAny, Ref("x"), Ref("y"), Bind("x", Or2(PStr("+"), PStr("-"))), Not(Ref("x"))}
InnerT == {PAny, Ref("x")} \cup { PBinO(PAny, o, PAny) : o \in OpP }
FamT == Good({ PBinO(a, o, b) : a \in InnerT, o \in OpPo, b \in InnerT }
              \cup { Or2(PBinO(a, o, PId(PStr("b"))), b) : a \in InnerT, o \in {PStr("+"), Ref("x"), Bind("x", PAny)}, b \in {PAny, Ref("x"), PBinO(PAny, Ref("x"), PAny)} }
              \cup { Not(PBinO(a, PAny, b)) : a \in InnerT, b \in InnerT })

\* family L: lists.  (CallExpr f <list pattern>), alone and under Or / Not
HeadQ == Leaf \cup { Bind(n, s) : n \in MCNames, s \in {PAny, PId(PStr("a"))} }
           \cup { Not(Ref("x")), Not(PId(PStr("a"))), Or2(Bind("x", PId(PStr("a"))), PAny), Or2(Ref("x"), PId(PStr("b"))) }
TailQ == {PAny, PNil} \cup { Ref(n) : n \in MCNames }
           \cup { PCons(h, t) : h \in Leaf, t \in {PAny, PNil, Ref("x")} }
ConsQ == { PCons(h, t) : h \in HeadQ, t \in TailQ }
ListQ == ConsQ \cup {PAny, PNil, Ref("x")} \cup HeadQ
CallL(LS) == { PCall(f, l) : f \in {PAny, Ref("x"), Ref("y")}, l \in LS }
FamLq == Good(CallL(ListQ)
               \cup { Or2(c, s) : c \in CallL(ConsQ), s \in {PAny, Ref("x")} }
               \cup { Not(c) : c \in CallL(ConsQ) })

\* family D: targeted depth 3 -- an Or whose first alternative contains a nested Or / Not that
\* binds and then fails later (what `merge` and `pop` are for), and Nots around such sequences
BindersD == { Bind(n, s) : n \in MCNames, s \in {PAny, PId(PStr("a"))} } \cup { Ref(n) : n \in MCNames }
InnerD   == { Or2(q1, q2) : q1 \in BindersD, q2 \in {PAny, PId(PStr("b")), Ref("y")} }
              \cup { Not(Not(q)) : q \in BindersD } \cup { Not(q) : q \in BindersD }
RestD    == {PAny, PId(PStr("a")), PId(PStr("b"))} \cup { Ref(n) : n \in MCNames }
LastD    == {PAny} \cup { Ref(n) : n \in MCNames } \cup { Bind(n, PAny) : n \in MCNames }
              \cup { PBin(Ref("x"), PAny), PBin(PAny, Ref("x")), PBin(Ref("x"), Ref("y")), PBin(Ref("y"), Ref("x")),
                     PBin(Bind("x", PAny), Bind("y", PAny)) }
SeqD     == { PBin(i, r) : i \in InnerD, r \in RestD } \cup { PBin(r, i) : i \in InnerD, r \in RestD }
FamD == Good({ Or2(s, l) : s \in SeqD, l \in LastD }
              \cup { Not(s) : s \in SeqD }
              \cup { PBin(Not(s), l) : s \in SeqD, l \in {PAny, Ref("x"), Ref("y")} }
              \cup { Or2(Not(s), l) : s \in SeqD, l \in {PAny, Ref("x")} }
              \cup { Or2(Or2(s, l), m) : s \in { PBin(b, r) : b \in BindersD, r \in {PId(PStr("a")), PId(PStr("b"))} },
                                         l \in { PBin(PAny, PId(PStr("b"))), PBin(Ref("y"), PId(PStr("a"))) },
                                         m \in LastD })

\* family O: alternatives that are themselves list patterns, in the argument position of a call, alone and
\* under Not / inside an outer Or.  List.Match evaluates head and tail independently, so a failed
\* alternative may have bound names in its head: exactly what the Or's frame has to undo.
ElemO == {PAny, Ref("x"), Ref("y"), PId(PStr("a"))}
Len1O == { PCons(h, PNil) : h \in ElemO }
Len2O == { PCons(h, t) : h \in ElemO, t \in Len1O }
Len3O == { PCons(Ref("x"), PCons(Ref("x"), PCons(PAny, PNil))), PCons(PAny, PCons(Ref("x"), PCons(Ref("x"), PNil))),
           PCons(Ref("x"), PCons(PAny, PCons(Ref("y"), PNil))) }
ListO == Len1O \cup Len2O \cup Len3O \cup {PCons(Ref("x"), Ref("y")), PCons(Ref("x"), PAny)}
OrO   == { Or2(l1, l2) : l1 \in ListO, l2 \in ListO }
FamO == Good({ PCall(PAny, o) : o \in OrO }
             \cup { PCall(Ref("y"), o) : o \in { Or2(l1, l2) : l1 \in Len2O, l2 \in Len2O } }
             \cup { Not(PCall(PAny, o)) : o \in { Or2(l1, l2) : l1 \in Len2O, l2 \in Len1O \cup Len2O } }
             \cup { Or2(PCall(PAny, o), Ref("x")) : o \in { Or2(l1, l2) : l1 \in Len2O, l2 \in Len2O } })

QuickPats  == SetToSeq(FamAq \cup FamS \cup FamT \cup FamLq \cup FamD \cup FamO)
DPats      == SetToSeq(FamD)
QuickTrees == SetToSeq(TreesQuick)

SpecQuick == GenInit(QuickPats, QuickTrees) /\ [][MatchCall(QuickPats, QuickTrees)]_vars
\* the depth-3 family alone, without emission: used with the deviating modes (self-test)
SpecD     == InitOver(DPats) /\ [][MatchCall(DPats, QuickTrees)]_vars
SpecQuickNoEmit == InitOver(QuickPats) /\ [][MatchCall(QuickPats, QuickTrees)]_vars
=============================================================================
