\* report mode: never false; prints CASE lines for failed conjuncts
SPECIFICATION Spec
INVARIANT Report
CHECK_DEADLOCK FALSE
