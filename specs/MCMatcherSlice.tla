-------------------------- MODULE MCMatcherSlice ---------------------------
(* Family N (quick tier): absent optional children.  Slice patterns         *)
(* (SliceExpr x lo hi max) against slice trees with every combination of    *)
(* present / absent Low and High (and a few three-index slices): a name     *)
(* that meets an absent child is bound to Absent, later occurrences recall  *)
(* and compare it (Absent equals Absent only); the same under Or / Not /    *)
(* Binding, across two slices of one BinaryExpr and across nested slices.   *)
EXTENDS MCMatcherBase

Ta == TId("a")
Tb == TId("b")
Tab == TBin(Ta, Tb)
Pa == PId(PStr("a"))
Pb == PId(PStr("b"))

\* ---------------------------------------------------------------- trees
OptTQ   == {Absent, Ta, Tb}
Slice2Q == { TSlice(Ta, lo, hi, Absent) : lo \in OptTQ, hi \in OptTQ }                  \* a[:], a[a:], a[:b], ... (9)
Slice3Q == { TSlice(Ta, lo, hi, mx) : lo \in {Absent, Ta}, hi \in {Ta, Tb}, mx \in {Ta, Tb} }   \* a[:a:b], ... (8)
SliceXQ == { TSlice(Tb, Absent, Ta, Absent), TSlice(Tab, Ta, Absent, Absent),
             TSlice(Ta, Absent, Tab, Absent), TSlice(Ta, Tab, Tab, Absent) }
InnerTQ == { TSlice(Ta, Absent, Tb, Absent), TSlice(Ta, Tb, Absent, Absent) }
NestTQ  == { TSlice(s, lo, hi, Absent) : s \in InnerTQ, lo \in {Absent, Tb}, hi \in {Absent, Tb} }       \* a[:b][b:], ... (8)
PairTQ  == LET S4 == { TSlice(Ta, lo, hi, Absent) : lo \in {Absent, Tb}, hi \in {Absent, Tb} } IN
           { TBin(s1, s2) : s1 \in S4, s2 \in S4 }                                      \* a[:b] + a[b:], ... (16)
OtherTQ == { Ta, Tab, TCall(Ta, <<TSlice(Ta, Absent, Tb, Absent)>>) }
SliceTreeSetQ == Slice2Q \cup Slice3Q \cup SliceXQ \cup NestTQ \cup PairTQ \cup OtherTQ

\* ---------------------------------------------------------------- patterns
\* what stands for an optional child
OptPQ == {PAny, PNull, Pa} \cup { Ref(n) : n \in MCNames } \cup { Bind(n, PAny) : n \in MCNames }
           \cup { Bind("x", Or2(PNull, Pa)), Bind("x", Not(Pa)),
                  Not(Ref("x")), Not(PNull), Or2(Ref("x"), Pb), Or2(PNull, Ref("x")) }
\* both bounds over everything that can stand for an optional child
N1q == { PSlice(PAny, lo, hi, PAny) : lo \in OptPQ, hi \in OptPQ }
\* all four children
Few == {PAny, PNull, Ref("x")}
N2q == { PSlice(a, lo, hi, mx) : a \in {Ref("x"), Pa}, lo \in Few, hi \in Few, mx \in Few \cup {Ref("y")} }
\* slices that bind a name in Low (possibly to Absent) and go on to High; wrapped in Or / Not / Binding / BinaryExpr
CoreQ == { PSlice(PAny, lo, hi, PAny) : lo \in {Ref("x"), Bind("x", PAny), Or2(PNull, Ref("x")), PNull},
                                        hi \in {Ref("x"), Ref("y"), PAny, Pa, PNull} }
N3q == UNION { { Or2(s, Ref("x")), Or2(s, PAny), Or2(s, PSlice(PAny, Ref("y"), Ref("x"), PAny)),
                 Or2(s, PSlice(PAny, PAny, Ref("x"), Ref("x"))),
                 Not(s), Not(Not(s)), Bind("y", s), PBin(s, Ref("x")) } : s \in CoreQ }
\* a name across the two slices of a BinaryExpr, and across a slice and the slice it slices
Cross == {PAny, Ref("x"), Ref("y")}
N4q == { PBin(PSlice(PAny, f, g, PAny), PSlice(PAny, f2, g2, PAny)) : f \in Cross, g \in Cross, f2 \in Cross, g2 \in Cross }
N5q == { PSlice(PSlice(PAny, f, g, PAny), f2, g2, PAny) : f \in Cross, g \in Cross, f2 \in Cross, g2 \in Cross }
N6q == { PCall(PAny, PCons(PSlice(PAny, f, g, PAny), PNil)) : f \in {Ref("x"), PAny}, g \in {Ref("x"), Pb} }
\* list and string patterns where an optional child stands: they fail on Absent (List.Match: "our empty list does not
\* equal an untyped Go nil"; String.Match: default case) and on a tree, alone and under Or / Not / Binding
NoNode == { PNil, PCons(PAny, PAny), PCons(Ref("x"), PNil), PStr("a") }
N7q == { PSlice(PAny, o, hi, PAny) : o \in NoNode \cup { Or2(l, Ref("x")) : l \in NoNode } \cup { Not(l) : l \in NoNode }
                                              \cup { Bind("x", Not(l)) : l \in NoNode },
                                     hi \in {PAny, Ref("x")} }
       \cup { PSlice(PAny, Ref("x"), o, PAny) : o \in NoNode \cup { Or2(l, Ref("x")) : l \in NoNode } \cup { Not(l) : l \in NoNode } }
FamNq == Good(N1q \cup N2q \cup N3q \cup N4q \cup N5q \cup N6q \cup N7q)

SlicePats  == SetToSeq(FamNq)
SliceTrees == SetToSeq(SliceTreeSetQ)

SpecSlice == GenInit(SlicePats, SliceTrees) /\ [][MatchCall(SlicePats, SliceTrees)]_vars
\* without emission: used with the deviating NilMode (self-test)
SpecSliceNoEmit == InitOver(SlicePats) /\ [][MatchCall(SlicePats, SliceTrees)]_vars
=============================================================================
