\* negative control: DeletionSafe must be violated by some singleton (the bracket is not vacuous)
SPECIFICATION Spec
CONSTANTS
  MaxObj = 2
  MaxEdge = 2
  MaxIface = 2
  KindSeq <- MCAllKinds
  RelSeq <- MCAllRels
  Build = FALSE
  SeedGraphs <- MCSeedsSmall
  Eager = FALSE
  ExKinds <- MCAllKindSet
  ThinFrom = 99
  ThinMod = 1
  Seed = 1
  NeedRoot = FALSE
CONSTRAINT Thin
INVARIANTS NegSingletonsSafe
CHECK_DEADLOCK FALSE
