------------------------------ MODULE Versions ------------------------------
(***************************************************************************)
(* Property C20: a problem that a check restricts to a range of Go         *)
(* language or standard-library versions is reported exactly when the      *)
(* effective version of the file lies in that range.                       *)
(*                                                                         *)
(* Model of  analysis/report/report.go  (MinimumLanguageVersion,           *)
(* MaximumLanguageVersion, MinimumStdlibVersion, MaximumStdlibVersion,     *)
(* Report),  analysis/code/code.go (LanguageVersion, StdlibVersion),       *)
(* go/loader/loader.go (types.Config.GoVersion from the module or -go),    *)
(* lintcmd/cmd.go (versionFlag).                                           *)
(*                                                                         *)
(* Versions are minor numbers N of "go1.N".  0 encodes "absent" for a file *)
(* constraint and "module" for the -go flag (uniform kinds for TLC).       *)
(*                                                                         *)
(* A configuration is what the user controls:                              *)
(*    m    the `go 1.m` directive of go.mod                                *)
(*    tag  the `//go:build go1.tag` line of the file (0 = none)            *)
(*    g    `-go 1.g` (0 = `-go module`, the default)                       *)
(* The state is one configuration; the actions are the edits a user can    *)
(* make to it (bump go.mod, add / change / drop the build constraint, pass *)
(* another -go).  The documented meaning (website: "Targeting Go           *)
(* versions", release notes 2024.1 "Improved handling of Go versions",     *)
(* and the comments of code.LanguageVersion / code.StdlibVersion):         *)
(*                                                                         *)
(*  Base    the targeted version: -go if given ("will override any         *)
(*          module-based version selection"), else the module's directive. *)
(*  Lang    the file's own version if it has a constraint, else Base.      *)
(*          The toolchain (go/types since Go 1.21) never lets a file       *)
(*          constraint select a language older than go1.21: the file's     *)
(*          version is max(tag, go1.21).  That floor is the environment's  *)
(*          rule, named FileFloor here and validated against the real      *)
(*          compiler by the check (feature-gated programs).                *)
(*  Stdlib  Base without a constraint; with one: the constraint if the     *)
(*          target is older than go1.21 ("a file tagged lower than the     *)
(*          module version couldn't expect to have access to the standard  *)
(*          library of the version set in go.mod" and a higher one can use *)
(*          the newer library), else max(Base, tag) ("even files           *)
(*          specifying an older version will have access to the standard   *)
(*          library of the minimum version").                              *)
(*  Reported(kind, t)  the version on the bound's axis is >= t (minimum)    *)
(*          resp. <= t (maximum).                                          *)
(***************************************************************************)
EXTENDS Integers, FiniteSets, Sequences, TLC, Json

CONSTANTS
  ModVers,      \* set of module go versions (minor numbers)
  Tags,         \* set of file constraints; 0 = no constraint
  GoFlags,      \* set of -go values; 0 = "module"
  Thresholds    \* set of bound thresholds t

VARIABLES cfg    \* [m, tag, g]

vars == <<cfg>>

Kinds == {"minlang", "maxlang", "minstd", "maxstd"}

FileFloor == 21     \* go/types: a //go:build go1.N line selects max(N, 21)
NewSemantics == 21  \* from go1.21 on the go directive is a minimum toolchain version

Max(a, b) == IF a >= b THEN a ELSE b

Configs == [m : ModVers, tag : Tags, g : GoFlags]

Base(c)   == IF c.g = 0 THEN c.m ELSE c.g
Lang(c)   == IF c.tag = 0 THEN Base(c) ELSE Max(c.tag, FileFloor)
Stdlib(c) == IF c.tag = 0 THEN Base(c)
             ELSE IF Base(c) < NewSemantics THEN c.tag
             ELSE Max(c.tag, Base(c))

Axis(kind, c) == IF kind \in {"minlang", "maxlang"} THEN Lang(c) ELSE Stdlib(c)

Reported(kind, t, c) ==
  IF kind \in {"minlang", "minstd"} THEN Axis(kind, c) >= t ELSE Axis(kind, c) <= t

-----------------------------------------------------------------------------
(* Transition system: the user's edits.                                    *)
Init == cfg \in Configs

BumpModule  == \E m \in ModVers : m # cfg.m /\ cfg' = [cfg EXCEPT !.m = m]
EditTag     == \E f \in Tags    : f # cfg.tag /\ cfg' = [cfg EXCEPT !.tag = f]
PassGoFlag  == \E g \in GoFlags : g # cfg.g /\ cfg' = [cfg EXCEPT !.g = g]

Next == BumpModule \/ EditTag \/ PassGoFlag
Spec == Init /\ [][Next]_vars

-----------------------------------------------------------------------------
(* Laws of the oracle (checked by TLC in every configuration).             *)

TypeOK == cfg \in Configs

\* a bound is a half line: exactly the thresholds up to (from) the axis value are reported
HalfLines ==
  \A t \in Thresholds :
    /\ Reported("minlang", t, cfg) <=> t <= Lang(cfg)
    /\ Reported("maxlang", t, cfg) <=> t >= Lang(cfg)
    /\ Reported("minstd",  t, cfg) <=> t <= Stdlib(cfg)
    /\ Reported("maxstd",  t, cfg) <=> t >= Stdlib(cfg)

\* minimum and maximum partition the thresholds: "min t+1" is the complement of "max t"
MinMaxComplement ==
  \A t \in Thresholds : (t + 1) \in Thresholds =>
    /\ Reported("minlang", t + 1, cfg) <=> ~Reported("maxlang", t, cfg)
    /\ Reported("minstd",  t + 1, cfg) <=> ~Reported("maxstd",  t, cfg)

\* min bounds are downward closed, max bounds upward closed
Monotone ==
  \A t, u \in Thresholds : t <= u =>
    /\ Reported("minlang", u, cfg) => Reported("minlang", t, cfg)
    /\ Reported("minstd",  u, cfg) => Reported("minstd",  t, cfg)
    /\ Reported("maxlang", t, cfg) => Reported("maxlang", u, cfg)
    /\ Reported("maxstd",  t, cfg) => Reported("maxstd",  u, cfg)

\* without constraint and flag both axes are the module's directive
PlainModule ==
  (cfg.tag = 0 /\ cfg.g = 0) => (Lang(cfg) = cfg.m /\ Stdlib(cfg) = cfg.m)

\* -go overrides the module: with -go given, nothing depends on go.mod
GoFlagOverrides ==
  cfg.g # 0 => \A m \in ModVers :
     /\ Lang([cfg EXCEPT !.m = m]) = Lang(cfg)
     /\ Stdlib([cfg EXCEPT !.m = m]) = Stdlib(cfg)

\* a constraint fixes the file's language version whatever the target is
TagFixesLanguage ==
  cfg.tag # 0 => \A m \in ModVers, g \in GoFlags :
     Lang([cfg EXCEPT !.m = m, !.g = g]) = Max(cfg.tag, FileFloor)

\* new semantics: the library is never older than the target, and never older than the language
NewSemanticsStdlib ==
  Base(cfg) >= NewSemantics => (Stdlib(cfg) >= Base(cfg) /\ Stdlib(cfg) >= Lang(cfg))

\* old semantics: a constrained file gets exactly the library it names
OldSemanticsStdlib ==
  (Base(cfg) < NewSemantics /\ cfg.tag # 0) => Stdlib(cfg) = cfg.tag

\* action law: raising the target (module directive or -go) or the constraint never
\* lowers either axis, hence never retracts a minimum-bounded problem and never adds a
\* maximum-bounded one
RaiseNeverLowers ==
  [][ ( /\ Base(cfg') >= Base(cfg)
        /\ (cfg.tag = 0 <=> cfg'.tag = 0)
        /\ cfg'.tag >= cfg.tag )
      => ( /\ Lang(cfg') >= Lang(cfg)
           /\ Stdlib(cfg') >= Stdlib(cfg)
           /\ \A t \in Thresholds :
                /\ Reported("minlang", t, cfg) => Reported("minlang", t, cfg')
                /\ Reported("minstd",  t, cfg) => Reported("minstd",  t, cfg')
                /\ Reported("maxlang", t, cfg') => Reported("maxlang", t, cfg)
                /\ Reported("maxstd",  t, cfg') => Reported("maxstd",  t, cfg) ) ]_vars

-----------------------------------------------------------------------------
(* The documentation's worked examples (validated at start-up).            *)
C(m, tag, g) == [m |-> m, tag |-> tag, g |-> g]
DocExamples ==
  \* 2024.1: "In a module that requires Go 1.22, a file specifying Go 1.21 will
  \* experience the old loop variable semantics, and vice versa."
  /\ Lang(C(22, 21, 0)) = 21
  /\ Lang(C(21, 22, 0)) = 22
  \* "even files specifying an older version will have access to the standard library of
  \* the minimum version"
  /\ Stdlib(C(22, 21, 0)) = 22
  \* code.StdlibVersion: "in a 1.22 module with a file tagged as 1.17, the file can expect to
  \* have access to 1.22's standard library (but not to 1.22 language features)"
  /\ Stdlib(C(22, 17, 0)) = 22 /\ Lang(C(22, 17, 0)) < 22
  \* code.StdlibVersion, module older than 1.21: a lower tag restricts the library, a higher
  \* tag grants the newer one
  /\ Stdlib(C(20, 19, 0)) = 19
  /\ Stdlib(C(19, 20, 0)) = 20
  \* CLI docs: "`staticcheck -go 1.0 ./...` will only make suggestions that work with Go 1.0";
  \* S1005's `for range` suggestion "only applies to Go 1.4 and later"
  /\ ~Reported("minlang", 4, C(22, 0, 3))
  /\ Reported("minlang", 4, C(17, 0, 0))
ASSUME DocExamples

-----------------------------------------------------------------------------
(* Case emission for the replay: one case per configuration with the       *)
(* expected axis values and, per bound kind, the set of thresholds at      *)
(* which the probe must be reported.                                       *)
Emit ==
  PrintT("CASE " \o ToJson(
    [ m |-> cfg.m, tag |-> cfg.tag, g |-> cfg.g,
      lang |-> Lang(cfg), std |-> Stdlib(cfg),
      minlang |-> { t \in Thresholds : Reported("minlang", t, cfg) },
      maxlang |-> { t \in Thresholds : Reported("maxlang", t, cfg) },
      minstd  |-> { t \in Thresholds : Reported("minstd",  t, cfg) },
      maxstd  |-> { t \in Thresholds : Reported("maxstd",  t, cfg) } ]))
=============================================================================
