\* exhaustive + generation: every sequence of <= 3 runs; laws of C12 on the oracle; CASE emission
SPECIFICATION Spec
CONSTANTS
  Files <- MCFiles
  D <- MCD
  NameSeq <- MCNames
  MaxRuns = 3
INVARIANTS OrderIndependent RepeatIdempotent AnnotationExact AnySemantics AllSemantics Emit
PROPERTY AnyMonotone
CHECK_DEADLOCK FALSE
