------------------------------- MODULE IRSem -------------------------------
(***************************************************************************)
(* The IR of honnef.co/go/tools/go/ir as a transition system.              *)
(*                                                                         *)
(* Every instruction kind of the executable fragment is given the meaning  *)
(* stated in the doc comments of go/ir/ssa.go (quoted next to each rule).  *)
(* The program text is NOT modelled: it is the real IR, built by the real  *)
(* builder at check time and exported through the public API by            *)
(* harness/cmd/h-irsem (export.go) as JSON: Doc.progs[p].fns[f].blocks[b]  *)
(* .instrs[i] = [op, r, args, sub, n, m, aux, tags, cs, txt].              *)
(*                                                                         *)
(* State: call stack of frames, heap, the sequence `out` of observable     *)
(* effects (calls of extern emit* functions with their arguments), status. *)
(* One TLC behaviour = one execution of one function on one input vector   *)
(* (Doc.runs[run]); map iteration order is the only nondeterminism.        *)
(*                                                                         *)
(* Uses: C01 (trace validation of native executions, Validate = TRUE),     *)
(*       C15 (NilnessSound at every normal Return, see IRSemNil).          *)
(*                                                                         *)
(* Runtime values are records of ONE shape (TLC cannot compare values of   *)
(* different kinds):                                                       *)
(*   k  kind   int bool str ptr slice iface func map struct array tuple    *)
(*             iter dstk chan undef | heap-only: mapobj iterobj chanobj     *)
(*   i  int value / 0,1 / heap address (0 = nil) / function index (0 = nil)*)
(*   a,b,c     slice offset, length, capacity                              *)
(*   t  dynamic type tag of an interface value ("" = nil interface)        *)
(*   p  ints: sub-object path of a pointer / slice base, bytes of a string *)
(*   e  values: fields, elements, tuple components, interface payload,     *)
(*      closure bindings, map entries <<key, value>>                       *)
(***************************************************************************)
EXTENDS Integers, Sequences, FiniteSets, TLC, Json

CONSTANTS MaxSteps,   \* bound on the number of steps of one execution (non-termination guard)
          InputFile   \* JSON document {progs, runs, validate}

Doc   == JsonDeserialize(InputFile)
Progs == Doc.progs
Runs  == Doc.runs
Validate == Doc.validate = 1

VARIABLES run,    \* index into Runs (constant along a behaviour)
          stk,    \* call stack, top = last
          heap,   \* sequence of cells; address = index; 1..Len(globals) are the package-level variables
          out,    \* observable effects so far
          st,     \* [s, why, res]: s \in {"run","done","panic","reject","unsup","stuck"}
          steps
vars == <<run, stk, heap, out, st, steps>>

-----------------------------------------------------------------------------
(* Values *)
V0 == [k |-> "undef", i |-> 0, a |-> 0, b |-> 0, c |-> 0, t |-> "", p |-> <<>>, e |-> <<>>]
Mk(k)      == [V0 EXCEPT !.k = k]
Undef      == V0
IntV(n)    == [V0 EXCEPT !.k = "int", !.i = n]
BoolV(x)   == [V0 EXCEPT !.k = "bool", !.i = IF x THEN 1 ELSE 0]
StrV(bs)   == [V0 EXCEPT !.k = "str", !.p = bs]
PtrV(ad, path) == [V0 EXCEPT !.k = "ptr", !.i = ad, !.p = path]
TupV(es)   == [V0 EXCEPT !.k = "tuple", !.e = es]
SliceV(ad, path, off, len, cap) == [V0 EXCEPT !.k = "slice", !.i = ad, !.p = path, !.a = off, !.b = len, !.c = cap]
NilSlice   == Mk("slice")
NilIface   == Mk("iface")
IfaceV(tag, v) == [V0 EXCEPT !.k = "iface", !.t = tag, !.e = <<v>>]
(* evaluation failures are values too, so that evaluators stay total *)
PanicX(why) == [V0 EXCEPT !.k = "!panic", !.t = why]    \* a run-time panic (runtime.Error)
UnsupX(why) == [V0 EXCEPT !.k = "!unsup", !.t = why]    \* outside the modelled fragment
StuckX(why) == [V0 EXCEPT !.k = "!stuck", !.t = why]    \* ill-formed IR reached (e.g. undefined register)
IsX(v) == v.k \in {"!panic", "!unsup", "!stuck"}
RtErrTag == "runtime.Error"
RtErr(why) == IfaceV(RtErrTag, [V0 EXCEPT !.k = "rterr", !.t = why])

Abs(x) == IF x < 0 THEN -x ELSE x
Min(x, y) == IF x < y THEN x ELSE y
Max(x, y) == IF x < y THEN y ELSE x
Big == 1073741824  \* 2^30: TLC integers are 32-bit; larger magnitudes are outside the fragment

RECURSIVE Pow2(_)
Pow2(n) == IF n <= 0 THEN 1 ELSE 2 * Pow2(n - 1)

(* integer conversion / wrap-around to a sized type ("between real numeric types", Convert) *)
Wrap(x, bits, signed) ==
  IF bits >= 32 THEN
       IF Abs(x) >= Big THEN UnsupX("integer beyond 2^30")
       ELSE IF signed = 0 /\ x < 0 THEN UnsupX("negative value of a 32/64-bit unsigned type")
       ELSE IntV(x)
  ELSE LET m == Pow2(bits)
           r == x % m            \* TLA+ %: result in 0..m-1
       IN IF signed = 1 /\ r >= m \div 2 THEN IntV(r - m) ELSE IntV(r)

(* bitwise operators on unbounded two's complement *)
RECURSIVE AndNN(_, _), OrNN(_, _), XorNN(_, _)
AndNN(x, y) == IF x = 0 \/ y = 0 THEN 0 ELSE (x % 2) * (y % 2) + 2 * AndNN(x \div 2, y \div 2)
OrNN(x, y)  == IF x = 0 THEN y ELSE IF y = 0 THEN x ELSE Max(x % 2, y % 2) + 2 * OrNN(x \div 2, y \div 2)
XorNN(x, y) == IF x = 0 THEN y ELSE IF y = 0 THEN x ELSE ((x + y) % 2) + 2 * XorNN(x \div 2, y \div 2)
Not2(x) == (0 - x) - 1
And2(x, y) == IF x >= 0 /\ y >= 0 THEN AndNN(x, y)
              ELSE IF x >= 0 THEN x - AndNN(x, Not2(y))
              ELSE IF y >= 0 THEN y - AndNN(y, Not2(x))
              ELSE Not2(OrNN(Not2(x), Not2(y)))
Or2(x, y)  == Not2(And2(Not2(x), Not2(y)))
Xor2(x, y) == IF (x >= 0) = (y >= 0) THEN XorNN(IF x >= 0 THEN x ELSE Not2(x), IF y >= 0 THEN y ELSE Not2(y))
              ELSE Not2(XorNN(IF x >= 0 THEN x ELSE Not2(x), IF y >= 0 THEN y ELSE Not2(y)))

(* Go integer division truncates toward zero; the remainder has the sign of the dividend *)
QuoT(x, y) == LET q == Abs(x) \div Abs(y) IN IF (x < 0) = (y < 0) THEN q ELSE 0 - q
RemT(x, y) == x - QuoT(x, y) * y

RECURSIVE SeqLess(_, _)
SeqLess(s, t) == IF t = <<>> THEN FALSE
                 ELSE IF s = <<>> THEN TRUE
                 ELSE IF Head(s) # Head(t) THEN Head(s) < Head(t)
                 ELSE SeqLess(Tail(s), Tail(t))

(* UTF-8 *)
Cont(bs, j) == j <= Len(bs) /\ bs[j] >= 128 /\ bs[j] < 192
DecodeRune(bs, pos) ==   \* pos: 1-based index of the first byte; result <<rune, width>>
  LET b0 == bs[pos] IN
  IF b0 < 128 THEN <<b0, 1>>
  ELSE IF b0 >= 194 /\ b0 < 224 /\ Cont(bs, pos + 1) THEN <<(b0 - 192) * 64 + (bs[pos + 1] - 128), 2>>
  ELSE IF b0 >= 224 /\ b0 < 240 /\ Cont(bs, pos + 1) /\ Cont(bs, pos + 2)
          /\ (b0 # 224 \/ bs[pos + 1] >= 160) /\ (b0 # 237 \/ bs[pos + 1] < 160)
       THEN <<(b0 - 224) * 4096 + (bs[pos + 1] - 128) * 64 + (bs[pos + 2] - 128), 3>>
  ELSE IF b0 >= 240 /\ b0 < 245 /\ Cont(bs, pos + 1) /\ Cont(bs, pos + 2) /\ Cont(bs, pos + 3)
          /\ (b0 # 240 \/ bs[pos + 1] >= 144) /\ (b0 # 244 \/ bs[pos + 1] < 144)
       THEN <<(b0 - 240) * 262144 + (bs[pos + 1] - 128) * 4096 + (bs[pos + 2] - 128) * 64 + (bs[pos + 3] - 128), 4>>
  ELSE <<65533, 1>>
EncodeRune(r0) ==
  LET r == IF r0 < 0 \/ r0 > 1114111 \/ (r0 >= 55296 /\ r0 < 57344) THEN 65533 ELSE r0 IN
  IF r < 128 THEN <<r>>
  ELSE IF r < 2048 THEN <<192 + (r \div 64), 128 + (r % 64)>>
  ELSE IF r < 65536 THEN <<224 + (r \div 4096), 128 + ((r \div 64) % 64), 128 + (r % 64)>>
  ELSE <<240 + (r \div 262144), 128 + ((r \div 4096) % 64), 128 + ((r \div 64) % 64), 128 + (r % 64)>>
RECURSIVE DecodeAll(_, _), EncodeAll(_)
DecodeAll(bs, pos) == IF pos > Len(bs) THEN <<>>
                      ELSE LET d == DecodeRune(bs, pos) IN <<d[1]>> \o DecodeAll(bs, pos + d[2])
EncodeAll(rs) == IF rs = <<>> THEN <<>> ELSE EncodeRune(Head(rs)) \o EncodeAll(Tail(rs))

-----------------------------------------------------------------------------
(* Sub-objects: a pointer is (cell address, path); aggregates hold their parts in .e *)
RECURSIVE GetPath(_, _), SetPath(_, _, _), PathOK(_, _)
PathOK(v, path) == IF path = <<>> THEN TRUE
                   ELSE Head(path) >= 1 /\ Head(path) <= Len(v.e) /\ PathOK(v.e[Head(path)], Tail(path))
GetPath(v, path) == IF path = <<>> THEN v ELSE GetPath(v.e[Head(path)], Tail(path))
SetPath(v, path, nv) == IF path = <<>> THEN nv
                        ELSE [v EXCEPT !.e[Head(path)] = SetPath(v.e[Head(path)], Tail(path), nv)]

-----------------------------------------------------------------------------
(* The functional state S = [stk, heap, out, st]; every rule maps S to S *)
P(S)     == Progs[Runs[run].p]
Top(S)   == S.stk[Len(S.stk)]
FnOf(S)  == P(S).fns[Top(S).f]
CurI(S)  == FnOf(S).blocks[Top(S).b].instrs[Top(S).pc]
SetTop(S, fr) == [S EXCEPT !.stk[Len(S.stk)] = fr]

Halt(S, s, why, res) == [S EXCEPT !.st = [s |-> s, why |-> why, res |-> res]]
Stuck(S, why) == Halt(S, "stuck", why, <<>>)
Unsup(S, why) == Halt(S, "unsup", why, <<>>)

Val(S, r) == IF r.k = "r" THEN Top(S).regs[r.i] ELSE r.v
Arg(S, j) == Val(S, CurI(S).args[j])
ArgsFrom(S, j) == [x \in 1..(Len(CurI(S).args) - j + 1) |-> Val(S, CurI(S).args[x + j - 1])]

Adv(S) == SetTop(S, [Top(S) EXCEPT !.pc = @ + 1])
SetReg(S, v) == LET I == CurI(S) IN
                IF I.r = 0 THEN S ELSE SetTop(S, [Top(S) EXCEPT !.regs[I.r] = v])

(* A panic starts in the top frame: "functions to be called by a RunDefers instruction or by a panic" *)
Raise(S, v) == SetTop(S, [Top(S) EXCEPT !.pan = 1, !.pv = v, !.dm = IF @ = "" THEN "pn" ELSE @])

(* Finish a value-defining instruction with the result of an evaluator *)
Fin(S, v) == CASE v.k = "!panic" -> Raise(S, RtErr(v.t))
               [] v.k = "!unsup" -> Unsup(S, v.t)
               [] v.k = "!stuck" -> Stuck(S, v.t)
               [] OTHER -> Adv(SetReg(S, v))

Alloc(S, v) == [S EXCEPT !.heap = Append(@, v)]     \* the new address is Len(S.heap) + 1
NewAddr(S) == Len(S.heap) + 1

Frame(fnidx, fn, args, binds, kind) ==
  [f |-> fnidx, b |-> 1, pb |-> 0, pc |-> 1,
   regs |-> [j \in 1..fn.nregs |->
               IF j <= Len(fn.params) THEN args[j]
               ELSE IF j <= Len(fn.params) + Len(fn.freevars) THEN binds[j - Len(fn.params)]
               ELSE Undef],
   defers |-> <<>>, pan |-> 0, pv |-> Undef, dm |-> "", kind |-> kind]

IsPrefix(s, t) == Len(s) <= Len(t) /\ s = SubSeq(t, 1, Len(s))

(* A call of an extern emit* function is an observable effect *)
Emit(S, name, args) ==
  LET o == Append(S.out, [f |-> name, a |-> args]) IN
  IF Validate /\ ~IsPrefix(o, Runs[run].out)
    THEN Halt([S EXCEPT !.out = o], "reject", "effect differs from the native run", <<>>)
    ELSE [S EXCEPT !.out = o]

-----------------------------------------------------------------------------
(* Memory *)
ReadPtr(S, ptr) ==
  IF ptr.k # "ptr" THEN StuckX("load/store through a non-pointer")
  ELSE IF ptr.i = 0 THEN PanicX("nil pointer dereference")
  ELSE IF ptr.i > Len(S.heap) \/ ~PathOK(S.heap[ptr.i], ptr.p) THEN StuckX("dangling pointer")
  ELSE GetPath(S.heap[ptr.i], ptr.p)
WritePtr(S, ptr, v) == [S EXCEPT !.heap[ptr.i] = SetPath(@, ptr.p, v)]

SliceElems(S, s) ==   \* the elements s[0..len-1]
  IF s.i = 0 THEN <<>>
  ELSE LET arr == GetPath(S.heap[s.i], s.p) IN [j \in 1..s.b |-> arr.e[s.a + j]]
RECURSIVE WriteElems(_, _, _, _)
WriteElems(S, s, from, vs) ==   \* store vs at s[from], s[from+1], ... (0-based, within capacity)
  IF vs = <<>> THEN S
  ELSE WriteElems(WritePtr(S, PtrV(s.i, s.p \o <<s.a + from + 1>>), Head(vs)), s, from + 1, Tail(vs))

(* Map objects: heap cell with .e = <<TupV(<<key, value>>), ...>> *)
MapFind(m, key) == LET js == {j \in 1..Len(m.e) : m.e[j].e[1] = key} IN
                   IF js = {} THEN 0 ELSE CHOOSE j \in js : TRUE
DropAt(s, j) == SubSeq(s, 1, j - 1) \o SubSeq(s, j + 1, Len(s))

-----------------------------------------------------------------------------
(* BinOp: "yields the result of binary operation X Op Y" *)
ArithGuard(x, y) == Abs(x) < Big /\ Abs(y) < Big
BinInt(op, x, y, bits, signed) ==
  CASE op = "+" -> IF ArithGuard(x, y) THEN Wrap(x + y, bits, signed) ELSE UnsupX("integer beyond 2^30")
    [] op = "-" -> IF ArithGuard(x, y) THEN Wrap(x - y, bits, signed) ELSE UnsupX("integer beyond 2^30")
    [] op = "*" -> IF Abs(x) <= 32767 /\ Abs(y) <= 32767 THEN Wrap(x * y, bits, signed) ELSE UnsupX("product beyond 2^30")
    [] op = "/" -> IF y = 0 THEN PanicX("integer divide by zero") ELSE Wrap(QuoT(x, y), bits, signed)
    [] op = "%" -> IF y = 0 THEN PanicX("integer divide by zero") ELSE Wrap(RemT(x, y), bits, signed)
    [] op = "&" -> Wrap(And2(x, y), bits, signed)
    [] op = "|" -> Wrap(Or2(x, y), bits, signed)
    [] op = "^" -> Wrap(Xor2(x, y), bits, signed)
    [] op = "&^" -> Wrap(And2(x, Not2(y)), bits, signed)
    [] op = "<<" -> IF y < 0 THEN PanicX("negative shift amount")
                    ELSE IF x = 0 THEN IntV(0)
                    ELSE IF bits < 32 THEN (IF y >= bits THEN IntV(0) ELSE Wrap(x * Pow2(y), bits, signed))
                    ELSE IF y >= 30 \/ Abs(x) * Pow2(y) >= Big THEN UnsupX("shift result beyond 2^30")
                    ELSE Wrap(x * Pow2(y), bits, signed)
    [] op = ">>" -> IF y < 0 THEN PanicX("negative shift amount")
                    ELSE IF y >= 31 THEN IntV(IF x < 0 THEN 0 - 1 ELSE 0)
                    ELSE IntV(IF x >= 0 THEN x \div Pow2(y) ELSE 0 - ((Abs(x) + Pow2(y) - 1) \div Pow2(y)))
    [] op = "<"  -> BoolV(x < y)
    [] op = "<=" -> BoolV(x <= y)
    [] op = ">"  -> BoolV(x > y)
    [] op = ">=" -> BoolV(x >= y)
    [] OTHER -> StuckX("integer operator " \o op)

BinOp(I, x, y) ==
  IF x.k = "undef" \/ y.k = "undef" THEN StuckX("operand is undefined")
  ELSE IF I.sub = "==" THEN BoolV(x = y)
  ELSE IF I.sub = "!=" THEN BoolV(x # y)
  ELSE IF x.k = "int" /\ y.k = "int" THEN BinInt(I.sub, x.i, y.i, I.n, I.m)
  ELSE IF x.k = "str" /\ y.k = "str" THEN
     CASE I.sub = "+"  -> StrV(x.p \o y.p)
       [] I.sub = "<"  -> BoolV(SeqLess(x.p, y.p))
       [] I.sub = "<=" -> BoolV(~SeqLess(y.p, x.p))
       [] I.sub = ">"  -> BoolV(SeqLess(y.p, x.p))
       [] I.sub = ">=" -> BoolV(~SeqLess(x.p, y.p))
       [] OTHER -> StuckX("string operator " \o I.sub)
  ELSE IF x.k = "bool" /\ y.k = "bool" THEN
     CASE I.sub = "&" -> BoolV(x.i = 1 /\ y.i = 1)
       [] I.sub = "|" -> BoolV(x.i = 1 \/ y.i = 1)
       [] I.sub = "^" -> BoolV(x.i # y.i)
       [] I.sub = "&^" -> BoolV(x.i = 1 /\ y.i = 0)
       [] OTHER -> StuckX("bool operator " \o I.sub)
  ELSE StuckX("binary operator " \o I.sub \o " on " \o x.k \o "," \o y.k)

(* UnOp: "XOR is bitwise complement. SUB is negation. NOT is logical negation." *)
UnOp(I, x) ==
  CASE I.sub = "!" /\ x.k = "bool" -> BoolV(x.i = 0)
    [] I.sub = "-" /\ x.k = "int"  -> Wrap(0 - x.i, I.n, I.m)
    [] I.sub = "^" /\ x.k = "int"  -> Wrap(Not2(x.i), I.n, I.m)
    [] OTHER -> StuckX("unary operator " \o I.sub \o " on " \o x.k)

-----------------------------------------------------------------------------
(* Calls.  "call" mode: Value is a *Function / *MakeClosure / any func value; "invoke" mode: dynamically
   dispatched call to an interface method; builtins are dispatched by name.                            *)
PushCall(S, fv, args, kind) ==
  IF fv.k # "func" THEN Stuck(S, "call of a non-function")
  ELSE IF fv.i = 0 THEN Raise(S, RtErr("call of nil func"))
  ELSE LET fn == P(S).fns[fv.i] IN
    IF fn.extern # 0 THEN
       (IF fn.extern = 1
          THEN LET S1 == Emit(S, fn.name, args) IN
               IF S1.st.s # "run" THEN S1
               ELSE IF kind = "call" THEN Adv(SetReg(S1, TupV(<<>>))) ELSE S1
          ELSE Unsup(S, "call of body-less function " \o fn.name))
    ELSE IF fn.unsup # <<>> THEN Unsup(S, "callee outside the fragment: " \o fn.unsup[1])
    ELSE IF Len(args) # Len(fn.params) \/ Len(fv.e) # Len(fn.freevars) THEN Stuck(S, "arity mismatch calling " \o fn.name)
    ELSE IF Len(S.stk) >= 40 THEN Unsup(S, "call depth")
    ELSE [S EXCEPT !.stk = Append(@, Frame(fv.i, fn, args, fv.e, kind))]

(* invoke: "Value is implicitly supplied to the concrete method implementation as the receiver" *)
Invoke(S, iv, meth, args, kind) ==
  IF iv.k # "iface" THEN Stuck(S, "invoke on a non-interface")
  ELSE IF iv.t = "" THEN Raise(S, RtErr("invoke on nil interface"))
  ELSE IF iv.t \notin DOMAIN P(S).methods THEN Unsup(S, "no method table for " \o iv.t)
  ELSE IF meth \notin DOMAIN P(S).methods[iv.t] THEN Unsup(S, "method " \o meth \o " not in table of " \o iv.t)
  ELSE PushCall(S, [Mk("func") EXCEPT !.i = P(S).methods[iv.t][meth]], <<iv.e[1]>> \o args, kind)

(* Return: "returns values and control back to the calling function"; a Call "yields the function result
   if there is exactly one.  Otherwise it returns a tuple"                                              *)
Pop(S) == [S EXCEPT !.stk = SubSeq(@, 1, Len(@) - 1)]
DoReturn(S, results) ==
  LET F == Top(S)
      S1 == Pop(S)
  IN CASE F.kind = "top"  -> Halt(S1, "done", "", results)
       [] F.kind = "init" ->
            LET R == Runs[run]
                fn == P(S).fns[R.f]
            IN IF fn.unsup # <<>> THEN Unsup(S1, "function outside the fragment: " \o fn.unsup[1])
               ELSE IF fn.extern # 0 THEN Unsup(S1, "function has no body")
               ELSE [S1 EXCEPT !.stk = <<Frame(R.f, fn, R.args, <<>>, "top")>>,
                               \* C15: package-level variables hold arbitrary values when the function is entered
                               !.heap = [a \in 1..Len(S1.heap) |->
                                           LET js == {j \in 1..Len(R.gvals) : R.gvals[j].i = a} IN
                                           IF js = {} THEN S1.heap[a] ELSE R.gvals[CHOOSE j \in js : TRUE].v]]
       [] F.kind = "call" ->
            LET v == IF Len(results) = 1 THEN results[1] ELSE TupV(results) IN Adv(SetReg(S1, v))
       [] F.kind = "defer" -> S1      \* back in the caller's defer loop; results are discarded
       [] OTHER -> Stuck(S, "frame kind")

-----------------------------------------------------------------------------
(* Builtins *)
Recover(S) ==
  \* effective only when called directly by a deferred function while its caller is panicking
  IF Top(S).kind = "defer" /\ Len(S.stk) >= 2 /\ S.stk[Len(S.stk) - 1].pan = 1
    THEN LET C == S.stk[Len(S.stk) - 1] IN
         Adv(SetReg([S EXCEPT !.stk[Len(S.stk) - 1].pan = 0], C.pv))
    ELSE Adv(SetReg(S, NilIface))

LenOf(S, x) == CASE x.k = "slice" -> IntV(x.b)
                 [] x.k = "str" -> IntV(Len(x.p))
                 [] x.k = "map" -> IntV(IF x.i = 0 THEN 0 ELSE Len(S.heap[x.i].e))
                 [] OTHER -> UnsupX("len of " \o x.k)

Append2(S, s, t) ==
  \* append(s, t...): reuses s's array when the capacity suffices (Go spec), otherwise a new array;
  \* the capacity of a grown slice is unspecified in Go: the model allocates exactly the needed length
  LET ts == IF t.k = "str" THEN [j \in 1..Len(t.p) |-> IntV(t.p[j])] ELSE SliceElems(S, t)
      n  == s.b + Len(ts)
  IN IF ts = <<>> THEN Adv(SetReg(S, s))
     ELSE IF n <= s.c THEN Adv(SetReg(WriteElems(S, s, s.b, ts), [s EXCEPT !.b = n]))
     ELSE IF n > 64 THEN Unsup(S, "slice longer than 64")
     ELSE LET S1 == Alloc(S, [Mk("array") EXCEPT !.e = SliceElems(S, s) \o ts])
          IN Adv(SetReg(S1, SliceV(NewAddr(S), <<>>, 0, n, n)))

Builtin(S, I, name, as) ==
  CASE name = "recover" -> Recover(S)
    [] name = "len" -> Fin(S, LenOf(S, as[1]))
    [] name = "cap" -> Fin(S, IF as[1].k = "slice" THEN IntV(as[1].c) ELSE UnsupX("cap of " \o as[1].k))
    [] name = "append" -> Append2(S, as[1], as[2])
    [] name = "copy" ->
         LET src == IF as[2].k = "str" THEN [j \in 1..Len(as[2].p) |-> IntV(as[2].p[j])] ELSE SliceElems(S, as[2])
             n == Min(as[1].b, Len(src))
         IN Adv(SetReg(WriteElems(S, as[1], 0, SubSeq(src, 1, n)), IntV(n)))
    [] name = "delete" ->
         IF as[1].i = 0 THEN Adv(SetReg(S, TupV(<<>>)))
         ELSE LET j == MapFind(S.heap[as[1].i], as[2]) IN
              Adv(SetReg(IF j = 0 THEN S ELSE [S EXCEPT !.heap[as[1].i].e = DropAt(@, j)], TupV(<<>>)))
    [] name = "close" ->
         IF as[1].k # "chan" THEN Unsup(S, "close of " \o as[1].k)
         ELSE IF as[1].i = 0 THEN Raise(S, RtErr("close of nil channel"))
         ELSE IF S.heap[as[1].i].b = 1 THEN Raise(S, RtErr("close of closed channel"))
         ELSE Adv(SetReg([S EXCEPT !.heap[as[1].i].b = 1], TupV(<<>>)))
    [] name = "clear" ->
         IF as[1].k = "map" THEN Adv(SetReg(IF as[1].i = 0 THEN S ELSE [S EXCEPT !.heap[as[1].i].e = <<>>], TupV(<<>>)))
         ELSE IF as[1].k = "slice" THEN Adv(SetReg(WriteElems(S, as[1], 0, [j \in 1..as[1].b |-> I.aux[1]]), TupV(<<>>)))
         ELSE Unsup(S, "clear of " \o as[1].k)
    [] name \in {"min", "max"} ->
         IF \A j \in 1..Len(as) : as[j].k = "int" THEN
            LET xs == {as[j].i : j \in 1..Len(as)} IN
            Fin(S, IntV(IF name = "min" THEN CHOOSE x \in xs : \A y \in xs : x <= y
                                        ELSE CHOOSE x \in xs : \A y \in xs : x >= y))
         ELSE IF \A j \in 1..Len(as) : as[j].k = "str" THEN
            LET xs == {as[j].p : j \in 1..Len(as)} IN
            Fin(S, StrV(IF name = "min" THEN CHOOSE x \in xs : \A y \in xs : ~SeqLess(y, x)
                                        ELSE CHOOSE x \in xs : \A y \in xs : ~SeqLess(x, y)))
         ELSE Unsup(S, name \o " of non-integers")
    [] name = "ssa:deferstack" ->
         \* "produces the defer stack of the current function frame"
         Adv(SetReg(S, [Mk("dstk") EXCEPT !.i = Len(S.stk)]))
    [] name = "ssa:wrapnilchk" ->
         \* "wrapnilchk returns ptr if non-nil, panics otherwise"
         IF as[1].i = 0 THEN Raise(S, RtErr("value method called using nil pointer")) ELSE Adv(SetReg(S, as[1]))
    [] OTHER -> Unsup(S, "builtin " \o name)

DoCall(S, I, kind) ==
  CASE I.sub = "fn" -> PushCall(S, Arg(S, 1), ArgsFrom(S, 2), kind)
    [] I.sub = "invoke" -> Invoke(S, Arg(S, 1), I.tags[1], ArgsFrom(S, 2), kind)
    [] I.sub = "builtin" -> Builtin(S, I, I.tags[1], ArgsFrom(S, 2))
    [] OTHER -> Stuck(S, "call mode")

-----------------------------------------------------------------------------
(* Type tests.  Cond c: k = "c" concrete type tags[1]; "i" interface implemented by the run-time types in
   tags; "n" nil.                                                                                        *)
Matches(x, c) == CASE c.k = "c" -> x.t = c.tags[1]
                   [] c.k = "i" -> x.t # "" /\ \E j \in 1..Len(c.tags) : c.tags[j] = x.t
                   [] OTHER -> x.t = ""

TypeAssert(S, I, x) ==
  \* "If AssertedType is a concrete type, TypeAssert checks whether the dynamic type in interface X is equal
  \*  to it, and if so, the result of the conversion is a copy of the value in the interface.  If AssertedType
  \*  is an interface, ... the result of the conversion is a copy of the interface value X."
  IF x.k # "iface" THEN StuckX("typeassert on " \o x.k)
  ELSE LET c  == I.cs[1]
           ok == Matches(x, c)
           v  == IF ~ok THEN I.aux[1] ELSE IF c.k = "c" THEN x.e[1] ELSE x
       IN IF I.n = 1 THEN TupV(<<v, BoolV(ok)>>)
          ELSE IF ok THEN v ELSE PanicX("interface conversion")

TypeSwitch(S, I, x) ==
  \* (undocumented in ssa.go; builder.go typeSwitchStmt) yields (index of the first matching condition or -1,
  \* one slot per condition, the tag itself)
  IF x.k # "iface" THEN StuckX("typeswitch on " \o x.k)
  ELSE LET hits == {j \in 1..Len(I.cs) : Matches(x, I.cs[j])}
           first == IF hits = {} THEN 0 ELSE CHOOSE j \in hits : \A h \in hits : j <= h
           slot(j) == IF j # first \/ I.cs[j].k = "n" THEN Undef
                      ELSE IF I.tags[j] = "c" THEN x.e[1] ELSE x
       IN TupV(<<IntV(first - 1)>> \o [j \in 1..Len(I.cs) |-> slot(j)] \o <<x>>)

-----------------------------------------------------------------------------
(* Slice: "yields a slice of an existing string, slice or *array X between optional integer bounds" *)
SliceOp(S, I, x, lo0, hi0, mx0) ==
  LET hasLo == (I.n % 2) = 1
      hasHi == ((I.n \div 2) % 2) = 1
      hasMx == ((I.n \div 4) % 2) = 1
      lo == IF hasLo THEN lo0.i ELSE 0
  IN IF I.sub = "str" THEN
        LET hi == IF hasHi THEN hi0.i ELSE Len(x.p) IN
        IF lo < 0 \/ hi < lo \/ hi > Len(x.p) THEN PanicX("slice bounds out of range")
        ELSE StrV(SubSeq(x.p, lo + 1, hi))
     ELSE IF I.sub = "arrptr" /\ x.i = 0 THEN PanicX("nil pointer dereference")   \* "panics if X evaluates to a nil *array pointer"
     ELSE LET s  == IF I.sub = "arrptr" THEN SliceV(x.i, x.p, 0, I.m, I.m) ELSE x
              hi == IF hasHi THEN hi0.i ELSE s.b
              mx == IF hasMx THEN mx0.i ELSE s.c
          IN IF lo < 0 \/ hi < lo \/ mx < hi \/ mx > s.c THEN PanicX("slice bounds out of range")
             ELSE IF s.i = 0 THEN NilSlice
             ELSE [s EXCEPT !.a = s.a + lo, !.b = hi - lo, !.c = mx - lo]

-----------------------------------------------------------------------------
(* One instruction of the top frame.  ch resolves nondeterminism (map iteration order).  *)
Goto(S, j) == LET F == Top(S)
                  succs == FnOf(S).blocks[F.b].succs
              IN IF j < 1 \/ j > Len(succs) THEN Stuck(S, "no such successor")
                 ELSE SetTop(S, [F EXCEPT !.pb = F.b, !.b = succs[j], !.pc = 1])

MapKeysLeft(S, it) ==   \* keys of the iterator snapshot that are still in the map
  LET cell == S.heap[it.i]
      m == S.heap[cell.i]
  IN SelectSeq(cell.e, LAMBDA key : MapFind(m, key) # 0)

Exec(S, ch) ==
  LET I == CurI(S)
      F == Top(S)
  IN
  CASE I.op \in {"debugref", "blankstore"} ->
         \* "pseudo-instruction: it has no dynamic effect"
         Adv(S)
    [] I.op = "alloc" ->
         \* "reserves space for a variable of the given type, zero-initializes it, and yields its address"
         \* (deviation: a local alloc executed again yields a fresh zeroed cell instead of re-zeroing the same
         \*  one; indistinguishable because local allocs do not escape)
         Adv(SetReg(Alloc(S, I.aux[1]), PtrV(NewAddr(S), <<>>)))
    [] I.op = "load" ->
         \* "loads a value from a memory address"
         Fin(S, ReadPtr(S, Arg(S, 1)))
    [] I.op = "store" ->
         \* "stores Val at address Addr"
         LET chk == ReadPtr(S, Arg(S, 1)) IN
         IF IsX(chk) THEN Fin(S, chk)
         ELSE IF Arg(S, 2).k = "undef" THEN Stuck(S, "store of an undefined value")
         ELSE Adv(WritePtr(S, Arg(S, 1), Arg(S, 2)))
    [] I.op = "binop" ->
         LET v == BinOp(I, Arg(S, 1), Arg(S, 2)) IN
         \* C15 (SA4023 corollary): a comparison that a diagnostic calls constant must not take the other value
         IF I.chk # 0 /\ v.k = "bool" /\ ((I.chk = 1 /\ v.i = 1) \/ (I.chk = 2 /\ v.i = 0))
           THEN Halt(S, "chk", "comparison at " \o I.pos \o " takes the value the diagnostic calls impossible", <<>>)
           ELSE Fin(S, v)
    [] I.op = "unop" -> Fin(S, UnOp(I, Arg(S, 1)))
    [] I.op = "phi" ->
         \* "Edges[i] is value for Block().Preds[i]"
         LET preds == FnOf(S).blocks[F.b].preds
             js == {j \in 1..Len(preds) : preds[j] = F.pb}
         IN IF js = {} THEN Stuck(S, "phi: block entered from a non-predecessor")
            ELSE Adv(SetReg(S, Arg(S, CHOOSE j \in js : TRUE)))
    [] I.op = "call" -> DoCall(S, I, "call")
    [] I.op = "defer" ->
         \* "pushes the specified call onto a stack of functions to be called by a RunDefers instruction or by
         \*  a panic.  If DeferStack != nil, it indicates the defer list that the defer is added to."
         LET nargs == Len(I.args) - I.n
             d == [sub |-> I.sub, tag |-> IF I.tags = <<>> THEN "" ELSE I.tags[1],
                   fv |-> Arg(S, 1), args |-> [x \in 1..(nargs - 1) |-> Arg(S, x + 1)]]
             depth == IF I.n = 1 THEN Arg(S, Len(I.args)).i ELSE Len(S.stk)
         IN IF I.n = 1 /\ Arg(S, Len(I.args)).k # "dstk" THEN Stuck(S, "defer: bad defer stack")
            ELSE IF depth < 1 \/ depth > Len(S.stk) THEN Stuck(S, "defer: dead defer stack")
            ELSE Adv([S EXCEPT !.stk[depth].defers = Append(@, d)])
    [] I.op \in {"changetype", "changeinterface"} ->
         \* "value-preserving type change" / "This operation cannot fail."
         Fin(S, Arg(S, 1))
    [] I.op = "convert" ->
         LET x == Arg(S, 1) IN
         CASE I.sub = "int2int" -> Fin(S, Wrap(x.i, I.n, I.m))
           [] I.sub = "str2bytes" ->
                Adv(SetReg(Alloc(S, [Mk("array") EXCEPT !.e = [j \in 1..Len(x.p) |-> IntV(x.p[j])]]),
                           SliceV(NewAddr(S), <<>>, 0, Len(x.p), Len(x.p))))
           [] I.sub = "bytes2str" -> Fin(S, StrV([j \in 1..x.b |-> SliceElems(S, x)[j].i]))
           [] I.sub = "str2runes" ->
                LET rs == DecodeAll(x.p, 1) IN
                Adv(SetReg(Alloc(S, [Mk("array") EXCEPT !.e = [j \in 1..Len(rs) |-> IntV(rs[j])]]),
                           SliceV(NewAddr(S), <<>>, 0, Len(rs), Len(rs))))
           [] I.sub = "runes2str" -> Fin(S, StrV(EncodeAll([j \in 1..x.b |-> SliceElems(S, x)[j].i])))
           [] I.sub = "int2str" -> Fin(S, StrV(EncodeRune(x.i)))
           [] OTHER -> Unsup(S, "convert " \o I.sub)
    [] I.op = "slicetoarray" ->
         LET x == Arg(S, 1) IN
         IF x.b < I.n THEN Raise(S, RtErr("cannot convert slice to array: length"))
         ELSE Fin(S, [Mk("array") EXCEPT !.e = SubSeq(SliceElems(S, x), 1, I.n)])
    [] I.op = "slicetoarrayptr" ->
         \* "can fail dynamically if the length of the slice is less than the length of the array"
         LET x == Arg(S, 1) IN
         IF x.b < I.n THEN Raise(S, RtErr("cannot convert slice to array pointer: length"))
         ELSE IF x.i = 0 THEN Fin(S, PtrV(0, <<>>))
         ELSE IF x.a = 0 /\ Len(GetPath(S.heap[x.i], x.p).e) = I.n THEN Fin(S, PtrV(x.i, x.p))
         ELSE Unsup(S, "array pointer into the middle of an array")
    [] I.op = "makeinterface" ->
         \* "constructs an instance of an interface type from a value of a concrete type"
         Fin(S, IfaceV(I.tags[1], Arg(S, 1)))
    [] I.op = "makeclosure" ->
         \* "a closure value whose code is Fn and whose free variables' values are supplied by Bindings"
         Fin(S, [Arg(S, 1) EXCEPT !.e = ArgsFrom(S, 2)])
    [] I.op = "makemap" ->
         Adv(SetReg(Alloc(S, Mk("mapobj")), [Mk("map") EXCEPT !.i = NewAddr(S)]))
    [] I.op = "makechan" ->
         \* (C15 exports only) "yields a new channel"; heap cell: .c = buffer size, .e = queue, .b = 1 when closed.
         \* One goroutine: an operation that would block forever is outside the fragment.
         LET n == Arg(S, 1).i IN
         IF n < 0 THEN Raise(S, RtErr("makechan: size out of range"))
         ELSE Adv(SetReg(Alloc(S, [Mk("chanobj") EXCEPT !.c = n]), [Mk("chan") EXCEPT !.i = NewAddr(S)]))
    [] I.op = "send" ->
         \* "sends X on channel Chan"
         LET cv == Arg(S, 1) IN
         IF cv.k # "chan" THEN Stuck(S, "send on " \o cv.k)
         ELSE IF cv.i = 0 THEN Unsup(S, "send on a nil channel blocks forever")
         ELSE IF S.heap[cv.i].b = 1 THEN Raise(S, RtErr("send on closed channel"))
         ELSE IF Len(S.heap[cv.i].e) >= S.heap[cv.i].c THEN Unsup(S, "send blocks: no other goroutine")
         ELSE Adv([S EXCEPT !.heap[cv.i].e = Append(@, Arg(S, 2))])
    [] I.op = "recv" ->
         \* "receives from channel Chan.  If CommaOk, the result is a 2-tuple of the value and a boolean indicating
         \*  the success of the receive"; a closed, drained channel yields the zero value
         LET cv == Arg(S, 1) IN
         IF cv.k # "chan" THEN Stuck(S, "receive from " \o cv.k)
         ELSE IF cv.i = 0 THEN Unsup(S, "receive from a nil channel blocks forever")
         ELSE LET cell == S.heap[cv.i] IN
              IF cell.e # <<>> THEN
                 Fin([S EXCEPT !.heap[cv.i].e = Tail(@)],
                     IF I.n = 1 THEN TupV(<<Head(cell.e), BoolV(TRUE)>>) ELSE Head(cell.e))
              ELSE IF cell.b = 1 THEN Fin(S, IF I.n = 1 THEN TupV(<<I.aux[1], BoolV(FALSE)>>) ELSE I.aux[1])
              ELSE Unsup(S, "receive blocks: no other goroutine")
    [] I.op = "makeslice" ->
         \* "yields a slice of length Len backed by a newly allocated array of length Cap"
         LET n == Arg(S, 1).i
             c == Arg(S, 2).i
         IN IF n < 0 \/ c < n THEN Raise(S, RtErr("makeslice: len out of range"))
            ELSE IF c > 64 THEN Unsup(S, "slice longer than 64")
            ELSE Adv(SetReg(Alloc(S, [Mk("array") EXCEPT !.e = [j \in 1..c |-> I.aux[1]]]), SliceV(NewAddr(S), <<>>, 0, n, c)))
    [] I.op = "slice" -> Fin(S, SliceOp(S, I, Arg(S, 1), Arg(S, 2), Arg(S, 3), Arg(S, 4)))
    [] I.op = "fieldaddr" ->
         \* "yields the address of Field of *struct X ... panics if X evaluates to a nil pointer"
         LET x == Arg(S, 1) IN
         IF x.k # "ptr" THEN Stuck(S, "fieldaddr of a non-pointer")
         ELSE IF x.i = 0 THEN Raise(S, RtErr("nil pointer dereference"))
         ELSE Fin(S, PtrV(x.i, x.p \o <<I.n>>))
    [] I.op = "field" ->
         \* "yields the Field of struct X"
         LET x == Arg(S, 1) IN
         IF x.k # "struct" \/ I.n > Len(x.e) THEN Stuck(S, "field of " \o x.k) ELSE Fin(S, x.e[I.n])
    [] I.op = "indexaddr" ->
         \* "yields the address of the element at index Index of collection X ... panics if X evaluates to a
         \*  nil *array pointer"
         LET x == Arg(S, 1)
             j == Arg(S, 2).i
         IN IF I.sub = "slice" THEN
               (IF x.k # "slice" THEN Stuck(S, "indexaddr of " \o x.k)
                ELSE IF j < 0 \/ j >= x.b THEN Raise(S, RtErr("index out of range"))
                ELSE Fin(S, PtrV(x.i, x.p \o <<x.a + j + 1>>)))
            ELSE IF x.k # "ptr" THEN Stuck(S, "indexaddr of " \o x.k)
            ELSE IF x.i = 0 THEN Raise(S, RtErr("nil pointer dereference"))
            ELSE LET arr == ReadPtr(S, x) IN
                 IF IsX(arr) THEN Fin(S, arr)
                 ELSE IF j < 0 \/ j >= Len(arr.e) THEN Raise(S, RtErr("index out of range"))
                 ELSE Fin(S, PtrV(x.i, x.p \o <<j + 1>>))
    [] I.op = "index" ->
         \* "yields element Index of collection X, an array, string ..."
         LET x == Arg(S, 1)
             j == Arg(S, 2).i
         IN IF x.k = "array" THEN (IF j < 0 \/ j >= Len(x.e) THEN Raise(S, RtErr("index out of range")) ELSE Fin(S, x.e[j + 1]))
            ELSE IF x.k = "str" THEN (IF j < 0 \/ j >= Len(x.p) THEN Raise(S, RtErr("index out of range")) ELSE Fin(S, IntV(x.p[j + 1])))
            ELSE Stuck(S, "index of " \o x.k)
    [] I.op = "stringlookup" ->
         \* "yields element Index of collection X, a string"
         LET x == Arg(S, 1)
             j == Arg(S, 2).i
         IN IF x.k # "str" THEN Stuck(S, "stringlookup of " \o x.k)
            ELSE IF j < 0 \/ j >= Len(x.p) THEN Raise(S, RtErr("index out of range"))
            ELSE Fin(S, IntV(x.p[j + 1]))
    [] I.op = "maplookup" ->
         \* "yields element Index of collection X, a map.  If CommaOk, the result is a 2-tuple of the value
         \*  above and a boolean indicating the result of a map membership test for the key."
         LET x == Arg(S, 1)
             j == IF x.i = 0 THEN 0 ELSE MapFind(S.heap[x.i], Arg(S, 2))
             v == IF j = 0 THEN I.aux[1] ELSE S.heap[x.i].e[j].e[2]
         IN IF x.k # "map" THEN Stuck(S, "maplookup of " \o x.k)
            ELSE Fin(S, IF I.n = 1 THEN TupV(<<v, BoolV(j # 0)>>) ELSE v)
    [] I.op = "mapupdate" ->
         \* "updates the association of Map[Key] to Value"
         LET x == Arg(S, 1) IN
         IF x.k # "map" THEN Stuck(S, "mapupdate of " \o x.k)
         ELSE IF x.i = 0 THEN Raise(S, RtErr("assignment to entry in nil map"))
         ELSE LET j == MapFind(S.heap[x.i], Arg(S, 2))
                  ent == TupV(<<Arg(S, 2), Arg(S, 3)>>)
              IN Adv(IF j = 0 THEN [S EXCEPT !.heap[x.i].e = Append(@, ent)]
                              ELSE [S EXCEPT !.heap[x.i].e[j] = ent])
    [] I.op = "range" ->
         \* "yields an iterator over the domain and range of X, which must be a string or map"
         LET x == Arg(S, 1)
             cell == IF x.k = "str" THEN [Mk("iterobj") EXCEPT !.p = x.p, !.i = 0]
                     ELSE [Mk("iterobj") EXCEPT !.i = x.i,
                                                !.e = IF x.i = 0 THEN <<>> ELSE [j \in 1..Len(S.heap[x.i].e) |-> S.heap[x.i].e[j].e[1]]]
         IN IF x.k \notin {"str", "map"} THEN Stuck(S, "range over " \o x.k)
            ELSE Adv(SetReg(Alloc(S, cell), [Mk("iter") EXCEPT !.i = NewAddr(S)]))
    [] I.op = "next" ->
         \* "reads and advances the (map or string) iterator Iter and returns a 3-tuple value (ok, k, v).  If
         \*  the iterator is not exhausted, ok is true and k and v are the next elements of the domain and
         \*  range, respectively.  Otherwise ok is false and k and v are undefined."
         LET it == Arg(S, 1)
             cell == S.heap[it.i]
         IN IF I.n = 1 THEN
               (IF cell.i >= Len(cell.p) THEN Fin(S, TupV(<<BoolV(FALSE), Undef, Undef>>))
                ELSE LET d == DecodeRune(cell.p, cell.i + 1) IN
                     Fin([S EXCEPT !.heap[it.i].i = cell.i + d[2]], TupV(<<BoolV(TRUE), IntV(cell.i), IntV(d[1])>>)))
            ELSE LET left == MapKeysLeft(S, it) IN
                 IF left = <<>> THEN Fin(S, TupV(<<BoolV(FALSE), Undef, Undef>>))
                 ELSE LET key == left[ch]
                          m == S.heap[cell.i]
                      IN Fin([S EXCEPT !.heap[it.i].e = DropAt(left, ch)],
                             TupV(<<BoolV(TRUE), key, m.e[MapFind(m, key)].e[2]>>))
    [] I.op = "typeassert" -> Fin(S, TypeAssert(S, I, Arg(S, 1)))
    [] I.op = "typeswitch" -> Fin(S, TypeSwitch(S, I, Arg(S, 1)))
    [] I.op = "extract" ->
         \* "yields component Index of Tuple"
         LET x == Arg(S, 1) IN
         IF x.k # "tuple" \/ I.n > Len(x.e) THEN Stuck(S, "extract from " \o x.k) ELSE Fin(S, x.e[I.n])
    [] I.op = "compositevalue" ->
         \* "Dense list of values in the composite literal.  Omitted elements are filled in with zero values."
         Fin(S, [Mk(I.sub) EXCEPT !.e = ArgsFrom(S, 1)])
    [] I.op = "jump" ->
         \* "transfers control to the sole successor of its owning block"
         Goto(S, 1)
    [] I.op = "if" ->
         \* "the first if true, the second if false"
         LET cnd == Arg(S, 1) IN
         IF cnd.k # "bool" THEN Stuck(S, "if on " \o cnd.k) ELSE Goto(S, IF cnd.i = 1 THEN 1 ELSE 2)
    [] I.op = "constantswitch" ->
         \* (undocumented) transfers control to the successor of the first condition equal to Tag; a nil
         \* condition is the default branch
         LET tag == Arg(S, 1)
             hits == {j \in 2..Len(I.args) : j - 1 # I.n /\ Arg(S, j) = tag}
         IN IF hits # {} THEN Goto(S, (CHOOSE j \in hits : \A h \in hits : j <= h) - 1)
            ELSE IF I.n # 0 THEN Goto(S, I.n)
            ELSE Stuck(S, "constantswitch: no matching branch and no default")
    [] I.op = "return" ->
         \* "len(Results) is always equal to the number of results in the function's signature"
         DoReturn(S, ArgsFrom(S, 1))
    [] I.op = "rundefers" ->
         \* "pops and invokes the entire stack of procedure calls pushed by Defer instructions in this function"
         SetTop(S, [F EXCEPT !.dm = "rd"])
    [] I.op = "panic" ->
         \* "initiates a panic with value X"
         Raise(S, Arg(S, 1))
    [] I.op = "unreachable" -> Stuck(S, "unreachable instruction executed")
    [] OTHER -> Unsup(S, "instruction " \o I.op)

(* A frame in defer mode: dm = "rd" (RunDefers instruction) or "pn" (panicking) *)
DeferStep(S) ==
  LET F == Top(S) IN
  IF F.defers # <<>> THEN
     LET d == F.defers[Len(F.defers)]
         S1 == SetTop(S, [F EXCEPT !.defers = SubSeq(@, 1, Len(@) - 1)])
     IN CASE d.sub = "fn" -> PushCall(S1, d.fv, d.args, "defer")
          [] d.sub = "invoke" -> Invoke(S1, d.fv, d.tag, d.args, "defer")
          [] OTHER -> Unsup(S, "deferred builtin " \o d.tag)
  ELSE IF F.dm = "rd" THEN
     (IF F.pan = 1 THEN SetTop(S, [F EXCEPT !.dm = "pn"])      \* a deferred call panicked and nobody recovered
      ELSE SetTop(S, [F EXCEPT !.dm = "", !.pc = @ + 1]))
  ELSE IF F.pan = 1 THEN
     \* still panicking after all deferred calls: the panic continues in the caller
     (IF F.kind \in {"top", "init"} THEN Halt(Pop(S), "panic", "", <<F.pv>>)
      ELSE LET S1 == Pop(S)
               C == Top(S1)
           IN SetTop(S1, [C EXCEPT !.pan = 1, !.pv = F.pv, !.dm = IF @ = "" THEN "pn" ELSE @]))
  ELSE
     \* recovered: "Recover is an optional second entry point to which control resumes after a recovered panic"
     LET fn == FnOf(S) IN
     IF fn.recover = 0 THEN DoReturn(SetTop(S, [F EXCEPT !.dm = ""]), fn.zerores)
     ELSE SetTop(S, [F EXCEPT !.dm = "", !.pb = F.b, !.b = fn.recover, !.pc = 1])

NChoices(S) ==
  IF Top(S).dm # "" THEN 1
  ELSE LET I == CurI(S) IN
       IF I.op = "next" /\ I.n = 0 /\ Val(S, I.args[1]).k = "iter"
         THEN Max(1, Len(MapKeysLeft(S, Val(S, I.args[1]))))
         ELSE 1

Step(S, ch) ==
  LET F == Top(S) IN
  IF F.dm # "" THEN DeferStep(S)
  ELSE IF F.b < 1 \/ F.b > Len(FnOf(S).blocks) \/ F.pc > Len(FnOf(S).blocks[F.b].instrs)
    THEN Stuck(S, "fell off the end of a block")
  ELSE Exec(S, ch)

-----------------------------------------------------------------------------
Cur == [stk |-> stk, heap |-> heap, out |-> out, st |-> st]

InitFrames(r) ==
  LET pr == Progs[Runs[r].p]
      fn == pr.fns[Runs[r].f]
  IN IF pr.init # 0 THEN <<Frame(pr.init, pr.fns[pr.init], <<>>, <<>>, "init")>>
     ELSE <<Frame(Runs[r].f, fn, Runs[r].args, <<>>, "top")>>

Init ==
  /\ run \in 1..Len(Runs)
  /\ stk = InitFrames(run)
  /\ heap = [j \in 1..Len(Progs[Runs[run].p].globals) |-> Progs[Runs[run].p].globals[j].zero] \o Runs[run].cells
  /\ out = <<>>
  /\ st = [s |-> "run", why |-> "", res |-> <<>>]
  /\ steps = 0

Next ==
  /\ st.s = "run"
  /\ \E ch \in 1..NChoices(Cur) :
       LET n == IF steps >= MaxSteps THEN Halt(Cur, "unsup", "step limit", <<>>) ELSE Step(Cur, ch) IN
       /\ stk' = n.stk /\ heap' = n.heap /\ out' = n.out /\ st' = n.st
  /\ steps' = steps + 1
  /\ UNCHANGED run

Spec == Init /\ [][Next]_vars

-----------------------------------------------------------------------------
(* C01: acceptance of the recorded native run *)
PanicClass(v) == IF v.k = "iface" /\ v.t \in {"int", "string", "bool"} THEN v
                 ELSE IF v.k = "iface" /\ v.t = RtErrTag THEN [Mk("iface") EXCEPT !.t = RtErrTag]
                 ELSE [Mk("iface") EXCEPT !.t = "other"]

Accepted ==
  LET R == Runs[run] IN
  /\ out = R.out
  /\ \/ st.s = "done" /\ R.panic = 0 /\ st.res = R.res
     \/ st.s = "panic" /\ R.panic = 1 /\ PanicClass(st.res[1]) = R.pv

Verdict == IF st.s \in {"done", "panic"} THEN (IF ~Validate \/ Accepted THEN "accept" ELSE "reject") ELSE st.s

(* Terminal states report themselves; the check reads these lines *)
Report ==
  st.s = "run" \/
  PrintT("CASE " \o ToJson([run |-> run, v |-> Verdict, s |-> st.s, why |-> st.why, steps |-> steps,
                            nout |-> Len(out),
                            out |-> IF Verdict = "accept" /\ Validate THEN <<>> ELSE out,
                            res |-> IF Verdict = "accept" /\ Validate THEN <<>> ELSE
                                    IF st.s = "panic" THEN <<PanicClass(st.res[1])>> ELSE st.res,
                            at |-> IF st.s \in {"stuck", "unsup", "reject"} /\ stk # <<>>
                                     THEN Progs[Runs[run].p].fns[stk[Len(stk)].f].name ELSE ""]))
=============================================================================
