\* quick: multiway switches: <= 3 nodes, at most one node with out-degree 3
SPECIFICATION Spec
CONSTANTS
  MaxNodes = 3
  Degs = {0, 1, 2, 3}
  MaxSwitch = 1
  RecDegs = {0}
  RecMax = 9
  MaxRecNodes = 1
  EmitCases = TRUE
  DesignMax = 3
INVARIANTS DefinitionOK LTCorrect Emit
CHECK_DEADLOCK FALSE
