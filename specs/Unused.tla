------------------------------- MODULE Unused -------------------------------
(***************************************************************************)
(* Model of what U1000 (unused/unused.go, lintcmd/lint.go) talks about:    *)
(* a package as a declaration/reference graph.                             *)
(*                                                                         *)
(*  Part 1  vocabulary: objects [k, ex, ow, sl, ty] and body references    *)
(*          [r, a, b, c]; the Go rendering of every element is fixed by    *)
(*          checks/unused_gen.py (one template per kind / relation).       *)
(*  Part 2  the two rule-independent brackets of property C07:             *)
(*          MustReport (zero-reference unexported package-level objects)   *)
(*          and DeletionSafe(D) under the deletion operator of DESIGN C07  *)
(*          (declared-inside closure; pure writes to removed variables are *)
(*          neutralised); BracketsConsistent says the property is          *)
(*          satisfiable on every graph.                                    *)
(*  Part 3  a rule model of the use/own graph (the documented rule list    *)
(*          1.1 - 12.1 restricted to the vocabulary) - auxiliary: it gives *)
(*          the construction machine its content; verdicts about the code  *)
(*          never depend on it (C17's binding is metamorphic).             *)
(*  Part 4  two state machines over the same variables:                    *)
(*          Build = FALSE: graph generation (objects, then references, in  *)
(*             canonical order = symmetry by kind); every state is a graph *)
(*             and is emitted as a CASE line;                              *)
(*          Build = TRUE : the construction of unused.graph for a seed     *)
(*             graph: top-level declarations are processed in an arbitrary *)
(*             order and split over <= 3 files (graph.entry's loop over    *)
(*             files/decls: edges accumulate, named types and interfaces   *)
(*             are collected), then the method-set pass runs over          *)
(*             (type, interface) pairs in arbitrary order (Go map          *)
(*             iteration of allInterfaces), then reachability colouring,   *)
(*             then one reference may be added from a used object, and     *)
(*             lintcmd's merge over package variants is evaluated.         *)
(*          Properties (C17): Confluence, Monotone, VariantRule.           *)
(***************************************************************************)
EXTENDS Integers, Sequences, FiniteSets, TLC, Json

CONSTANTS
  MaxObj,      \* generation: max number of objects
  MaxEdge,     \* generation: max number of body references
  MaxIface,    \* generation: max number of interfaces
  KindSeq,     \* enabled kinds, in canonical order
  RelSeq,      \* enabled relations, in canonical order
  Build,       \* FALSE: generation machine; TRUE: construction machine
  SeedGraphs,  \* construction: set of [objs |-> seq, edges |-> seq]
  Eager,       \* negative control: method sets processed at declaration time
  ExKinds,     \* generation: kinds that may carry the exported flag
  ThinFrom,    \* generation: graphs with at least this many elements are sub-sampled ...
  ThinMod,     \* ... keeping about one in ThinMod (1 = keep all), chosen by
  Seed,        \* ... a hash of the graph and this seed
  NeedRoot     \* generation: the first object is an exported function (a used root)

VARIABLES
  objs,   \* sequence of object records
  edges,  \* sequence of reference records (strictly increasing rank)
  phase,  \* "gen" | "decl" | "ms" | "done"
  order,  \* construction: sequence of [u |-> unit, f |-> file]
  use,    \* construction: accumulated use edges <<from, to>>, 0 = root
  ifs,    \* construction: interfaces seen so far (graph.interfaceTypes)
  todo,   \* construction: pending method-set work <<type, iface>> (iface 0 = exported methods)
  extra   \* construction: the added reference <<u, x>> or <<>>

vars == <<objs, edges, phase, order, use, ifs, todo, extra>>

-----------------------------------------------------------------------------
(* Part 1: vocabulary                                                      *)

AllKinds == <<"func", "struct", "named", "iface", "alias", "methv", "methp",
              "field", "embed", "var", "const", "cgm", "tparam">>
AllRels  == <<"call", "read", "write", "conv", "sconv", "assign", "mval",
              "inst", "retfn", "lit", "psel">>

KIdx(k) == CHOOSE i \in 1..Len(AllKinds) : AllKinds[i] = k
RIdx(r) == CHOOSE i \in 1..Len(AllRels) : AllRels[i] = r
SeqSet(s) == { s[i] : i \in 1..Len(s) }

B(x) == IF x THEN 1 ELSE 0
Idx(O) == 1..Len(O)

IsType(o)     == o.k \in {"struct", "named", "iface", "alias"}
IsConcrete(o) == o.k \in {"struct", "named"}
IsMethod(o)   == o.k \in {"methv", "methp"}
IsHolder(o)   == o.k \in {"func", "methv", "methp"}
IsInner(o)    == o.k \in {"field", "embed", "tparam"}

Fields(O, s)  == { i \in Idx(O) : O[i].k = "field" /\ O[i].ow = s }
Embeds(O, s)  == { i \in Idx(O) : O[i].k = "embed" /\ O[i].ow = s }
Methods(O, t) == { i \in Idx(O) : IsMethod(O[i]) /\ O[i].ow = t }
TParams(O, x) == { i \in Idx(O) : O[i].k = "tparam" /\ O[i].ow = x }
Generic(O, x) == TParams(O, x) # {}

\* the declared type an alias / embedded field denotes (0 = int)
Res(O, t) == IF t = 0 THEN 0 ELSE IF O[t].k = "alias" THEN O[t].ty ELSE t

SlotSet(n) == CASE n = 1 -> {1} [] n = 2 -> {2} [] n = 3 -> {1, 2} [] OTHER -> {}

None == [d |-> 99, p |-> {}]

\* Member lookup with Go's depth rule, over the alive objects A.
\* isM: method (TRUE) or field (FALSE); (sl, ex) is the name.  Returns the
\* depth and the set of objects on the selection path (embedded fields and
\* the member itself when it is an object).
RECURSIVE Look(_, _, _, _, _, _, _)
Look(O, A, t, isM, sl, ex, fuel) ==
  IF t = 0 THEN None
  ELSE
  LET own ==
        IF O[t].k = "iface"
        THEN IF isM /\ ~ex /\ sl \in SlotSet(O[t].sl) THEN [d |-> 0, p |-> {}] ELSE None
        ELSE LET ms == { m \in (IF isM THEN Methods(O, t) ELSE Fields(O, t)) \cap A :
                          O[m].sl = sl /\ O[m].ex = ex }
             IN IF ms # {} THEN [d |-> 0, p |-> ms] ELSE None
  IN IF own.d = 0 \/ fuel = 0 THEN own
     ELSE
     LET es   == Embeds(O, t) \cap A
         r(e) == Look(O, A, Res(O, O[e].ty), isM, sl, ex, fuel - 1)
         hit  == { e \in es : r(e).d < 99 }
     IN IF hit = {} THEN None
        ELSE LET m    == CHOOSE d \in { r(e).d : e \in hit } : \A e \in hit : d <= r(e).d
                 best == { e \in hit : r(e).d = m }
             IN IF Cardinality(best) = 1
                THEN LET e == CHOOSE x \in best : TRUE
                     IN [d |-> m + 1, p |-> r(e).p \cup {e}]
                ELSE None

Implements(O, A, t, i) ==
  /\ SlotSet(O[i].sl) # {}
  /\ \A s \in SlotSet(O[i].sl) : Look(O, A, t, TRUE, s, FALSE, Len(O)).d < 99

\* identical underlying struct types: field names are determined by (slot, exported),
\* embedded field names by the embedded type
Shape(O, A, s) == [ f |-> { <<O[i].sl, O[i].ex, O[i].ty>> : i \in Fields(O, s) \cap A },
                    e |-> { O[i].ty : i \in Embeds(O, s) \cap A } ]

\* member c of the type embedded by e can be selected on the owner of e at depth 1
Selectable(O, A, e, c) ==
  LET r == Look(O, A, O[e].ow, IsMethod(O[c]), O[c].sl, O[c].ex, Len(O))
  IN r.d = 1 /\ r.p = {e, c}

-----------------------------------------------------------------------------
(* identifier references implied by the rendering: <<declaring object, target>> *)

EdgeRefs(O, e) ==
  CASE e.r \in {"call", "mval"} ->
         {<<e.a, e.b>>} \cup (IF IsMethod(O[e.b]) THEN {<<e.a, O[e.b].ow>>} ELSE {})
    [] e.r \in {"read", "write", "lit"} ->
         {<<e.a, e.b>>} \cup (IF O[e.b].k = "field" THEN {<<e.a, O[e.b].ow>>} ELSE {})
    [] e.r \in {"conv", "inst", "retfn"} -> {<<e.a, e.b>>}
    [] e.r \in {"sconv", "assign"} -> {<<e.a, e.b>>, <<e.a, e.c>>}
    [] e.r = "psel" -> {<<e.a, O[e.b].ow>>, <<e.a, e.c>>}
    [] OTHER -> {}

DeclRefs(O) == { <<i, O[i].ty>> : i \in { j \in Idx(O) : O[j].ty # 0 } }
               \cup { <<m, O[m].ow>> : m \in { j \in Idx(O) : IsMethod(O[j]) } }

Refs(O, E) == DeclRefs(O) \cup UNION { EdgeRefs(O, E[i]) : i \in 1..Len(E) }

\* what a declaration needs in order to compile: its identifier references, except
\* pure writes to variables (neutralised by the deletion operator), plus the
\* embedded field a promoted selection goes through
PureWrite(O, e) == e.r = "write" /\ O[e.b].k = "var"
Needs(O, E) ==
  DeclRefs(O)
  \cup UNION { EdgeRefs(O, E[i]) : i \in { j \in 1..Len(E) : ~PureWrite(O, E[j]) } }
  \cup { <<E[i].a, E[i].b>> : i \in { j \in 1..Len(E) : E[j].r = "psel" } }

-----------------------------------------------------------------------------
(* Part 2: the brackets of C07                                             *)

Referenced(O, E) == { p[2] : p \in Refs(O, E) }

\* unexported package-level func / named type / var / stand-alone const that no
\* identifier refers to (aliases are not "named types": left out on purpose)
MustReport(O, E) ==
  { i \in Idx(O) : /\ O[i].k \in {"func", "struct", "named", "iface", "var", "const"}
                   /\ ~O[i].ex
                   /\ i \notin Referenced(O, E) }

\* objects declared inside D (fields, embedded fields, type parameters, methods)
Inside(O, S) == { i \in Idx(O) : (IsInner(O[i]) \/ IsMethod(O[i])) /\ O[i].ow \in S }
Cl(O, D) == LET c1 == D \cup Inside(O, D) IN c1 \cup Inside(O, c1)

DeletionSafe(O, E, D) ==
  LET C == Cl(O, D)
      A == Idx(O) \ C
      kept(e) == e.a \in A
  IN /\ \A p \in Needs(O, E) : p[2] \in C => p[1] \in C
     \* a type parameter cannot be removed without its owner
     /\ \A i \in C : O[i].k = "tparam" => O[i].ow \in C
     \* retained assignments still have their methods, retained struct conversions
     \* still convert identical types
     /\ \A i \in 1..Len(E) :
          /\ (E[i].r = "assign" /\ kept(E[i])) => Implements(O, A, E[i].b, E[i].c)
          /\ (E[i].r = "sconv" /\ kept(E[i])) => Shape(O, A, E[i].b) = Shape(O, A, E[i].c)

BracketsConsistent(O, E) == DeletionSafe(O, E, MustReport(O, E))

\* Objects that one spec may declare together: `var a, b T` (package-level variables of one
\* declared type) and `a, b T` (fields of one struct with one type).  Refs, Needs, MustReport
\* and DeletionSafe are defined on objects, so the brackets do not depend on how objects are
\* grouped into specs; the conformance step renders every graph with a non-empty ShareSpec
\* both ways (one name per spec / adjacent related objects in one spec) and judges both.
ShareSpec(O) == { p \in Idx(O) \X Idx(O) :
                    /\ p[1] < p[2] /\ O[p[1]].k = O[p[2]].k /\ O[p[1]].ty = O[p[2]].ty
                    /\ \/ O[p[1]].k = "var"
                       \/ O[p[1]].k = "field" /\ O[p[1]].ow = O[p[2]].ow }

-----------------------------------------------------------------------------
(* Part 3: rule model of the use / own graph (root = 0)                    *)

\* top-level declaration units: every non-inner object is its own unit, except that
\* all const-group members form one unit named by the first member
Cgms(O) == { i \in Idx(O) : O[i].k = "cgm" }
FirstCgm(O) == CHOOSE i \in Cgms(O) : \A j \in Cgms(O) : i <= j
Units(O) == { i \in Idx(O) : ~IsInner(O[i]) /\ O[i].k # "cgm" }
            \cup (IF Cgms(O) = {} THEN {} ELSE {FirstCgm(O)})
UnitOf(O, i) == IF O[i].k = "cgm" THEN FirstCgm(O)
                ELSE IF IsInner(O[i]) THEN O[i].ow ELSE i
Members(O, u) == { i \in Idx(O) : UnitOf(O, i) = u }

\* structs reachable from the structs in S through embedded fields (the walk stops at non-structs);
\* a closure instead of a recursion over paths, so that embedding cycles cost nothing
RECURSIVE EmbClosure(_, _)
EmbClosure(O, S) ==
  LET n == S \cup { x \in { Res(O, O[e].ty) : e \in UNION { Embeds(O, s) : s \in S } } :
                      x # 0 /\ O[x].k = "struct" }
  IN IF n = S THEN S ELSE EmbClosure(O, n)

\* (6.5) t or a struct it embeds, recursively, has an exported (embedded) field; `fuel` is kept for
\* the callers and no longer needed
HasExportedField(O, t, fuel) ==
  /\ t # 0
  /\ O[t].k = "struct"
  /\ \E s \in EmbClosure(O, {t}) : \/ \E f \in Fields(O, s) : O[f].ex
                                     \/ \E e \in Embeds(O, s) : O[e].ex

BodyUse(O, e) ==
  CASE e.r = "write" /\ O[e.b].k = "var" -> {}                         \* (9.7)
    [] e.r = "sconv" ->                                                 \* (5.1)
         {<<e.a, e.b>>, <<e.a, e.c>>}
         \cup { <<f, g>> : f \in Fields(O, e.b) \cup Fields(O, e.c),
                           g \in Fields(O, e.b) \cup Fields(O, e.c) }
    [] e.r = "psel" -> {<<e.a, O[e.b].ow>>, <<e.a, e.b>>, <<e.a, e.c>>}
    [] OTHER -> EdgeRefs(O, e)

Ring(S) == { <<i, j>> \in S \X S :
               \/ (i < j /\ ~\E m \in S : i < m /\ m < j)
               \/ (i > j /\ \A m \in S : j <= m /\ m <= i) }

\* use edges contributed by processing one top-level declaration (graph.decl)
DeclUse(O, E, u) ==
  LET M == Members(O, u)
  IN { <<0, i>> : i \in { j \in M : O[j].ex /\ ~IsInner(O[j]) /\ ~IsMethod(O[j]) } }   \* (1.1)-(1.4)
     \cup { <<O[i].ow, i>> : i \in { j \in M : O[j].k = "tparam" } }                     \* (2.5)(4.10)
     \cup { <<O[i].ow, i>> : i \in { j \in M : O[j].k \in {"field", "embed"} /\ O[j].ex } }  \* (6.2)
     \cup { <<O[i].ow, i>> : i \in { j \in M : O[j].k = "embed"
                                               /\ HasExportedField(O, Res(O, O[j].ty), Len(O)) } } \* (6.5)
     \cup { <<i, O[i].ty>> : i \in { j \in M : O[j].ty # 0 } }                           \* (2.2)(7.2)(9.2)
     \cup { <<i, O[i].ow>> : i \in { j \in M : IsMethod(O[j]) } }                        \* (4.1)
     \cup (IF O[u].k = "cgm" THEN Ring(M) ELSE {})                                       \* (10.1)
     \cup UNION { BodyUse(O, E[i]) : i \in { j \in 1..Len(E) : E[j].a = u } }

\* ownership (quieting): struct -> fields, generic -> type parameters
Owns(O) == { <<O[i].ow, i>> : i \in { j \in Idx(O) : IsInner(O[j]) } }

Ifaces(O, U) == { i \in U : O[i].k = "iface" /\ SlotSet(O[i].sl) # {} }
ConcreteTypes(O, U) == { i \in U : IsConcrete(O[i]) }

\* method-set pass for one (type, interface) pair; i = 0: exported methods (2.1)(6.4)
MSUse(O, A, t, i) ==
  IF i = 0
  THEN UNION { { <<t, x>> : x \in Look(O, A, t, TRUE, s, TRUE, Len(O)).p } : s \in {1, 2} }
  ELSE IF Implements(O, A, t, i)                                                         \* (8.2)(6.3)
       THEN UNION { { <<t, x>> : x \in Look(O, A, t, TRUE, s, FALSE, Len(O)).p } : s \in SlotSet(O[i].sl) }
       ELSE {}

\* objects visible in a variant = members of the units it contains
Alive(O, U) == UNION { Members(O, u) : u \in U }

AllUse(O, E, U) ==
  UNION { DeclUse(O, E, u) : u \in U }
  \cup UNION { MSUse(O, Alive(O, U), t, 0) : t \in ConcreteTypes(O, U) }
  \cup UNION { MSUse(O, Alive(O, U), p[1], p[2]) : p \in ConcreteTypes(O, U) \X Ifaces(O, U) }

RECURSIVE ReachFrom(_, _, _)
ReachFrom(S, R, n) ==
  LET nxt == S \cup { p[2] : p \in { q \in R : q[1] \in S } }
  IN IF nxt = S \/ n = 0 THEN S ELSE ReachFrom(nxt, R, n - 1)
UsedSet(O, R) == ReachFrom({0}, R, Len(O) + 1) \ {0}

RECURSIVE QuietFrom(_, _, _)
QuietFrom(S, W, n) ==
  LET nxt == S \cup { p[2] : p \in { q \in W : q[1] \in S } }
  IN IF nxt = S \/ n = 0 THEN S ELSE QuietFrom(nxt, W, n - 1)

\* unused.Result for the objects in A under the use relation R
Status(O, A, R) ==
  LET us == UsedSet(O, R) \cap A
      W  == { p \in Owns(O) : p[1] \in A /\ p[2] \in A }
      q0 == { p[2] : p \in { q \in W : q[1] \notin us } }
      qs == QuietFrom(q0, W, Len(O)) \ us
  IN [ i \in A |-> IF i \in us THEN "used" ELSE IF i \in qs THEN "quiet" ELSE "unused" ]

-----------------------------------------------------------------------------
(* lintcmd/lint.go: merge of unused.Result over package variants.          *)
(* A variant result is [pkg, st] with st a function object -> status; the  *)
(* key of an object is (pkgPath, file base, line, name) - here file and    *)
(* line come from the construction order, the name from the vocabulary.    *)

Name(O, i) ==
  CASE O[i].k \in {"field", "methv", "methp"} -> <<O[i].k, O[i].sl, B(O[i].ex)>>
    [] O[i].k = "embed" -> <<"embed", O[i].ty, 0>>
    [] OTHER -> <<O[i].k, i, 0>>

\* position of an object: (file, line) of its unit plus its offset inside the unit
PosOf(O, ord, i) ==
  LET u == UnitOf(O, i)
      n == CHOOSE m \in 1..Len(ord) : ord[m].u = u
      before == { m \in 1..(n - 1) : ord[m].f = ord[n].f }
      line == 100 * (Cardinality(before) + 1)
              + Cardinality({ j \in Members(O, u) : j < i })
  IN <<ord[n].f, line>>

Key(O, ord, pkg, i) == <<pkg, PosOf(O, ord, i), Name(O, i)>>

\* A keyed variant result is [used |-> set of keys, unused |-> set of keys].
Keyed(O, ord, pkg, st) ==
  [ used   |-> { Key(O, ord, pkg, i) : i \in { j \in DOMAIN st : st[j] = "used" } },
    unused |-> { Key(O, ord, pkg, i) : i \in { j \in DOMAIN st : st[j] = "unused" } } ]

\* the loop in linter.lint, one step per result, over a sequence of keyed results:
\*   used[key] = true for every used object; unused objects are collected and
\*   used[key] = false is recorded only when the key is not present yet;
\*   finally the collected objects whose key is not used are reported
RECURSIVE MergeLoop(_, _, _)
MergeLoop(rs, used, unuseds) ==
  IF rs = <<>> THEN { k \in unuseds : ~used[k] }
  ELSE
  LET r  == Head(rs)
      u1 == [ k \in DOMAIN used \cup r.used |-> IF k \in r.used THEN TRUE ELSE used[k] ]
      u2 == [ k \in DOMAIN u1 \cup r.unused |-> IF k \in DOMAIN u1 THEN u1[k] ELSE FALSE ]
  IN MergeLoop(Tail(rs), u2, unuseds \cup r.unused)

Merged(rs) == MergeLoop(rs, << >>, {})

\* the documented rule: reported iff unused in some variant and used in none
VariantReported(rs) ==
  UNION { rs[n].unused : n \in 1..Len(rs) } \ UNION { rs[n].used : n \in 1..Len(rs) }

Permute(rs, p) == [ i \in 1..Len(rs) |-> rs[p[i]] ]

-----------------------------------------------------------------------------
(* Part 4a: generation machine                                             *)

Lex3LT(s, t) == \/ s[1] < t[1]
                \/ s[1] = t[1] /\ s[2] < t[2]
                \/ s[1] = t[1] /\ s[2] = t[2] /\ s[3] < t[3]

Strict(k) == k \in {"field", "methv", "methp", "embed", "tparam"}
ORank(o) ==
  CASE o.k = "field"  -> <<o.ow, o.sl, 0>>
    [] IsMethod(o)    -> <<o.ow, o.sl, B(o.ex)>>
    [] o.k = "embed"  -> <<o.ow, o.ty, 0>>
    [] o.k = "tparam" -> <<o.ow, 0, 0>>
    [] OTHER          -> <<1 - B(o.ex), o.ty, o.sl>>   \* exported first: an exported root may be followed by anything

Rec(k, ex, ow, sl, ty) == [k |-> k, ex |-> ex, ow |-> ow, sl |-> sl, ty |-> ty]

OfKind(O, ks) == { i \in Idx(O) : O[i].k \in ks }

Cands(O) ==
  LET typs == OfKind(O, {"struct", "named", "iface", "alias"})
      strs == OfKind(O, {"struct"})
  IN   { Rec("struct", x, 0, 0, 0) : x \in BOOLEAN }
  \cup { Rec("named", x, 0, 0, 0) : x \in BOOLEAN }
  \cup (IF Cardinality(OfKind(O, {"iface"})) < MaxIface
        THEN { Rec("iface", x, 0, s, 0) : x \in BOOLEAN, s \in 1..3 } ELSE {})
  \cup { Rec("alias", x, 0, 0, t) : x \in BOOLEAN, t \in {0} \cup OfKind(O, {"struct", "named", "iface"}) }
  \cup { Rec("func", x, 0, 0, 0) : x \in BOOLEAN }
  \cup { r \in { Rec(k, x, t, s, 0) : k \in {"methv", "methp"}, x \in BOOLEAN,
                                       t \in OfKind(O, {"struct", "named"}), s \in 1..2 } :
           ~\E m \in Methods(O, r.ow) : O[m].sl = r.sl /\ O[m].ex = r.ex }
  \cup { r \in { Rec("field", x, s, Cardinality(Fields(O, s)) + 1, t) :
                   x \in BOOLEAN, s \in strs, t \in {0} \cup typs } : r.sl <= 2 }
  \cup { Rec("embed", O[t].ex, s, 0, t) : s \in strs, t \in typs }
  \cup { Rec("var", x, 0, 0, t) : x \in BOOLEAN, t \in {0} \cup typs }
  \cup { Rec("const", x, 0, 0, 0) : x \in BOOLEAN }
  \cup { Rec("cgm", x, 0, 0, 0) : x \in BOOLEAN }
  \cup { Rec("tparam", FALSE, s, 0, 0) : s \in OfKind(O, {"func", "struct"}) }

\* focus hook of the generation configs: a config may restrict the candidates further by
\* overriding this definition (`CandOK <- MCCandEmbed`); the default admits everything
CandOK(O, o) == TRUE

CanAdd(O, o) ==
  /\ o.k \in SeqSet(KindSeq)
  /\ CandOK(O, o)
  /\ (o.ex /\ o.k # "embed") => o.k \in ExKinds
  /\ (NeedRoot /\ Len(O) = 0) => (o.k = "func" /\ o.ex)
  /\ Len(O) < MaxObj
  /\ Len(O) > 0 =>
       LET l == O[Len(O)]
       IN \/ KIdx(l.k) < KIdx(o.k)
          \/ /\ l.k = o.k
             /\ \/ Lex3LT(ORank(l), ORank(o))
                \/ ~Strict(o.k) /\ ORank(l) = ORank(o)

ERec(r, a, b, c) == [r |-> r, a |-> a, b |-> b, c |-> c]
ERank(e) == <<RIdx(e.r), e.a * 64 + e.b, e.c>>

ECands(O) ==
  LET hs == { i \in Idx(O) : IsHolder(O[i]) }
      A  == Idx(O)
  IN   { ERec("call", a, b, 0) : a \in hs, b \in OfKind(O, {"func", "methv", "methp"}) }
  \cup { ERec("read", a, b, 0) : a \in hs, b \in OfKind(O, {"var", "const", "cgm", "field"}) }
  \cup { ERec("write", a, b, 0) : a \in hs, b \in OfKind(O, {"var", "field"}) }
  \cup { ERec("conv", a, b, 0) : a \in hs, b \in OfKind(O, {"struct", "named", "iface", "alias"}) }
  \cup { e \in { ERec("sconv", a, b, c) : a \in hs, b \in OfKind(O, {"struct"}), c \in OfKind(O, {"struct"}) } :
           e.b # e.c /\ Shape(O, A, e.b) = Shape(O, A, e.c) }
  \cup { e \in { ERec("assign", a, b, c) : a \in hs, b \in OfKind(O, {"struct", "named"}), c \in OfKind(O, {"iface"}) } :
           Implements(O, A, e.b, e.c) }
  \cup { ERec("mval", a, b, 0) : a \in hs, b \in OfKind(O, {"methv", "methp"}) }
  \cup { e \in { ERec("inst", a, b, 0) : a \in hs, b \in OfKind(O, {"func", "struct"}) } : Generic(O, e.b) }
  \cup { ERec("retfn", a, b, 0) : a \in hs, b \in OfKind(O, {"func"}) }
  \cup { ERec("lit", a, b, 0) : a \in hs, b \in OfKind(O, {"field"}) }
  \cup { e \in { ERec("psel", a, b, c) : a \in hs, b \in OfKind(O, {"embed"}),
                                          c \in OfKind(O, {"field", "methv", "methp"}) } :
           /\ O[e.c].ow = Res(O, O[e.b].ty)
           /\ Selectable(O, A, e.b, e.c) }

CanAddEdge(O, E, e) ==
  /\ e.r \in SeqSet(RelSeq)
  /\ Len(E) < MaxEdge
  /\ Len(E) > 0 => Lex3LT(ERank(E[Len(E)]), ERank(e))

AddObj(o) ==
  /\ phase = "gen" /\ edges = <<>>
  /\ CanAdd(objs, o)
  /\ objs' = Append(objs, o)
  /\ UNCHANGED <<edges, phase, order, use, ifs, todo, extra>>

AddEdge(e) ==
  /\ phase = "gen"
  /\ CanAddEdge(objs, edges, e)
  /\ edges' = Append(edges, e)
  /\ UNCHANGED <<objs, phase, order, use, ifs, todo, extra>>

\* seeded sub-sampling of the large graphs (a state CONSTRAINT of the generation configs):
\* a graph that is not kept is still emitted and checked but not extended
OCode(o) == KIdx(o.k) + 13 * B(o.ex) + 29 * o.ow + 71 * o.sl + 97 * o.ty
ECode(e) == 7 * RIdx(e.r) + 31 * e.a + 101 * e.b + 211 * e.c
W(n) == (Seed + n) * (Seed + n) + 1
RECURSIVE OSum(_, _)
OSum(s, n) == IF n = 0 THEN 0 ELSE OSum(s, n - 1) + W(n) * OCode(s[n])
RECURSIVE ESum(_, _)
ESum(s, n) == IF n = 0 THEN 0 ELSE ESum(s, n - 1) + W(n + 3) * ECode(s[n])
Hash(O, E) == (OSum(O, Len(O)) * 31 + ESum(E, Len(E)) + 7 * Seed) % 10007
Thin == \/ phase # "gen"
        \/ Len(objs) + Len(edges) < ThinFrom
        \/ Hash(objs, edges) % ThinMod = 0

GenNext == \/ \E o \in Cands(objs) : AddObj(o)
           \/ \E e \in ECands(objs) : AddEdge(e)

-----------------------------------------------------------------------------
(* Part 4b: construction machine                                           *)

Done(ord) == { ord[n].u : n \in 1..Len(ord) }
CurFile(ord) == IF ord = <<>> THEN 1 ELSE ord[Len(ord)].f
NFiles == 3

\* units that may live in the in-package test file: nothing outside mentions them
Removable(O, E, T) ==
  LET C == Alive(O, T) IN \A p \in Refs(O, E) \cup Needs(O, E) : p[2] \in C => p[1] \in C

AddDecl(u, f) ==
  /\ phase = "decl"
  /\ u \in Units(objs) \ Done(order)
  /\ f \in (IF order = <<>> THEN {1} ELSE {CurFile(order), CurFile(order) + 1}) /\ f <= NFiles
  /\ order' = Append(order, [u |-> u, f |-> f])
  /\ ifs' = IF objs[u].k = "iface" /\ SlotSet(objs[u].sl) # {} THEN ifs \cup {u} ELSE ifs
  /\ use' = use \cup DeclUse(objs, edges, u)
              \cup (IF Eager /\ IsConcrete(objs[u])
                    THEN UNION { MSUse(objs, Idx(objs), u, i) : i \in ifs \cup {0} } ELSE {})
  /\ UNCHANGED <<objs, edges, phase, todo, extra>>

StartMS ==
  /\ phase = "decl"
  /\ Done(order) = Units(objs)
  /\ phase' = "ms"
  /\ todo' = IF Eager THEN {} ELSE ConcreteTypes(objs, Units(objs)) \X (ifs \cup {0})
  /\ UNCHANGED <<objs, edges, order, use, ifs, extra>>

ProcessMS(p) ==
  /\ phase = "ms"
  /\ p \in todo
  /\ todo' = todo \ {p}
  /\ use' = use \cup MSUse(objs, Idx(objs), p[1], p[2])
  /\ UNCHANGED <<objs, edges, phase, order, ifs, extra>>

Finish ==
  /\ phase = "ms" /\ todo = {}
  /\ phase' = "done"
  /\ UNCHANGED <<objs, edges, order, use, ifs, todo, extra>>

\* C17: a reference added from an object that is used.  By Confluence the done-state
\* `use` is the same for every order, so the step is explored from one representative
\* order only (units ascending, one file); this only prunes equivalent states.
Canonical(ord) == \A n \in 1..Len(ord) : ord[n].f = 1 /\ (n > 1 => ord[n - 1].u < ord[n].u)
AddRef(u, x) ==
  /\ phase = "done" /\ extra = <<>> /\ Canonical(order)
  /\ u \in UsedSet(objs, use) /\ IsHolder(objs[u])
  /\ x \in Idx(objs)
  /\ extra' = <<u, x>>
  /\ use' = use \cup {<<u, x>>}
  /\ UNCHANGED <<objs, edges, phase, order, ifs, todo>>

BuildNext == \/ \E u \in Units(objs), f \in 1..NFiles : AddDecl(u, f)
             \/ StartMS
             \/ \E p \in todo : ProcessMS(p)
             \/ Finish
             \/ \E u \in Idx(objs), x \in Idx(objs) : AddRef(u, x)

Init ==
  /\ order = <<>> /\ use = {} /\ ifs = {} /\ todo = {} /\ extra = <<>>
  /\ IF Build
     THEN \E g \in SeedGraphs :
            /\ objs = g.objs /\ edges = g.edges /\ phase = "decl"
     ELSE objs = <<>> /\ edges = <<>> /\ phase = "gen"

Next == IF Build THEN BuildNext ELSE GenNext

Spec == Init /\ [][Next]_vars

-----------------------------------------------------------------------------
(* Properties                                                              *)

\* C07: the brackets are consistent on every generated graph
Brackets == phase = "gen" => BracketsConsistent(objs, edges)

\* sanity of the vocabulary: deleting nothing and deleting everything are safe
BracketsSane ==
  phase = "gen" => /\ DeletionSafe(objs, edges, {})
                   /\ DeletionSafe(objs, edges, Idx(objs))

\* negative control for the brackets: "every single object can be deleted" is FALSE
\* (TLC must find a graph with a referenced object) - DeletionSafe is not vacuous
NegSingletonsSafe ==
  phase = "gen" => \A i \in Idx(objs) : DeletionSafe(objs, edges, {i})
\* negative control: "everything unexported must be reported" contradicts deletion safety
NegMustAll ==
  phase = "gen" => DeletionSafe(objs, edges, { i \in Idx(objs) : ~objs[i].ex /\ ~IsInner(objs[i]) })

\* C17 confluence: the verdict of the construction does not depend on the order of
\* declarations, the split into files or the order of the method-set pass
DeclStatus == Status(objs, Idx(objs), AllUse(objs, edges, Units(objs)))
Confluence ==
  (phase = "done" /\ extra = <<>>) => Status(objs, Idx(objs), use) = DeclStatus

\* C17 monotonicity: adding a reference from a used object never shrinks the used set
Monotone ==
  [][ (phase = "done" /\ phase' = "done") => UsedSet(objs, use) \subseteq UsedSet(objs', use') ]_vars

\* C17 variant rule: lintcmd's loop, in every order of the results, reports exactly the
\* objects that are unused in some variant and used in none; keys do not collide
\* T = the units that live in the in-package _test.go file: the base variant is the
\* package without them (declarative status), the test variant is the whole package
\* (the status the construction arrived at)
TestSets == { T \in SUBSET Units(objs) : Cardinality(T) <= 1 /\ T # Units(objs)
                                         /\ Removable(objs, edges, T) }
VariantResults(T) ==
  LET base == Units(objs) \ T
      A0   == Alive(objs, base)
  IN << Status(objs, A0, AllUse(objs, edges, base)), Status(objs, Idx(objs), use) >>

VariantRule ==
  (phase = "done" /\ extra = <<>>) =>
   \A T \in TestSets :
     LET sts == VariantResults(T)
         rs == [ n \in 1..Len(sts) |-> Keyed(objs, order, "p", sts[n]) ]
         want == VariantReported(rs)
     IN /\ \A p \in Permutations(1..Len(rs)) : Merged(Permute(rs, p)) = want
        /\ \A i, j \in Idx(objs) : i # j => Key(objs, order, "p", i) # Key(objs, order, "p", j)
        \* reported only if unused in every variant (by object, not by key)
        /\ \A i \in Idx(objs) :
             Key(objs, order, "p", i) \in want =>
               \A n \in 1..Len(sts) : i \in DOMAIN sts[n] => sts[n][i] # "used"

-----------------------------------------------------------------------------
(* Case emission (generation configs)                                      *)

Emit ==
  IF phase # "gen" \/ objs = <<>> THEN TRUE ELSE
  PrintT("CASE " \o ToJson(
    [ objs |-> objs, edges |-> edges,
      must |-> MustReport(objs, edges),
      share |-> ShareSpec(objs),
      model |-> LET st == Status(objs, Idx(objs), AllUse(objs, edges, Units(objs)))
                IN [ i \in Idx(objs) |-> st[i] ] ]))
=============================================================================
