\* exhaustive: every well-formed fix of <= 3 edits over every file of <= 3 lines x <= 4 columns
\* (2-edit fixes: size <= MaxSize2, 3-edit fixes: size <= MaxSize3), all application orders
SPECIFICATION Spec
CONSTANTS
  NaiveRank = FALSE
  MaxLines = 3
  MaxCols = 4
  MaxEdits = 3
  MaxSize2 = 8
  MaxSize3 = 4
  Texts3 = 2
INVARIANTS InitWellFormed PartialCanonical OrderIndependent PendingApplicable Frame
CHECK_DEADLOCK FALSE
