\* strict refinement of recorded runs; run with -workers 1
SPECIFICATION TSpec
CONSTANTS
  GraphAt <- TGraphAt
  NGraphs <- TNGraphs
  InlineAnytime = TRUE
  SemGuard = FALSE
  TrackResults = FALSE
INVARIANTS ExecAfterDeps ExactlyOnce SemBound NoSpuriousFailure FailurePropagates
  ResultIsFunctionOfGraph NoSendOnClosed SendNeverBlocks InlineUnderPackageToken
CONSTRAINT HighWater
POSTCONDITION Accepted
CHECK_DEADLOCK FALSE
