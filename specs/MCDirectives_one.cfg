\* every fixture file with one directive,
\* both configurations: laws of C10 on the oracle + CASE emission
SPECIFICATION Spec
CONSTANTS
  Universe <- MCUniverse
  Confs <- MCConfs
  Enabled <- MCEnabled
  U1000 <- MCU1000
  Slots <- MCSlots
  Attach <- MCAttach
  OwnLine <- MCOwnLine
  Problems <- MCProblems
  Objects <- MCObjects
  First <- MCFirst
  Second <- MCSecond
  MaxDirs = 1
INVARIANTS LawFrame LawMalformedInert LawNameOrderIrrelevant LawCaseIrrelevant LawDirectiveOrderIrrelevant LawNeverReported LawUnusedClosure Emit
PROPERTY Monotone
CHECK_DEADLOCK FALSE
