INIT Init
NEXT Next
INVARIANTS SpecLatticesOK SpecMapLatticesOK SpecDenseLatticesOK RealNilLaws RealNilIsSpec RealNilComponents RealDenseMapAgrees RealMapAgrees RealDirectLaws
CHECK_DEADLOCK FALSE
