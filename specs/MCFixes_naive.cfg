\* negative self-test of the law: the naive shift rule (current positions, ties by list index)
\* is order dependent; TLC must find the counterexample
SPECIFICATION Spec
CONSTANTS
  NaiveRank = TRUE
  MaxLines = 1
  MaxCols = 1
  MaxEdits = 3
  MaxSize2 = 1
  MaxSize3 = 1
  Texts3 = 3
INVARIANTS OrderIndependent
CHECK_DEADLOCK FALSE
