\* seeded deeper patterns (module generated by checks/C09.py)
SPECIFICATION SpecRand
CONSTANTS
  Names <- MCNames
  MergeMode = "union"
  NotMode = "frame"
  IdxMode = "name"
  PopMode = "delete"
  NilMode = "commaok"
INVARIANTS StaticWFSound OpEqualsDen VisibleIsSuccessfulPath ConsistentRecall NotLeavesNoBindings AtomicAlternatives Emit
CHECK_DEADLOCK FALSE
