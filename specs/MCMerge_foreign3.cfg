\* exhaustive + generation: every sequence of <= 3 runs over the two `all` descriptors d3 (a.go) and d4 (b.go)
\* and one `any` descriptor, problems may lie in files the run did not check
SPECIFICATION Spec
CONSTANTS
  Files <- MCFiles
  D <- MCDforeign
  NameSeq <- MCNames
  MaxRuns = 3
  Foreign = TRUE
INVARIANTS OrderIndependent RepeatIdempotent AnnotationExact AnySemantics AllSemantics Emit
PROPERTY AnyMonotone
CHECK_DEADLOCK FALSE
