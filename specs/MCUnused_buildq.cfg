\* construction machine on the quick seed graphs (<= 5 declarations): all orders, all splits into <= 3 files,
\* all orders of the method-set pass; C17 on the model
SPECIFICATION Spec
CONSTANTS
  MaxObj = 6
  MaxEdge = 4
  MaxIface = 2
  KindSeq <- MCAllKinds
  RelSeq <- MCAllRels
  Build = TRUE
  SeedGraphs <- MCSeedsQuick
  ExKinds <- MCAllKindSet
  ThinFrom = 99
  ThinMod = 1
  Seed = 1
  NeedRoot = FALSE
  Eager = FALSE
INVARIANTS Confluence VariantRule
PROPERTY Monotone
CHECK_DEADLOCK FALSE
