\* termination under weak fairness (no state constraint)
SPECIFICATION FairSpec
CONSTANTS
  GraphAt <- MCGraphAt
  NGraphs <- MCNGraphs
  Family = "Live"
  InlineAnytime = FALSE
  SemGuard = TRUE
  TrackResults = FALSE
INVARIANTS ExecAfterDeps SemBound
PROPERTY Terminates
CHECK_DEADLOCK TRUE
