----------------------------- MODULE LatticeObs -----------------------------
(***************************************************************************)
(* Lattice laws of C13, on the specification and on the real code.         *)
(*                                                                         *)
(* lattice_obs.json is written by `h-dfa lattice` from the REAL code:      *)
(*   nil_table   analysis/facts/nilness latticeMerge, read through the     *)
(*               verif export hook                                         *)
(*   dense, map  results of the real dfa.DenseMapLattice / dfa.MapLattice  *)
(*               Merge and Equals on every pair of representations         *)
(* TLC checks (single state): the four laws over all triples of every spec *)
(* lattice, of the map / dense-map liftings, and of the dumped nilness     *)
(* table; the dumped table equals the spec's; every real Merge / Equals    *)
(* result agrees with the spec's pointwise definition.  Since the set of   *)
(* representations is closed under Merge, agreement on all pairs carries   *)
(* the laws from the spec to the real implementation.                      *)
(***************************************************************************)
EXTENDS Lattices, Json

Obs == JsonDeserialize("lattice_obs.json")

VARIABLE s
Init == s = 0
Next == FALSE /\ s' = s
\* (every invariant mentions s so that TLC evaluates it as a state predicate and -continue reports each one)

\* ---- the specification's lattices ----
SpecLatticesOK == (s = 0) => \A l \in LatNames : LatticeOK(l)
SpecMapLatticesOK == (s = 0) => \A l \in LatNames \ {"flat7"} : MapLatticeOK(l, {1, 2})
SpecDenseLatticesOK == (s = 0) =>
  /\ DenseLatticeOK("chain2", 3) /\ DenseLatticeOK("chain3", 2)
  /\ DenseLatticeOK("pow2", 2)   /\ DenseLatticeOK("nil5", 2)

SpecDenseLatticesSmall == (s = 0) =>
  /\ DenseLatticeOK("chain2", 2) /\ DenseLatticeOK("chain3", 1)
  /\ DenseLatticeOK("pow2", 1)   /\ DenseLatticeOK("nil5", 1)

\* ---- the nilness table dumped from the real code ----
RealNil(a, b) == Obs.nil_table[a + 1][b + 1]
RealNilShape == Len(Obs.nil_table) = 5 /\ \A i \in 1..5 : Len(Obs.nil_table[i]) = 5
RealNilLaws == (s = 0) => RealNilShape /\ SemilatticeLaws(0..4, RealNil, 0) /\ Obs.nil_ident_ok
RealNilIsSpec == (s = 0) => RealNilShape /\ \A a, b \in 0..4 : RealNil(a, b) = Nil5Table[a + 1][b + 1]
\* lattice.Merge on ValueNilness applies the table to Inner and Outer independently
RealNilComponents == (s = 0) => \A a, b \in 0..4 : Obs.nil_vn_merge[a + 1][b + 1] = RealNil(a, b) * 10 + RealNil(b, a)

\* ---- real DenseMapLattice / MapLattice against the pointwise definition ----
BadDense == { i \in 1..Len(Obs.dense) :
                LET o == Obs.dense[i] IN
                ~ ( /\ o.err = ""
                    /\ DenseEquals(o.merge, DenseMergeRep(o.lat, o.a, o.b))
                    /\ o.equals = DenseEquals(o.a, o.b) ) }
BadMap == { i \in 1..Len(Obs.map) :
              LET o == Obs.map[i] IN
              ~ ( /\ o.err = ""
                  /\ o.merge = [ k \in 1..Len(o.a) |-> Join(o.lat, o.a[k], o.b[k]) ]
                  /\ o.equals = (o.a = o.b) ) }
RealDenseMapAgrees == (s = 0) => BadDense = {} \/ (PrintT("CASE " \o ToJson([ kind |-> "densemap", bad |-> { Obs.dense[i] : i \in BadDense } ])) /\ FALSE)
RealMapAgrees == (s = 0) => BadMap = {} \/ (PrintT("CASE " \o ToJson([ kind |-> "map", bad |-> { Obs.map[i] : i \in BadMap } ])) /\ FALSE)
\* the laws evaluated directly on the real code over all triples (by the harness, with the real Equals)
RealDirectLaws == (s = 0) => Obs.law_failures = <<>>
=============================================================================
