---------------------------- MODULE MCVersions ----------------------------
EXTENDS Versions

\* the grid of C20's quantifier: every module version the offline toolchain (go1.26) accepts
\* from 1.17 on, every constraint (absent / lower / equal / higher), every -go, and thresholds
\* reaching one step beyond the versions on both sides
GridMods   == 17..26
GridTags   == {0} \cup 17..26
GridFlags  == {0} \cup 17..26
GridThresh == 16..27

\* the tie to real checks: S1005 (MinimumLanguageVersion go1.4), S1024 (MinimumStdlibVersion
\* go1.8), SA1019 (stdlib deprecations: math/rand.Seed since go1.20, reflect.PtrTo since go1.22)
TieMods    == {17, 20, 21, 22}
TieTags    == {0, 3, 7, 8, 19, 20, 22, 23}
TieFlags   == {0, 3, 4, 5, 7, 8, 9, 19, 20, 21, 22, 23}
TieThresh  == {4, 8, 20, 22}
=============================================================================
