\* static: KeyCoversDeps over all 1152 worlds x 8 units (constant-level, evaluated at start-up); no transitions
SPECIFICATION Spec
CONSTANTS
  MaxLen = 0
  RunPatterns <- MCRunPatterns
  EditPkgs <- MCEditPkgs
  TouchPkgs <- MCTouchPkgs
  ConfLevels <- MCConfLevels
  FlagNames <- MCFlagNames
  EmitRuns = FALSE
  EmitKeys = FALSE
  StaticCheck = TRUE
  KeyMode = "full"
VIEW View
INVARIANTS TypeOK KeyCoversDeps
CHECK_DEADLOCK FALSE
