\* self-test: the deviation NilMode = "nonnil" (a name bound to an absent child looks unbound) must be refuted by OpEqualsDen
SPECIFICATION SpecSliceNoEmit
CONSTANTS
  Names <- MCNames
  MergeMode = "union"
  NotMode = "frame"
  IdxMode = "name"
  PopMode = "delete"
  NilMode = "nonnil"
INVARIANTS StaticWFSound OpEqualsDen VisibleIsSuccessfulPath ConsistentRecall NotLeavesNoBindings AtomicAlternatives
CHECK_DEADLOCK FALSE
