\* self-test: the deviation PopMode = "keep" must be refuted by OpEqualsDen
SPECIFICATION SpecQuickNoEmit
CONSTANTS
  Names <- MCNames
  MergeMode = "union"
  NotMode = "frame"
  IdxMode = "name"
  PopMode = "keep"
  NilMode = "commaok"
INVARIANTS StaticWFSound OpEqualsDen VisibleIsSuccessfulPath ConsistentRecall NotLeavesNoBindings AtomicAlternatives
CHECK_DEADLOCK FALSE
