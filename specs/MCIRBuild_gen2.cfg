\* generation (R): 2 package builders x 2 shared functions, reference relations without
\* self-reference (mutual reference included); used with -simulate: sampled complete behaviours
SPECIFICATION MCSpec
CONSTANTS
  Builders = {1, 2}
  PkgBuilders = {1, 2}
  Shared = {1, 2}
  Callers = {}
  RelaxedReads = FALSE
  FnMode = "sortednoself"
  RootMode = "nonemptysorted"
  GenMode = TRUE
INVARIANTS BuiltAtReturn Emit
CHECK_DEADLOCK FALSE
