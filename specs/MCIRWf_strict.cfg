\* strict mode: every conjunct of Wf(F) is a named invariant
SPECIFICATION Spec
INVARIANTS
  C_BlockIndex
  C_InstrBlock
  C_OperandsLocal
  C_SuccPredInverse
  C_Terminator
  C_TerminatorArity
  C_PhiLead
  C_PhiArity
  C_UniqueIDs
  C_Locals
  C_OperandRefersBack
  C_ReferrerIsUser
  C_ReferrerMultiplicity
  C_HasReferrers
  C_DefDominatesUse
  C_PhiEdgeDominates
  C_T_Params
  C_T_Alloc
  C_T_Phi
  C_T_Load
  C_T_Store
  C_T_BinOp
  C_T_UnOp
  C_T_ChangeType
  C_T_Convert
  C_T_MultiConvert
  C_T_ChangeInterface
  C_T_SliceToArray
  C_T_MakeInterface
  C_T_MakeClosure
  C_T_Make
  C_T_Slice
  C_T_FieldAddr
  C_T_Field
  C_T_IndexAddr
  C_T_Index
  C_T_MapLookup
  C_T_StringLookup
  C_T_RangeNext
  C_T_TypeAssert
  C_T_Extract
  C_T_CallMode
  C_T_CallArgs
  C_T_CallResult
  C_T_If
  C_T_Return
  C_T_Panic
  C_T_SendRecv
  C_T_MapUpdate
  C_T_Select
  C_T_TypeSwitch
CHECK_DEADLOCK FALSE
