------------------------------ MODULE MCIRBuild ------------------------------
(***************************************************************************)
(* IRBuild closed with a program: which shared functions every builder and *)
(* every shared function body looks up, in which order.  The program is    *)
(* chosen in the initial state, so one TLC run enumerates ALL reference    *)
(* relations of the configured family (and, for each, all interleavings).  *)
(*                                                                         *)
(*   rootrefs[b]  lookups made by b's private code: the declared functions *)
(*                of the package (Package.created) for a package builder,  *)
(*                the single lookup of Program.MethodValue for an on-demand*)
(*                builder                                                  *)
(*   fnrefs[f]    lookups made while building the shared function f        *)
(*                ("building f references g"; f \in fnrefs[f] = recursion) *)
(*                                                                         *)
(* Families (FnMode): "allseq" every sequence without repetition;          *)
(* "sorted" every subset, looked up in ascending order; "sortednoself" the *)
(* same without self-reference; "nonemptysorted"; "single" exactly one     *)
(* lookup.  RootMode likewise for package builders.                        *)
(* GenMode = TRUE additionally keeps the history of steps and prints every *)
(* complete behaviour (used to force schedules on the real builder).       *)
(***************************************************************************)
EXTENDS IRBuild, Json

CONSTANTS FnMode, RootMode, GenMode

VARIABLES rootrefs, fnrefs, rri, ri, hist

mcvars == <<vars, rootrefs, fnrefs, rri, ri, hist>>

Injective(s) == \A i, j \in DOMAIN s : i # j => s[i] # s[j]
SeqsNoRep(S) == UNION {{s \in [1..n -> S] : Injective(s)} : n \in 0..Cardinality(S)}
Ascending(s) == \A i, j \in DOMAIN s : i < j => s[i] < s[j]
SortedSeqs(S) == {s \in SeqsNoRep(S) : Ascending(s)}

SeqFamily(mode, S, self) ==
  CASE mode = "allseq" -> SeqsNoRep(S)
    [] mode = "sorted" -> SortedSeqs(S)
    [] mode = "sortednoself" -> SortedSeqs(S \ {self})
    [] mode = "nonemptysorted" -> SortedSeqs(S) \ {<<>>}
    [] mode = "single" -> {<<f>> : f \in S}

RootFamily(b) == IF b \in PkgBuilders THEN SeqFamily(RootMode, Shared, 0)
                 ELSE {<<f>> : f \in Shared}

MCInit ==
  /\ Init
  /\ rootrefs \in {r \in [Builders -> SeqsNoRep(Shared)] : \A b \in Builders : r[b] \in RootFamily(b)}
  /\ fnrefs \in {r \in [Shared -> SeqsNoRep(Shared)] : \A f \in Shared : r[f] \in SeqFamily(FnMode, Shared, f)}
  /\ rri = [b \in Builders |-> 0]
  /\ ri = [b \in Builders |-> 0]
  /\ hist = <<>>

H(b, a, f, e) == hist' = IF GenMode THEN Append(hist, [b |-> b, a |-> a, f |-> f, e |-> e]) ELSE hist

RootRefsDone(b) == rri[b] = Len(rootrefs[b])
FnRefsDone(b) == cur[b] # 0 /\ ri[b] = Len(fnrefs[cur[b]])

(* the next lookup of b, if any *)
HasNextRef(b) == IF cur[b] = 0 THEN ~RootRefsDone(b) ELSE ~FnRefsDone(b)
NextRef(b) == IF cur[b] = 0 THEN rootrefs[b][rri[b] + 1] ELSE fnrefs[cur[b]][ri[b] + 1]
Advance(b) == IF cur[b] = 0 THEN rri' = [rri EXCEPT ![b] = @ + 1] /\ UNCHANGED ri
              ELSE ri' = [ri EXCEPT ![b] = @ + 1] /\ UNCHANGED rri

MCRef(b) ==
  /\ pc[b] = "build" /\ HasNextRef(b)
  /\ LET g == NextRef(b) IN
       \/ Create(b, g) /\ H(b, "create", g, 0)
       \/ \E e \in Builders \cup {0} : Hit(b, g, e) /\ H(b, "hit", g, e)
  /\ Advance(b)
  /\ UNCHANGED <<rootrefs, fnrefs>>

(* package-level code first (Package.created precedes everything enqueued later) *)
MCBegin(b) == RootRefsDone(b) /\ BeginFn(b) /\ ri' = [ri EXCEPT ![b] = 0] /\ H(b, "begin", queue[b][fin[b] + 1], 0)
              /\ UNCHANGED <<rootrefs, fnrefs, rri>>
MCFinish(b) == FnRefsDone(b) /\ H(b, "finish", cur[b], 0) /\ FinishFn(b) /\ UNCHANGED <<rootrefs, fnrefs, rri, ri>>
MCMark(b) == RootRefsDone(b) /\ MarkDone(b) /\ H(b, "markdone", 0, 0) /\ UNCHANGED <<rootrefs, fnrefs, rri, ri>>
MCRetNoTask(b) == RootRefsDone(b) /\ ReturnNoTask(b) /\ H(b, "returnnotask", 0, 0) /\ UNCHANGED <<rootrefs, fnrefs, rri, ri>>
MCWait(b) ==
  /\ \/ \E u \in Builders : WaitSkip(b, u) /\ H(b, "waitskip", 0, u)
     \/ \E u \in Builders : WaitVisit(b, u) /\ H(b, "waitvisit", 0, u)
     \/ WaitReturn(b) /\ H(b, "waitreturn", 0, 0)
  /\ UNCHANGED <<rootrefs, fnrefs, rri, ri>>

MCCaller ==
  /\ \E k \in Callers, p \in PkgBuilders :
       \/ FirstBuild(k, p) /\ H(p, "start", 0, k)
       \/ BuildAgain(k, p) /\ H(p, "buildagain", 0, k)
       \/ ReturnBuild(k, p) /\ H(p, "buildreturn", 0, k)
  /\ UNCHANGED <<rootrefs, fnrefs, rri, ri>>

(* without Callers the sync.Once layer is switched off and every builder starts by itself *)
MCOnDemand(b) == (b \notin PkgBuilders \/ Callers = {}) /\ Start(b) /\ H(b, "start", 0, 0) /\ UNCHANGED <<rootrefs, fnrefs, rri, ri>>

BStep(b) == MCRef(b) \/ MCBegin(b) \/ MCFinish(b) \/ MCMark(b) \/ MCRetNoTask(b) \/ MCWait(b) \/ MCOnDemand(b)
MCNext == MCCaller \/ \E b \in Builders : BStep(b)

MCSpec == MCInit /\ [][MCNext]_mcvars /\ WF_mcvars(MCNext)

(* deadlock-freedom, cyclic waits included: unless everything has returned, some step is enabled *)
NoDeadlock == Finished \/ ENABLED MCNext
Termination == <>Finished

(* every created function is in its creator's queue and the program is respected *)
ProgramOK == \A b \in Builders : rri[b] \in 0..Len(rootrefs[b])

(* exhaustive runs do not distinguish states by history *)
View == <<vars, rootrefs, fnrefs, rri, ri>>

(* generation: print every complete behaviour of the configured program family *)
Emit == (GenMode /\ Finished) =>
          PrintT("CASE " \o ToJson([rootrefs |-> rootrefs, fnrefs |-> fnrefs, steps |-> hist]))

=============================================================================
