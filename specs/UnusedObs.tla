----------------------------- MODULE UnusedObs -----------------------------
(***************************************************************************)
(* Observation validation (O) for C07 / C17: artefacts recorded from the   *)
(* real analyzer are loaded as TLA+ values and the definitions of          *)
(* Unused.tla are evaluated on them, one artefact per TLC step.            *)
(*                                                                         *)
(*  t = "del"  : [objs, edges, reported]  ->  DeletionSafe(objs, edges,    *)
(*               reported) and MustReport(objs, edges)                     *)
(*  t = "merge": [variants] with variants[n] = [used, unused] (sequences   *)
(*               of opaque object keys, one per package variant)           *)
(*               ->  VariantReported(variants) and the result of the       *)
(*               operational loop Merged(variants)                         *)
(* The records live in obs.ndjson next to the spec.                        *)
(***************************************************************************)
EXTENDS Unused

VARIABLE n

Obs == ndJsonDeserialize("obs.ndjson")
ObsKinds == <<>>
ObsRels == <<>>
ObsSeeds == {}

ObsInit == Init /\ n = 0
ObsNext == n < Len(Obs) /\ n' = n + 1 /\ UNCHANGED vars
ObsSpec == ObsInit /\ [][ObsNext]_<<vars, n>>

KeyedOf(v) == [used |-> SeqSet(v.used), unused |-> SeqSet(v.unused)]

Eval(o) ==
  IF o.t = "del"
  THEN [ idx |-> o.idx, t |-> "del",
         safe |-> DeletionSafe(o.objs, o.edges, SeqSet(o.reported)),
         must |-> MustReport(o.objs, o.edges),
         reported |-> {} ]
  ELSE LET rs == [ m \in 1..Len(o.variants) |-> KeyedOf(o.variants[m]) ]
       IN [ idx |-> o.idx, t |-> "merge",
            safe |-> Merged(rs) = VariantReported(rs),
            must |-> {},
            reported |-> VariantReported(rs) ]

ObsEmit == IF n = 0 THEN TRUE ELSE PrintT("CASE " \o ToJson(Eval(Obs[n])))
=============================================================================
