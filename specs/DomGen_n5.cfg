\* thorough: every rooted ordered digraph with <= 5 nodes, out-degree <= 2, with and without a recover leaf (recover only for <= 4 nodes)
SPECIFICATION Spec
CONSTANTS
  MaxNodes = 5
  Degs = {0, 1, 2}
  MaxSwitch = 0
  RecDegs = {0}
  RecMax = 4
  MaxRecNodes = 1
  EmitCases = TRUE
  DesignMax = 4
INVARIANTS DefinitionOK LTCorrect Emit
CHECK_DEADLOCK FALSE
