\* every history of <= 5 steps over the external-target world; Transparent on the model; CASE emission
SPECIFICATION Spec
CONSTANTS
  MaxLen = 5
  KeyMode = "full"
  EmitRuns = TRUE
INVARIANTS Transparent Emit
PROPERTY FrameMConf
VIEW View
CHECK_DEADLOCK FALSE
