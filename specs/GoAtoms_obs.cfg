\* O-style: the go/ir instruction kinds observed on the realised packages cover the kinds of the spec
SPECIFICATION Spec
CONSTANTS
  SingleContexts = {"func"}
  PairContexts = {}
  CheckObs = TRUE
INVARIANTS WellFormed
CHECK_DEADLOCK FALSE
