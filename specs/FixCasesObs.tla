---------------------------- MODULE FixCasesObs -----------------------------
(***************************************************************************)
(* Judges recorded observation tables (beh.json) with FixCases!Preserved:  *)
(* one (case, fix) pair per TLC step.  beh.json is a sequence of           *)
(*   [id, orig |-> <<obs per input vector>>, fixed |-> <<obs ...>>]        *)
(* produced by running the natively compiled original and fixed functions  *)
(* (the fix offered by the real analyzer, applied with Fixes!Canonical) on *)
(* every input vector of the case's domain.                                *)
(***************************************************************************)
EXTENDS FixCases

CONSTANT StrictBeh

VARIABLE k

Tables == JsonDeserialize("beh.json")

OInit == k = 0 /\ cs = [shape |-> "", check |-> "", effects |-> <<>>, ctx |-> "", occ |-> Same]
ONext == k < Len(Tables) /\ k' = k + 1 /\ UNCHANGED cs
OSpec == OInit /\ [][ONext]_<<k, cs>>

Verdict(t) ==
  LET v == FirstDiff(t.orig, t.fixed)
  IN  [id |-> t.id, preserved |-> Preserved(t.orig, t.fixed), vector |-> v,
       why |-> IF Len(t.orig) # Len(t.fixed) THEN "tables differ in length"
               ELSE IF v = 0 THEN "ok" ELSE Classify(t.orig[v], t.fixed[v])]

EmitVerdict == k = 0 \/ PrintT("CASE " \o ToJson(Verdict(Tables[k])))

BehaviourPreserved == (StrictBeh /\ k > 0) => Preserved(Tables[k].orig, Tables[k].fixed)
=============================================================================
