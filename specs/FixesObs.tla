----------------------------- MODULE FixesObs ------------------------------
(***************************************************************************)
(* Observation validation for C16 clauses (1)+(2) and the splice of (3).   *)
(*                                                                         *)
(* obs.json is an artefact recorded by harness/cmd/h-fixes from the REAL   *)
(* runner (lintcmd/runner) running the REAL analyzers:                     *)
(*   files : [ [lines |-> <<line lengths>>, size |-> bytes on disk] ]      *)
(*   diags : [ [id, file (index into files, 0 = not a file of the          *)
(*             analysed package), line, col, off, hasend, efile, eline,    *)
(*             ecol, eoff] ]                                               *)
(*   fixes : [ [id, diag, edits |-> << [file, sline, scol, soff, efile,    *)
(*             eline, ecol, eoff, new |-> <<bytes>>] >>, lo, hi,           *)
(*             win |-> <<bytes lo..hi-1 of the file>>] ]                   *)
(* One diagnostic / one fix per TLC step (cur), so a failing predicate     *)
(* names the artefact.  For every fix TLC evaluates the geometry           *)
(* predicates of Fixes.tla against the line tables, and -- if they hold -- *)
(* loads the fix into the Fixes state machine over the window win (Frame   *)
(* law: bytes outside the hull of the edits are untouched), explores every *)
(* application order (fixes of <= MaxOrderEdits edits) under the invariant *)
(* OrderIndependent, and prints the canonical patched window, which the    *)
(* check splices back and hands to go/parser and go/types.                 *)
(*                                                                         *)
(* Verdicts are PRINTED per artefact (CASE lines) rather than raised as an *)
(* invariant violation so that one run judges all artefacts; Strict = TRUE *)
(* additionally turns a failed geometry predicate into a violation of the  *)
(* invariant GeometryHolds (used by the negative self-test).               *)
(***************************************************************************)
EXTENDS Fixes, Json

CONSTANTS MaxOrderEdits, Strict

VARIABLES cur, phase

ovars == <<text, pending, orig, edits, cur, phase>>

Obs   == JsonDeserialize("obs.json")
Files == Obs.files
Diags == Obs.diags
FixL  == Obs.fixes
ND    == Len(Diags)
NF    == Len(FixL)

-----------------------------------------------------------------------------
(* Clause 1 on a recorded diagnostic.                                       *)
FileKnown(f) == f \in 1..Len(Files)
TableSound(f) == Size(Files[f].lines) = Files[f].size   \* line table vs bytes on disk

DiagPosOK(d) ==
  /\ FileKnown(d.file)
  /\ TableSound(d.file)
  /\ PosOK(Files[d.file].lines, [line |-> d.line, col |-> d.col, off |-> d.off])

DiagEndOK(d) ==
  d.hasend = 1 =>
    /\ FileKnown(d.file)
    /\ EndOK(Files[d.file].lines, d.efile = d.file,
             [line |-> d.line, col |-> d.col, off |-> d.off],
             [line |-> d.eline, col |-> d.ecol, off |-> d.eoff])

(* Clause 2 on a recorded fix.                                              *)
OneFile(fx) ==
  \A i \in 1..Len(fx.edits) :
     /\ FileKnown(fx.edits[i].file)
     /\ fx.edits[i].efile = fx.edits[i].file
     /\ fx.edits[i].file = fx.edits[1].file

AsEdits(fx, base) ==
  [ i \in 1..Len(fx.edits) |->
      [s |-> fx.edits[i].soff - base, e |-> fx.edits[i].eoff - base, new |-> fx.edits[i].new] ]

EditsInBounds(fx) ==
  OneFile(fx) /\ (Len(fx.edits) > 0 =>
     LET lt == Files[fx.edits[1].file].lines
     IN  \A i \in 1..Len(fx.edits) : InBounds(Size(lt), AsEdits(fx, 0)[i]))

EditPositionsOK(fx) ==
  OneFile(fx) /\ (Len(fx.edits) > 0 =>
     LET lt == Files[fx.edits[1].file].lines
     IN  \A i \in 1..Len(fx.edits) :
           /\ PosOK(lt, [line |-> fx.edits[i].sline, col |-> fx.edits[i].scol, off |-> fx.edits[i].soff])
           /\ PosOK(lt, [line |-> fx.edits[i].eline, col |-> fx.edits[i].ecol, off |-> fx.edits[i].eoff]))

EditsDisjoint(fx) ==
  \A i \in 1..Len(fx.edits) : \A j \in 1..Len(fx.edits) :
     i < j => Disjoint(AsEdits(fx, 0)[i], AsEdits(fx, 0)[j])

FixWellFormed(fx) == OneFile(fx) /\ EditsInBounds(fx) /\ EditsDisjoint(fx)

\* the recorded window covers the hull of the edits and is what it says it is
WindowOK(fx) ==
  /\ 0 <= fx.lo /\ fx.lo <= fx.hi /\ Len(fx.win) = fx.hi - fx.lo
  /\ \A i \in 1..Len(fx.edits) : fx.lo <= fx.edits[i].soff /\ fx.edits[i].eoff <= fx.hi
  /\ (Len(fx.edits) > 0 => fx.hi <= Size(Files[fx.edits[1].file].lines))

Loadable(fx) == FixWellFormed(fx) /\ WindowOK(fx)

-----------------------------------------------------------------------------
TheFix == FixL[cur - ND]

Init ==
  /\ cur = 0 /\ phase = "idle"
  /\ text = <<>> /\ pending = {} /\ orig = <<>> /\ edits = <<>>

\* move to the next artefact; a loadable fix is loaded into the Fixes machine
Advance ==
  /\ pending = {}
  /\ cur < ND + NF
  /\ cur' = cur + 1
  /\ phase' = "load"
  /\ IF cur' > ND /\ Loadable(FixL[cur' - ND]) /\ Len(FixL[cur' - ND].edits) <= MaxOrderEdits
     THEN LET fx == FixL[cur' - ND]
              es == AsEdits(fx, fx.lo)
          IN  /\ orig' = fx.win /\ edits' = es /\ text' = fx.win /\ pending' = MkPending(es)
     ELSE /\ text' = <<>> /\ pending' = {} /\ orig' = <<>> /\ edits' = <<>>

Step ==
  /\ Apply
  /\ phase' = "apply"
  /\ UNCHANGED cur

Next == Advance \/ Step

Spec == Init /\ [][Next]_ovars

-----------------------------------------------------------------------------
(* Verdict emission: one CASE line per artefact, at the state that loads it. *)
DiagVerdict(d) ==
  [kind |-> "diag", id |-> d.id, pos |-> DiagPosOK(d), end |-> DiagEndOK(d)]

FixVerdict(fx) ==
  LET wf == FixWellFormed(fx)
      ld == wf /\ WindowOK(fx)
  IN  [kind |-> "fix", id |-> fx.id,
       onefile  |-> OneFile(fx),
       inbounds |-> EditsInBounds(fx),
       editpos  |-> EditPositionsOK(fx),
       disjoint |-> EditsDisjoint(fx),
       window   |-> WindowOK(fx),
       orders   |-> (ld /\ Len(fx.edits) <= MaxOrderEdits),
       patched  |-> IF ld THEN Canonical(fx.win, AsEdits(fx, fx.lo)) ELSE <<>>]

Emit ==
  IF phase # "load" THEN TRUE
  ELSE IF cur <= ND THEN PrintT("CASE " \o ToJson(DiagVerdict(Diags[cur])))
  ELSE PrintT("CASE " \o ToJson(FixVerdict(TheFix)))

\* the property's clauses as an invariant (negative self-test / strict mode)
GeometryHolds ==
  (Strict /\ phase = "load") =>
     IF cur <= ND THEN DiagPosOK(Diags[cur]) /\ DiagEndOK(Diags[cur])
     ELSE FixWellFormed(TheFix) /\ EditPositionsOK(TheFix)
=============================================================================
