------------------------------ MODULE MCIRWf ------------------------------
(***************************************************************************)
(* Observation validation for C02: binds IRWf to a recorded artefact.      *)
(* irwf_batch.ndjson holds one document per (package, builder mode) as     *)
(* written by harness/cmd/h-irexport.  TLC steps through the documents,    *)
(* chunks of functions and functions: one TLC state per validated function *)
(* (the two upper levels only exist so that several workers can share the  *)
(* work).  Two configurations:                                             *)
(*   MCIRWf_report.cfg  invariant Report: never false, prints one CASE     *)
(*                      line per (function, failed conjunct) with its      *)
(*                      witnesses, so that one run lists every failure;    *)
(*   MCIRWf_strict.cfg  every conjunct of Wf is its own named invariant:   *)
(*                      TLC stops at the first function that is not        *)
(*                      well-formed and names the conjunct and (in the     *)
(*                      state: d, i) the function.                         *)
(***************************************************************************)
EXTENDS IRWf, TLC, Json

Docs == ndJsonDeserialize("irwf_batch.ndjson")
ChunkSize == 25

VARIABLES d, c, i
vars == <<d, c, i>>

NFns(k)    == Len(Docs[k].fns)
NChunks(k) == (NFns(k) + ChunkSize - 1) \div ChunkSize
Min2(a, b) == IF a < b THEN a ELSE b

Init == d = 0 /\ c = 0 /\ i = 0
Next ==
  \/ d = 0 /\ d' \in 1..Len(Docs) /\ c' = 0 /\ i' = 0
  \/ d > 0 /\ c = 0 /\ c' \in 1..NChunks(d) /\ d' = d /\ i' = 0
  \/ d > 0 /\ c > 0 /\ i = 0 /\ i' \in ((c - 1) * ChunkSize + 1)..Min2(c * ChunkSize, NFns(d)) /\ UNCHANGED <<d, c>>
Spec == Init /\ [][Next]_vars

AtFn == i > 0
T == Docs[d].types
F == Docs[d].fns[i]

\* report mode: list every failed conjunct of every function
Report ==
  AtFn => LET cs == Conjuncts(T, F) IN
          \A k \in 1..Len(cs) :
             cs[k][2] = {} \/ PrintT("CASE " \o ToJson([d |-> d, i |-> i, fn |-> F.name, conj |-> cs[k][1], w |-> cs[k][2]]))

\* strict mode: one named invariant per conjunct
C_BlockIndex == AtFn => Bad_BlockIndex(T, F) = {}
C_InstrBlock == AtFn => Bad_InstrBlock(T, F) = {}
C_OperandsLocal == AtFn => Bad_OperandsLocal(T, F) = {}
C_SuccPredInverse == (AtFn /\ ShapeOK(T, F)) => Bad_SuccPredInverse(T, F) = {}
C_Terminator == (AtFn /\ ShapeOK(T, F)) => Bad_Terminator(T, F) = {}
C_TerminatorArity == (AtFn /\ ShapeOK(T, F)) => Bad_TerminatorArity(T, F) = {}
C_PhiLead == (AtFn /\ ShapeOK(T, F)) => Bad_PhiLead(T, F) = {}
C_PhiArity == (AtFn /\ ShapeOK(T, F)) => Bad_PhiArity(T, F) = {}
C_UniqueIDs == (AtFn /\ ShapeOK(T, F)) => Bad_UniqueIDs(T, F) = {}
C_Locals == (AtFn /\ ShapeOK(T, F)) => Bad_Locals(T, F) = {}
C_OperandRefersBack == (AtFn /\ ShapeOK(T, F)) => Bad_OperandRefersBack(T, F) = {}
C_ReferrerIsUser == (AtFn /\ ShapeOK(T, F)) => Bad_ReferrerIsUser(T, F) = {}
C_ReferrerMultiplicity == (AtFn /\ ShapeOK(T, F)) => Bad_ReferrerMultiplicity(T, F) = {}
C_HasReferrers == (AtFn /\ ShapeOK(T, F)) => Bad_HasReferrers(T, F) = {}
C_DefDominatesUse == (AtFn /\ ShapeOK(T, F)) => Bad_DefDominatesUse(T, F) = {}
C_PhiEdgeDominates == (AtFn /\ ShapeOK(T, F)) => Bad_PhiEdgeDominates(T, F) = {}
C_T_Params == (AtFn /\ ShapeOK(T, F)) => Bad_T_Params(T, F) = {}
C_T_Alloc == (AtFn /\ ShapeOK(T, F)) => Bad_T_Alloc(T, F) = {}
C_T_Phi == (AtFn /\ ShapeOK(T, F)) => Bad_T_Phi(T, F) = {}
C_T_Load == (AtFn /\ ShapeOK(T, F)) => Bad_T_Load(T, F) = {}
C_T_Store == (AtFn /\ ShapeOK(T, F)) => Bad_T_Store(T, F) = {}
C_T_BinOp == (AtFn /\ ShapeOK(T, F)) => Bad_T_BinOp(T, F) = {}
C_T_UnOp == (AtFn /\ ShapeOK(T, F)) => Bad_T_UnOp(T, F) = {}
C_T_ChangeType == (AtFn /\ ShapeOK(T, F)) => Bad_T_ChangeType(T, F) = {}
C_T_Convert == (AtFn /\ ShapeOK(T, F)) => Bad_T_Convert(T, F) = {}
C_T_MultiConvert == (AtFn /\ ShapeOK(T, F)) => Bad_T_MultiConvert(T, F) = {}
C_T_ChangeInterface == (AtFn /\ ShapeOK(T, F)) => Bad_T_ChangeInterface(T, F) = {}
C_T_SliceToArray == (AtFn /\ ShapeOK(T, F)) => Bad_T_SliceToArray(T, F) = {}
C_T_MakeInterface == (AtFn /\ ShapeOK(T, F)) => Bad_T_MakeInterface(T, F) = {}
C_T_MakeClosure == (AtFn /\ ShapeOK(T, F)) => Bad_T_MakeClosure(T, F) = {}
C_T_Make == (AtFn /\ ShapeOK(T, F)) => Bad_T_Make(T, F) = {}
C_T_Slice == (AtFn /\ ShapeOK(T, F)) => Bad_T_Slice(T, F) = {}
C_T_FieldAddr == (AtFn /\ ShapeOK(T, F)) => Bad_T_FieldAddr(T, F) = {}
C_T_Field == (AtFn /\ ShapeOK(T, F)) => Bad_T_Field(T, F) = {}
C_T_IndexAddr == (AtFn /\ ShapeOK(T, F)) => Bad_T_IndexAddr(T, F) = {}
C_T_Index == (AtFn /\ ShapeOK(T, F)) => Bad_T_Index(T, F) = {}
C_T_MapLookup == (AtFn /\ ShapeOK(T, F)) => Bad_T_MapLookup(T, F) = {}
C_T_StringLookup == (AtFn /\ ShapeOK(T, F)) => Bad_T_StringLookup(T, F) = {}
C_T_RangeNext == (AtFn /\ ShapeOK(T, F)) => Bad_T_RangeNext(T, F) = {}
C_T_TypeAssert == (AtFn /\ ShapeOK(T, F)) => Bad_T_TypeAssert(T, F) = {}
C_T_Extract == (AtFn /\ ShapeOK(T, F)) => Bad_T_Extract(T, F) = {}
C_T_CallMode == (AtFn /\ ShapeOK(T, F)) => Bad_T_CallMode(T, F) = {}
C_T_CallArgs == (AtFn /\ ShapeOK(T, F)) => Bad_T_CallArgs(T, F) = {}
C_T_CallResult == (AtFn /\ ShapeOK(T, F)) => Bad_T_CallResult(T, F) = {}
C_T_If == (AtFn /\ ShapeOK(T, F)) => Bad_T_If(T, F) = {}
C_T_Return == (AtFn /\ ShapeOK(T, F)) => Bad_T_Return(T, F) = {}
C_T_Panic == (AtFn /\ ShapeOK(T, F)) => Bad_T_Panic(T, F) = {}
C_T_SendRecv == (AtFn /\ ShapeOK(T, F)) => Bad_T_SendRecv(T, F) = {}
C_T_MapUpdate == (AtFn /\ ShapeOK(T, F)) => Bad_T_MapUpdate(T, F) = {}
C_T_Select == (AtFn /\ ShapeOK(T, F)) => Bad_T_Select(T, F) = {}
C_T_TypeSwitch == (AtFn /\ ShapeOK(T, F)) => Bad_T_TypeSwitch(T, F) = {}
=============================================================================
