------------------------------ MODULE MCChecks ------------------------------
(* Constants for Checks.tla.  The analyzer universe is six real checks of   *)
(* cmd/staticcheck in four categories (S, SA, ST, U; two SA subgroups; one  *)
(* non-default check), each triggered exactly once by the fixture package.  *)
EXTENDS Checks

S1002  == <<"S","1","0","0","2">>
SA4000 == <<"S","A","4","0","0","0">>
SA9004 == <<"S","A","9","0","0","4">>
ST1017 == <<"S","T","1","0","1","7">>
ST1000 == <<"S","T","1","0","0","0">>
U1000  == <<"U","1","0","0","0">>

MCAnalyzers  == {S1002, SA4000, SA9004, ST1017, ST1000, U1000}
MCNonDefault == {ST1000}

\* bodies: exact (three spellings), category globs, prefix globs, all, *, unknown name
MCBodies ==
  { AllBody, StarBody,
    S1002, <<"s","a","4","0","0","0">>, SA9004, <<"S","t","1","0","1","7">>, ST1000, U1000,
    <<"S","*">>, <<"S","A","*">>, <<"s","t","*">>,
    <<"S","1","*">>, <<"S","A","4","*">>, <<"S","T","1","*">>,
    <<"S","A","5","5","5","5">> }

MCAtomsFull == { Pos(b) : b \in MCBodies } \cup { Neg(b) : b \in MCBodies } \cup { InheritAtom }

\* reduced alphabet for the deep (three levels + flag) model
MCBodiesTree == { AllBody, <<"s","a","4","0","0","0">>, ST1000, <<"S","*">>, <<"S","A","*">>, <<"S","T","1","*">> }
MCAtomsTree  == { AllAtom, InheritAtom,
                  Pos(<<"s","a","4","0","0","0">>), Neg(<<"s","a","4","0","0","0">>),
                  Pos(<<"S","*">>), Neg(<<"S","*">>),
                  Pos(ST1000), Neg(<<"S","T","1","*">>), Pos(<<"S","A","*">>) }
\* the broken-file model only needs something to inherit / override
MCAtomsBroken == { AllAtom, InheritAtom, Neg(<<"S","*">>) }

\* -fail has no "inherit"
MCFailAtoms == { Pos(b) : b \in MCBodies } \cup { Neg(b) : b \in MCBodies }
MCFailAtomsSmall == { Pos(b) : b \in MCBodiesTree } \cup { Neg(b) : b \in MCBodiesTree }
MCChecksFew == { AllAtom, Neg(<<"S","*">>), InheritAtom, Pos(ST1000) }

MCPkgKinds == {"plain", "ign", "mal", "unm", "bad"}
P(c, ig) == [code |-> c, ignored |-> ig]
MCPkg ==
  [ k \in MCPkgKinds |->
     CASE k = "plain" -> [compiles |-> TRUE, probs |-> { P(a, FALSE) : a \in MCAnalyzers }, malformed |-> FALSE, unmatched |-> {}]
       [] k = "ign"   -> [compiles |-> TRUE, probs |-> { P(S1002, FALSE), P(SA4000, TRUE) }, malformed |-> FALSE, unmatched |-> {}]
       [] k = "mal"   -> [compiles |-> TRUE, probs |-> { P(S1002, FALSE) }, malformed |-> TRUE, unmatched |-> {}]
       [] k = "unm"   -> [compiles |-> TRUE, probs |-> { P(S1002, FALSE) }, malformed |-> FALSE, unmatched |-> {SA4000}]
       [] k = "bad"   -> [compiles |-> FALSE, probs |-> {}, malformed |-> FALSE, unmatched |-> {}] ]

AllLevels == 1..3
InnerLevel == {3}
NoLevels == {}
=============================================================================
