\* design-level only (not realisable from Go source): a second root with its own region of <= 2 nodes
\* and arbitrary edges, entry region <= 3 nodes
SPECIFICATION Spec
CONSTANTS
  MaxNodes = 3
  Degs = {0, 1, 2}
  MaxSwitch = 0
  RecDegs = {0, 1, 2}
  RecMax = 9
  MaxRecNodes = 2
  EmitCases = FALSE
  DesignMax = 9
INVARIANTS DefinitionOK LTCorrect
CHECK_DEADLOCK FALSE
