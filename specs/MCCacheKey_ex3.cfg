\* exhaustive (VIEW hides the history): every (world, cache, last output) state reachable with <= 3 actions; every Run transition out of every distinct state is emitted once = transition cover
SPECIFICATION Spec
CONSTANTS
  MaxLen = 3
  RunPatterns <- MCRunPatterns
  EditPkgs <- MCEditPkgs
  TouchPkgs <- MCTouchPkgs
  ConfLevels <- MCConfLevels
  FlagNames <- MCFlagNames
  EmitRuns = TRUE
  EmitKeys = FALSE
  StaticCheck = FALSE
  KeyMode = "full"
VIEW View
INVARIANTS TypeOK Transparent HitOnlyIfSameInputs CacheKeyFunctional
CHECK_DEADLOCK FALSE
