------------------------------- MODULE Checks -------------------------------
(***************************************************************************)
(* Check selection, configuration inheritance, exit status (property C11). *)
(*                                                                         *)
(* The module is the documented algebra of                                 *)
(*   website/content/docs/configuration/_index.md  (configuration files,   *)
(*     "inherit", "all", "-" negation, deeper files override),             *)
(*   website/content/docs/configuration/options.md (globs: "S*", "SA*",    *)
(*     "SA1*" enable the S, SA and SA1 subgroups; non-default checks),     *)
(*   website/content/docs/running-staticcheck/cli/formatters.md (severity  *)
(*     error/warning is decided by -fail)                                  *)
(* and of the property text.  It is structured like the implementation:    *)
(*   config/config.go   parseConfigs/mergeConfigs/mergeLists -> MergedLevels*)
(*                      normalizeList                         -> Normalize  *)
(*   runner.go          a.Package.Config.Merge(r.cfg)         -> Merged     *)
(*   lintcmd/lint.go    filterAnalyzerNames                   -> Eval/Allowed*)
(*   lintcmd/lint.go    success/failed/filterIgnored          -> Printed    *)
(*   lintcmd/cmd.go     printDiagnostics                      -> Sev/Exit   *)
(*                                                                         *)
(* State machine: a configuration (a chain of NLevels directories, each    *)
(* without a staticcheck.conf, with a `checks` list, or with a broken      *)
(* file; a -checks flag; a -fail flag) is built one edit at a time.  Every *)
(* reachable state is one configuration; the laws are invariants / action  *)
(* properties over all of them and `Emit` prints every configuration with  *)
(* the result the documentation prescribes for each fixture package kind.  *)
(*                                                                         *)
(* Names are sequences of one-character strings so that case folding,      *)
(* prefixes and the category (the letters before the first digit) are      *)
(* defined here and not assumed.                                           *)
(***************************************************************************)
EXTENDS Integers, Sequences, FiniteSets, TLC, Json

CONSTANTS
  Analyzers,     \* set of check names (character sequences, canonical upper case)
  NonDefault,    \* subset of Analyzers disabled by the default configuration
  Atoms,         \* set of [neg, body] usable in staticcheck.conf `checks` lists
  CheckAtoms,    \* set of [neg, body] usable in -checks
  FailAtoms,     \* set of [neg, body] usable in -fail
  NLevels,       \* depth of the directory chain (1 = outermost)
  GrowLevels,    \* subset of 1..NLevels whose conf may be edited in this model
  MaxTotal,      \* bound on the total number of atoms in conf lists and -checks
  MaxLen,        \* bound on the length of one conf / -checks list
  MaxFail,       \* bound on the length of the -fail list
  AllowBroken,   \* whether a level may hold a syntactically broken file
  PkgKinds,      \* set of fixture package kinds (strings)
  Pkg            \* kind -> [compiles, probs : set of [code, ignored], malformed, unmatched : set of names]

VARIABLES levels, checks, fail
vars == <<levels, checks, fail>>

-----------------------------------------------------------------------------
(* Characters *)
UpperSeq == <<"A","B","C","D","E","F","G","H","I","J","K","L","M",
              "N","O","P","Q","R","S","T","U","V","W","X","Y","Z">>
LowerSeq == <<"a","b","c","d","e","f","g","h","i","j","k","l","m",
              "n","o","p","q","r","s","t","u","v","w","x","y","z">>
Digits   == {"0","1","2","3","4","5","6","7","8","9"}

Chars == { UpperSeq[i] : i \in 1..26 } \cup { LowerSeq[i] : i \in 1..26 } \cup Digits \cup {"*", "-"}
\* constant-level tables (TLC evaluates them once)
LowerF == [c \in Chars |-> IF \E i \in 1..26 : UpperSeq[i] = c
                           THEN LowerSeq[CHOOSE i \in 1..26 : UpperSeq[i] = c] ELSE c]
UpperF == [c \in Chars |-> IF \E i \in 1..26 : LowerSeq[i] = c
                           THEN UpperSeq[CHOOSE i \in 1..26 : LowerSeq[i] = c] ELSE c]
Lower(c) == LowerF[c]
Upper(c) == UpperF[c]
Fold(s)    == [i \in 1..Len(s) |-> Lower(s[i])]
Shout(s)   == [i \in 1..Len(s) |-> Upper(s[i])]
HasDigit(s) == \E i \in 1..Len(s) : s[i] \in Digits
IsPrefix(p, s) == Len(p) <= Len(s) /\ SubSeq(s, 1, Len(p)) = p
\* the category of a check name: the characters before its first digit
Cat(s) == IF HasDigit(s)
          THEN SubSeq(s, 1, (CHOOSE i \in 1..Len(s) : s[i] \in Digits /\ \A j \in 1..(i-1) : s[j] \notin Digits) - 1)
          ELSE s

Str(s) == LET f[k \in 0..Len(s)] == IF k = 0 THEN "" ELSE f[k-1] \o s[k] IN f[Len(s)]

AllBody     == <<"a","l","l">>
StarBody    == <<"*">>
InheritBody == <<"i","n","h","e","r","i","t">>
AllAtom     == [neg |-> FALSE, body |-> AllBody]
InheritAtom == [neg |-> FALSE, body |-> InheritBody]
Neg(name)   == [neg |-> TRUE,  body |-> name]
Pos(name)   == [neg |-> FALSE, body |-> name]
IsInherit(at) == at = InheritAtom
AtomStr(at) == (IF at.neg THEN "-" ELSE "") \o Str(at.body)
ListStr(l)  == IF Len(l) = 0 THEN <<>> ELSE [i \in 1..Len(l) |-> AtomStr(l[i])]

-----------------------------------------------------------------------------
(* The state machine: one edit per step *)
Unset == [kind |-> "unset", list |-> <<>>]

Total == LET f[k \in 0..NLevels] == IF k = 0 THEN 0 ELSE f[k-1] + Len(levels[k].list)
         IN f[NLevels] + Len(checks.list)

Init ==
  /\ levels = [i \in 1..NLevels |-> Unset]
  /\ checks = [set |-> FALSE, list |-> <<>>]
  /\ fail   = [set |-> FALSE, list |-> <<>>]

\* create an empty `checks = []` in directory i
SetLevel(i) ==
  /\ levels[i].kind = "unset"
  /\ levels' = [levels EXCEPT ![i] = [kind |-> "list", list |-> <<>>]]
  /\ UNCHANGED <<checks, fail>>

\* write a syntactically broken staticcheck.conf into directory i
BreakLevel(i) ==
  /\ AllowBroken
  /\ levels[i].kind = "unset"
  /\ levels' = [levels EXCEPT ![i] = [kind |-> "broken", list |-> <<>>]]
  /\ UNCHANGED <<checks, fail>>

AppendLevel(i, at) ==
  /\ levels[i].kind = "list"
  /\ Total < MaxTotal /\ Len(levels[i].list) < MaxLen
  /\ levels' = [levels EXCEPT ![i].list = Append(@, at)]
  /\ UNCHANGED <<checks, fail>>

AppendChecks(at) ==
  /\ Total < MaxTotal /\ Len(checks.list) < MaxLen
  /\ checks' = [set |-> TRUE, list |-> Append(checks.list, at)]
  /\ UNCHANGED <<levels, fail>>

AppendFail(at) ==
  /\ Len(fail.list) < MaxFail
  /\ fail' = [set |-> TRUE, list |-> Append(fail.list, at)]
  /\ UNCHANGED <<levels, checks>>

Next ==
  \/ \E i \in GrowLevels : SetLevel(i) \/ BreakLevel(i) \/ \E at \in Atoms : AppendLevel(i, at)
  \/ \E at \in CheckAtoms : AppendChecks(at)
  \/ \E at \in FailAtoms : AppendFail(at)

Spec == Init /\ [][Next]_vars

-----------------------------------------------------------------------------
(* Configuration merging (documentation: "Any set option will override the *)
(* same option from further up the package tree, whereas unset options     *)
(* will inherit their values.  Additionally, the special value "inherit"   *)
(* can be used to inherit values.")                                        *)

SetToSeq(S) ==
  LET f[T \in SUBSET S] == IF T = {} THEN <<>>
                           ELSE LET x == CHOOSE x \in T : TRUE IN <<x>> \o f[T \ {x}]
  IN f[S]

\* the default configuration: everything except the non-default checks
Default == <<AllAtom>> \o [i \in 1..Cardinality(NonDefault) |-> Neg(SetToSeq(NonDefault)[i])]

\* `child` evaluated in the context of `parent`: every "inherit" is replaced by the parent list
Splice(parent, child) ==
  LET f[k \in 0..Len(child)] ==
        IF k = 0 THEN <<>>
        ELSE f[k-1] \o (IF IsInherit(child[k]) THEN parent ELSE <<child[k]>>)
  IN f[Len(child)]

\* merged from the outermost directory inward; an unset level inherits
MergedUpTo(lv, n) ==
  LET f[k \in 0..n] ==
        IF k = 0 THEN Default
        ELSE IF lv[k].kind = "list" THEN Splice(f[k-1], lv[k].list) ELSE f[k-1]
  IN f[n]
MergedLevelsOf(lv) == MergedUpTo(lv, NLevels)
MergedLevels == MergedLevelsOf(levels)

\* -checks defaults to "inherit"; the flag is resolved against the package's merged configuration
ChecksList(ck) == IF ck.set THEN ck.list ELSE <<InheritAtom>>
MergedOf(lv, ck) == Splice(MergedLevelsOf(lv), ChecksList(ck))
Merged == MergedOf(levels, checks)

\* config.Load returns the merged list with adjacent duplicates removed
Normalize(l) ==
  LET f[k \in 0..Len(l)] ==
        IF k = 0 THEN <<>>
        ELSE IF k > 1 /\ l[k] = l[k-1] THEN f[k-1] ELSE Append(f[k-1], l[k])
  IN f[Len(l)]

Broken == \E i \in 1..NLevels : levels[i].kind = "broken"

-----------------------------------------------------------------------------
(* Evaluating a check list (documentation: options.md `checks`; property:  *)
(* "'all', category globs, prefix globs, exact names and '-' negation      *)
(* applied left to right, case-insensitively")                             *)

MatchesDef(at, a) ==
  LET b == Fold(at.body)
      n == Fold(a)
  IN IF b = AllBody \/ b = StarBody THEN TRUE
     ELSE IF Len(b) > 0 /\ b[Len(b)] = "*"
          THEN LET p == SubSeq(b, 1, Len(b) - 1)
               IN IF HasDigit(p) THEN IsPrefix(p, n)      \* "SA1*": the SA1 subgroup
                                 ELSE Cat(n) = p          \* "S*": the S category, not SA, not ST
          ELSE b = n                                      \* exact name

\* every atom the model or a law can mention; MatchTable is MatchesDef tabulated once
BaseAtoms == Atoms \cup CheckAtoms \cup FailAtoms \cup {AllAtom, InheritAtom}
               \cup { Neg(a) : a \in Analyzers } \cup { Pos(a) : a \in Analyzers }
               \cup { Pos(Cat(a) \o <<"*">>) : a \in Analyzers }
AtomUniverse == BaseAtoms \cup { [neg |-> at.neg, body |-> Fold(at.body)] : at \in BaseAtoms }
                          \cup { [neg |-> at.neg, body |-> Shout(at.body)] : at \in BaseAtoms }
MatchTable == [ at \in AtomUniverse |-> { a \in Analyzers : MatchesDef(at, a) } ]
Matches(at, a) == a \in MatchTable[at]

\* left-to-right evaluation into an allow map (filterAnalyzerNames)
Eval(l) ==
  LET f[k \in 0..Len(l)] ==
        IF k = 0 THEN [a \in Analyzers |-> FALSE]
        ELSE [a \in Analyzers |-> IF Matches(l[k], a) THEN ~l[k].neg ELSE f[k-1][a]]
  IN f[Len(l)]
AllowedOf(l) == { a \in Analyzers : Eval(l)[a] }

\* the same set, declaratively: the last atom that mentions a check decides
LastWins(l) ==
  { a \in Analyzers :
      \E i \in 1..Len(l) : /\ Matches(l[i], a) /\ ~l[i].neg
                           /\ \A j \in (i+1)..Len(l) : ~Matches(l[j], a) }

Allowed == AllowedOf(Merged)
FailList == IF fail.set THEN fail.list ELSE <<AllAtom>>
FailSet == AllowedOf(FailList)

-----------------------------------------------------------------------------
(* What a lint run prints for a fixture package of kind k, and its exit    *)
(* status (property: "the problems printed are exactly the problems of all *)
(* checks restricted to that set"; "exits non-zero exactly when a          *)
(* non-ignored problem belongs to the -fail set or is a compile, config or *)
(* directive error (SARIF output always exits zero)").                     *)

Problem(cat, code, sev) == [cat |-> cat, code |-> code, sev |-> sev]

PrintedOf(k, allowed, failset) ==
  IF Broken THEN { Problem("config", "config", "error") }
  ELSE IF ~Pkg[k].compiles THEN { Problem("compile", "compile", "error") }
  ELSE
    { Problem("check", Str(p.code), IF p.code \in failset THEN "error" ELSE "warning") :
         p \in { q \in Pkg[k].probs : ~q.ignored /\ q.code \in allowed } }
    \cup (IF Pkg[k].malformed THEN { Problem("compile", "compile", "error") } ELSE {})
    \cup (IF Pkg[k].unmatched \cap allowed # {} THEN { Problem("staticcheck", "staticcheck", "error") } ELSE {})

Printed(k) == PrintedOf(k, Allowed, FailSet)
ExitOf(pr) == IF \E p \in pr : p.sev = "error" THEN 1 ELSE 0
Exit(k) == ExitOf(Printed(k))
ExitSarif(k) == 0

-----------------------------------------------------------------------------
(* Laws, checked by TLC in every reachable configuration                   *)

\* left-to-right evaluation = "the last mention wins"
LawLastWins == AllowedOf(Merged) = LastWins(Merged) /\ FailSet = LastWins(FailList)

\* appending -X removes exactly X, appending X adds exactly X
LawAppendExact ==
  LET m == Merged al == AllowedOf(m) IN
  \A a \in Analyzers :
     /\ AllowedOf(Append(m, Neg(a))) = al \ {a}
     /\ AllowedOf(Append(m, Pos(a))) = al \cup {a}

\* `checks = ["inherit"]` is the same as not setting the option; -checks inherit = no flag
LawInheritIdentity ==
  /\ \A i \in 1..NLevels : levels[i].kind = "unset" =>
        MergedOf([levels EXCEPT ![i] = [kind |-> "list", list |-> <<InheritAtom>>]], checks) = Merged
  /\ ~checks.set => MergedOf(levels, [set |-> TRUE, list |-> <<InheritAtom>>]) = Merged

\* a set list without "inherit" overrides everything further up the tree
LawOverride ==
  \A i \in 1..NLevels :
     (levels[i].kind = "list" /\ \A k \in 1..Len(levels[i].list) : ~IsInherit(levels[i].list[k])) =>
        \A other \in {Unset, [kind |-> "list", list |-> <<>>], [kind |-> "list", list |-> <<AllAtom>>]} :
           \A j \in 1..(i-1) : MergedOf([levels EXCEPT ![j] = other], checks) = Merged

\* case-insensitive: folding or shouting every atom changes nothing
Recase(l, F(_)) == [i \in 1..Len(l) |-> IF IsInherit(l[i]) THEN l[i] ELSE [neg |-> l[i].neg, body |-> F(l[i].body)]]
LawCaseInsensitive ==
  LET m == Merged al == AllowedOf(m) IN
  /\ AllowedOf(Recase(m, Fold)) = al
  /\ AllowedOf(Recase(m, Shout)) = al

\* removing adjacent duplicates (normalizeList) does not change the meaning
LawNormalizeNeutral ==
  AllowedOf(Splice(Normalize(MergedLevels), ChecksList(checks))) = Allowed

\* category globs partition the analyzers by category: "S*" never touches SA or ST checks
LawCategoryGlob ==
  \A a \in Analyzers, b \in Analyzers :
     Matches(Pos(Cat(a) \o <<"*">>), b) <=> Cat(a) = Cat(b)

\* printed = problems restricted to the allowed set, plus the always-reported categories
LawPrintedExact ==
  LET al == Allowed fs == FailSet IN
  \A k \in PkgKinds :
     (~Broken /\ Pkg[k].compiles) =>
        LET pr == PrintedOf(k, al, fs) IN
        /\ { p.code : p \in { q \in pr : q.cat = "check" } }
             = { Str(q.code) : q \in { r \in Pkg[k].probs : ~r.ignored /\ r.code \in al } }
        /\ Pkg[k].malformed => Problem("compile", "compile", "error") \in pr

\* exit status: 1 iff a printed (hence non-ignored) problem is in the fail set or is an error category
LawExit ==
  LET al == Allowed fs == FailSet IN
  \A k \in PkgKinds :
     ExitOf(PrintedOf(k, al, fs)) = 1 <=>
        \/ Broken \/ ~Pkg[k].compiles \/ Pkg[k].malformed
        \/ Pkg[k].unmatched \cap al # {}
        \/ \E q \in Pkg[k].probs : ~q.ignored /\ q.code \in al /\ q.code \in fs

\* -fail never changes which problems are printed; -checks/conf never change the fail set
FrameFail ==
  [][ (fail' # fail) => \A k \in PkgKinds :
         { [cat |-> p.cat, code |-> p.code] : p \in Printed(k)' } = { [cat |-> p.cat, code |-> p.code] : p \in Printed(k) } ]_vars
FrameChecks ==
  [][ (fail' = fail) => FailSet' = FailSet ]_vars

\* appending an atom to -checks only changes the checks that the atom matches
FrameAppend ==
  [][ \A at \in CheckAtoms : (checks.set /\ checks' = [set |-> TRUE, list |-> Append(checks.list, at)] /\ ~IsInherit(at)) =>
         \A a \in Analyzers : ~Matches(at, a) => ((a \in Allowed') <=> (a \in Allowed)) ]_vars

-----------------------------------------------------------------------------
(* Case emission for replay *)
Emit ==
  LET al == Allowed fs == FailSet IN
  PrintT("CASE " \o ToJson(
    [ levels  |-> [ i \in 1..NLevels |-> [kind |-> levels[i].kind, list |-> ListStr(levels[i].list)] ],
      checks  |-> [ set |-> checks.set, list |-> ListStr(checks.list) ],
      fail    |-> [ set |-> fail.set, list |-> ListStr(fail.list) ],
      default |-> ListStr(Default),
      loaded  |-> ListStr(Normalize(MergedLevels)),
      merged  |-> ListStr(Merged),
      broken  |-> Broken,
      allowed |-> { Str(a) : a \in al },
      failset |-> { Str(a) : a \in fs },
      exp     |-> [ k \in PkgKinds |->
                     LET pr == PrintedOf(k, al, fs) IN [ printed |-> pr, exit |-> ExitOf(pr), exitsarif |-> ExitSarif(k) ] ] ]))
=============================================================================
