\* -simulate: random histories of length 9 (history kept, no VIEW); every Run step prints its prefix
SPECIFICATION Spec
CONSTANTS
  MaxLen = 9
  RunPatterns <- MCRunPatterns
  EditPkgs <- MCEditPkgs
  TouchPkgs <- MCTouchPkgs
  ConfLevels <- MCConfLevels
  FlagNames <- MCFlagNames
  EmitRuns = TRUE
  EmitKeys = FALSE
  StaticCheck = FALSE
  KeyMode = "full"

INVARIANTS TypeOK Transparent HitOnlyIfSameInputs CacheKeyFunctional
CHECK_DEADLOCK FALSE
