------------------------------- MODULE IRBuild -------------------------------
(***************************************************************************)
(* go/ir: parallel, repeated and on-demand building with shared functions. *)
(*                                                                         *)
(* Code modelled (one action per critical section):                        *)
(*   builder.go    Program.Build / Package.Build (sync.Once) / Package.build*)
(*                 builder.iterate, buildFunction, shared, enqueue,        *)
(*                 waitForSharedFunction                                   *)
(*   task.go       addEdge, markDone, wait (BFS), transitive flag          *)
(*   methods.go    Program.MethodValue (methodSets under methodsMu),       *)
(*                 Program.objectMethod (objectMethods under objectMethodsMu)*)
(*   instantiate.go Function.instance (generic.instances under instancesMu) *)
(*   func.go       Function.done (build = nil)                             *)
(*                                                                         *)
(* A *builder* is one `builder` value: the one of Package.build (at most   *)
(* one per package, guarded by buildOnce) or the local one of a            *)
(* Program.MethodValue call ("on-demand" builder).  Every builder owns at  *)
(* most one task (builder.buildshared, created lazily by shared()).  A     *)
(* *shared function* is an entry of one of the three mutex-protected memo  *)
(* tables; the three tables are one table here, keyed by Shared.           *)
(*                                                                         *)
(* What a builder looks up, and when, is the *program*; this module leaves *)
(* it open (Create/Hit take the function as a parameter).  MCIRBuild fixes *)
(* it by enumerating reference relations, IRBuildTrace takes it from the   *)
(* log of a real build.                                                    *)
(*                                                                         *)
(* Deliberate deviations from the code (all enlarge the set of behaviours):*)
(*  D1 the BFS work list of task.wait is a set (any visiting order; the    *)
(*     code visits in FIFO order with map-iteration order among edges);    *)
(*  D2 with RelaxedReads the two unsynchronised reads of task.transitive   *)
(*     (addEdge, wait) may return either value once the flag is set: the   *)
(*     log records the store and the loads in an order that is only        *)
(*     known up to this choice;                                            *)
(*  D3 package-level functions (Package.created), thunks and bound-method  *)
(*     closures are private to their builder and are not tracked           *)
(*     individually: lookups made while building them are lookups made     *)
(*     with cur[b] = 0.                                                    *)
(***************************************************************************)
EXTENDS Integers, Sequences, FiniteSets, TLC

CONSTANTS Builders,      \* set of positive integers
          PkgBuilders,   \* subset of Builders: Package.build builders; the others are on-demand (MethodValue)
          Shared,        \* set of positive integers: identities of shared functions (memo keys)
          Callers,       \* goroutines that call Package.Build (Program.Build spawns one per package)
          RelaxedReads   \* BOOLEAN, see D2

VARIABLES
  memo,     \* [Shared -> Builders \cup {0}]  creator; 0 = absent.     (guarded by the table's mutex)
  built,    \* [Shared -> BOOLEAN]             fn.build = nil
  queue,    \* [Builders -> Seq(Shared)]       shared functions in b.fns, in creation order
  fin,      \* [Builders -> Nat]               how many of them are built (b.finished, shared part)
  cur,      \* [Builders -> Shared \cup {0}]   shared function being built right now; 0 = private code
  hasTask,  \* [Builders -> BOOLEAN]           b.buildshared # nil
  done,     \* [Builders -> BOOLEAN]           task.done closed
  edges,    \* [Builders -> SUBSET Builders]   task.edges
  trans,    \* [Builders -> BOOLEAN]           task.transitive
  pc,       \* [Builders -> {"idle","build","wait","returned"}]
  todo,     \* [Builders -> SUBSET Builders]   wait(): enqueued, not yet visited
  seen,     \* [Builders -> SUBSET Builders]   wait(): enqueued
  looked,   \* [Builders -> SUBSET Shared]     history: everything b created or looked up
  uses,     \* [Shared -> SUBSET Shared]       history: looked up while building f
  once,     \* [PkgBuilders -> {"fresh","running","done"}]   Package.buildOnce
  cstat     \* [Callers -> [PkgBuilders -> {"idle","in","ret"}]]

coreVars == <<memo, built, queue, fin, cur, hasTask, done, edges, trans, todo, seen, looked, uses>>
vars == <<memo, built, queue, fin, cur, hasTask, done, edges, trans, pc, todo, seen, looked, uses, once, cstat>>

TypeOK ==
  /\ memo \in [Shared -> Builders \cup {0}]
  /\ built \in [Shared -> BOOLEAN]
  /\ \A b \in Builders : /\ \A i \in 1..Len(queue[b]) : queue[b][i] \in Shared
                         /\ fin[b] \in 0..Len(queue[b])
                         /\ cur[b] \in Shared \cup {0}
                         /\ edges[b] \subseteq Builders /\ todo[b] \subseteq Builders /\ seen[b] \subseteq Builders
                         /\ looked[b] \subseteq Shared
                         /\ pc[b] \in {"idle", "build", "wait", "returned"}
  /\ hasTask \in [Builders -> BOOLEAN] /\ done \in [Builders -> BOOLEAN] /\ trans \in [Builders -> BOOLEAN]
  /\ \A f \in Shared : uses[f] \subseteq Shared
  /\ once \in [PkgBuilders -> {"fresh", "running", "done"}]
  /\ cstat \in [Callers -> [PkgBuilders -> {"idle", "in", "ret"}]]

Init ==
  /\ memo = [f \in Shared |-> 0]
  /\ built = [f \in Shared |-> FALSE]
  /\ queue = [b \in Builders |-> <<>>]
  /\ fin = [b \in Builders |-> 0]
  /\ cur = [b \in Builders |-> 0]
  /\ hasTask = [b \in Builders |-> FALSE]
  /\ done = [b \in Builders |-> FALSE]
  /\ edges = [b \in Builders |-> {}]
  /\ trans = [b \in Builders |-> FALSE]
  /\ pc = [b \in Builders |-> "idle"]
  /\ todo = [b \in Builders |-> {}]
  /\ seen = [b \in Builders |-> {}]
  /\ looked = [b \in Builders |-> {}]
  /\ uses = [f \in Shared |-> {}]
  /\ once = [p \in PkgBuilders |-> "fresh"]
  /\ cstat = [k \in Callers |-> [p \in PkgBuilders |-> "idle"]]

-----------------------------------------------------------------------------
(* builder.go: `b := builder{fns: p.created}` / methods.go: `var b builder` *)
Start(b) ==
  /\ pc[b] = "idle"
  /\ pc' = [pc EXCEPT ![b] = "build"]
  /\ UNCHANGED <<coreVars, once, cstat>>

Note(b, f) ==
  /\ looked' = [looked EXCEPT ![b] = @ \cup {f}]
  /\ uses' = IF cur[b] = 0 THEN uses ELSE [uses EXCEPT ![cur[b]] = @ \cup {f}]

(* memo miss, under the table's mutex:                                      *)
(*   fn = create...(); fn.buildshared = b.shared(); b.enqueue(fn); table[key] = fn *)
Create(b, f) ==
  /\ pc[b] = "build"
  /\ memo[f] = 0
  /\ memo' = [memo EXCEPT ![f] = b]
  /\ queue' = [queue EXCEPT ![b] = Append(@, f)]
  /\ hasTask' = [hasTask EXCEPT ![b] = TRUE]
  /\ Note(b, f)
  /\ UNCHANGED <<built, fin, cur, done, edges, trans, pc, todo, seen, once, cstat>>

(* task.addEdge(y): `if x == y || y.isTransitivelyDone() { return }` else x.edges[y] = {} *)
(* e = 0: no edge added; e = c: edge to the creator's task                  *)
EdgeRule(b, c, e) ==
  IF c = b THEN e = 0
  ELSE IF trans[c] THEN (IF RelaxedReads THEN e \in {0, c} ELSE e = 0)
  ELSE e = c

(* memo hit, under the table's mutex: b.waitForSharedFunction(fn) = b.shared().addEdge(fn.buildshared) *)
HitCore(b, f, e) ==
  /\ pc[b] = "build"
  /\ memo[f] # 0
  /\ hasTask' = [hasTask EXCEPT ![b] = TRUE]
  /\ edges' = IF e = 0 THEN edges ELSE [edges EXCEPT ![b] = @ \cup {e}]
  /\ Note(b, f)
  /\ UNCHANGED <<memo, built, queue, fin, cur, done, trans, pc, todo, seen, once, cstat>>

Hit(b, f, e) == memo[f] # 0 /\ EdgeRule(b, memo[f], e) /\ HitCore(b, f, e)

(* Reference(b,f) = Create | Hit(+AddEdge): one critical section of a memo table *)
Reference(b, f) == Create(b, f) \/ \E e \in Builders \cup {0} : Hit(b, f, e)

(* builder.iterate: fn := b.fns[b.finished]; buildFunction(fn): fn.build(b, fn) starts *)
BeginFn(b) ==
  /\ pc[b] = "build" /\ cur[b] = 0 /\ fin[b] < Len(queue[b])
  /\ cur' = [cur EXCEPT ![b] = queue[b][fin[b] + 1]]
  /\ UNCHANGED <<memo, built, queue, fin, hasTask, done, edges, trans, pc, todo, seen, looked, uses, once, cstat>>

(* fn.done(): fn.build = nil; b.finished++ *)
FinishFn(b) ==
  /\ pc[b] = "build" /\ cur[b] # 0
  /\ built' = [built EXCEPT ![cur[b]] = TRUE]
  /\ fin' = [fin EXCEPT ![b] = @ + 1]
  /\ cur' = [cur EXCEPT ![b] = 0]
  /\ UNCHANGED <<memo, queue, hasTask, done, edges, trans, pc, todo, seen, looked, uses, once, cstat>>

IterDone(b) == pc[b] = "build" /\ cur[b] = 0 /\ fin[b] = Len(queue[b])

Returned(b) ==
  /\ pc' = [pc EXCEPT ![b] = "returned"]
  /\ once' = IF b \in PkgBuilders THEN [once EXCEPT ![b] = "done"] ELSE once

(* end of iterate: b.buildshared.markDone(); then b.buildshared.wait() starts with work = {x} *)
MarkDone(b) ==
  /\ IterDone(b) /\ hasTask[b]
  /\ done' = [done EXCEPT ![b] = TRUE]
  /\ pc' = [pc EXCEPT ![b] = "wait"]
  /\ todo' = [todo EXCEPT ![b] = {b}]
  /\ seen' = [seen EXCEPT ![b] = {b}]
  /\ UNCHANGED <<memo, built, queue, fin, cur, hasTask, edges, trans, looked, uses, once, cstat>>

(* nil task: markDone and wait are no-ops *)
ReturnNoTask(b) ==
  /\ IterDone(b) /\ ~hasTask[b]
  /\ Returned(b)
  /\ UNCHANGED <<coreVars, cstat>>

(* wait(): `if u.isTransitivelyDone() { work[i] = nil; continue }` *)
WaitSkip(b, u) ==
  /\ pc[b] = "wait" /\ u \in todo[b] /\ trans[u]
  /\ todo' = [todo EXCEPT ![b] = @ \ {u}]
  /\ UNCHANGED <<memo, built, queue, fin, cur, hasTask, done, edges, trans, pc, seen, looked, uses, once, cstat>>

(* wait(): `<-u.done; for v := range u.edges { enqueue v once }` *)
WaitVisit(b, u) ==
  /\ pc[b] = "wait" /\ u \in todo[b] /\ done[u]
  /\ RelaxedReads \/ ~trans[u]
  /\ todo' = [todo EXCEPT ![b] = (@ \ {u}) \cup (edges[u] \ seen[b])]
  /\ seen' = [seen EXCEPT ![b] = @ \cup edges[u]]
  /\ UNCHANGED <<memo, built, queue, fin, cur, hasTask, done, edges, trans, pc, looked, uses, once, cstat>>

(* wait(): work exhausted; x.transitive.Store(true); iterate returns *)
WaitReturn(b) ==
  /\ pc[b] = "wait" /\ todo[b] = {}
  /\ trans' = [trans EXCEPT ![b] = TRUE]
  /\ Returned(b)
  /\ UNCHANGED <<memo, built, queue, fin, cur, hasTask, done, edges, todo, seen, looked, uses, cstat>>

-----------------------------------------------------------------------------
(* Package.Build = p.buildOnce.Do(p.build): the first caller runs build, later *)
(* and concurrent callers block until it has returned and then return.       *)
FirstBuild(k, p) ==
  /\ cstat[k][p] = "idle" /\ once[p] = "fresh"
  /\ cstat' = [cstat EXCEPT ![k][p] = "in"]
  /\ once' = [once EXCEPT ![p] = "running"]
  /\ pc[p] = "idle"
  /\ pc' = [pc EXCEPT ![p] = "build"]
  /\ UNCHANGED coreVars

BuildAgain(k, p) ==
  /\ cstat[k][p] = "idle" /\ once[p] # "fresh"
  /\ cstat' = [cstat EXCEPT ![k][p] = "in"]
  /\ UNCHANGED <<coreVars, pc, once>>

ReturnBuild(k, p) ==
  /\ cstat[k][p] = "in" /\ once[p] = "done"
  /\ cstat' = [cstat EXCEPT ![k][p] = "ret"]
  /\ UNCHANGED <<coreVars, pc, once>>

StartOnDemand(b) == b \notin PkgBuilders /\ Start(b)

(* protocol steps of a builder that do not depend on the program *)
Protocol(b) ==
  \/ BeginFn(b) \/ FinishFn(b) \/ MarkDone(b) \/ ReturnNoTask(b) \/ WaitReturn(b)
  \/ \E u \in Builders : WaitSkip(b, u) \/ WaitVisit(b, u)

CallerStep == \E k \in Callers, p \in PkgBuilders : FirstBuild(k, p) \/ BuildAgain(k, p) \/ ReturnBuild(k, p)

Finished ==
  /\ \A b \in Builders : pc[b] = "returned"
  /\ \A k \in Callers, p \in PkgBuilders : cstat[k][p] = "ret"

-----------------------------------------------------------------------------
(* properties *)

RECURSIVE Reach(_, _)
Reach(S, n) == IF n = 0 THEN S
               ELSE LET T == S \cup UNION {uses[f] : f \in S} IN IF T = S THEN S ELSE Reach(T, n - 1)
Needs(b) == Reach(looked[b], Cardinality(Shared))

(* a function is created exactly once: the creator never changes, and every  *)
(* created function sits in exactly one queue, once                          *)
CreatedOnceStep == [][\A f \in Shared : memo[f] # 0 => memo'[f] = memo[f]]_vars
CreatedOnce ==
  \A f \in Shared :
    /\ memo[f] # 0 => Cardinality({i \in 1..Len(queue[memo[f]]) : queue[memo[f]][i] = f}) = 1
    /\ \A b \in Builders : b # memo[f] => \A i \in 1..Len(queue[b]) : queue[b][i] # f

(* when iterate returns (Package.build / MethodValue return), everything the *)
(* builder created or looked up, transitively, is built                      *)
BuiltAtReturnOf(b) == pc[b] = "returned" => \A f \in Needs(b) : built[f]
BuiltAtReturn == \A b \in Builders : BuiltAtReturnOf(b)

(* a caller of Package.Build returns only after the package's builder has    *)
CallerSeesBuilt == \A k \in Callers, p \in PkgBuilders : cstat[k][p] = "ret" => pc[p] = "returned"

(* task.addEdge: "All calls to x.addEdge(...) should happen before x.markDone()" *)
NoEdgeAfterDone == [][\A b \in Builders : done[b] => edges'[b] = edges[b]]_vars

(* Build called again (or concurrently) has no effect on the program         *)
Idempotent ==
  [][/\ \A k \in Callers, p \in PkgBuilders :
          (cstat[k][p] = "idle" /\ cstat'[k][p] = "in" /\ once[p] # "fresh") => UNCHANGED <<coreVars, pc, once>>
     /\ \A b \in Builders : (pc'[b] = "build" /\ pc[b] # "build") => pc[b] = "idle"
     /\ \A f \in Shared : built[f] => built'[f]]_vars

=============================================================================
