------------------------------- MODULE DomGen -------------------------------
(***************************************************************************)
(* Graph generator for C14 and design-level checks.                        *)
(*                                                                         *)
(* Enumerates, exactly once per isomorphism class, every rooted digraph    *)
(* with ordered successor lists in which all nodes are reachable: nodes    *)
(* are numbered in breadth-first discovery order from the entry (and then  *)
(* from an optional second root, the recover node), so a successor is an   *)
(* already numbered node or the next fresh number (restricted growth).     *)
(* One action fixes the successor list of the next node.  A state with     *)
(* every discovered node processed is a complete graph; it is emitted as   *)
(* a CASE line (to be realised as Go source with labels/goto/switch and    *)
(* built by the real go/ir builder) and the invariants below are           *)
(* evaluated on it.                                                        *)
(***************************************************************************)
EXTENDS DomLT, Json

CONSTANTS
  MaxNodes,     \* bound on the nodes of the entry region
  Degs,         \* allowed out-degrees (0 = return, 1 = goto, 2 = if, >2 = switch)
  MaxSwitch,    \* at most this many nodes with out-degree > 2
  RecDegs,      \* out-degrees allowed for the recover node ({} = no second root; {0} = what Go source can produce)
  MaxRecNodes,  \* bound on the nodes only reachable from the recover node (incl. itself)
  RecMax,       \* a second root is only added to entry regions with <= RecMax nodes
  EmitCases,    \* BOOLEAN: print realisable complete graphs as CASE lines
  DesignMax     \* the design-level invariants are evaluated on complete graphs with <= DesignMax nodes

VARIABLES succs,  \* successor lists of the processed nodes 1..Len(succs)
          m,      \* number of discovered nodes
          rec,    \* 0 or the recover node
          nsw     \* switch nodes used so far
vars == <<succs, m, rec, nsw>>

\* all successor lists of length d over discovered nodes 1..mm with restricted growth up to `lim`,
\* never targeting `no`; result: set of <<list, new m>>
RECURSIVE RG(_, _, _, _)
RG(d, mm, lim, no) ==
  IF d = 0 THEN { << <<>>, mm >> }
  ELSE UNION { { <<Append(p[1], t), p[2]>> : t \in (1..p[2]) \ {no} } \cup
               ( IF p[2] < lim THEN { <<Append(p[1], p[2] + 1), p[2] + 1>> } ELSE {} )
               : p \in RG(d - 1, mm, lim, no) }

Complete == Len(succs) = m

Init == succs = <<>> /\ m = 1 /\ rec = 0 /\ nsw = 0

Process ==
  /\ ~Complete
  /\ LET k   == Len(succs) + 1
         lim == IF rec = 0 THEN MaxNodes ELSE rec + MaxRecNodes - 1
         ds  == IF k = rec THEN RecDegs ELSE Degs
     IN \E d \in ds :
          /\ d > 2 => nsw < MaxSwitch
          /\ \E p \in RG(d, m, lim, rec) :
               /\ succs' = Append(succs, p[1])
               /\ m' = p[2]
               /\ nsw' = IF d > 2 THEN nsw + 1 ELSE nsw
  /\ UNCHANGED rec

\* the entry region is complete: add the second root (it has no predecessors)
AddRecover ==
  /\ Complete /\ rec = 0 /\ RecDegs # {} /\ m <= RecMax
  /\ rec' = m + 1 /\ m' = m + 1
  /\ UNCHANGED <<succs, nsw>>

Next == Process \/ AddRecover
Spec == Init /\ [][Next]_vars

G == [ n |-> m, succs |-> succs, recover |-> rec ]

\* what the Go builder can be made to produce: the recover block is a lone return
Realisable == rec = 0 \/ (succs[rec] = <<>> /\ m = rec)

-----------------------------------------------------------------------------
\* the oracle is self-consistent on every enumerated graph
Design == Complete /\ m <= DesignMax
DefinitionOK ==
  Design   => /\ AllReachable(G)
              /\ RelMatchesDef(G)
              /\ IsForestOrder(G)
              /\ KildallAgrees(G)

\* buildDomTree as coded does not dereference nil when the recover root has no edge into the
\* entry region, and then its answers satisfy every law of C14
RecoverIsolated == rec = 0 \/ SuccSet(G, rec) \cap EntryRegion(G) = {}
LTCorrect ==
  (Design /\ RecoverIsolated) =>
     LET A == LTAnswers(G) IN ~A.crash /\ AllBad(A) = {}

\* the laws reject wrong answers (vacuity guard): moving one block under another parent, or
\* swapping two positions of the preorder, must produce a witness
LawsDiscriminate ==
  (Design /\ RecoverIsolated /\ m >= 3) =>
     LET A == LTAnswers(G)
         B == [A EXCEPT !.preorder = [ k \in 1..m |-> IF k = 2 THEN A.preorder[3] ELSE IF k = 3 THEN A.preorder[2] ELSE A.preorder[k] ]]
         C == [A EXCEPT !.idom = [ b \in 1..m |-> IF b = A.preorder[3] THEN (IF A.idom[b] = A.preorder[2] THEN A.preorder[1] ELSE A.preorder[2]) ELSE A.idom[b] ]]
     IN  /\ (BadPreorder(B, PathDomRel(G)) # {} \/ A.idom[A.preorder[2]] = A.idom[A.preorder[3]])
         /\ ~IdomExact(C)

Emit ==
  (EmitCases /\ Complete /\ Realisable /\ nsw >= MaxSwitch) =>
     PrintT("CASE " \o ToJson([ n |-> m, succs |-> succs, recover |-> rec ]))

\* focused emission (simulation configs): only the complete graphs on which step 4 of the dominator computation has
\* a chain of deferred vertices to resolve (DomLT!LTDeferralChains)
EmitChains ==
  (EmitCases /\ Complete /\ Realisable) =>
     LET GG == [ n |-> m, succs |-> succs, recover |-> rec ] IN
     (LTDeferralChains(GG) # {}) => PrintT("CASE " \o ToJson([ n |-> m, succs |-> succs, recover |-> rec ]))
=============================================================================
