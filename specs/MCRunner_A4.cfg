\* exhaustive: every package DAG on family A4 (safety + deadlock)
SPECIFICATION Spec
CONSTANTS
  GraphAt <- MCGraphAt
  NGraphs <- MCNGraphs
  Family = "A4"
  InlineAnytime = FALSE
  SemGuard = TRUE
  TrackResults = TRUE
INVARIANTS TypeOK ExecAfterDeps ExactlyOnce SemBound NoSpuriousFailure FailurePropagates
  ResultIsFunctionOfGraph NoSendOnClosed SendNeverBlocks InlineUnderPackageToken
CHECK_DEADLOCK TRUE
