------------------------------ MODULE MCUnused ------------------------------
(* Model-checking constants for Unused.tla (a .cfg cannot hold sequences). *)
EXTENDS Unused

MCAllKinds == AllKinds
MCAllRels  == AllRels
MCAllKindSet == SeqSet(AllKinds)
\* big graphs: only holders and members may be exported (exported types/values are trivially used)
MCExBig == {"func", "methv", "methp", "field"}

\* focus vocabularies for the exhaustive generation configs
MCKindsImpl == <<"func", "struct", "named", "iface", "methv", "methp", "embed">>
MCRelsImpl  == <<"call", "conv", "assign", "mval", "psel">>
MCKindsFld  == <<"func", "struct", "alias", "field", "embed">>
MCRelsFld   == <<"read", "write", "conv", "sconv", "lit", "psel">>
MCKindsVal  == <<"func", "named", "alias", "var", "const", "cgm", "tparam">>
MCRelsVal   == <<"call", "read", "write", "conv", "inst", "retfn">>

MCKindsConv == <<"func", "struct", "field">>
MCRelsConv  == <<"read", "write", "sconv", "lit">>

\* embedding family (rule 6.5 and the cycle cuts of its walk): one exported root function, up to
\* three unexported structs, at most one int field each (exported or not) and ANY embedding relation
\* between the structs, including self-embedding and cycles (`type e struct{ *x; F int }`,
\* `type x struct{ *e }`, `type y struct{ *x }`); the root may convert to one of the structs
MCKindsEmbed == <<"func", "struct", "field", "embed">>
MCRelsEmbed  == <<"conv">>
MCCandEmbed(OO, o) ==
  /\ o.k = "func" => Len(OO) = 0
  /\ o.k = "struct" => ~o.ex /\ Cardinality({ i \in 1..Len(OO) : OO[i].k = "struct" }) < 3
  /\ o.k = "field" => o.ty = 0 /\ o.sl = 1

O(k, ex, ow, sl, ty) == [k |-> k, ex |-> ex, ow |-> ow, sl |-> sl, ty |-> ty]
R(r, a, b, c) == [r |-> r, a |-> a, b |-> b, c |-> c]

\* hand-written seed graphs for the construction machine
\* S1: 6 declarations: struct t1 (field fa, embedded *t2), named t2 with method ma,
\*     interface i3 {ma}, exported func F5 assigning t1 to i3, unexported func f6
SeedImpl ==
  [ objs  |-> << O("struct", FALSE, 0, 0, 0), O("named", FALSE, 0, 0, 0), O("iface", FALSE, 0, 1, 0),
                 O("func", TRUE, 0, 0, 0), O("func", FALSE, 0, 0, 0), O("methv", FALSE, 2, 1, 0),
                 O("field", FALSE, 1, 1, 0), O("embed", FALSE, 1, 0, 2) >>,
    edges |-> << R("call", 4, 5, 0), R("assign", 4, 1, 3) >> ]
\* S2: const group, write-only var, alias, generic func
SeedVal ==
  [ objs  |-> << O("named", FALSE, 0, 0, 0), O("alias", FALSE, 0, 0, 1), O("func", TRUE, 0, 0, 0),
                 O("func", FALSE, 0, 0, 0), O("var", FALSE, 0, 0, 2), O("cgm", FALSE, 0, 0, 0),
                 O("cgm", FALSE, 0, 0, 0), O("tparam", FALSE, 4, 0, 0) >>,
    edges |-> << R("read", 3, 7, 0), R("write", 3, 5, 0), R("inst", 3, 4, 0) >> ]
\* S3: struct conversion between twins, one field read elsewhere
SeedConv ==
  [ objs  |-> << O("struct", FALSE, 0, 0, 0), O("struct", FALSE, 0, 0, 0), O("func", TRUE, 0, 0, 0),
                 O("func", TRUE, 0, 0, 0), O("field", FALSE, 1, 1, 0), O("field", FALSE, 2, 1, 0) >>,
    edges |-> << R("read", 4, 6, 0), R("sconv", 3, 1, 2) >> ]

\* S1 without the unexported func: 5 declarations
SeedImpl5 ==
  [ objs  |-> << O("struct", FALSE, 0, 0, 0), O("named", FALSE, 0, 0, 0), O("iface", FALSE, 0, 1, 0),
                 O("func", TRUE, 0, 0, 0), O("methv", FALSE, 2, 1, 0),
                 O("field", FALSE, 1, 1, 0), O("embed", FALSE, 1, 0, 2) >>,
    edges |-> << R("assign", 4, 1, 3), R("write", 4, 6, 0) >> ]
\* S2 without the unexported generic func: 5 declarations
SeedVal5 ==
  [ objs  |-> << O("named", FALSE, 0, 0, 0), O("alias", FALSE, 0, 0, 1), O("func", TRUE, 0, 0, 0),
                 O("var", FALSE, 0, 0, 2), O("cgm", FALSE, 0, 0, 0), O("cgm", FALSE, 0, 0, 0) >>,
    edges |-> << R("read", 3, 6, 0), R("write", 3, 4, 0) >> ]

MCSeedsSmall == {SeedConv}
MCSeedsQuick == {SeedConv, SeedImpl5}
MCSeeds == {SeedImpl, SeedVal5, SeedConv}
=============================================================================
