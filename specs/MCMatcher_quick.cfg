\* quick tier: exhaustive laws + case emission over the quick pattern/tree families
SPECIFICATION SpecGen
CONSTANTS
  Names <- MCNames
  PatSeq <- QuickPats
  TreeSeq <- QuickTrees
  MergeMode = "union"
  NotMode = "frame"
  IdxMode = "name"
  PopMode = "delete"
INVARIANTS StaticWFSound OpEqualsDen VisibleIsSuccessfulPath ConsistentRecall NotLeavesNoBindings AtomicAlternatives Emit
CHECK_DEADLOCK FALSE
