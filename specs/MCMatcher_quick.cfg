\* quick tier: exhaustive laws + case emission over the quick pattern/tree families
SPECIFICATION SpecQuick
CONSTANTS
  Names <- MCNames
  MergeMode = "union"
  NotMode = "frame"
  IdxMode = "name"
  PopMode = "delete"
  NilMode = "commaok"
INVARIANTS StaticWFSound OpEqualsDen VisibleIsSuccessfulPath ConsistentRecall NotLeavesNoBindings AtomicAlternatives Emit
CHECK_DEADLOCK FALSE
