\* configurations replayed through the real staticcheck binary on S1005 / S1024 / SA1019
SPECIFICATION Spec
CONSTANTS
  ModVers <- TieMods
  Tags <- TieTags
  GoFlags <- TieFlags
  Thresholds <- TieThresh
INVARIANTS TypeOK HalfLines Monotone PlainModule GoFlagOverrides TagFixesLanguage NewSemanticsStdlib OldSemanticsStdlib Emit
PROPERTY RaiseNeverLowers
CHECK_DEADLOCK FALSE
