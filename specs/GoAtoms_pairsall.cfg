\* every ordered pair of atoms in every context
SPECIFICATION Spec
CONSTANTS
  SingleContexts = {}
  PairContexts = {"func", "method", "closure", "generic", "init", "pkgvar"}
  CheckObs = FALSE
INVARIANTS WellFormed Emit
CHECK_DEADLOCK FALSE
