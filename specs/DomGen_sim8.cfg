\* simulation (tlc -simulate): random walks of the generator up to 8 nodes, out-degree <= 2, no recover leaf;
\* definition self-check on every complete graph; the LT transcription is not evaluated at this size
SPECIFICATION Spec
CONSTANTS
  MaxNodes = 8
  Degs = {0, 1, 2}
  MaxSwitch = 0
  RecDegs = {0}
  RecMax = 0
  MaxRecNodes = 0
  EmitCases = TRUE
  DesignMax = 0
INVARIANTS DefinitionOK Emit
CHECK_DEADLOCK FALSE
