\* generation (exhaustive, full vocabulary): graphs over MCAllKinds / MCAllRels with <= 3 objects, <= 2 references; brackets of C07; CASE emission
SPECIFICATION Spec
CONSTANTS
  MaxObj = 3
  MaxEdge = 2
  MaxIface = 2
  KindSeq <- MCAllKinds
  RelSeq <- MCAllRels
  Build = FALSE
  SeedGraphs <- MCSeedsSmall
  Eager = FALSE
  ExKinds <- MCAllKindSet
  ThinFrom = 99
  ThinMod = 1
  Seed = 1
  NeedRoot = FALSE
CONSTRAINT Thin
INVARIANTS Brackets BracketsSane Emit
CHECK_DEADLOCK FALSE
