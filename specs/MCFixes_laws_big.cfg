\* exhaustive: every well-formed fix of <= 3 edits over every file of <= 3 lines x <= 4 columns
\* (thorough tier: 3-edit fixes over size <= 7 with all three new-text shapes), all application orders
SPECIFICATION Spec
CONSTANTS
  NaiveRank = FALSE
  MaxLines = 3
  MaxCols = 4
  MaxEdits = 3
  MaxSize2 = 14
  MaxSize3 = 7
  Texts3 = 3
INVARIANTS InitWellFormed PartialCanonical OrderIndependent PendingApplicable Frame
CHECK_DEADLOCK FALSE
