\* one staticcheck.conf (innermost directory), every list of <= 3 atoms over the full alphabet:
\* exhaustive for the evaluation algebra (filterAnalyzerNames) against the default configuration
SPECIFICATION Spec
CONSTANTS
  Analyzers <- MCAnalyzers
  NonDefault <- MCNonDefault
  Atoms <- MCAtomsFull
  CheckAtoms <- NoLevels
  FailAtoms <- NoLevels
  NLevels = 3
  GrowLevels <- InnerLevel
  MaxTotal = 3
  MaxLen = 3
  MaxFail = 0
  AllowBroken = FALSE
  PkgKinds <- MCPkgKinds
  Pkg <- MCPkg
INVARIANTS LawLastWins LawAppendExact LawInheritIdentity LawOverride LawCaseInsensitive LawNormalizeNeutral LawCategoryGlob LawPrintedExact LawExit Emit
PROPERTIES FrameFail FrameChecks FrameAppend
CHECK_DEADLOCK FALSE
