\* self-test: the deviation MergeMode = "drop" must be refuted by OpEqualsDen
SPECIFICATION SpecQuickNoEmit
CONSTANTS
  Names <- MCNames
  MergeMode = "drop"
  NotMode = "frame"
  IdxMode = "name"
  PopMode = "delete"
  NilMode = "commaok"
INVARIANTS StaticWFSound OpEqualsDen VisibleIsSuccessfulPath ConsistentRecall NotLeavesNoBindings AtomicAlternatives
CHECK_DEADLOCK FALSE
