\* exhaustive: every package DAG on family X (safety + deadlock)
SPECIFICATION Spec
CONSTANTS
  GraphAt <- MCGraphAt
  NGraphs <- MCNGraphs
  Family = "X"
  InlineAnytime = FALSE
  SemGuard = TRUE
  TrackResults = TRUE
INVARIANTS TypeOK ExecAfterDeps ExactlyOnce SemBound NoSpuriousFailure FailurePropagates
  ResultIsFunctionOfGraph NoSendOnClosed SendNeverBlocks InlineUnderPackageToken
CHECK_DEADLOCK TRUE
